#!/bin/bash
# tools/verify_seed.sh <ID> <n> [no-run]
# Confirms a seeded change in the scratch worktree /tmp/seed_<ID>/wt:
#  (1) patch applies, (2) the repository's test suite still passes with it, (3) the demonstration fails with it,
#  (4) the demonstration passes without it. With `no-run` the demonstration is a compile-time one (C10): it must BUILD
#  only with the change. Prints one summary line; leaves the worktree clean.
ID=$1; N=$2; MODE=${3:-run}
W=/tmp/seed_$ID/wt; O=/tmp/seed_$ID/out
cd $W || exit 2
git checkout -q -- . && git clean -fdq -e target
dest=$(head -1 $O/demo$N.rs | grep -o '[a-z]*/tests/[A-Za-z0-9_]*\.rs' | head -1)
[ -n "$dest" ] || { echo "$ID/$N: cannot find the demo's destination in its first line"; exit 2; }
pkg=retrofire-core; case $dest in geom/*) pkg=retrofire-geom;; esac
name=$(basename $dest .rs)
extra=""; [ "$MODE" = "no-run" ] && extra="--no-run"
rundemo() { CARGO_NET_OFFLINE=true cargo test --offline -p $pkg --features std --test $name $extra >/tmp/seed_$ID/demo.log 2>&1; echo $?; }
git apply $O/patch$N.diff || { echo "$ID/$N: patch does not apply"; exit 2; }
# the repository's own suite, with the change and WITHOUT the demonstration file
suite=$(CARGO_NET_OFFLINE=true cargo test --workspace --offline 2>&1 | grep -E "^test result" | awk '{p+=$4; f+=$6} END {print p" passed, "f" failed"}')
mkdir -p $(dirname $dest); cp $O/demo$N.rs $dest
patched_rc=$(rundemo)
git checkout -q -- .
clean_rc=$(rundemo)
git checkout -q -- . && git clean -fdq -e target
if [ "$MODE" = "no-run" ]; then
  ok=$([ "$clean_rc" != 0 ] && [ "$patched_rc" = 0 ] && echo CONFIRMED || echo NOT-CONFIRMED)
else
  ok=$([ "$clean_rc" = 0 ] && [ "$patched_rc" != 0 ] && echo CONFIRMED || echo NOT-CONFIRMED)
fi
echo "$ID/$N: $ok  suite with change: $suite; demo rc clean=$clean_rc patched=$patched_rc"
