#!/usr/bin/env python3
"""process_seed.py <ID> [--no-run] [--checks C01,C05] — verifies the two seeded changes in /tmp/seed_<ID>/out against the
scratch worktree, runs the quick (and, if missed, thorough) check(s) against a mutated copy (tools/try_mutant.py) and
files them under /verif/seeded/<ID>/<n>/ (patch.diff, demo.rs, notes.md, meta.json)."""
import subprocess, sys, os, json, re, shutil
pid = sys.argv[1]
mode = 'no-run' if '--no-run' in sys.argv else 'run'
checks = [pid]
offset = 0
only = None
for a in sys.argv:
    if a.startswith('--checks='): checks = a.split('=')[1].split(',')
    if a.startswith('--offset='): offset = int(a.split('=')[1])
    if a.startswith('--only='): only = int(a.split('=')[1])
out = f'/tmp/seed_{pid}/out'
notes = open(out + '/notes.md').read() if os.path.exists(out + '/notes.md') else ''
for n in (1, 2):
    if not os.path.exists(f'{out}/patch{n}.diff'): continue
    if only is not None and n != only: continue
    r = subprocess.run(['/verif/tools/verify_seed.sh', pid, str(n)] + ([mode] if mode == 'no-run' else []), capture_output=True, text=True)
    line = [l for l in r.stdout.splitlines() if l.startswith(pid + '/')][-1:] or ['?']
    print(line[0])
    confirmed = 'CONFIRMED' in line[0] and 'NOT-CONFIRMED' not in line[0]
    det = {}
    for tier in ('quick', 'thorough'):
        r = subprocess.run(['python3', '/verif/tools/try_mutant.py', ','.join(checks), '--patch', f'{out}/patch{n}.diff', tier], capture_output=True, text=True)
        res = {}
        for l in r.stdout.splitlines():
            m = re.match(r'^(C\d+): (\w+)', l)
            if m: res[m.group(1)] = m.group(2)
        sigs = sorted(set(re.findall(r'signature=(\S+)', r.stdout)))
        det[tier] = {'result': res, 'signatures': sigs}
        print(f'   {tier}: {res} {sigs[:4]}')
        if any(v == 'CAUGHT' for v in res.values()): break
    d = f'/verif/seeded/{pid}/{n + offset}'
    os.makedirs(d, exist_ok=True)
    shutil.copy(f'{out}/patch{n}.diff', d + '/patch.diff')
    shutil.copy(f'{out}/demo{n}.rs', d + '/demo.rs')
    open(d + '/notes.md', 'w').write(notes)
    json.dump({
        'property': pid,
        'source': 'fresh sub-agent given only the property text and a scratch worktree of /repo',
        'confirmed_by_me': confirmed,
        'verification': line[0],
        'what_i_ran': [f'tools/verify_seed.sh {pid} {n}' + (' no-run' if mode == 'no-run' else ''), f'tools/try_mutant.py {",".join(checks)} --patch seeded/{pid}/{n + offset}/patch.diff <tier>'],
        'needs_to_manifest': 'see notes.md (section for change %d)' % n,
        'detection': det,
    }, open(d + '/meta.json', 'w'), indent=1)
