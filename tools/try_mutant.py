#!/usr/bin/env python3
"""try_mutant.py <ID[,ID2..]> <repo-relative-file> <old> <new> [tier]
   try_mutant.py <ID[,ID2..]> --patch <patch-file> [tier]
Runs the check(s) against a MUTATED COPY of /repo in /tmp/mutlab (never touches /repo or /verif):
/tmp/mutlab/repo is re-synced from /repo, /tmp/mutlab/verif from /verif (with path deps rewritten), so builds are incremental.
Prints CAUGHT/MISSED per check."""
import subprocess, sys, os
LAB = os.environ.get('MUTLAB', '/tmp/mutlab')
def sh(*a, **k): return subprocess.run(*a, **k)
def sync():
    os.makedirs(LAB, exist_ok=True)
    sh(['rsync','-a','--delete','--exclude','target','--exclude','.git','/repo/', LAB+'/repo/'], check=True)
    sh(['rsync','-a','--delete','--exclude','harness/target','--exclude','harness/target-*','--exclude','work','--exclude','evidence','--exclude','replays','--exclude','.git','--exclude','/harness/Cargo.toml','--exclude','/harness/fpprobe/Cargo.toml', '--exclude', 'harness/fuzz/target',
        '/verif/', LAB+'/verif/'], check=True)
    for rel in ['harness/Cargo.toml', 'harness/fpprobe/Cargo.toml']:
        src = open('/verif/'+rel).read().replace('/repo/', LAB+'/repo/')
        dst = LAB+'/verif/'+rel
        if not os.path.exists(dst) or open(dst).read() != src:
            open(dst,'w').write(src)
ids = sys.argv[1].split(',')
sync()
if sys.argv[2] == '--patch':
    tier = sys.argv[4] if len(sys.argv) > 4 else 'quick'
    r = sh(['patch','-p1','-s','-d',LAB+'/repo','-i',os.path.abspath(sys.argv[3])])
    if r.returncode != 0: print("patch failed"); sys.exit(2)
else:
    f, old, new = sys.argv[2], sys.argv[3], sys.argv[4]
    tier = sys.argv[5] if len(sys.argv) > 5 else 'quick'
    p = os.path.join(LAB, 'repo', f)
    s = open(p).read()
    if s.count(old) != 1:
        print(f"pattern occurs {s.count(old)} times"); sys.exit(2)
    open(p,'w').write(s.replace(old,new))
for i in ids:
    try:
        r = sh(['timeout', '-k', '10', str(1800 if tier == 'quick' else 10800), './check', i, tier], cwd=LAB+'/verif', capture_output=True, text=True)
    except Exception as e:
        print(f'{i}: ERROR {e}'); continue
    out = [l for l in (r.stdout + r.stderr).splitlines() if 'VIOLATION' in l or 'signature=' in l or 'BUILD-FAILED' in l or l.startswith('error')]
    verdict = {0:'MISSED',1:'CAUGHT',124:'HANG',137:'HANG'}.get(r.returncode, f'EXIT{r.returncode}')
    print(f"{i}: {verdict}")
    for l in out[:6]: print("   ", l[:300])
