#!/usr/bin/env python3
"""try_mutant.py <ID[,ID2..]> <repo-relative-file> <old> <new> [tier]
Applies a textual mutation to /repo (must be clean), runs the quick check(s), reverts. Prints CAUGHT/MISSED."""
import subprocess, sys, os
ids, f, old, new = sys.argv[1].split(','), sys.argv[2], sys.argv[3], sys.argv[4]
tier = sys.argv[5] if len(sys.argv) > 5 else 'quick'
p = os.path.join('/repo', f)
st = subprocess.run(['git','-C','/repo','status','--porcelain'],capture_output=True,text=True).stdout.strip()
if st:
    print("repo not clean:", st); sys.exit(2)
s = open(p).read()
if s.count(old) != 1:
    print(f"pattern occurs {s.count(old)} times"); sys.exit(2)
open(p,'w').write(s.replace(old,new))
try:
    for i in ids:
        r = subprocess.run(['./check', i, tier], cwd='/verif', capture_output=True, text=True)
        out = [l for l in (r.stdout + r.stderr).splitlines() if 'VIOLATION' in l or 'signature=' in l or 'BUILD-FAILED' in l or 'error' in l.lower()]
        verdict = {0:'MISSED',1:'CAUGHT'}.get(r.returncode, f'EXIT{r.returncode}')
        print(f"{i}: {verdict}")
        for l in out[:6]: print("   ", l[:300])
finally:
    subprocess.run(['git','-C','/repo','checkout','--','.'])
