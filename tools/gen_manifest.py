#!/usr/bin/env python3
"""Regenerates /verif/MANIFEST.json from the table below (keeps it schema-valid)."""
import json, os, sys
ROOT = os.path.dirname(os.path.dirname(os.path.abspath(__file__)))

# id -> (technique, level text, level note, design section)
CHECKS = {
 "C04": ("exhaustive half/quarter-pixel lattice enumeration against an exact integer edge-function oracle + proptest class-mixture triangles and meshes against f64 signed edge distances",
         "Generated-input search: every ordered vertex triple of the half-pixel lattice on [0,4]^2 (thorough: [0,6]^2 and the quarter-pixel lattice on [0,3]^2) is decided exactly; 150k (6M) generated triangles and 20k (1M) shared-edge meshes are decided against the f64 oracle with the property's 0.001 px band. Establishes the property on everything generated, never absence of violations elsewhere.",
         "Trusted: the f64/integer reference geometry in harness/src/common/geo.rs and c04.rs; domain decisions D-a (band widened beyond 128 px) and D-b (non-negative coordinates).",
         "DESIGN.md §4 C04"),
 "C05": ("proptest class-mixture triangles x depths x attribute types, every fragment compared with the f64 plane / perspective-division oracle",
         "Generated-input search over 120k (5M) triangles with per-vertex reciprocal depths and seven attribute types; every fragment's position, depth and attribute is compared with the f64 plane oracle, NaN/inf forbidden for area > 1e-6 px^2.",
         "Trusted: the f64 oracle; domain decisions D-c (tolerance scaling for slivers), D-e (colour varyings affine by design), rounding floor for constant fields.",
         "DESIGN.md §4 C05"),
}

NOT_YET = {}

def main():
    props = [json.loads(l) for l in open(os.path.join(ROOT, "properties.jsonl"))]
    checks = []
    na = []
    for p in props:
        pid = p["id"]
        if pid in CHECKS:
            tech, text, note, ref = CHECKS[pid]
            checks.append({
                "property_id": pid,
                "quick_cmd": f"./check {pid} quick",
                "thorough_cmd": f"./check {pid} thorough",
                "evidence_file": f"/verif/evidence/{pid}.json",
                "replay_cmd_template": "./check --replay {path}",
                "engine": "rfverif",
                "level_claimed": {"category": "exploration", "text": text, "design_ref": ref},
                "level_note": note,
                "technique": tech,
            })
        else:
            na.append({"property_id": pid, "reason": NOT_YET.get(pid, "check not built yet in this session (work in progress; the design in DESIGN.md §4 applies)")})
    m = {
        "version": 1,
        "setup_cmd": "./check --setup",
        "hooks": {
            "guard": "retrofire_verif",
            "enable": "none needed: every observation point is public API; no source line in /repo uses the guard",
            "baseline_off_cmd": "cd /repo && cargo test --workspace --no-fail-fast --offline",
            "source_commits": [],
            "add_only": True,
        },
        "engines": [
            {"name": "rfverif", "path": "harness", "serves_properties": sorted(CHECKS),
             "kind_free_text": "one Rust binary: proptest TestRunner (seeded from VERIF_SEED, integrated shrinking, replay files) + rayon-parallel exhaustive enumerators, f64/integer reference oracles"},
        ],
        "checks": checks,
        "not_applicable": na,
        "notes": "All commands run from /verif. ./check rebuilds the harness against /repo's working tree (path dependencies). exit 0 = held, 1 = VIOLATION line, 2 = inconclusive (build failure, hang, harness error). Fixed defects are listed in known_findings.json.",
    }
    json.dump(m, open(os.path.join(ROOT, "MANIFEST.json"), "w"), indent=1)
    print("wrote MANIFEST.json with", len(checks), "checks,", len(na), "not_applicable")

main()
