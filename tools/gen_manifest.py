#!/usr/bin/env python3
"""Regenerates /verif/MANIFEST.json from the table below (keeps it schema-valid)."""
import json, os, sys
ROOT = os.path.dirname(os.path.dirname(os.path.abspath(__file__)))

# id -> (technique, level text, level note, design section)
CHECKS = {
 "C01": ("proptest scenes (clip-space and Camera doors, all target kinds) vs an f64 per-pixel reference image: exact clipped polygons with inner/outer plane slack, perspective-correct barycentrics, nearest candidate",
         "Generated-input search: 32k (1.3M) scenes rendered through render()/Batch/Camera into sentinel-filled Framebuf/colour-only targets; every pixel not within 0.02 px of an edge/plane crossing/possible fan edge or a 0.1 % depth tie is asserted (attribute within 0.5 % of range, 1/w within 0.2 %, outside pixels bit-identical).",
         "Trusted: f64 reference in harness/src/rs.rs (clip slack 1e-6*scale, clip-vertex uncertainty eps*scale/w_min added to the band); scalar attributes smuggled through the colour word; D-d relative to the smallest vertex magnitude; colour varyings not asserted (D-e). Mixed-magnitude triangles and 600..1400 px long buffers included. Twin builds: libm, mm.",
         "DESIGN.md §4 C01"),
 "C02": ("proptest view-space triangle soups through the library's own projection/viewport matrices x all Context flags, catch_unwind + sentinel comparison outside the viewport + NaN scan of the depth buffer",
         "Generated-input search over 120k (5M) scenes in the property's numeric domain with adversarial coordinate classes (exactly on near/far/side planes, behind the eye, coincident, sub-pixel, huge); any panic, any write outside the viewport rectangle or target window, any NaN depth is a violation.",
         "Trusted: sentinel buffers and catch_unwind; the domain bounds are the property's own. spans-direct: 100k+150k (3M+4M) screen-space triangles (C04's class mixture, and steep slivers whose tip sits within ulps of a pixel centre so that tri_fill emits spans with end < start) scan-converted and handed to Buf2<u32>, MutSlice2<u32> and Framebuf: no panic, identical pixels, Throughput.i = span length. Twin builds: libm, mm.",
         "DESIGN.md §4 C02"),
 "C03": ("exhaustive 3^9x4^3 coordinate grid + proptest clip-space triangles and batches, f64 oracle in the input triangle's barycentric chart (containment, attribute = linear field, winding, point membership, batch independence)",
         "Generated-input search: 1.26M-triangle exhaustive grid plus 220k (11M) generated triangles/batches; each output vertex, output triangle and ~40 membership points per input are decided against the f64 chart oracle; all-inside returned bit-for-bit, all-outside-one-plane empty, clip(batch) == concatenation bit-for-bit.",
         "Trusted: f64 chart geometry in c03.rs (tolerances 5-10x the measured error); chart clauses skipped for inputs degenerate in R^4 (counted). Also: clip(2^k T) = 2^k clip(T) exactly, clip(clip(T)) satisfies the oracle for T, coincident batch items with different attributes, vertices of very different magnitudes. Twin builds: libm, mm.",
         "DESIGN.md §4 C03"),
 "C04": ("exhaustive half/quarter-pixel lattice enumeration against an exact integer edge-function oracle + proptest class-mixture triangles and meshes against f64 signed edge distances",
         "Generated-input search: every ordered vertex triple of the half-pixel lattice on [0,4]^2 (thorough: [0,6]^2 and the quarter-pixel lattice on [0,3]^2) is decided exactly; 150k (6M) generated triangles and 20k (1M) shared-edge meshes are decided against the f64 oracle with the property's 0.001 px band. Establishes the property on everything generated, never absence of violations elsewhere.",
         "Trusted: the f64/integer reference geometry in harness/src/common/geo.rs and c04.rs; domain decisions D-a (band widened beyond 128 px) and D-b (non-negative coordinates). far-vertex: 1.5k (40k) triangles with two vertices near the origin and the third up to 2^20 px below; the first 64 rows are decided against a band that follows the local coordinate magnitude (66 ulp of the largest |x| reached in those rows, at least 0.001 px) instead of D-a's global one. Twin builds: libm, mm.",
         "DESIGN.md §4 C04"),
 "C05": ("proptest class-mixture triangles x depths x attribute types, every fragment compared with the f64 plane / perspective-division oracle",
         "Generated-input search over 120k (5M) triangles with per-vertex reciprocal depths and seven attribute types; every fragment's position, depth and attribute is compared with the f64 plane oracle, NaN/inf forbidden for area > 1e-6 px^2.",
         "Trusted: the f64 oracle; domain decisions D-c (tolerance scaling for slivers), D-e (colour varyings affine by design), rounding floor for constant fields. Sub-checks exact-slivers (1..5 ulps across, exact geometry, full 0.5 % bound) and scan-iterator (skip/step_by/nth/last agree with next). Twin builds: libm, mm.",
         "DESIGN.md §4 C05"),
 "C06": ("metamorphic/model-based: one scene, 10-14 generated histories (permutation x partition into calls x depth_sort x target x vertex-array sharing) vs the per-pixel arg-max over solo renders, bit-for-bit; depth-disjoint layers: z-buffer vs painter",
         "Generated-input search over 6k (200k) scenes x ~12 histories and 10k (300k) layered scenes. The reference model uses the rasteriser but none of the ordering/depth-test logic; exact ties between different triangles are excluded as the property says.",
         "Trusted: solo renders as fragment source (rasteriser correctness is C04/C05's job); ids decoded by rounding in the harness shader. Layers include camera-facing ones 4e-6..1e-2 apart (relative) at depths up to far/2 with far/near up to 1e5; discarding shaders; scenes out to near = 1e4. Twin builds: libm, mm.",
         "DESIGN.md §4 C06"),
 "C07": ("model-based: per-triangle fragment streams recorded from solo renders are replayed by an interpreter of the configuration (cull mode, depth predicate, write masks, discard, 1..3 calls) and compared bit-for-bit with the real buffers and exactly with ctx.stats; closed solids anchor front/back",
         "Generated-input search over 60k (2M) scene x configuration x call-split cases and 1.5k (60k) rotated solids. Front/back is decided in f64 from view-space geometry, never from the code under test.",
         "Trusted: the configuration interpreter in c07.rs; recorded fragment streams; scenes with numerically ambiguous winding excluded when culling is on (counted). Sub-checks cull-large-screen (screens to 16384^2, sub-pixel triangles) and index-lists (vertex lists of 0..5 entries, index-reusing faces, repeated calls; appending unused vertices changes verts.i only). Twin builds: libm, mm.",
         "DESIGN.md §4 C07"),
 "C08": ("proptest probes vs an f64 pinhole model from the documentation: volume membership near every face, near/far depth bounds, depth monotonicity, viewport matrix, camera rendering of sub-pixel and frustum-covering triangles under all viewport rectangle classes, first-person rigidity/look-at/translate",
         "Generated-input search over 290k (18M) matrix probes, 16k (400k) camera renders and 60k (3M) first-person cases; conditioning-aware tolerances with the measured maxima recorded.",
         "Trusted: f64 pinhole model in c08.rs; probes within 1e-4 relative of a face not asserted; the first-person right axis is read as view x (no roll).",
         "DESIGN.md §4 C08"),
 "C09": ("proptest products of transform constructors vs f64 matrix arithmetic: compose/then, apply/apply_pt, inverse (>= 30 % needing row exchanges), determinant, rotations, 3x3 API",
         "Generated-input search over 260k (20M) products with condition number <= 1e3 and |det| in [1e-3,1e3]; all identities compared with an f64 reference under componentwise error bounds with >= 9x measured margin.",
         "Trusted: f64 reference (Leibniz determinant, Jacobi condition number); D-f domain; apply uses the documented homogeneous-1 form.",
         "DESIGN.md §4 C09"),
 "C10": ("program generation: a fixed enumeration of (ill-typed program, well-typed twin) pairs per misuse class x API entry point plus grammar-generated expression trees hit by one mutation, classified by a type-checker model of the tag discipline; rustc is the system under test (cargo build for twins, cargo check --message-format=json for misuse, per-function error attribution)",
         "Generated-input search over programs: 100 enumerated pairs + 300 (5000) random programs per run; every ill-typed program must draw an error inside its own function (re-compiled alone before being reported), every well-typed one must build.",
         "Trusted: the model type_of() in c10.rs (validated against the unchanged crate: it agrees with rustc on every generated program) and rustc's diagnostics spans.",
         "DESIGN.md §4 C10"),
 "C11": ("model-based stateful testing: exhaustive over all roots <= 4x4 x all sub-rectangles x two nesting levels x a battery of scripts, proptest operation histories (vec(op,0..40) + interpreter), exhaustive direct Slice2/MutSlice2 construction; model = Vec<Vec<u32>> + windows",
         "Generated-input search: 360k (4.6M) exhaustive view/script cases, 30k (1M) histories, 49k (417k) direct constructions; after every write root.data() is compared with the model storage exactly; every out-of-bounds access must panic or return None.",
         "Trusted: the array model in c11.rs; D-h (a panic when constructing a zero-area view is a clean rejection).",
         "DESIGN.md §4 C11"),
 "C12": ("proptest coordinate class mixture + exhaustive special-value batteries and integer+-ulp sweeps over self-describing textures (owned, sliced, nested, strided with poison surroundings) vs an exact floor-mod / clamp oracle",
         "Generated-input search over 13M (1.5G) sampler cases including NaN, infinities, +-2^31 neighbourhoods, negative integers and subnormals; exact oracle (no tolerance); no panic for repeat/clamp on any f32 pair; poison texels detect out-of-region reads.",
         "Trusted: exact oracle in c12.rs; SamplerOnce only called in range (documented unchecked). Also: owned textures with a side of 2^24..2^26 (+1, +2, +3) texels (sub-check huge; found F22), and the whole check again in the libm and mm twin builds.",
         "DESIGN.md §4 C12"),
 "C13": ("proptest round trips (owned and strided views, adversarial pixel bytes) and independent re-encoders (P6/P3, P5/P2, random whitespace/comments), structure-aware mutation of valid files + arbitrary bytes with a semantic oracle; thorough: two libFuzzer campaigns (cargo-fuzz target pnm_decode with the same oracle) and a second build without debug assertions",
         "Generated-input search: 1.44M (12M + 10M libFuzzer execs + 3M in the assertions-off build) inputs; no panic on any byte string, Ok implies len == w*h and header dimensions (checked by the harness's own header parser); bit-exact round trips.",
         "Trusted: the harness's PNM encoders/header parser in c13.rs; zero-width images with nonzero height are asserted as 'no panic' only (Buf2 cannot represent them). Views are sliced with every range spelling (a..b, a.., ..=b, Bound pairs); write_ppm writes into a Vec or a short-writing / interrupted Write.",
         "DESIGN.md §4 C13"),
 "C14": ("proptest well-formed OBJ files from random meshes (10 exact number formats incl. 30..80-digit decimals next to f32 rounding midpoints, 4 index forms, 4 orderings, layout decorations) compared bit-for-bit; structure-aware mutations + token soup + arbitrary bytes with a semantic oracle; thorough: libFuzzer campaign (cargo-fuzz target obj_parse, same oracle) and an assertions-off build",
         "Generated-input search: 220k (6M + 5M libFuzzer execs + 5M assertions-off) inputs; parse_obj/read_obj never panic, Ok implies every face index < vertex count and build() succeeds; well-formed files give exactly the written positions and faces.",
         "Trusted: the OBJ writer in c14.rs; CRLF / trailing whitespace / non-ASCII comment bytes are treated as well-formed (recorded as assumptions).",
         "DESIGN.md §4 C14"),
 "C15": ("exhaustive parameter sweeps of every solid generator (sectors/segments from the minimum to 24 (96), radii, capped/uncapped) + proptest boxes and raw lathes, f64 mesh validity predicates (indices, unit normals, winding, watertightness after merging, Euler characteristic, on-surface)",
         "Generated-input search: 88k (1.4M) meshes, every one checked by the full predicate set in f64, independent of the generators' index arithmetic.",
         "Trusted: predicates in c15.rs; 'outside' = the side (b-a)x(c-a) points to (the crate's culling convention); merge tolerance min(1e-4*scale, 0.2*shortest ideal edge). Sub-check wide-range: sectors up to 1100 and radii over 18 decades (6 for fixed-height solids). Runs again in the libm twin build.",
         "DESIGN.md §4 C15"),
 "C16": ("exhaustive sweeps of all 2^24 8-bit RGB and all 2^24 8-bit HSL colours, float lattices incl. every sextant boundary +- ulps, proptest float colours, all single-byte and strided (thorough: all 2^32) packed words; independent f64 textbook HSL<->RGB reference",
         "Generated-input search: 52.7M (4.4G) cases per run; round trips, range, gray, hue-1==hue-0, no panic (debug assertions live), packing byte orders, clamp-then-truncate, saturating add.",
         "Trusted: f64 reference conversions in c16.rs (written in a different algebraic form from the library's). Runs again in harnesses built against the libm and mm configurations (twin builds).",
         "DESIGN.md §4 C16"),
 "C17": ("proptest Bezier/spline evaluation vs the f64 Bernstein form for six control-point types, exhaustive join lattice (type x segments x join x ulp offset), and approximate() validated by reconstructing the recursion tree from a recording halt closure with an independent bisection interpreter",
         "Generated-input search: 619k (38M) cases; exact end values, bounding box, tangent = derivative, spline = segment cubic and continuity at joins +-3 ulp, approximate: strictly increasing dyadic parameters, every piece met the criterion or sits at the depth bound, terminates.",
         "Trusted: f64 Bernstein reference and the bisection interpreter in c17.rs; 5-10x measured margins. Sub-checks ends-extreme (exact-end clauses for control points up to f32::MAX / +-inf) and start-relative (curves from the origin at t = 1e-30..1e-2, 4e-6 relative to the value); the depth bound found is asserted to be 10 + floor(log2(len)). Twin builds: libm, mm.",
         "DESIGN.md §4 C17"),
 "C18": ("proptest + lattices of angles/intervals/vectors vs f64 reference: unit conversions, wrap range and congruence, operators bit-equal to f32 on radians, polar/spherical round trips, sin_cos",
         "Generated-input search over 2.5M (96M) cases with >= 10x measured margins; wrap results must lie in [lo, hi] and be congruent modulo the interval length (tolerance scales with (|a|+|lo|+|hi|)/width).",
         "Trusted: f64 reference in c18.rs; poles / r = 0 / unresolvable congruence excluded and counted. Conversions asserted up to f32::MAX wherever the converted value is representable; a result equal to hi must be within rounding of it. Twin build: libm.",
         "DESIGN.md §4 C18"),
 "C19": ("exact GF(2) order certificate of the step matrix read off next_bits (T^(2^64-1)=I, T^((2^64-1)/p)!=I for all 7 prime factors) + linearity on generated pairs + independent inverse step; ALL 2^23 mantissas x 96 (2048) float ranges enumerated via states constructed with the inverse step; proptest for i32 ranges, shapes, composite distributions",
         "Generated-input search and exhaustive enumeration: 9.4e8 (1.8e10) evaluations; period claim decided algebraically on observations of the real step function; distributions in range for every mantissa of every listed range.",
         "Trusted: bit-matrix arithmetic and inverse step in c19.rs; linearity is sampled (a failure switches to a counterexample search, never alarms by itself). Edge probabilities / fixed ranges also on ~600 output words structured in all 64 bits; rejection samplers on constructed states with up to 23 (ball: 25) candidates rejected in a row and raw draws next to the inscribed-box corners. Twin build: libm.",
         "DESIGN.md §4 C19"),
 "C20": ("one probe binary per feature configuration {none, libm, mm, std} plus the unified builds libm+mm and std+mm (thorough: also without debug assertions): dense/exhaustive sweeps of every float helper against std f64 references with fixed per-backend bounds, plus per-configuration consequence checks (C04 half-pixel lattice with exact oracle, sampler addressing, wrap, normalize) and a cross-configuration coverage-hash comparison over all six builds",
         "Generated-input search: 1.6e8 (1.8e10: all 2^32 bit patterns for floor/abs in all four builds) evaluations; floor/abs exact for |x| < 2^31, rem_euclid in range and congruent, approximate functions within the committed bound table; sqrt/recip_sqrt over every 4099th (251st) positive bit pattern (subnormals included for libm/std), sin/cos/tan and Angle::sin_cos up to 1e30 (mm: 1e3); asin/acos also on log-spaced arguments down to 1e-45; powf also with zero and negative bases; atan2 at every signed-zero pair.",
         "Trusted: std f64 functions as reference; the bound table in harness/fpprobe/src/main.rs; atan2 compared modulo a turn. Open finding F19 (micromath powf accuracy) is listed in known_findings.json; F13, F20, F23, F24 (found by this check) are fixed.",
         "DESIGN.md §4 C20"),
}

NOT_YET = {}

def main():
    props = [json.loads(l) for l in open(os.path.join(ROOT, "properties.jsonl"))]
    checks = []
    na = []
    for p in props:
        pid = p["id"]
        if pid in CHECKS:
            tech, text, note, ref = CHECKS[pid]
            checks.append({
                "property_id": pid,
                "quick_cmd": f"./check {pid} quick",
                "thorough_cmd": f"./check {pid} thorough",
                "evidence_file": f"/verif/evidence/{pid}.json",
                "replay_cmd_template": "./check --replay {path}",
                "engine": "rfverif",
                "level_claimed": {"category": "exploration", "text": text, "design_ref": ref},
                "level_note": note,
                "technique": tech,
            })
        else:
            na.append({"property_id": pid, "reason": NOT_YET.get(pid, "check not built yet in this session (work in progress; the design in DESIGN.md §4 applies)")})
    m = {
        "version": 1,
        "setup_cmd": "./check --setup",
        "hooks": {
            "guard": "retrofire_verif",
            "enable": "none needed: every observation point is public API; no source line in /repo uses the guard",
            "baseline_off_cmd": "cd /repo && cargo test --workspace --no-fail-fast --offline",
            "source_commits": [],
            "add_only": True,
        },
        "engines": [
            {"name": "rfverif", "path": "harness", "serves_properties": sorted(CHECKS),
             "kind_free_text": "one Rust binary: proptest TestRunner (seeded from VERIF_SEED, integrated shrinking, replay files) + rayon-parallel exhaustive enumerators, f64/integer reference oracles"},
        ],
        "checks": checks,
        "not_applicable": na,
        "notes": "Twin builds: for every property whose check compiles there, the quick-sized check runs again in a harness built against retrofire-core --no-default-features --features libm (C01-C09, C11, C12, C15-C19) and --features mm (C01-C07, C11, C12, C16, C17), as sub-checks twin-build-libm / twin-build-mm of the same command. All commands run from /verif. ./check rebuilds the harness against /repo's working tree (path dependencies). exit 0 = held, 1 = VIOLATION line, 2 = inconclusive (build failure, hang, harness error). Fixed defects are listed in known_findings.json.",
    }
    json.dump(m, open(os.path.join(ROOT, "MANIFEST.json"), "w"), indent=1)
    print("wrote MANIFEST.json with", len(checks), "checks,", len(na), "not_applicable")

main()
