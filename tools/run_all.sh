#!/bin/bash
# tools/run_all.sh [tier] [seed...]  — runs every claimed check and prints one line per check
cd "$(dirname "$0")/.."
tier=${1:-quick}; shift
seeds=${@:-0}
ids=$(python3 -c "import json;print(' '.join(c['property_id'] for c in json.load(open('MANIFEST.json'))['checks']))")
for s in $seeds; do
  for p in $ids; do
    t0=$(date +%s.%N)
    out=$(VERIF_SEED=$s ./check $p $tier 2>&1); rc=$?
    t1=$(date +%s.%N)
    printf "seed=%s %s rc=%s %.1fs %s\n" "$s" "$p" "$rc" "$(echo "$t1 - $t0" | bc)" "$(echo "$out" | grep -E 'VIOLATION|HARNESS|BUILD-FAILED|INCONCL' | head -2 | tr '\n' ' ' | cut -c1-220)"
  done
done
