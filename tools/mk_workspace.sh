#!/bin/bash
# Creates an isolated scratch workspace for developing one check module:
#   /tmp/hb_<ID>/repo      copy of /repo's working tree (no target/, no .git) — free to mutate for sensitivity tests
#   /tmp/hb_<ID>/harness   copy of /verif/harness whose path dependencies point at that copy
# Run the module there with:  cd /tmp/hb_<ID>/harness && cargo build --release 2>&1 | tail -3 && VERIF_SEED=0 ./target/release/rfverif <ID> quick
# (evidence and replays are written under /tmp/hb_<ID>/)
set -e
ID="$1"; [ -n "$ID" ] || { echo "usage: $0 <ID>"; exit 2; }
W=/tmp/hb_$ID
rm -rf "$W"; mkdir -p "$W"
rsync -a --exclude target --exclude .git /repo/ "$W/repo/"
rsync -a --exclude target --exclude 'target-*' /verif/harness/ "$W/harness/"
sed -i "s|/repo/core|$W/repo/core|; s|/repo/geom|$W/repo/geom|" "$W/harness/Cargo.toml"
cp /verif/known_findings.json "$W/" 2>/dev/null || true
mkdir -p "$W/corpus/regress" "$W/evidence" "$W/replays"
echo "workspace ready: $W"
