#!/usr/bin/env python3
"""redetect_seed.py <ID> <n> [checks] — re-runs the quick (then thorough) check against seeded/<ID>/<n>/patch.diff and refreshes meta.json['detection'] (keeping the history of earlier results)."""
import subprocess, sys, json, re
pid, n = sys.argv[1], sys.argv[2]
checks = sys.argv[3] if len(sys.argv) > 3 else pid
d = f'/verif/seeded/{pid}/{n}'
meta = json.load(open(d + '/meta.json'))
hist = meta.setdefault('detection_history', [])
hist.append(meta.get('detection'))
det = {}
for tier in ('quick', 'thorough'):
    r = subprocess.run(['python3', '/verif/tools/try_mutant.py', checks, '--patch', d + '/patch.diff', tier], capture_output=True, text=True)
    res = {m.group(1): m.group(2) for m in re.finditer(r'^(C\d+): (\w+)', r.stdout, re.M)}
    sigs = sorted(set(re.findall(r'signature=(\S+)', r.stdout)))
    det[tier] = {'result': res, 'signatures': sigs}
    print(pid, n, tier, res, sigs[:4])
    if any(v == 'CAUGHT' for v in res.values()): break
meta['detection'] = det
json.dump(meta, open(d + '/meta.json', 'w'), indent=1)
