//! fpprobe — built once per float backend of retrofire-core ({none, libm, mm, std});
//! sweeps the float helper functions that exist in that configuration through the
//! alias the crate itself uses (`retrofire_core::math::float::f32`) and compares
//! them with std f64 references. Prints machine-readable lines:
//!
//!   MAX <function> <worst error> <bound> <unit>
//!   COUNT <class> <n>
//!   FAIL <signature> <function> <input bits...> :: <message>
//!   SAMPLE <text>
//!   HASH <name> <value>
//!
//! usage: fpprobe <quick|thorough> <seed>      |  fpprobe --replay <function> <bits>...

#![allow(unused)]

use re::math::float::f32 as fp;
use std::collections::BTreeMap;

#[cfg(feature = "std")]
const CFG: &str = "std";
#[cfg(all(feature = "libm", not(feature = "std")))]
const CFG: &str = "libm";
#[cfg(all(feature = "mm", not(feature = "std"), not(feature = "libm")))]
const CFG: &str = "mm";
#[cfg(not(any(feature = "std", feature = "libm", feature = "mm")))]
const CFG: &str = "none";

const HAS_FP: bool = cfg!(any(feature = "std", feature = "libm", feature = "mm"));

struct Out {
    evals: u64,
    /// distinct non-trivial inputs: (function, input bits) where the backend's result differs from the
    /// f32-rounded std result, or the input is a negative integer / negative exact multiple
    nontrivial: std::collections::HashSet<u64>,
    max: BTreeMap<String, (f64, f64, &'static str)>,
    count: BTreeMap<String, u64>,
    fails: u64,
    samples: u64,
}

impl Out {
    fn new() -> Out {
        Out { evals: 0, nontrivial: Default::default(), max: BTreeMap::new(), count: BTreeMap::new(), fails: 0, samples: 0 }
    }
    fn count(&mut self, k: &str, n: u64) {
        *self.count.entry(k.to_string()).or_insert(0) += n;
    }
    fn max(&mut self, f: &str, err: f64, bound: f64, unit: &'static str) {
        let e = self.max.entry(f.to_string()).or_insert((0.0, bound, unit));
        if err > e.0 {
            e.0 = err;
        }
    }
    fn fail(&mut self, sig: &str, f: &str, bits: &[u32], msg: String) {
        self.fails += 1;
        // at most 8 lines per (signature, function): a flood from one (possibly known) finding must not hide another
        let n = self.count.entry(format!("fails:{sig}:{f}")).or_insert(0);
        *n += 1;
        if *n <= 8 {
            let b: Vec<String> = bits.iter().map(|b| format!("{b:#010x}")).collect();
            println!("FAIL {sig} {f} {} :: {msg}", b.join(" "));
        }
    }
    fn sample(&mut self, s: String) {
        if self.samples < 12 {
            self.samples += 1;
            println!("SAMPLE {s}");
        }
    }
    fn nt(&mut self, f: &str, bits: &[u32]) {
        let mut h: u64 = 0xcbf29ce484222325;
        for b in f.bytes() {
            h = (h ^ b as u64).wrapping_mul(0x100000001b3);
        }
        for b in bits {
            h = (h ^ *b as u64).wrapping_mul(0x100000001b3);
        }
        self.nontrivial.insert(h);
    }
    fn finish(&self) {
        println!("EVALS {}", self.evals);
        println!("NONTRIVIAL {}", self.nontrivial.len());
        for (k, (e, b, u)) in &self.max {
            println!("MAX {k} {e:e} {b:e} {u}");
        }
        for (k, n) in &self.count {
            println!("COUNT {k} {n}");
        }
        println!("FAILS {}", self.fails);
    }
}

fn splitmix(x: &mut u64) -> u64 {
    *x = x.wrapping_add(0x9E3779B97F4A7C15);
    let mut z = *x;
    z = (z ^ (z >> 30)).wrapping_mul(0xBF58476D1CE4E5B9);
    z = (z ^ (z >> 27)).wrapping_mul(0x94D049BB133111EB);
    z ^ (z >> 31)
}
fn unit(x: &mut u64) -> f64 {
    (splitmix(x) >> 11) as f64 / (1u64 << 53) as f64
}

/// next representable value above (d > 0) / below (d < 0) x
fn nudge(x: f32, d: i32) -> f32 {
    if d == 0 || !x.is_finite() {
        return x;
    }
    let up = d > 0;
    if x == 0.0 {
        return if up { f32::from_bits(1) } else { -f32::from_bits(1) };
    }
    let b = x.to_bits();
    if (x > 0.0) == up {
        f32::from_bits(b + 1)
    } else {
        f32::from_bits(b - 1)
    }
}

fn ulp_of(x: f32) -> f64 {
    let a = x.abs();
    if a == 0.0 || !a.is_finite() {
        return f32::MIN_POSITIVE as f64;
    }
    let b = f32::from_bits(a.to_bits() + 1);
    (b as f64 - a as f64).abs()
}

fn catch<R>(f: impl FnOnce() -> R) -> Result<R, String> {
    std::panic::catch_unwind(std::panic::AssertUnwindSafe(f)).map_err(|e| {
        if let Some(s) = e.downcast_ref::<&str>() {
            s.to_string()
        } else if let Some(s) = e.downcast_ref::<String>() {
            s.clone()
        } else {
            "panic".to_string()
        }
    })
}

// ------------------------------------------------------------------ per-function bounds
//
// "a few ulp for libm; from about 1e-3 for sine, cosine and the square roots up to a few 1e-2 for the
// inverse trigonometric functions of the fast approximations". Calibrated on the unchanged tree as
// ~2x the measured maximum, never above the magnitudes the property states. std is compared with
// itself in f64 (<= 1 ulp).

fn bound(f: &str) -> f64 {
    match (CFG, f) {
        // ulps
        ("std", "sqrt") | ("libm", "sqrt") => 1.0,
        ("std", _) => 4.0,
        ("libm", "powf") | ("libm", "exp") => 4.0,
        ("libm", "recip_sqrt") => 4.0,
        ("libm", _) => 4.0,
        // fast approximations: absolute error for sin/cos/asin/acos/atan2, relative for the others
        ("mm", "sin") | ("mm", "cos") | ("mm", "sin_cos.0") | ("mm", "sin_cos.1") => 2e-3,
        ("mm", "tan") => 2e-2,
        ("mm", "sqrt") => 3e-3,
        ("mm", "recip_sqrt") | ("none", "recip_sqrt") => 4e-3,
        ("mm", "asin") | ("mm", "acos") | ("mm", "atan2") => 5e-2,
        ("mm", "powf") => 5e-2, // the property's "few 1e-2"; micromath's powf misses it (open finding F19), see backstop()
        _ => 0.0,
    }
}

/// Where a backend is known to miss its bound (an open finding), a second, looser bound still applies:
/// twice the magnitude measured when the finding was recorded. Exceeding it is a NEW violation.
fn backstop(f: &str) -> Option<f64> {
    match (CFG, f) {
        ("mm", "powf") => Some(0.9),
        _ => None,
    }
}

/// error of `got` against the f64 reference, in the unit this backend's bound is stated in
fn err(f: &str, got: f32, want: f64) -> (f64, &'static str) {
    let w32 = want as f32;
    if !got.is_finite() || !want.is_finite() {
        return (if (got.is_nan() && want.is_nan()) || (got as f64 == want) || (got == w32) { 0.0 } else { f64::INFINITY }, "non-finite");
    }
    match CFG {
        "std" | "libm" => (((got as f64 - want).abs()) / ulp_of(w32), "ulp"),
        _ => match f {
            "sin" | "cos" | "sin_cos.0" | "sin_cos.1" | "asin" | "acos" | "atan2" => ((got as f64 - want).abs(), "abs"),
            _ => ((got as f64 - want).abs() / want.abs().max(1e-30), "rel"),
        },
    }
}

fn check_approx(o: &mut Out, f: &str, bits: &[u32], got: Result<f32, String>, want: f64) {
    o.evals += 1;
    if let Ok(g) = &got {
        if g.to_bits() != (want as f32).to_bits() {
            o.nt(f, bits);
        }
    }
    // atan2 is compared as an angle: +pi and -pi (either side of the branch cut) are the same direction
    let want = match (&got, f) {
        (Ok(g), "atan2") if (*g as f64 - want).abs() > std::f64::consts::PI => want + std::f64::consts::TAU * (*g as f64 - want).signum(),
        _ => want,
    };
    match got {
        Err(p) => o.fail("panic", f, bits, format!("{f} panicked: {p}")),
        Ok(g) => {
            let (e, unit) = err(f, g, want);
            let b = bound(f);
            o.max(f, if e.is_finite() { e } else { 1e300 }, b, unit);
            if !(e <= b) {
                let args: Vec<String> = bits.iter().map(|b| format!("{:e}", f32::from_bits(*b))).collect();
                let sig = match backstop(f) {
                    Some(bs) if e <= bs => format!("error-above-bound:{CFG}:{f}"),
                    Some(_) => format!("error-above-backstop:{CFG}:{f}"),
                    None => "error-above-bound".to_string(),
                };
                o.fail(&sig, f, bits, format!("{CFG} {f}({}) = {g:e}, std gives {want:e}: error {e:.3e} {unit} > bound {b:e}", args.join(", ")));
            }
        }
    }
}

// ------------------------------------------------------------------ exact functions

/// magnitude below which floor() is asserted exactly (DESIGN D-g); overridable for calibration experiments
fn floor_domain() -> f32 {
    // "the representable range" of each backend: micromath casts through i32, the built-in fallback through i64,
    // libm and std handle every finite value (calibrated on the unchanged tree; DESIGN D-g)
    let default = match CFG {
        "mm" => 2147483648.0,
        "none" => 9.223372e18,
        _ => f32::MAX,
    };
    std::env::var("FPPROBE_FLOOR_DOMAIN").ok().and_then(|s| s.parse().ok()).unwrap_or(default)
}

fn check_floor(o: &mut Out, x: f32) {
    o.evals += 1;
    if x < 0.0 && x == x.trunc() && x.abs() < floor_domain() {
        o.nt("floor", &[x.to_bits()]);
    }
    let r = catch(|| fp::floor(x));
    match r {
        Err(p) => o.fail("panic", "floor", &[x.to_bits()], format!("floor({x:e}) panicked: {p}")),
        Ok(g) => {
            if x.is_finite() && x.abs() < floor_domain() {
                let want = (x as f64).floor();
                if g as f64 != want {
                    o.fail("floor-wrong", "floor", &[x.to_bits()], format!("{CFG} floor({x:e}) = {g:e}, expected {want:e}"));
                }
                if x < 0.0 && x == x.trunc() {
                    o.count("floor:negative-integer", 1);
                }
                o.count("floor:exact-checked", 1);
            } else {
                o.count("floor:outside-representable-range(no-panic-only)", 1);
            }
        }
    }
}

fn check_abs(o: &mut Out, x: f32) {
    o.evals += 1;
    match catch(|| fp::abs(x)) {
        Err(p) => o.fail("panic", "abs", &[x.to_bits()], format!("abs({x:e}) panicked: {p}")),
        Ok(g) => {
            let ok = if x.is_nan() { g.is_nan() } else { g.to_bits() == (x.to_bits() & 0x7fff_ffff) };
            if !ok {
                o.fail("abs-wrong", "abs", &[x.to_bits()], format!("{CFG} abs({x:e}) = {g:e}"));
            }
            o.count("abs:exact-checked", 1);
        }
    }
}

fn check_rem(o: &mut Out, x: f32, m: f32) {
    o.evals += 1;
    if x < 0.0 {
        o.nt("rem_euclid", &[x.to_bits(), m.to_bits()]);
    }
    match catch(|| fp::rem_euclid(x, m)) {
        Err(p) => o.fail("panic", "rem_euclid", &[x.to_bits(), m.to_bits()], format!("rem_euclid({x:e}, {m:e}) panicked: {p}")),
        Ok(r) => {
            let (x6, m6, r6) = (x as f64, m as f64, r as f64);
            if !(r6 >= 0.0 && r6 <= m6) {
                o.fail("rem-out-of-range", "rem_euclid", &[x.to_bits(), m.to_bits()], format!("{CFG} rem_euclid({x:e}, {m:e}) = {r:e} is not in [0, m]"));
                return;
            }
            let q = (x6 - r6) / m6;
            let tol = 1e-4 * (x6.abs() / m6 + 1.0);
            if (q - q.round()).abs() > tol {
                o.fail("rem-not-congruent", "rem_euclid", &[x.to_bits(), m.to_bits()], format!("{CFG} rem_euclid({x:e}, {m:e}) = {r:e}: (x - r)/m = {q} is not an integer"));
            }
            o.max("rem_euclid", (q - q.round()).abs() / tol, 1.0, "of-tolerance");
            if x < 0.0 && (x6 / m6) == (x6 / m6).round() {
                o.count("rem:negative-exact-multiple", 1);
            }
            o.count("rem:checked", 1);
        }
    }
}

fn specials() -> Vec<f32> {
    let mut v = vec![0.0f32, -0.0, 1.0, -1.0, 0.5, -0.5, 1.5, -1.5, 2.0, -2.0, -3.0, 1e-30, -1e-30, f32::MIN_POSITIVE, -f32::MIN_POSITIVE, 1e-45, -1e-45];
    for e in [23, 24, 30, 31, 32, 62, 63, 64, 100] {
        let p = 2f32.powi(e);
        for k in [-1i32, 0, 1] {
            let q = f32::from_bits((p.to_bits() as i32 + k) as u32);
            v.push(q);
            v.push(-q);
        }
    }
    v.extend([f32::MAX, f32::MIN, f32::INFINITY, f32::NEG_INFINITY, f32::NAN]);
    v
}

fn exact_sweeps(o: &mut Out, thorough: bool) {
    for x in specials() {
        check_floor(o, x);
        check_abs(o, x);
    }
    // every integer +-1 ulp in +-2^N
    let n: i32 = if thorough { 1 << 24 } else { 1 << 18 };
    for k in -n..=n {
        let x = k as f32;
        for d in [-1i32, 0, 1] {
            check_floor(o, nudge(x, d));
        }
    }
    // bit patterns: all (thorough) or every 2^8-th with a seed-independent offset
    let step: u64 = if thorough { 1 } else { 256 };
    let mut b: u64 = 0x5b;
    while b <= u32::MAX as u64 {
        let x = f32::from_bits(b as u32);
        check_floor(o, x);
        check_abs(o, x);
        b += step;
    }
    o.count(if thorough { "exact:all-2^32-bit-patterns" } else { "exact:every-256th-bit-pattern" }, 1);
}

fn rem_sweeps(o: &mut Out, thorough: bool, seed: u64) {
    let ms = [1.0f32, 2.5, 4.0, 6.0, 360.0, std::f32::consts::TAU, 1e-3];
    let mut s = seed ^ 0xabcdef;
    let n = if thorough { 4_000_000 } else { 200_000 };
    for &m in &ms {
        for k in -50i32..=50 {
            for d in [-1i32, 0, 1] {
                let x = nudge(k as f32 * m, d);
                check_rem(o, x, m);
            }
        }
        for x in [0.0f32, -0.0, 1e-10, -1e-10, 1e-40, -1e-40] {
            check_rem(o, x, m);
        }
        for _ in 0..n {
            let mag = 10f64.powf(unit(&mut s) * 9.0 - 4.0);
            let x = (mag * if splitmix(&mut s) & 1 == 0 { 1.0 } else { -1.0 }) as f32;
            check_rem(o, x * m, m);
        }
    }
}

// ------------------------------------------------------------------ approximate functions

#[cfg(any(feature = "std", feature = "libm", feature = "mm"))]
fn approx_sweeps(o: &mut Out, thorough: bool, seed: u64) {
    let mut s = seed ^ 0x1234567;
    // sqrt: log-spaced inputs in [1e-30, 1e30]
    let n = if thorough { 1 << 22 } else { 1 << 18 };
    for i in 0..=n {
        let x = 10f64.powf(-30.0 + 60.0 * i as f64 / n as f64) as f32;
        check_approx(o, "sqrt", &[x.to_bits()], catch(|| fp::sqrt(x)), (x as f64).sqrt());
    }
    // ...and the whole positive range by bit pattern (subnormals to f32::MAX)
    let step = if thorough { 251 } else { 4099 };
    let mut b = 1u32;
    while b <= f32::MAX.to_bits() {
        let x = f32::from_bits(b);
        if x >= sqrt_domain_lo() {
            check_approx(o, "sqrt", &[b], catch(|| fp::sqrt(x)), (x as f64).sqrt());
            o.count(if x < f32::MIN_POSITIVE { "sqrt:subnormal input" } else if x > 1e30 { "sqrt:input > 1e30" } else if x < 1e-30 { "sqrt:input < 1e-30" } else { "sqrt:bit-sweep other" }, 1);
        }
        b += step;
    }
    for x in [0.0f32, 1.0, 4.0, 9.0, 16.0, 2.0, 0.25] {
        if CFG != "mm" || x != 0.0 {
            check_approx(o, "sqrt", &[x.to_bits()], catch(|| fp::sqrt(x)), (x as f64).sqrt());
        }
    }
    // sin, cos, tan: dense sweep of [-4 pi, 4 pi] and random to +-100
    let n = if thorough { 8_000_000 } else { 400_000 };
    let four_pi = 4.0 * std::f64::consts::PI;
    for i in 0..=n {
        let x = (-four_pi + 2.0 * four_pi * i as f64 / n as f64) as f32;
        trig(o, x);
    }
    for _ in 0..n / 4 {
        let x = ((unit(&mut s) * 2.0 - 1.0) * 100.0) as f32;
        trig(o, x);
    }
    for k in -8i32..=8 {
        for d in [-1i32, 0, 1] {
            let x = nudge((k as f64 * std::f64::consts::FRAC_PI_2) as f32, d);
            trig(o, x);
        }
    }
    // large arguments (many revolutions), log-uniform up to the backend's documented domain
    let top = trig_domain().log10();
    for _ in 0..n / 8 {
        let m = 10f64.powf(2.0 + unit(&mut s) * (top - 2.0));
        let x = (if unit(&mut s) < 0.5 { -m } else { m }) as f32;
        if (x.abs() as f64) <= trig_domain() {
            trig(o, x);
            sin_cos_pair(o, x);
            o.count("trig:|x| > 100", 1);
        }
    }
    // Angle::sin_cos (what rotations and polar/spherical conversions are built on) against the same bounds
    for i in 0..=n / 8 {
        let x = (-four_pi + 2.0 * four_pi * i as f64 / (n / 8) as f64) as f32;
        sin_cos_pair(o, x);
    }
    for _ in 0..n / 8 {
        let x = ((unit(&mut s) * 2.0 - 1.0) * 100.0) as f32;
        sin_cos_pair(o, x);
    }
    // asin, acos on [-1, 1] including the ends +- ulp (inside)
    let n = if thorough { 4_000_000 } else { 200_000 };
    for i in 0..=n {
        let x = (-1.0 + 2.0 * i as f64 / n as f64) as f32;
        inv_trig(o, x);
    }
    for x in [1.0f32, -1.0, f32::from_bits(1.0f32.to_bits() - 1), -f32::from_bits(1.0f32.to_bits() - 1), 0.0, -0.0, 0.5, -0.5] {
        inv_trig(o, x);
    }
    // tiny arguments of either sign, log-spaced down to the subnormals (asin x = x, acos x = pi/2 there)
    let n = if thorough { 400_000 } else { 20_000 };
    for i in 0..=n {
        let m = 10f64.powf(-45.0 + 42.0 * i as f64 / n as f64) as f32;
        if m > 0.0 {
            inv_trig(o, m);
            inv_trig(o, -m);
            o.count("asin/acos:|x| < 1e-3", 2);
        }
    }
    // atan2 on a polar grid including the axes and (0, 0)
    let (nr, na) = if thorough { (200, 20_000) } else { (40, 4_000) };
    for ir in 0..nr {
        let r = 10f64.powf(-6.0 + 12.0 * ir as f64 / nr as f64);
        for ia in 0..na {
            let a = -std::f64::consts::PI + 2.0 * std::f64::consts::PI * ia as f64 / na as f64;
            let (y, x) = ((r * a.sin()) as f32, (r * a.cos()) as f32);
            check_approx(o, "atan2", &[y.to_bits(), x.to_bits()], catch(|| fp::atan2(y, x)), (y as f64).atan2(x as f64));
        }
    }
    // both arguments zero, every sign combination: the direction is undefined (std answers 0, -0, pi, -pi by sign);
    // asserted: a finite angle of magnitude <= pi, never NaN or a panic
    for (y, x) in [(0.0f32, 0.0f32), (-0.0, 0.0), (0.0, -0.0), (-0.0, -0.0)] {
        o.evals += 1;
        o.count("atan2:both arguments zero", 1);
        match catch(|| fp::atan2(y, x)) {
            Err(p) => o.fail("panic", "atan2", &[y.to_bits(), x.to_bits()], format!("atan2 panicked: {p}")),
            Ok(g) if g.is_finite() && g.abs() <= 3.1415928 => {}
            Ok(g) => o.fail("atan2-origin-not-finite", "atan2", &[y.to_bits(), x.to_bits()], format!("{CFG} atan2({y:e}, {x:e}) = {g:e}: not a finite angle")),
        }
    }
    for (y, x) in [(0.0f32, 1.0f32), (0.0, -1.0), (1.0, 0.0), (-1.0, 0.0), (1.0, 1.0), (-1.0, -1.0), (1e-20, 1.0), (1.0, 1e-20), (-0.0, 1.0), (-0.0, -1.0), (1.0, -0.0), (-1.0, -0.0)] {
        check_approx(o, "atan2", &[y.to_bits(), x.to_bits()], catch(|| fp::atan2(y, x)), (y as f64).atan2(x as f64));
        o.count("atan2:axis-or-origin", 1);
    }
    // powf on a moderate domain
    let n = if thorough { 4_000_000 } else { 200_000 };
    for _ in 0..n {
        let x = 10f64.powf(unit(&mut s) * 6.0 - 3.0) as f32;
        let y = (unit(&mut s) * 6.0 - 3.0) as f32;
        check_approx(o, "powf", &[x.to_bits(), y.to_bits()], catch(|| fp::powf(x, y)), (x as f64).powf(y as f64));
    }
    for (x, y) in [(2.0f32, 2.0f32), (2.0, 0.5), (9.0, -0.5), (1.0, 3.0), (10.0, 0.0), (2.2, 2.2)] {
        check_approx(o, "powf", &[x.to_bits(), y.to_bits()], catch(|| fp::powf(x, y)), (x as f64).powf(y as f64));
    }
    // negative bases with integer exponents (the sign follows the parity of the exponent)
    for _ in 0..n / 20 {
        let x = -(10f64.powf(unit(&mut s) * 4.0 - 2.0) as f32);
        // |y| <= 3 as for positive bases (the domain on which open finding F19's backstop was measured)
        let y = ((unit(&mut s) * 7.0).floor() - 3.0) as f32;
        check_approx(o, "powf", &[x.to_bits(), y.to_bits()], catch(|| fp::powf(x, y)), (x as f64).powf(y as f64));
        o.count("powf:negative base, integer exponent", 1);
    }
    // a zero base (either sign) is in the domain: 0^0 = 1, 0^y = 0 for y > 0, infinite for y < 0
    for x in [0.0f32, -0.0] {
        for y in [0.0f32, -0.0, 1e-3, 0.5, 1.0, 2.0, 2.5, 3.0, 100.0, -1e-3, -0.5, -1.0, -2.0, -2.5] {
            // the sign of a zero or infinite result (std: odd integer powers of -0) is not compared
            let want = (x.abs() as f64).powf(y as f64);
            let got = catch(|| fp::powf(x, y)).map(|g| g.abs());
            check_approx(o, "powf", &[x.to_bits(), y.to_bits()], got, want);
            o.count("powf:zero base", 1);
        }
    }
    // exp where the backend has it
    #[cfg(any(feature = "std", feature = "libm"))]
    {
        let n = if thorough { 4_000_000 } else { 200_000 };
        for i in 0..=n {
            let x = (-20.0 + 40.0 * i as f64 / n as f64) as f32;
            check_approx(o, "exp", &[x.to_bits()], catch(|| fp::exp(x)), (x as f64).exp());
        }
    }
}

#[cfg(any(feature = "std", feature = "libm", feature = "mm"))]
fn trig(o: &mut Out, x: f32) {
    let x6 = x as f64;
    check_approx(o, "sin", &[x.to_bits()], catch(|| fp::sin(x)), x6.sin());
    check_approx(o, "cos", &[x.to_bits()], catch(|| fp::cos(x)), x6.cos());
    // tan away from its poles
    if x6.cos().abs() > 0.1 {
        let want = x6.tan();
        match CFG {
            "mm" => {
                // relative to max(1, |tan|): the approximation is a quotient of the sin/cos approximations
                let got = catch(|| fp::tan(x));
                match got {
                    Err(p) => o.fail("panic", "tan", &[x.to_bits()], p),
                    Ok(g) => {
                        let e = (g as f64 - want).abs() / want.abs().max(1.0);
                        o.max("tan", e, bound("tan"), "rel-to-max(1,|tan|)");
                        if !(e <= bound("tan")) {
                            o.fail("error-above-bound", "tan", &[x.to_bits()], format!("mm tan({x:e}) = {g:e}, std gives {want:e}: error {e:.3e} > {}", bound("tan")));
                        }
                    }
                }
            }
            _ => check_approx(o, "tan", &[x.to_bits()], catch(|| fp::tan(x)), want),
        }
    }
}

/// `Angle::sin_cos` must be as good as the backend's sin and cos (same bounds, reported under their names)
#[cfg(any(feature = "std", feature = "libm", feature = "mm"))]
fn sin_cos_pair(o: &mut Out, x: f32) {
    use re::math::rads;
    let x6 = x as f64;
    match catch(|| rads(x).sin_cos()) {
        Err(p) => o.fail("panic", "sin_cos", &[x.to_bits()], p),
        Ok((sn, cs)) => {
            check_approx(o, "sin_cos.0", &[x.to_bits()], Ok(sn), x6.sin());
            check_approx(o, "sin_cos.1", &[x.to_bits()], Ok(cs), x6.cos());
        }
    }
}

/// largest |x| for which sin/cos/tan are asserted (beyond it only the absence of panics would be; not generated)
fn trig_domain() -> f64 {
    if let Some(v) = std::env::var("FPPROBE_TRIG_DOMAIN").ok().and_then(|s| s.parse().ok()) {
        return v;
    }
    match CFG {
        // micromath reduces the argument in f32: its error grows with |x| (2e-3 is reached near 8e3)
        "mm" => 1e3,
        _ => 1e30,
    }
}

/// smallest positive input for which sqrt / recip_sqrt are asserted
fn sqrt_domain_lo() -> f32 {
    if std::env::var_os("FPPROBE_FULL_SQRT_DOMAIN").is_some() {
        return 0.0;
    }
    match CFG {
        // the bit-trick approximations (micromath's, and the built-in fallback's fast inverse square root) read the
        // exponent field, which a subnormal does not have: their domain is the normal floats (DESIGN D-g)
        "mm" | "none" => f32::MIN_POSITIVE,
        _ => 0.0,
    }
}

#[cfg(any(feature = "std", feature = "libm", feature = "mm"))]
fn inv_trig(o: &mut Out, x: f32) {
    check_approx(o, "asin", &[x.to_bits()], catch(|| fp::asin(x)), (x as f64).asin());
    check_approx(o, "acos", &[x.to_bits()], catch(|| fp::acos(x)), (x as f64).acos());
}

#[cfg(not(any(feature = "std", feature = "libm", feature = "mm")))]
fn approx_sweeps(_o: &mut Out, _thorough: bool, _seed: u64) {}

// recip_sqrt: a free function in every backend but std (where the helper is private: reached through normalize)
#[cfg(not(feature = "std"))]
fn recip_sqrt_sweep(o: &mut Out, thorough: bool) {
    let n = if thorough { 1 << 22 } else { 1 << 18 };
    for i in 0..=n {
        let x = 10f64.powf(-30.0 + 60.0 * i as f64 / n as f64) as f32;
        check_approx(o, "recip_sqrt", &[x.to_bits()], catch(|| fp::recip_sqrt(x)), 1.0 / (x as f64).sqrt());
    }
    // the whole positive range by bit pattern (subnormals to f32::MAX)
    let step = if thorough { 251 } else { 4099 };
    let mut b = 1u32;
    while b <= f32::MAX.to_bits() {
        let x = f32::from_bits(b);
        if x >= sqrt_domain_lo() {
            check_approx(o, "recip_sqrt", &[b], catch(|| fp::recip_sqrt(x)), 1.0 / (x as f64).sqrt());
            o.count(if x < f32::MIN_POSITIVE { "recip_sqrt:subnormal input" } else if x > 1e30 { "recip_sqrt:input > 1e30" } else if x < 1e-30 { "recip_sqrt:input < 1e-30" } else { "recip_sqrt:bit-sweep other" }, 1);
        }
        b += step;
    }
}
#[cfg(feature = "std")]
fn recip_sqrt_sweep(_o: &mut Out, _thorough: bool) {}

// ------------------------------------------------------------------ consequences

fn edge(a: [i64; 2], b: [i64; 2], p: [i64; 2]) -> i64 {
    (b[0] - a[0]) * (p[1] - a[1]) - (b[1] - a[1]) * (p[0] - a[0])
}

/// C04's half-pixel lattice on [0,4]^2 through this backend's tri_fill: exact integer oracle + a coverage hash
/// (the hash must be the same in all four configurations).
fn lattice(o: &mut Out) {
    use re::geom::vertex;
    use re::math::pt3;
    use re::render::raster::tri_fill;
    let n = 9i64;
    let mut hash: u64 = 0xcbf29ce484222325;
    let mut bad = 0u64;
    for a in 0..n * n {
        for b in 0..n * n {
            for c in 0..n * n {
                let v = [[a % n, a / n], [b % n, b / n], [c % n, c / n]];
                let verts = v.map(|p| vertex(pt3(p[0] as f32 / 2.0, p[1] as f32 / 2.0, 1.0), ()));
                let mut cover = [0u8; 36];
                let r = catch(|| {
                    let mut cover = [0u8; 36];
                    let mut oob = false;
                    let mut rows = 0usize;
                    tri_fill(verts, |sl| {
                        rows += 1;
                        // runaway guard: a broken rasteriser must fail, not hang
                        if rows > 64 || sl.xs.len() > 64 {
                            oob = true;
                            return;
                        }
                        for x in sl.xs.clone() {
                            if x < 6 && sl.y < 6 {
                                cover[sl.y * 6 + x] += 1;
                            } else {
                                oob = true;
                            }
                        }
                    });
                    (cover, oob)
                });
                let oob = match r {
                    Ok((cv, oob)) => {
                        cover = cv;
                        oob
                    }
                    Err(p) => {
                        o.fail("lattice-panic", "tri_fill", &[a as u32, b as u32, c as u32], p);
                        continue;
                    }
                };
                let s = edge(v[0], v[1], v[2]).signum();
                let mut ok = !oob;
                for j in 0..6i64 {
                    for i in 0..6i64 {
                        let p = [2 * i + 1, 2 * j + 1];
                        let cnt = cover[(j * 6 + i) as usize];
                        hash = (hash ^ cnt as u64).wrapping_mul(0x100000001b3);
                        let cls = if s == 0 {
                            -1 // degenerate: nothing strictly inside; on-segment centres are skipped below
                        } else {
                            let e = [s * edge(v[0], v[1], p), s * edge(v[1], v[2], p), s * edge(v[2], v[0], p)];
                            if e.iter().any(|&x| x < 0) {
                                -1
                            } else if e.iter().all(|&x| x > 0) {
                                1
                            } else {
                                0
                            }
                        };
                        let on_seg = s == 0 && [(0, 1), (1, 2), (2, 0)].iter().any(|&(u, w)| edge(v[u], v[w], p) == 0 && p[0] >= v[u][0].min(v[w][0]) * 1 && p[0] <= v[u][0].max(v[w][0]) && p[1] >= v[u][1].min(v[w][1]) && p[1] <= v[u][1].max(v[w][1]));
                        if (cls == 1 && cnt != 1) || (cls == -1 && !on_seg && cnt != 0) || cnt > 1 {
                            ok = false;
                        }
                    }
                }
                if !ok {
                    bad += 1;
                    if bad <= 3 {
                        o.fail("lattice-coverage", "tri_fill", &[a as u32, b as u32, c as u32], format!("{CFG}: half-pixel lattice triangle {v:?} (units of 1/2 px) is covered wrongly: {cover:?}"));
                    }
                }
            }
        }
    }
    o.count("lattice:triangles", (n * n * n * n * n * n) as u64);
    o.evals += (n * n * n * n * n * n) as u64;
    println!("HASH lattice-coverage {hash:016x}");
}

/// C05's consequence in this configuration: fragments of tiny, thin and ordinary triangles sit at their pixel centre and
/// carry the plane's depth and attribute (the scan converter uses this backend's floor, and ApproxEq's epsilon differs
/// between builds with and without std/libm).
fn fragments(o: &mut Out, seed: u64) {
    use re::geom::vertex;
    use re::math::pt3;
    use re::render::raster::tri_fill;
    let mut s = seed ^ 0xf4a9;
    let mut checked = 0u64;
    for i in 0..120_000u32 {
        let cx = (splitmix(&mut s) % 40) as f64 + 0.5;
        let cy = (splitmix(&mut s) % 40) as f64 + 0.5;
        let r = |s: &mut u64, a: f64| (unit(s) * 2.0 - 1.0) * a;
        let v: [[f32; 2]; 3] = match i % 4 {
            // tiny triangle around a pixel centre
            0 => {
                let e = 10f64.powf(-4.0 + 2.5 * unit(&mut s));
                [[(cx - e) as f32, (cy - e * 0.7) as f32], [(cx + e * 1.1) as f32, (cy - e * 0.6) as f32], [(cx + r(&mut s, e * 0.3)) as f32, (cy + e) as f32]]
            }
            // thin tall sliver over a column of centres
            1 => {
                let e = 10f64.powf(-4.0 + 2.5 * unit(&mut s));
                let h = 3.0 + unit(&mut s) * 20.0;
                [[(cx - e) as f32, (cy - 0.3) as f32], [(cx + e) as f32, (cy - 0.3) as f32], [(cx + r(&mut s, e)) as f32, (cy + h) as f32]]
            }
            _ => [[(cx + r(&mut s, 20.0)).abs() as f32, (cy + r(&mut s, 20.0)).abs() as f32], [(cx + r(&mut s, 20.0)).abs() as f32, (cy + r(&mut s, 20.0)).abs() as f32], [(cx + r(&mut s, 20.0)).abs() as f32, (cy + r(&mut s, 20.0)).abs() as f32]],
        };
        let z: [f32; 3] = [0.2 + unit(&mut s) as f32 * 0.8, 0.2 + unit(&mut s) as f32 * 0.8, 0.2 + unit(&mut s) as f32 * 0.8];
        let a: [f32; 3] = [unit(&mut s) as f32 * 2.0 - 1.0, unit(&mut s) as f32 * 2.0 - 1.0, unit(&mut s) as f32 * 2.0 - 1.0];
        let t: [[f64; 2]; 3] = v.map(|p| [p[0] as f64, p[1] as f64]);
        let area2 = (t[1][0] - t[0][0]) * (t[2][1] - t[0][1]) - (t[1][1] - t[0][1]) * (t[2][0] - t[0][0]);
        if area2.abs() * 0.5 <= 1e-6 {
            continue;
        }
        let lmax = (0..3).map(|k| ((t[k][0] - t[(k + 1) % 3][0]).powi(2) + (t[k][1] - t[(k + 1) % 3][1]).powi(2)).sqrt()).fold(0.0f64, f64::max);
        let alt = area2.abs() / lmax;
        let maxc = t.iter().flatten().fold(0.0f64, |m, c| m.max(*c));
        let (zmin, zmax) = (z.iter().cloned().fold(f32::MAX, f32::min) as f64, z.iter().cloned().fold(f32::MIN, f32::max) as f64);
        let extra = 2.0 * (5e-7 * maxc.max(1.0)) * (zmax / zmin) / alt;
        if extra > 0.5 {
            continue;
        }
        let verts = [0, 1, 2].map(|k| vertex(pt3(v[k][0], v[k][1], z[k]), a[k] * z[k]));
        let r = catch(|| {
            let mut frags: Vec<(usize, usize, [f32; 3], f32)> = vec![];
            tri_fill(verts, |mut sl| {
                let (y, x0) = (sl.y, sl.xs.start);
                for (j, f) in sl.fragments().take(4096).enumerate() {
                    frags.push((x0 + j, y, f.pos.0, f.var));
                }
            });
            frags
        });
        let frags = match r {
            Ok(f) => f,
            Err(p) => {
                o.fail("fragments-panic", "tri_fill", &[i], p);
                continue;
            }
        };
        o.evals += 1;
        for (x, y, pos, var) in frags {
            checked += 1;
            let c = [x as f64 + 0.5, y as f64 + 0.5];
            let l0 = ((t[1][0] - c[0]) * (t[2][1] - c[1]) - (t[1][1] - c[1]) * (t[2][0] - c[0])) / area2;
            let l1 = ((t[2][0] - c[0]) * (t[0][1] - c[1]) - (t[2][1] - c[1]) * (t[0][0] - c[0])) / area2;
            let l2 = 1.0 - l0 - l1;
            let pz = l0 * z[0] as f64 + l1 * z[1] as f64 + l2 * z[2] as f64;
            let paz = l0 * (a[0] * z[0]) as f64 + l1 * (a[1] * z[1]) as f64 + l2 * (a[2] * z[2]) as f64;
            let want = paz / pz;
            let (lo, hi) = (a.iter().cloned().fold(f32::MAX, f32::min) as f64, a.iter().cloned().fold(f32::MIN, f32::max) as f64);
            // width of the triangle along this row: the fragment's position across the triangle is only known to
            // pos_err / width (towards a sliver's apex the width goes to zero)
            let mut xs: Vec<f64> = vec![];
            for k in 0..3 {
                let (p, q) = (t[k], t[(k + 1) % 3]);
                if (p[1] - c[1]) * (q[1] - c[1]) <= 0.0 && p[1] != q[1] {
                    xs.push(p[0] + (q[0] - p[0]) * (c[1] - p[1]) / (q[1] - p[1]));
                }
            }
            let w_loc = xs.iter().cloned().fold(f64::MIN, f64::max) - xs.iter().cloned().fold(f64::MAX, f64::min);
            let extra_loc = if w_loc > 0.0 { 4.0 * (5e-7 * maxc.max(1.0)) * (zmax / zmin) / w_loc } else { f64::INFINITY };
            if extra_loc > 0.5 {
                continue;
            }
            let tol = (0.005 + extra.max(extra_loc)) * (hi - lo) + 2e-4;
            let bits = [v[0][0].to_bits(), v[0][1].to_bits(), v[1][0].to_bits(), v[1][1].to_bits(), v[2][0].to_bits(), v[2][1].to_bits()];
            if !pos.iter().all(|p| p.is_finite()) || !var.is_finite() {
                o.fail("fragment-not-finite", "tri_fill", &bits, format!("{CFG}: fragment ({x},{y}) of triangle {v:?} is not finite"));
            } else if (pos[0] as f64 - c[0]).abs() > 2e-3 || (pos[1] as f64 - c[1]).abs() > 2e-3 {
                o.fail("fragment-not-at-centre", "tri_fill", &bits, format!("{CFG}: fragment for pixel ({x},{y}) of triangle {v:?} sits at ({}, {})", pos[0], pos[1]));
            } else if (var as f64 - want).abs() > tol {
                o.fail("fragment-attribute", "tri_fill", &bits, format!("{CFG}: pixel ({x},{y}) of triangle {v:?} carries attribute {var}, the plane gives {want:.6} (tolerance {tol:.2e})"));
            }
            o.max("fragment-attribute-error/tolerance", (var as f64 - want).abs() / tol, 1.0, "of-tolerance");
            if std::env::var("FPPROBE_DEBUG").is_ok() && (var as f64 - want).abs() / tol > 0.4 {
                eprintln!("DBG ratio {:.3} err {:.3e} tol {:.3e} extra {:.3e} alt {:.3e} range {:.3} v {:?} z {:?} a {:?} px ({x},{y})", (var as f64 - want).abs() / tol, (var as f64 - want).abs(), tol, extra, alt, hi - lo, v, z, a);
            }
        }
    }
    o.count("fragments:checked", checked);
}

/// SamplerRepeatPot must address the texel at floor(coordinate) mod size.
fn sampler(o: &mut Out, seed: u64) {
    use re::render::tex::{uv, SamplerRepeatPot, Texture};
    use re::util::buf::Buf2;
    let (w, h) = (8u32, 4u32);
    let tex = Texture::from(Buf2::new_with((w, h), |x, y| y * 100 + x));
    let smp = SamplerRepeatPot::new(&tex);
    let mut s = seed ^ 0x777;
    let mut coords: Vec<f32> = vec![];
    for k in -40i32..=40 {
        for d in [0.0f32, 1e-6, -1e-6, 0.5, 0.25] {
            coords.push(k as f32 + d);
        }
    }
    for _ in 0..20_000 {
        coords.push(((unit(&mut s) * 2.0 - 1.0) * 1000.0) as f32);
    }
    coords.extend([-0.0f32, 0.0, 1e-30, -1e-30, 2147483520.0, -2147483520.0, 8388608.0, -8388608.0, -8388607.5]);
    let mut neg_int = 0;
    for (i, &u) in coords.iter().enumerate() {
        let v = coords[(i * 7 + 3) % coords.len()];
        let got = catch(|| smp.sample_abs(&tex, uv(u, v)));
        let wu = ((u as f64).floor() as i64).rem_euclid(w as i64) as u32;
        let wv = ((v as f64).floor() as i64).rem_euclid(h as i64) as u32;
        match got {
            Err(p) => o.fail("sampler-panic", "SamplerRepeatPot", &[u.to_bits(), v.to_bits()], p),
            Ok(t) => {
                if t != wv * 100 + wu {
                    o.fail("sampler-wrong-texel", "SamplerRepeatPot", &[u.to_bits(), v.to_bits()], format!("{CFG}: sample_abs({u:e}, {v:e}) on an 8x4 texture returned texel ({}, {}), floor-mod gives ({wu}, {wv})", t % 100, t / 100));
                }
            }
        }
        if u < 0.0 && u == u.trunc() {
            neg_int += 1;
        }
    }
    o.count("sampler:coordinates", coords.len() as u64);
    o.evals += coords.len() as u64;
    o.count("sampler:negative-integer-u", neg_int);
}

/// normalize() gives |v| = 1 within the backend's reciprocal-square-root bound
fn normalize(o: &mut Out, seed: u64) {
    use re::math::{vec3, Vec3};
    let mut s = seed ^ 0x999;
    let b = match CFG {
        "std" | "libm" => 1e-6,
        _ => 4e-3,
    };
    for i in 0..200_000 {
        let mag = if i % 4 == 3 { 10f64.powf(unit(&mut s) * 35.0 - 17.0) } else { 10f64.powf(unit(&mut s) * 12.0 - 6.0) };
        let mut c = [0.0f32; 3];
        for k in 0..3 {
            c[k] = ((unit(&mut s) * 2.0 - 1.0) * mag) as f32;
        }
        if i % 16 == 0 {
            c[1] = 0.0;
            c[2] = 0.0;
        }
        if c == [0.0; 3] {
            continue;
        }
        let v: Vec3 = vec3(c[0], c[1], c[2]);
        o.evals += 1;
        match catch(|| v.normalize()) {
            Err(p) => o.fail("normalize-panic", "normalize", &c.map(|x| x.to_bits()), p),
            Ok(n) => {
                let l: f64 = n.0.iter().map(|x| (*x as f64).powi(2)).sum::<f64>().sqrt();
                o.max("normalize", (l - 1.0).abs(), b, "abs(|v|-1)");
                if !((l - 1.0).abs() <= b) {
                    o.fail("normalize-not-unit", "normalize", &c.map(|x| x.to_bits()), format!("{CFG}: normalize({c:?}) has length {l}"));
                }
            }
        }
    }
}

/// Angle::wrap stays in range (fp configurations only)
#[cfg(any(feature = "std", feature = "libm", feature = "mm"))]
fn wrap(o: &mut Out, seed: u64) {
    use re::math::rads;
    let mut s = seed ^ 0x4242;
    for i in 0..300_000 {
        let lo = ((unit(&mut s) * 2.0 - 1.0) * 10.0) as f32;
        let wd = 10f64.powf(unit(&mut s) * 3.0 - 1.5) as f32;
        let hi = lo + wd;
        let a = if i % 8 == 0 { lo - (i % 64) as f32 * wd } else { ((unit(&mut s) * 2.0 - 1.0) * 1000.0) as f32 };
        match catch(|| rads(a).wrap(rads(lo), rads(hi)).to_rads()) {
            Err(p) => o.fail("wrap-panic", "wrap", &[a.to_bits(), lo.to_bits(), hi.to_bits()], p),
            Ok(r) => {
                if !(r >= lo && r <= hi) {
                    o.fail("wrap-out-of-range", "wrap", &[a.to_bits(), lo.to_bits(), hi.to_bits()], format!("{CFG}: rads({a:e}).wrap({lo:e}, {hi:e}) = {r:e}"));
                }
            }
        }
    }
    o.count("wrap:cases", 300_000);
    o.evals += 300_000;
}
#[cfg(not(any(feature = "std", feature = "libm", feature = "mm")))]
fn wrap(_o: &mut Out, _seed: u64) {}

// ------------------------------------------------------------------ replay of a single input

fn replay(f: &str, bits: &[u32]) {
    let mut o = Out::new();
    let x = f32::from_bits(*bits.first().unwrap_or(&0));
    let y = f32::from_bits(*bits.get(1).unwrap_or(&0));
    match f {
        "floor" => check_floor(&mut o, x),
        "abs" => check_abs(&mut o, x),
        "rem_euclid" => check_rem(&mut o, x, y),
        #[cfg(not(feature = "std"))]
        "recip_sqrt" => check_approx(&mut o, "recip_sqrt", bits, catch(|| fp::recip_sqrt(x)), 1.0 / (x as f64).sqrt()),
        #[cfg(any(feature = "std", feature = "libm", feature = "mm"))]
        "sqrt" => check_approx(&mut o, "sqrt", bits, catch(|| fp::sqrt(x)), (x as f64).sqrt()),
        #[cfg(any(feature = "std", feature = "libm", feature = "mm"))]
        "sin" | "cos" | "tan" => trig(&mut o, x),
        #[cfg(any(feature = "std", feature = "libm", feature = "mm"))]
        "sin_cos" | "sin_cos.0" | "sin_cos.1" => sin_cos_pair(&mut o, x),
        #[cfg(any(feature = "std", feature = "libm", feature = "mm"))]
        "asin" | "acos" => inv_trig(&mut o, x),
        #[cfg(any(feature = "std", feature = "libm", feature = "mm"))]
        "atan2" if x == 0.0 && y == 0.0 => match catch(|| fp::atan2(x, y)) {
            Err(p) => o.fail("panic", "atan2", bits, format!("atan2 panicked: {p}")),
            Ok(g) if g.is_finite() && g.abs() <= 3.1415928 => {}
            Ok(g) => o.fail("atan2-origin-not-finite", "atan2", bits, format!("{CFG} atan2({x:e}, {y:e}) = {g:e}: not a finite angle")),
        },
        #[cfg(any(feature = "std", feature = "libm", feature = "mm"))]
        "atan2" => check_approx(&mut o, "atan2", bits, catch(|| fp::atan2(x, y)), (x as f64).atan2(y as f64)),
        #[cfg(any(feature = "std", feature = "libm", feature = "mm"))]
        "powf" if x == 0.0 => check_approx(&mut o, "powf", bits, catch(|| fp::powf(x, y)).map(|g| g.abs()), (x.abs() as f64).powf(y as f64)),
        #[cfg(any(feature = "std", feature = "libm", feature = "mm"))]
        "powf" => check_approx(&mut o, "powf", bits, catch(|| fp::powf(x, y)), (x as f64).powf(y as f64)),
        #[cfg(any(feature = "std", feature = "libm"))]
        "exp" => check_approx(&mut o, "exp", bits, catch(|| fp::exp(x)), (x as f64).exp()),
        "tri_fill" => lattice(&mut o),
        "SamplerRepeatPot" => {
            use re::render::tex::{uv, SamplerRepeatPot, Texture};
            use re::util::buf::Buf2;
            let tex = Texture::from(Buf2::new_with((8, 4), |x, y| y * 100 + x));
            let smp = SamplerRepeatPot::new(&tex);
            let (wu, wv) = (((x as f64).floor() as i64).rem_euclid(8) as u32, ((y as f64).floor() as i64).rem_euclid(4) as u32);
            match catch(|| smp.sample_abs(&tex, uv(x, y))) {
                Ok(t) if t == wv * 100 + wu => {}
                Ok(t) => o.fail("sampler-wrong-texel", "SamplerRepeatPot", bits, format!("{CFG}: sample_abs({x:e}, {y:e}) returned texel ({}, {}), floor-mod gives ({wu}, {wv})", t % 100, t / 100)),
                Err(p) => o.fail("sampler-panic", "SamplerRepeatPot", bits, p),
            }
        }
        _ => println!("SKIP {f} does not exist in configuration {CFG}"),
    }
    o.finish();
}

fn main() {
    std::panic::set_hook(Box::new(|_| {}));
    let args: Vec<String> = std::env::args().skip(1).collect();
    println!("CONFIG {CFG}");
    if args.first().map(|s| s.as_str()) == Some("--replay") {
        let bits: Vec<u32> = args[2..].iter().map(|s| u32::from_str_radix(s.trim_start_matches("0x"), 16).unwrap_or(0)).collect();
        replay(&args[1], &bits);
        return;
    }
    let thorough = args.first().map(|s| s.as_str()) == Some("thorough");
    let seed: u64 = args.get(1).and_then(|s| s.parse().ok()).unwrap_or(0);
    let mut o = Out::new();
    exact_sweeps(&mut o, thorough);
    rem_sweeps(&mut o, thorough, seed);
    approx_sweeps(&mut o, thorough, seed);
    recip_sqrt_sweep(&mut o, thorough);
    lattice(&mut o);
    fragments(&mut o, seed);
    sampler(&mut o, seed);
    normalize(&mut o, seed);
    wrap(&mut o, seed);
    o.finish();
}
