//! C01 — the rendered image equals the ideal perspective-correct image.
//!
//! A scene is rendered once through one of the front doors into a sentinel
//! filled target; every pixel of the target is then compared with the f64
//! reference (exact clipped polygons projected through the requested viewport,
//! perspective-correct barycentrics from the 3x3 system, nearest candidate
//! wins). Pixels within 0.02 px of a projected edge / plane crossing / possible
//! internal fan edge, or whose two nearest candidates differ by < 0.1 % in
//! depth, are skipped; every other pixel is asserted.

use crate::c03::clip_tri;
use crate::common::fl::*;
use crate::common::*;
use crate::rs::*;
use proptest::prelude::*;
use serde_json::{json, Value};

pub const RULE: &str = "proptest scenes: target 1..64 x 1..64 (thorough: ..128), non-empty viewport sub-rectangle, 1..4 (8) triangles; \
doors render()/Batch with arbitrary clip-space vertices (C03's vertex mixture: w of either sign, coordinates exactly on planes, any outcode set; apex nudge D-d) \
and Camera::render with view-space vertices through the library's perspective/orthographic; targets Framebuf over Buf2 / &mut Buf2 / MutSlice2 windows and colour-only; \
prior depth 0 or a constant background. Non-trivial = at least one asserted inside pixel and at least one triangle that is actually clipped or has non-uniform w; distinct by scene bit pattern.";

pub const BAND: f64 = 0.02;
/// sub-pixel sampling position tolerance of the f32 rasteriser (DESIGN D-i), in pixels
pub const SAMPLE_POS_TOL: f64 = 0.002;

fn dims(max: u32) -> BoxedStrategy<u32> {
    prop_oneof![1 => Just(1u32), 1 => Just(2u32), 3 => 3u32..=16, 4 => 8u32..=max].boxed()
}

/// (l, r) with 0 <= l < r <= n, biased to the full extent
fn span(n: u32) -> BoxedStrategy<(u32, u32)> {
    prop_oneof![
        2 => Just((0, n)),
        3 => (0..n).prop_flat_map(move |l| (Just(l), l + 1..=n)),
    ]
    .boxed()
}

pub fn target_kind(color_only_ok: bool) -> BoxedStrategy<TargetKind> {
    let w = (0u32..4, 0u32..4, 0u32..4, 0u32..4);
    if color_only_ok {
        prop_oneof![
            3 => Just(TargetKind::FbOwned),
            2 => Just(TargetKind::FbRef),
            2 => w.clone().prop_map(|(ox, oy, px, py)| TargetKind::FbWindow { ox, oy, px, py }),
            2 => Just(TargetKind::ColorOnly),
            1 => w.prop_map(|(ox, oy, px, py)| TargetKind::ColorOnlyWindow { ox, oy, px, py }),
        ]
        .boxed()
    } else {
        prop_oneof![
            3 => Just(TargetKind::FbOwned),
            2 => Just(TargetKind::FbRef),
            2 => w.prop_map(|(ox, oy, px, py)| TargetKind::FbWindow { ox, oy, px, py }),
        ]
        .boxed()
    }
}

fn bg_depth() -> BoxedStrategy<f32> {
    prop_oneof![3 => Just(0.0f32), 2 => 0.05f32..2.0].boxed()
}

/// Moves a triangle away from the 4-D origin (DESIGN D-d). Returns None if no nudge helps.
pub fn nudge_from_apex(t: [[f32; 4]; 3]) -> (Option<[[f32; 4]; 3]>, &'static str) {
    let close = |t: &[[f32; 4]; 3]| apex_closeness(&t.map(|v| v.map(|c| c as f64))) < 0.05;
    if !close(&t) {
        return (Some(t), "apex:clear");
    }
    let scale = t.iter().flatten().fold(0.0f32, |m, v| m.max(v.abs())).max(0.1);
    let mut a = t;
    for v in a.iter_mut() {
        v[2] += 0.25 * scale;
    }
    if !close(&a) {
        return (Some(a), "apex:nudged-z");
    }
    let mut b = t;
    for v in b.iter_mut() {
        v[3] += 0.25 * scale;
    }
    if !close(&b) {
        return (Some(b), "apex:nudged-w");
    }
    (None, "apex:rejected")
}

pub fn clip_scene(max_dim: u32, max_tris: usize, color_only_ok: bool) -> BoxedStrategy<Scene> {
    clip_scene_dims((dims(max_dim), dims(max_dim)).boxed(), max_tris, color_only_ok)
}

/// Long, low buffers (600..1400 x 1..6, or transposed): a relative error of 1e-3 in a projected coordinate is a pixel there.
pub fn clip_scene_long(max_tris: usize) -> BoxedStrategy<Scene> {
    let d = (600u32..=1400, 1u32..=6, any::<bool>()).prop_map(|(l, s, t)| if t { (s, l) } else { (l, s) });
    clip_scene_dims(d.boxed(), max_tris, true)
}

pub fn clip_scene_dims(bwbh: BoxedStrategy<(u32, u32)>, max_tris: usize, color_only_ok: bool) -> BoxedStrategy<Scene> {
    bwbh
        .prop_flat_map(move |(bw, bh)| {
            (
                Just((bw, bh)),
                span(bw),
                span(bh),
                // clip space is homogeneous: a triangle scaled by 2^k covers the same pixels with reciprocal depth scaled by 2^-k
                proptest::collection::vec(((clip_tri(), prop_oneof![6 => Just(0i32), 1 => Just(-26i32), 1 => Just(24i32), 2 => -30i32..=30]).prop_map(|(t, k)| t.map(|v| v.map(|c| c * 2f32.powi(k)))), [-1.0f32..=1.0, -1.0f32..=1.0, -1.0f32..=1.0]), 1..=max_tris),
                any::<bool>(),
                target_kind(color_only_ok),
                bg_depth(),
                (0u8..8, 0u8..8, 0u8..10, 0u8..10),
            )
        })
        .prop_filter_map("triangle through the clip-space apex (D-d)", |((bw, bh), (l, r), (t, b), tris, batch, target, bg, (fx, fy, sw, am))| {
            let mut ts = vec![];
            for (tri, _) in &tris {
                ts.push(nudge_from_apex(*tri).0?);
            }
            Some(Scene {
                bw,
                bh,
                vp: [l, t, r, b],
                tris: ts.iter().map(|t| t.map(xs)).collect(),
                attrs: {
                    let mut a: Vec<[X; 3]> = tris.iter().map(|(_, a)| xs(*a)).collect();
                    // one scene in ten: the first two triangles carry the same constant attribute (identical colour words
                    // from different surfaces: the depth must still be the nearer one's)
                    if sw == 1 && a.len() >= 2 {
                        let c = a[0][0];
                        a[0] = [c, c, c];
                        a[1] = [c, c, c];
                    }
                    a
                },
                door: if batch { Door::Batch } else { Door::Render },
                target,
                proj: None,
                bg_depth: X(bg),
                cfg: Cfg::plain(),
                shader_mode: 0,
                shared_verts: false,
                flip: [fx == 0, fy == 0],
                swap_axes: sw == 0,
                attr_mode: match am { 0..=5 => 0, 6..=8 => 1, _ => 2 },
            })
        })
        .boxed()
}

/// view-space coordinate mixtures for the Camera door
fn view_vertex(focal: f32, aspect: f32, near: f32, far: f32) -> BoxedStrategy<[f32; 4]> {
    let z = prop_oneof![
        1 => Just(near),
        1 => Just(far),
        1 => Just((near + far) / 2.0),
        6 => (near * 0.2)..(far * 1.3),
        2 => (-far)..near,
    ];
    let rel = || prop_oneof![1 => Just(1.0f32), 1 => Just(-1.0f32), 1 => Just(0.0f32), 6 => -1.6f32..1.6];
    (z, rel(), rel()).prop_map(move |(z, rx, ry)| [rx * z / focal, ry * z / (focal * aspect), z, 1.0]).boxed()
}

pub fn camera_scene(max_dim: u32, max_tris: usize, color_only_ok: bool) -> BoxedStrategy<Scene> {
    (dims(max_dim), dims(max_dim))
        .prop_flat_map(move |(bw, bh)| (Just((bw, bh)), span(bw), span(bh), 0.3f32..3.0, 0.1f32..10.0, 1.5f32..100.0, any::<bool>()))
        .prop_flat_map(move |((bw, bh), (l, r), (t, b), focal, near, ratio, ortho)| {
            let far = near * ratio;
            let aspect = (r - l) as f32 / (b - t) as f32;
            let (proj, vert) = if ortho {
                // a box around the axis; vertices in and around it
                let (hx, hy) = (near * 2.0, near * 1.5);
                let p = Proj::Orthographic { lbn: xs([-hx, -hy, near]), rtf: xs([hx, hy, far]) };
                let c = |h: f32| prop_oneof![1 => Just(h), 1 => Just(-h), 1 => Just(0.0f32), 5 => (-1.6 * h)..(1.6 * h)];
                let z = prop_oneof![1 => Just(near), 1 => Just(far), 5 => (near - (far - near) * 0.3)..(far + (far - near) * 0.3)];
                (p, (c(hx), c(hy), z).prop_map(|(x, y, z)| [x, y, z, 1.0]).boxed())
            } else {
                (Proj::Perspective { focal: X(focal), near: X(near), far: X(far) }, view_vertex(focal, aspect, near, far))
            };
            (
                Just(((bw, bh), [l, t, r, b], proj)),
                proptest::collection::vec(([vert.clone(), vert.clone(), vert], [-1.0f32..=1.0, -1.0f32..=1.0, -1.0f32..=1.0]), 1..=max_tris),
                target_kind(color_only_ok),
                bg_depth(),
                0u8..10,
            )
        })
        .prop_map(|(((bw, bh), vp, proj), tris, target, bg, am)| Scene {
            bw,
            bh,
            vp,
            tris: tris.iter().map(|(t, _)| t.map(xs)).collect(),
            attrs: tris.iter().map(|(_, a)| xs(*a)).collect(),
            door: Door::Camera,
            target,
            proj: Some(proj),
            bg_depth: X(bg),
            cfg: Cfg::plain(),
                shader_mode: 0,
                shared_verts: false,
            flip: [false, false],
            swap_axes: false,
            attr_mode: match am { 0..=5 => 0, 6..=8 => 1, _ => 2 },
        })
        .boxed()
}

pub fn check(sc: &Scene, obs: &mut Obs) -> Check {
    // DESIGN D-d: triangles through the clip-space apex are outside the asserted domain
    // (the generator already nudges them away; this keeps the predicate itself total)
    if sc.door != Door::Camera && (0..sc.tris.len()).any(|t| apex_closeness(&clip64(sc, t)) < 0.05) {
        obs.excluded("triangle through the clip-space apex (D-d)");
        return Ok(());
    }
    let mut s = Session::new(sc);
    let all: Vec<usize> = (0..sc.tris.len()).collect();
    if let Err(p) = s.draw(&all) {
        fail!("render-panic", "rendering panicked: {p}");
    }
    if let Some((x, y)) = s.padding_changed() {
        fail!("wrote-outside-target-window", "cell ({x},{y}) of the backing buffer, outside the target window, was modified");
    }
    let refs: Vec<RefTri> = (0..sc.tris.len()).map(|t| ref_tri(sc, t)).collect();
    let has_depth = s.has_depth();
    let bg = sc.bg_depth.0 as f64;
    if std::env::var("RFVERIF_DEBUG").is_ok() {
        for (t, r) in refs.iter().enumerate() {
            eprintln!("tri {t}: clip {:?}\n  poly {:?}\n  screen {:?}\n  outer {:?}\n  inner {:?} stable={}", r.clip, r.poly, r.spoly, r.outer, r.inner, r.stable);
        }
        for y in 0..sc.bh {
            let mut line = String::new();
            for x in 0..sc.bw {
                let c = [x as f64 + 0.5, y as f64 + 0.5];
                let cls = refs.iter().map(|r| r.classify(sc, c, BAND)).fold(0, |a, k| match k {
                    PixClass::Ambiguous => a | 2,
                    PixClass::In { .. } => a | 1,
                    PixClass::Out => a,
                });
                let drawn = s.col(x, y) != s.prior_col(x, y);
                line.push(match (cls, drawn) {
                    (0, false) => '.',
                    (0, true) => 'X',
                    (1, true) => '#',
                    (1, false) => 'O',
                    (_, true) => '+',
                    (_, false) => '-',
                });
            }
            eprintln!("{line}");
        }
    }
    let (mut n_in, mut n_out, mut n_skip, mut n_multi) = (0u64, 0u64, 0u64, 0u64);
    for y in 0..sc.bh {
        'px: for x in 0..sc.bw {
            let c = [x as f64 + 0.5, y as f64 + 0.5];
            let mut cands: Vec<(usize, f64, f64, f64, f64)> = vec![]; // (tri, attr, rz, |grad attr|, |grad rz|)
            for (t, r) in refs.iter().enumerate() {
                match r.classify(sc, c, BAND) {
                    PixClass::Ambiguous => {
                        n_skip += 1;
                        continue 'px;
                    }
                    PixClass::In { attr, rz, g_attr, g_rz } => cands.push((t, attr, rz, g_attr, g_rz)),
                    PixClass::Out => {}
                }
            }
            let got_c = s.col(x, y);
            let got_d = s.dep(x, y);
            let prior_c = s.prior_col(x, y);
            // winner
            let mut winner: Option<(usize, f64, f64, f64, f64)> = None;
            if has_depth {
                // depth test Less on reciprocals: a fragment passes iff stored < new
                let mut all_rz: Vec<f64> = cands.iter().map(|c| c.2).collect();
                all_rz.push(bg);
                all_rz.sort_by(|a, b| b.partial_cmp(a).unwrap());
                if all_rz.len() >= 2 && (all_rz[0] - all_rz[1]).abs() <= 0.001 * all_rz[0].abs() {
                    n_skip += 1;
                    continue 'px;
                }
                for c in &cands {
                    if c.2 > bg && winner.map_or(true, |w| c.2 > w.2) {
                        winner = Some(*c);
                    }
                }
            } else {
                if cands.len() >= 2 {
                    n_skip += 1; // no depth buffer: overlap resolved by submission order, not by this property
                    continue 'px;
                }
                winner = cands.first().copied();
            }
            if cands.len() >= 2 {
                n_multi += 1;
            }
            match winner {
                None => {
                    n_out += 1;
                    ensure!(
                        got_c == prior_c,
                        "outside-pixel-colour-changed",
                        "pixel ({x},{y}) lies outside every visible triangle part (or behind the background depth) but its colour changed from {prior_c:#010x} to {got_c:#010x} (as f32: {})",
                        f32_of(got_c)
                    );
                    if has_depth {
                        ensure!(
                            got_d.to_bits() == sc.bg_depth.0.to_bits(),
                            "outside-pixel-depth-changed",
                            "pixel ({x},{y}) lies outside every visible triangle part but its depth changed from {} to {got_d}",
                            sc.bg_depth.0
                        );
                    }
                }
                Some((t, attr, rz, g_attr, g_rz)) => {
                    n_in += 1;
                    ensure!(
                        got_c != prior_c,
                        "inside-pixel-not-drawn",
                        "pixel ({x},{y}) is unambiguously inside the visible part of triangle {t} (nearest, 1/w = {rz:.6}) but was not drawn"
                    );
                    let a = refs[t].attr;
                    let (lo, hi) = (a.iter().cloned().fold(f64::MAX, f64::min), a.iter().cloned().fold(f64::MIN, f64::max));
                    // D-i: the rasteriser samples each pixel within ~0.002 px of its centre; where the field is steep that shows
                    // rounding floor for (nearly) constant fields, as in C05: a*z is stepped across the triangle and divided by the stepped z
                    let tol = 0.005 * (hi - lo) + 2e-4 * lo.abs().max(hi.abs()) + 1e-6 + SAMPLE_POS_TOL * g_attr;
                    let got = f32_of(got_c) as f64;
                    let e = (got - attr).abs();
                    if hi - lo > 1e-3 {
                        obs.max("attribute-error / vertex range (bound 0.005)", e / (hi - lo));
                    }
                    ensure!(
                        e <= tol && got.is_finite(),
                        "wrong-attribute",
                        "pixel ({x},{y}) inside triangle {t}: attribute {got} but perspective-correct interpolation gives {attr:.7} (vertex values {a:?}, tolerance {tol:.2e})"
                    );
                    if has_depth {
                        let ed = (got_d as f64 - rz).abs() / rz;
                        if g_rz * SAMPLE_POS_TOL < 0.0002 * rz {
                            obs.max("depth-error relative (bound 0.002)", ed);
                        }
                        ensure!(ed <= 0.002 + SAMPLE_POS_TOL * g_rz / rz, "wrong-depth", "pixel ({x},{y}) inside triangle {t}: stored reciprocal depth {got_d} but 1/w = {rz:.7}");
                    }
                }
            }
        }
    }
    // observation
    obs.class(match sc.door {
        Door::Render => "door:render",
        Door::Batch => "door:batch",
        Door::Camera => "door:camera",
    });
    obs.class(match sc.target {
        TargetKind::FbOwned => "target:framebuf-owned",
        TargetKind::FbRef => "target:framebuf-ref",
        TargetKind::FbWindow { .. } => "target:framebuf-window",
        TargetKind::ColorOnly => "target:colour-only",
        TargetKind::ColorOnlyWindow { .. } => "target:colour-only-window",
    });
    if let Some(Proj::Orthographic { .. }) = sc.proj {
        obs.class("proj:orthographic");
    }
    for r in &refs {
        obs.class(if r.poly.is_empty() {
            "tri:invisible"
        } else if r.clipped {
            "tri:clipped"
        } else {
            "tri:wholly-inside"
        });
        let neg = r.clip.iter().filter(|p| p[3] < 0.0).count();
        obs.class(match neg {
            0 => "w:+++",
            3 => "w:---",
            _ => "w:mixed",
        });
    }
    obs.class_n("pixels-asserted-inside", n_in);
    obs.class_n("pixels-asserted-outside", n_out);
    obs.class_n("pixels-skipped-ambiguous", n_skip);
    obs.class_n("pixels-with>=2-candidates", n_multi);
    if sc.vp != [0, 0, sc.bw, sc.bh] {
        obs.class("viewport:sub-rectangle");
    }
    if sc.flip[0] || sc.flip[1] {
        obs.class("viewport:mirrored");
    }
    if sc.swap_axes {
        obs.class("to_screen:axes-exchanged");
    }
    obs.class(["varying:f32", "varying:(f32,f32)-second-slot", "varying:((f32,f32),f32)-nested"][sc.attr_mode.min(2) as usize]);
    if n_in > 0 && refs.iter().any(|r| !r.poly.is_empty() && (r.clipped || r.nonuniform_w)) {
        obs.nontrivial(hash_of(&(&sc.tris, &sc.attrs, sc.vp, sc.bw, sc.bh)));
        if obs.wants_sample() {
            let cc = sc.clone();
            obs.sample(|| json!({"scene": cc, "pixels_inside": n_in, "pixels_outside": n_out, "pixels_skipped": n_skip}));
        }
    }
    Ok(())
}

pub fn run(cx: &mut Ctx) {
    cx.assume("triangles whose hull passes within 5 % of its scale of the clip-space apex (x=y=z=w=0) are nudged away or rejected: no projection the library builds can produce them (DESIGN D-d)");
    cx.assume("attributes are scalar f32 smuggled bit-exactly through the colour word; colour varyings are affine by design and not asserted here (DESIGN D-e)");
    cx.assume("possible internal fan edges are masked with every diagonal of the exact clipped polygon (a superset of any fan), within 0.02 px");
    let (md, mt) = (cx.tier.pick(64, 128), cx.tier.pick(4, 8));
    let n = cx.n(200_000, 2_000_000);
    cx.prop_check("clip-space", n, move || clip_scene(md, mt, true), |c, obs| check(c, obs));
    let n = cx.n(60_000, 600_000);
    cx.prop_check("camera", n, move || camera_scene(md, mt, true), |c, obs| check(c, obs));
    let n = cx.n(3_000, 60_000);
    cx.prop_check("clip-space-long-buffers", n, move || clip_scene_long(3), |c, obs| check(c, obs));
}

pub fn replay(_sub: &str, case: &Value) -> Check {
    let mut obs = Obs::new();
    obs.freeze();
    let sc: Scene = serde_json::from_value(case.clone()).map_err(|e| Fail::new("bad-replay", e.to_string()))?;
    check(&sc, &mut obs)
}
