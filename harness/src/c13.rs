//! C13 — PNM codec: lossless round trip and total decoding.
//!
//! Sub-checks
//!   literals    the crate's unit-test files and hand-made boundary headers
//!               (zero and huge dimensions, count exactly u32::MAX, ...) through
//!               the decoding oracle; boundary classes are hit by construction
//!   roundtrip   (a) write_ppm of an owned image / a (nested, strided) sub-view
//!               with adversarial pixel bytes, read back with parse_pnm and
//!               read_pnm: same dimensions and pixels
//!   reencode    (b) the same pixel data written by the harness's own encoder
//!               as P6+P3 (or P5+P2) with random whitespace runs and
//!               whitespace-preceded comments between the header fields:
//!               both decode, to equal images (equal to the source when
//!               maxval = 255)
//!   mutated     (c) structure-aware mutations of valid files and arbitrary
//!               bytes: no panic; Ok => data().len() == w*h, and dims equal to
//!               those of the harness's own strict header parser when that
//!               parser accepts the header
//!   thorough only: the same sub-checks once more in a second build with
//!   debug assertions and overflow checks off (child process), and a libFuzzer
//!   campaign (`cargo +nightly fuzz run pnm_decode`) whose target calls
//!   `fuzz_one`, i.e. the oracle of (c).
//!
//! Seed corpus of the fuzz target: `RFVERIF_C13_DUMP_CORPUS=<dir> rfverif C13 quick`
//! writes `seed_corpus()` into <dir> and exits without touching the evidence (used once to fill
//! harness/fuzz/corpus/pnm_decode/).

use crate::common::*;
use proptest::collection::vec as pvec;
use proptest::prelude::*;
use proptest::sample::select;
use re::math::{rgb, Color3};
use re::util::buf::{AsSlice2, Buf2};
use re::util::pnm::{parse_pnm, read_pnm, write_ppm, Error as PnmError};
use serde::{Deserialize, Deserializer, Serialize, Serializer};
use serde_json::{json, Value};
use std::ops::Bound;
use std::path::{Path, PathBuf};
use std::process::Command;
use std::time::Instant;

pub const RULE: &str = "roundtrip: proptest images 0..24 x 0..24 (dimension classes 0/1/2/small/any), owned (by value, by reference, as Slice2, as MutSlice2) \
or a one- or two-level rectangular sub-view of a larger buffer (ranges spelled a..b, a.., ..b, .., a..=b or as Bound pairs with an exclusive start), \
written into a Vec or into a writer that accepts 1..40 bytes per call (short writes, with or without ErrorKind::Interrupted), pixel bytes from a mixture {whitespace, '#', digits, 0, 255, 'P', sign, uniform}. \
reencode: same image generator, grey or RGB, maxval 255 (3/4) or 1..255, encoded by the harness as binary and as text with header gaps made of \
1..4 items (whitespace byte | whitespace byte + '#' comment + newline) and 6 text-sample separator styles. \
mutated: a valid P2..P6 file (dims 0..6) with one mutation out of {none, truncate, header field replaced by a special token, both dims replaced by an \
extreme pair, magic replaced, chunk duplicated, bit flips, insert, delete, header byte replaced, raster length +-k} or arbitrary bytes (with or without a magic). \
literals: fixed list. fuzz: libFuzzer, coverage guided, seeded from the unit-test literals and generated files. \
Non-trivial = (roundtrip/reencode) an image with >= 1 pixel whose first raster byte is whitespace, '#' or a digit, or which is a strided view / has a \
comment or a multi-byte whitespace run in its header; (mutated/literals/fuzz) an input whose first two bytes are a supported magic number P2..P6. \
Distinct by content hash of the case.";

const PROP: &str = "C13";

// ------------------------------------------------------------------ byte strings in cases

/// Byte string that serialises as a hex string (compact, lossless replay files).
#[derive(Clone, PartialEq, Eq, Hash, Default)]
pub struct Hex(pub Vec<u8>);

impl std::fmt::Debug for Hex {
    fn fmt(&self, f: &mut std::fmt::Formatter<'_>) -> std::fmt::Result {
        write!(f, "b\"{}\"", self.0.escape_ascii())
    }
}

fn to_hex(b: &[u8]) -> String {
    let mut s = String::with_capacity(b.len() * 2);
    for x in b {
        s.push_str(&format!("{x:02x}"));
    }
    s
}

fn from_hex(s: &str) -> Result<Vec<u8>, String> {
    let s = s.as_bytes();
    if s.len() % 2 != 0 {
        return Err("odd number of hex digits".into());
    }
    let nib = |c: u8| -> Result<u8, String> {
        match c {
            b'0'..=b'9' => Ok(c - b'0'),
            b'a'..=b'f' => Ok(c - b'a' + 10),
            b'A'..=b'F' => Ok(c - b'A' + 10),
            _ => Err(format!("bad hex digit {:?}", c as char)),
        }
    };
    s.chunks(2).map(|p| Ok(nib(p[0])? << 4 | nib(p[1])?)).collect()
}

impl Serialize for Hex {
    fn serialize<S: Serializer>(&self, s: S) -> Result<S::Ok, S::Error> {
        s.serialize_str(&to_hex(&self.0))
    }
}

impl<'de> Deserialize<'de> for Hex {
    fn deserialize<D: Deserializer<'de>>(d: D) -> Result<Self, D::Error> {
        let s = String::deserialize(d)?;
        from_hex(&s).map(Hex).map_err(serde::de::Error::custom)
    }
}

// ------------------------------------------------------------------ the harness's own header parser

/// Header as read by the harness's strict parser.
#[derive(Clone, Copy, Debug, PartialEq, Eq)]
pub struct Hdr {
    pub fmt: u8,
    pub w: u128,
    pub h: u128,
    pub max: u128,
    /// offset of the first raster byte
    pub data: usize,
}

fn is_ws(b: u8) -> bool {
    matches!(b, b' ' | b'\t' | b'\n' | b'\r')
}

fn supported_magic(b: &[u8]) -> bool {
    b.len() >= 2 && b[0] == b'P' && (b'2'..=b'6').contains(&b[1])
}

/// Strict reading of a PNM header, independent of the code under test:
/// magic P2..P6; between fields a non-empty run of blanks/TAB/CR/LF in which,
/// after at least one whitespace byte, `#`-to-LF comments may appear (no CR
/// inside a comment, since the format lets CR end one too); fields are plain
/// decimal digit strings; after the last field exactly one whitespace byte (or
/// the end of input). Anything else => None (no claim about the dimensions).
pub fn hparse(b: &[u8]) -> Option<Hdr> {
    if !supported_magic(b) {
        return None;
    }
    let fmt = b[1] - b'0';
    let mut i = 2usize;
    fn gap(b: &[u8], i: &mut usize) -> bool {
        if *i >= b.len() || !is_ws(b[*i]) {
            return false;
        }
        while *i < b.len() {
            if is_ws(b[*i]) {
                *i += 1;
            } else if b[*i] == b'#' {
                let mut j = *i + 1;
                loop {
                    if j >= b.len() || b[j] == b'\r' {
                        return false;
                    }
                    if b[j] == b'\n' {
                        break;
                    }
                    j += 1;
                }
                *i = j + 1;
            } else {
                break;
            }
        }
        true
    }
    fn num(b: &[u8], i: &mut usize) -> Option<u128> {
        let s = *i;
        let mut v = 0u128;
        while *i < b.len() && b[*i].is_ascii_digit() {
            if *i - s >= 30 {
                return None;
            }
            v = v * 10 + (b[*i] - b'0') as u128;
            *i += 1;
        }
        (*i > s).then_some(v)
    }
    if !gap(b, &mut i) {
        return None;
    }
    let w = num(b, &mut i)?;
    if !gap(b, &mut i) {
        return None;
    }
    let h = num(b, &mut i)?;
    let max = if fmt == 4 {
        1
    } else {
        if !gap(b, &mut i) {
            return None;
        }
        num(b, &mut i)?
    };
    let data = if i == b.len() {
        i
    } else if is_ws(b[i]) {
        i + 1
    } else {
        return None;
    };
    Some(Hdr { fmt, w, h, max, data })
}

// ------------------------------------------------------------------ (c) the decoding oracle

fn panic_sig(p: &str) -> &'static str {
    if p.contains("multiply with overflow") || p.contains("insufficient items") || p.contains("cannot exceed isize") || p.contains("capacity overflow") {
        "decode-panic-count-overflow"
    } else if p.contains("height (") && p.contains("> data length") {
        "decode-panic-zero-width"
    } else {
        "decode-panic"
    }
}

fn err_class(e: &PnmError) -> &'static str {
    match e {
        PnmError::Io(_) => "result:Err(Io)",
        PnmError::Unsupported(_) => "result:Err(Unsupported)",
        PnmError::UnexpectedEnd => "result:Err(UnexpectedEnd)",
        PnmError::InvalidNumber => "result:Err(InvalidNumber)",
    }
}

fn fmt_class(b: &[u8]) -> &'static str {
    if b.len() < 2 || b[0] != b'P' {
        return "magic:none";
    }
    match b[1] {
        b'1' => "magic:P1",
        b'2' => "magic:P2",
        b'3' => "magic:P3",
        b'4' => "magic:P4",
        b'5' => "magic:P5",
        b'6' => "magic:P6",
        _ => "magic:P?",
    }
}

/// Panic messages can span lines (assert_eq!); keep failure messages on one line.
fn oneline(p: &str) -> String {
    p.split_whitespace().collect::<Vec<_>>().join(" ")
}

fn show(b: &[u8]) -> String {
    let n = b.len().min(48);
    format!("b\"{}\"{}", b[..n].escape_ascii(), if b.len() > n { format!("… ({} bytes)", b.len()) } else { String::new() })
}

/// The property's third clause on one byte string: decoding does not panic; on
/// Ok the image has data().len() == w*h, and its dims equal the header's when
/// the harness's strict header parser accepts the header.
pub fn check_bytes(bytes: &[u8], obs: &mut Obs) -> Check {
    let hdr = hparse(bytes);
    obs.class(fmt_class(bytes));
    if let Some(h) = hdr {
        obs.class("strict-header:accepted");
        match (h.w, h.h) {
            (0, 0) => obs.class("hdr-dims:0x0"),
            (0, _) => obs.class("hdr-dims:zero-width,h>0"),
            (_, 0) => obs.class("hdr-dims:w>0,zero-height"),
            _ => {}
        }
        let n = h.w.saturating_mul(h.h);
        if n > u32::MAX as u128 {
            obs.class("hdr-dims:product>u32::MAX");
        } else if n == u32::MAX as u128 {
            obs.class("hdr-dims:product==u32::MAX");
        } else if n > 1 << 20 {
            obs.class("hdr-dims:product>2^20");
        }
    }
    if supported_magic(bytes) {
        obs.nontrivial(hash_of(&bytes));
    }
    match catch(|| parse_pnm(bytes.iter().copied())) {
        Err(p) => {
            fail!(panic_sig(&p), "parse_pnm panicked on {}: {}", show(bytes), oneline(&p));
        }
        Ok(Err(e)) => obs.class(err_class(&e)),
        Ok(Ok(img)) => {
            obs.class("result:Ok");
            let (w, h) = img.dims();
            let n = img.data().len() as u128;
            ensure!(
                n == w as u128 * h as u128,
                "len-mismatch",
                "parse_pnm({}) returned dims {w}x{h} but data().len() == {n}",
                show(bytes)
            );
            if let Some(hd) = hdr {
                obs.class("result:Ok,dims-compared-with-strict-header");
                ensure!(
                    (w as u128, h as u128) == (hd.w, hd.h),
                    "dims-mismatch",
                    "parse_pnm({}) returned dims {w}x{h} but the header says {}x{}",
                    show(bytes),
                    hd.w,
                    hd.h
                );
            }
        }
    }
    Ok(())
}

/// Entry point of the libFuzzer target `pnm_decode`: same oracle as sub-check
/// (c). Aborts (= libFuzzer crash) on a violation unless its signature is an
/// open known finding.
pub fn fuzz_one(data: &[u8]) {
    use std::sync::OnceLock;
    static KNOWN: OnceLock<Findings> = OnceLock::new();
    let known = KNOWN.get_or_init(|| {
        // replace libfuzzer-sys' abort-on-any-panic hook: the oracle catches
        // decoder panics itself so that it can name (and tolerate open) findings
        install_silent_panic_hook();
        Findings::load()
    });
    let mut obs = Obs::new();
    obs.freeze();
    if let Err(f) = check_bytes(data, &mut obs) {
        if known.is_open(PROP, &f.sig) {
            return;
        }
        eprintln!("C13-FUZZ-VIOLATION sig={} :: {}", f.sig, f.msg);
        std::process::abort();
    }
}

// ------------------------------------------------------------------ generators: bytes, dims, gaps

fn ws_byte() -> impl Strategy<Value = u8> {
    select(vec![b' ', b'\n', b'\t', b'\r'])
}

/// Pixel/raster bytes: half of them look like header syntax.
fn adv_byte() -> impl Strategy<Value = u8> {
    (0u8..19, any::<u8>()).prop_map(|(k, v)| match k {
        0..=3 => b" \n\t\r\x0b\x0c"[(v % 6) as usize],
        4..=5 => b'#',
        6..=8 => b'0' + v % 10,
        9 => 0,
        10 => 255,
        11 => b"P+-"[(v % 3) as usize],
        _ => v,
    })
}

fn dim(max: u32) -> impl Strategy<Value = u32> {
    prop_oneof![
        1 => Just(0u32),
        3 => Just(1u32),
        2 => Just(2u32),
        6 => 1..=6u32,
        4 => 0..=max,
    ]
}

fn comment_byte() -> impl Strategy<Value = u8> {
    prop_oneof![
        3 => select(vec![b' ', b'\t', b'#', b'P', b'6', b'3']),
        3 => b'0'..=b'9',
        2 => 0x20u8..0x7f,
        2 => any::<u8>(),
    ]
    .prop_map(|b| if b == b'\n' || b == b'\r' { b'_' } else { b })
}

/// A separator between header fields: whitespace, and comments only after whitespace.
fn gap() -> impl Strategy<Value = Hex> {
    let item = prop_oneof![
        5 => ws_byte().prop_map(|b| vec![b]),
        2 => (ws_byte(), pvec(comment_byte(), 0..10)).prop_map(|(w, c)| {
            let mut v = vec![w, b'#'];
            v.extend(c);
            v.push(b'\n');
            v
        }),
    ];
    prop_oneof![
        3 => Just(Hex(vec![b' '])),
        1 => Just(Hex(vec![b'\n'])),
        5 => pvec(item, 1..=4).prop_map(|v| Hex(v.concat())),
    ]
}

fn valid_gap(g: &[u8]) -> bool {
    // a gap is valid iff the strict parser consumes it entirely between two numbers
    let mut f = b"P6".to_vec();
    f.extend_from_slice(g);
    f.extend_from_slice(b"1 1 1 ");
    hparse(&f).map_or(false, |h| h.w == 1 && h.h == 1)
}

// ------------------------------------------------------------------ (a) round trip

#[derive(Clone, Debug, Serialize, Deserialize, Hash)]
pub struct RtCase {
    /// backing buffer dims
    pub bw: u32,
    pub bh: u32,
    /// 3*bw*bh bytes, row-major RGB
    pub px: Hex,
    /// successive sub-rectangles [l, t, r, b] (each relative to the previous view); empty = the owned buffer itself
    pub rects: Vec<[u32; 4]>,
    /// how the image is handed to write_ppm (owned: 0 by value, 1 by reference, 2 as Slice2, 3 as MutSlice2; views: even Slice2, odd MutSlice2)
    pub via: u8,
    /// per rect, per axis: how the range is spelled (bit 0: open start when it is 0, bit 1: open end when it is the
    /// parent's extent, bit 2: inclusive end, bit 3: exclusive start); missing = plain `a..b`
    #[serde(default)]
    pub forms: Vec<[u8; 2]>,
    /// the `Write` sink: 0 = a Vec; k > 0 = a writer that accepts at most k bytes per `write` call (short writes,
    /// which `Write` permits) and, when bit 7 is set, returns `ErrorKind::Interrupted` now and then
    #[serde(default)]
    pub sink: u8,
}

/// A range in the spelling selected by `form` (always the same set of indices as `lo..hi`).
fn spelled(lo: u32, hi: u32, parent: u32, form: u8) -> (Bound<u32>, Bound<u32>) {
    let start = if form & 1 != 0 && lo == 0 {
        Bound::Unbounded
    } else if form & 8 != 0 && lo > 0 {
        Bound::Excluded(lo - 1)
    } else {
        Bound::Included(lo)
    };
    let end = if form & 2 != 0 && hi == parent {
        Bound::Unbounded
    } else if form & 4 != 0 && hi > 0 && hi > lo {
        Bound::Included(hi - 1)
    } else {
        Bound::Excluded(hi)
    };
    (start, end)
}

/// A `Write` that takes at most `max` bytes per call and is interrupted now and then.
struct Dribble {
    out: Vec<u8>,
    max: usize,
    intr: bool,
    calls: usize,
}

impl std::io::Write for Dribble {
    fn write(&mut self, buf: &[u8]) -> std::io::Result<usize> {
        self.calls += 1;
        if self.intr && self.calls % 5 == 3 {
            return Err(std::io::ErrorKind::Interrupted.into());
        }
        let n = buf.len().min(self.max);
        self.out.extend_from_slice(&buf[..n]);
        Ok(n)
    }
    fn flush(&mut self) -> std::io::Result<()> {
        Ok(())
    }
}

thread_local! {
    static SINK: std::cell::Cell<u8> = const { std::cell::Cell::new(0) };
}

fn rt_case() -> BoxedStrategy<RtCase> {
    // owned: (0, h>0) cannot be constructed (Buf2 rejects it, DESIGN D-h) => w == 0 forces h == 0
    let owned = (dim(24), dim(24), 0u8..4).prop_map(|(w, h, via)| (w, if w == 0 { 0 } else { h }, vec![], via));
    let m = || 0u32..=3;
    let view = (dim(24), dim(24), [m(), m(), m(), m()], 0u8..4).prop_map(|(w, h, [l, t, r, b], via)| {
        let (r, b) = (if l + w + r == 0 { 1 } else { r }, if t + h + b == 0 { 1 } else { b });
        (l + w + r, t + h + b, vec![[l, t, l + w, t + h]], via)
    });
    let nested = (dim(20), dim(20), [m(), m(), m(), m()], [m(), m(), m(), m()], 0u8..4).prop_map(|(w, h, [l, t, r, b], [l2, t2, r2, b2], via)| {
        let (w1, h1) = (l2 + w + r2, t2 + h + b2);
        let (r, b) = (if l + w1 + r == 0 { 1 } else { r }, if t + h1 + b == 0 { 1 } else { b });
        (l + w1 + r, t + h1 + b, vec![[l, t, l + w1, t + h1], [l2, t2, l2 + w, t2 + h]], via)
    });
    // long, thin images (a row or column of thousands of pixels: block sizes such as 4096 px or 12288 bytes are crossed),
    // owned or a window of a slightly larger buffer; their pixels are filled from a seed (see below)
    let long_side = prop_oneof![3 => proptest::sample::select(vec![4095u32, 4096, 4097, 4100, 8191, 8192, 8193, 12288, 12289]), 2 => 4000u32..=9000, 1 => 16000u32..=17000];
    let long = (long_side, 1u32..=3, any::<bool>(), 0u32..=2, 0u32..=2, 0u8..4).prop_map(|(l, s, transpose, ma, mb, via)| {
        let (w, h) = if transpose { (s, l) } else { (l, s) };
        if ma + mb == 0 {
            (w, h, vec![], via)
        } else {
            (w + ma + mb, h + ma + mb, vec![[ma, mb, ma + w, mb + h]], via)
        }
    });
    prop_oneof![30 => owned.boxed(), 40 => view.boxed(), 20 => nested.boxed(), 1 => long.boxed()]
        .prop_flat_map(|(bw, bh, rects, via)| {
            let n = (3 * bw * bh) as usize;
            let form = || prop_oneof![3 => Just(0u8), 2 => Just(3u8), 3 => 0u8..16];
            let sink = prop_oneof![4 => Just(0u8), 2 => 1u8..=4, 1 => (1u8..=7).prop_map(|k| k | 0x80), 1 => (5u8..=40)];
            // large images: one generated byte pattern of 64 bytes, repeated with a running counter mixed in
            let px = if n > 8192 {
                (pvec(adv_byte(), 64), any::<u64>()).prop_map(move |(pat, seed)| {
                    let mut sm = Sm(seed);
                    (0..n).map(|i| if i % 7 == 3 { (sm.next() >> 56) as u8 } else { pat[i % 64] }).collect::<Vec<u8>>()
                }).boxed()
            } else {
                pvec(adv_byte(), n).boxed()
            };
            (Just((bw, bh, rects, via)), px, pvec([form(), form()], 2), sink)
        })
        .prop_map(|((bw, bh, rects, via), px, forms, sink)| RtCase { bw, bh, px: Hex(px), rects, via, forms, sink })
        .boxed()
}

fn encode_with<S: AsSlice2<Color3>>(s: S) -> Result<Vec<u8>, String> {
    let sink = SINK.with(|c| c.get());
    if sink == 0 {
        let mut out = Vec::new();
        write_ppm(&mut out, s).map_err(|e| format!("io error {e}"))?;
        Ok(out)
    } else {
        let mut out = Dribble { out: Vec::new(), max: (sink & 0x7f) as usize, intr: sink & 0x80 != 0, calls: 0 };
        write_ppm(&mut out, s).map_err(|e| format!("io error {e}"))?;
        Ok(out.out)
    }
}

fn first_byte_class(b: Option<u8>) -> (&'static str, bool) {
    match b {
        None => ("first-raster-byte:none", false),
        Some(b' ' | b'\t' | b'\n' | b'\r' | 0x0B | 0x0C) => ("first-raster-byte:whitespace", true),
        Some(b'#') => ("first-raster-byte:#", true),
        Some(b'0'..=b'9') => ("first-raster-byte:digit", true),
        Some(_) => ("first-raster-byte:other", false),
    }
}

fn dims_class(w: u32, h: u32) -> &'static str {
    match (w, h) {
        (0, 0) => "dims:0x0",
        (0, _) => "dims:zero-width,h>0",
        (_, 0) => "dims:w>0,zero-height",
        (1, 1) => "dims:1x1",
        (1, _) | (_, 1) => "dims:one-row-or-column",
        _ => "dims:general",
    }
}

/// Decodes with parse_pnm and read_pnm; both must not panic and must agree.
fn decode_both(file: &[u8], what: &str) -> Result<Result<((u32, u32), Vec<[u8; 3]>), PnmError>, Fail> {
    let unpack = |r: Result<Buf2<Color3>, PnmError>| r.map(|img| (img.dims(), img.data().iter().map(|c| c.0).collect::<Vec<_>>()));
    let a = match catch(|| parse_pnm(file.iter().copied())) {
        Ok(r) => unpack(r),
        Err(p) => return Err(Fail::new(panic_sig(&p), format!("parse_pnm panicked on {what} {}: {}", show(file), oneline(&p)))),
    };
    // read_pnm: straight from the slice, or (decided by the content) through a reader that returns 1..7 bytes per call
    // and is interrupted now and then
    let chunked = hash_of(&file) & 0x30 == 0;
    let b = match catch(|| if chunked { read_pnm(ChunkReader::for_content(file)) } else { read_pnm(file) }) {
        Ok(r) => unpack(r),
        Err(p) => return Err(Fail::new(panic_sig(&p), format!("read_pnm panicked on {what} {}: {}", show(file), oneline(&p)))),
    };
    if a != b {
        return Err(Fail::new("read-vs-parse", format!("read_pnm and parse_pnm disagree on {what} {}: {:?} vs {:?}", show(file), b.as_ref().map(|x| x.0), a.as_ref().map(|x| x.0))));
    }
    if let Ok(((w, h), d)) = &a {
        if d.len() as u128 != *w as u128 * *h as u128 {
            return Err(Fail::new("len-mismatch", format!("decoded {what}: dims {w}x{h} but {} pixels", d.len())));
        }
    }
    Ok(a)
}

pub fn check_roundtrip(c: &RtCase, obs: &mut Obs) -> Check {
    // ---- model of the view: plain index arithmetic on the byte array
    let (bw, bh) = (c.bw, c.bh);
    ensure!(c.px.0.len() == (3 * bw * bh) as usize && bw as u64 * bh as u64 <= 200_000, "bad-case", "pixel array does not match the backing dims");
    ensure!(bw > 0 || bh == 0, "bad-case", "an owned (0, h>0) buffer cannot be constructed");
    ensure!(c.rects.len() <= 2, "bad-case", "at most two nesting levels");
    let (mut x0, mut y0, mut w, mut h) = (0u32, 0u32, bw, bh);
    for r in &c.rects {
        let [l, t, rr, b] = *r;
        ensure!(l <= rr && rr <= w && t <= b && b <= h, "bad-case", "rect {r:?} outside its parent {w}x{h}");
        x0 += l;
        y0 += t;
        w = rr - l;
        h = b - t;
    }
    let mut expect: Vec<[u8; 3]> = Vec::with_capacity((w * h) as usize);
    for y in 0..h {
        for x in 0..w {
            let i = (((y0 + y) * bw + x0 + x) * 3) as usize;
            expect.push([c.px.0[i], c.px.0[i + 1], c.px.0[i + 2]]);
        }
    }
    // ---- the real thing
    let pix: Vec<Color3> = c.px.0.chunks(3).map(|p| rgb(p[0], p[1], p[2])).collect();
    // parent extents of each rect, for the open-ended spellings
    let mut parents = vec![];
    {
        let (mut pw, mut ph) = (bw, bh);
        for r in &c.rects {
            parents.push((pw, ph));
            pw = r[2] - r[0];
            ph = r[3] - r[1];
        }
    }
    let rg = |k: usize| {
        let (r, f, (pw, ph)) = (&c.rects[k], c.forms.get(k).copied().unwrap_or([0, 0]), parents[k]);
        (spelled(r[0], r[2], pw, f[0]), spelled(r[1], r[3], ph, f[1]))
    };
    ensure!(c.sink & 0x7f != 0 || c.sink == 0, "bad-case", "a sink that accepts 0 bytes per call is not a valid writer");
    SINK.with(|s| s.set(c.sink));
    // stage 0: constructing the buffer / view (C11's business), stage 1: write_ppm
    let stage = std::cell::Cell::new(0u8);
    let written = catch(|| {
        let mut buf = Buf2::new_from((bw, bh), pix);
        let strided;
        let out = match (c.rects.len(), c.via % 2) {
            (0, _) => {
                strided = false;
                stage.set(1);
                match c.via % 4 {
                    0 => encode_with(buf.clone()),
                    1 => encode_with(&buf),
                    2 => encode_with(buf.as_slice2()),
                    _ => encode_with(buf.as_mut_slice2()),
                }
            }
            (1, 0) => {
                let s = buf.slice(rg(0));
                strided = !s.is_contiguous();
                stage.set(1);
                encode_with(s)
            }
            (1, _) => {
                let s = buf.slice_mut(rg(0));
                strided = !s.is_contiguous();
                stage.set(1);
                encode_with(s)
            }
            (_, 0) => {
                let s = buf.slice(rg(0));
                let s = s.slice(rg(1));
                strided = !s.is_contiguous();
                stage.set(1);
                encode_with(s)
            }
            _ => {
                let mut s = buf.slice_mut(rg(0));
                let s = s.slice_mut(rg(1));
                strided = !s.is_contiguous();
                stage.set(1);
                encode_with(s)
            }
        };
        (out, strided)
    });
    let (file, strided) = match written {
        Ok((Ok(f), s)) => (f, s),
        Ok((Err(e), _)) => fail!("write-error", "write_ppm into a Vec failed: {e}"),
        Err(p) if stage.get() == 0 => {
            // the view itself could not be made. Some empty views are rejected by the slice constructor (zero width
            // with too little backing data: DESIGN D-h; an empty row range at the bottom edge with left > 0 indexes
            // past the data) — a panic there is C11's domain: no image exists, so there is nothing to write
            if w == 0 || h == 0 {
                obs.excluded("empty view rejected by the Slice2 constructor / slice() (C11's domain, D-h): no image to write");
                return Ok(());
            }
            fail!("view-construction-panic", "slicing a {bw}x{bh} buffer with in-bounds rects {:?} panicked: {}", c.rects, oneline(&p));
        }
        Err(p) => {
            let sig = if p.contains("chunk size") { "write-panic-zero-stride" } else { "write-panic" };
            fail!(sig, "write_ppm panicked for a {w}x{h} image (backing {bw}x{bh}, rects {:?}): {}", c.rects, oneline(&p));
        }
    };
    // the output is a binary PPM whose header states the image's dimensions
    let hd = hparse(&file);
    ensure!(
        hd.map_or(false, |hd| hd.fmt == 6 && (hd.w, hd.h) == (w as u128, h as u128) && hd.max == 255),
        "written-header",
        "write_ppm of a {w}x{h} image produced the header {} (read as {hd:?})",
        show(&file[..file.len().min(24)])
    );
    let off = hd.unwrap().data;
    let raster = &file[off..];
    if raster.len() != (3 * w * h) as usize {
        // not asserted by the property (decoders ignore trailing bytes); recorded only
        obs.class("observed:raster-length-differs-from-3wh");
    }
    let (fbc, adversarial) = first_byte_class(raster.first().copied());
    let decoded = decode_both(&file, "written file")?;
    obs.class(match c.rects.len() {
        0 => "image:owned",
        1 => "image:view",
        _ => "image:nested-view",
    });
    obs.class(dims_class(w, h));
    if w.max(h) > 4000 {
        obs.class("dims:a side of more than 4000 pixels");
    }
    obs.class(fbc);
    if strided {
        obs.class("image:strided(non-contiguous)");
    }
    obs.class(match c.sink {
        0 => "sink:Vec",
        k if k & 0x80 != 0 => "sink:short-writes+interrupted",
        k if k < 3 => "sink:short-writes(<3 bytes per call)",
        _ => "sink:short-writes",
    });
    if c.rects.iter().zip(&c.forms).any(|(_, f)| (f[0] | f[1]) & 3 != 0) {
        obs.class("range:spelled-with-open-end-flags");
    }
    if c.rects.len() == 2 && c.forms.len() == 2 && ((c.forms[1][0] & 2 != 0 && c.rects[1][2] == parents[1].0) || (c.forms[1][1] & 2 != 0 && c.rects[1][3] == parents[1].1)) {
        obs.class("range:nested-view-open-ended(l.. of a strided parent)");
    }
    if w == 0 && h > 0 {
        // Buf2 cannot represent a (0, h>0) image (constructor rejects it, DESIGN D-h), so the decoder cannot
        // return one: only "no panic; Ok => same dims" is asserted here
        obs.excluded("zero-width view with h>0: result type cannot hold it; only no-panic / Ok=>same dims asserted");
        if let Ok((d, _)) = decoded {
            ensure!(d == (w, h), "roundtrip-dims", "wrote {w}x{h}, read back {}x{}", d.0, d.1);
        }
        return Ok(());
    }
    match decoded {
        Err(e) => fail!("roundtrip-error", "a {w}x{h} image written by write_ppm does not read back: {e:?}; file {}", show(&file)),
        Ok((d, data)) => {
            ensure!(d == (w, h), "roundtrip-dims", "wrote {w}x{h}, read back {}x{}", d.0, d.1);
            if let Some(i) = (0..data.len()).find(|&i| data[i] != expect[i]) {
                fail!(
                    "roundtrip-pixels",
                    "wrote {w}x{h}; pixel {i} (x={}, y={}) reads back as {:?}, expected {:?}",
                    i as u32 % w,
                    i as u32 / w,
                    data[i],
                    expect[i]
                );
            }
        }
    }
    if w * h >= 1 && (adversarial || strided) {
        obs.nontrivial(hash_of(c));
    }
    if obs.wants_sample() && w * h >= 1 && w * h <= 6 && adversarial {
        obs.sample(|| json!({"backing": [bw, bh], "rects": c.rects, "via": c.via, "file": format!("{}", file.escape_ascii())}));
    }
    Ok(())
}

// ------------------------------------------------------------------ (b) re-encoding

#[derive(Clone, Debug, Serialize, Deserialize, Hash)]
pub struct EncCase {
    pub w: u32,
    pub h: u32,
    /// true: P5/P2 (one sample per pixel), false: P6/P3
    pub gray: bool,
    pub max: u16,
    /// w*h (gray) or 3*w*h samples, each <= max
    pub px: Hex,
    /// gaps magic|w, w|h, h|maxval in the binary file, and the single whitespace byte after maxval
    pub bin_gaps: [Hex; 3],
    pub bin_fin: u8,
    /// the same for the text file; `txt_fin` is the non-empty whitespace run after maxval
    pub txt_gaps: [Hex; 3],
    pub txt_fin: Hex,
    /// sample separators: 0 " ", 1 " " and "\n" per row, 2 "\n", 3 "\r\n", 4 "\t", 5 random whitespace runs from `txt_seed`
    pub txt_style: u8,
    pub txt_seed: u64,
    /// whitespace after the last sample (may be empty: end of input right after a digit)
    pub txt_tail: Hex,
    /// leading zeros written before header fields / text samples (a decimal number may be spelled with any number of
    /// them): [binary header, text header, text samples], 0..=12 each
    #[serde(default)]
    pub zero_pad: [u8; 3],
}

fn enc_case() -> BoxedStrategy<EncCase> {
    let maxv = prop_oneof![3 => Just(255u16), 1 => 1u16..=255];
    (
        (dim(24), dim(24), any::<bool>(), maxv),
        [gap(), gap(), gap()],
        ws_byte(),
        [gap(), gap(), gap()],
        pvec(ws_byte(), 1..=3),
        (0u8..6, any::<u64>()),
        (pvec(ws_byte(), 0..=2), prop_oneof![3 => Just([0u8; 3]), 2 => [0u8..=12, 0u8..=12, 0u8..=12]]),
    )
        .prop_flat_map(|(head, bg, bf, tg, tf, style, tail)| {
            let (w, h, gray, _) = head;
            let n = (w * h * if gray { 1 } else { 3 }) as usize;
            (Just((head, bg, bf, tg, tf, style, tail)), pvec(adv_byte(), n))
        })
        .prop_map(|(((w, h, gray, max), bin_gaps, bin_fin, txt_gaps, tf, (txt_style, txt_seed), (tail, zero_pad)), px)| {
            let px = if max == 255 { px } else { px.into_iter().map(|b| (b as u16 % (max + 1)) as u8).collect() };
            EncCase { w, h, gray, max, px: Hex(px), bin_gaps, bin_fin, txt_gaps, txt_fin: Hex(tf), txt_style, txt_seed, txt_tail: Hex(tail), zero_pad }
        })
        .boxed()
}

fn put_header(o: &mut Vec<u8>, magic: &[u8], gaps: &[Hex; 3], w: u32, h: u32, max: u16, pad: u8) {
    let z = vec![b'0'; pad as usize];
    o.extend_from_slice(magic);
    o.extend_from_slice(&gaps[0].0);
    o.extend_from_slice(&z);
    o.extend_from_slice(w.to_string().as_bytes());
    o.extend_from_slice(&gaps[1].0);
    o.extend_from_slice(&z);
    o.extend_from_slice(h.to_string().as_bytes());
    o.extend_from_slice(&gaps[2].0);
    o.extend_from_slice(&z);
    o.extend_from_slice(max.to_string().as_bytes());
}

/// The harness's own encoders (independent of write_ppm).
pub fn encode_binary(c: &EncCase) -> Vec<u8> {
    let mut o = Vec::new();
    put_header(&mut o, if c.gray { b"P5" } else { b"P6" }, &c.bin_gaps, c.w, c.h, c.max, c.zero_pad[0]);
    o.push(c.bin_fin);
    o.extend_from_slice(&c.px.0);
    o
}

pub fn encode_text(c: &EncCase) -> Vec<u8> {
    let mut o = Vec::new();
    put_header(&mut o, if c.gray { b"P2" } else { b"P3" }, &c.txt_gaps, c.w, c.h, c.max, c.zero_pad[1]);
    o.extend_from_slice(&c.txt_fin.0);
    let row = (c.w * if c.gray { 1 } else { 3 }).max(1) as usize;
    let mut sm = Sm(c.txt_seed);
    for (i, s) in c.px.0.iter().enumerate() {
        if i > 0 {
            match c.txt_style {
                0 => o.push(b' '),
                1 => o.push(if i % row == 0 { b'\n' } else { b' ' }),
                2 => o.push(b'\n'),
                3 => o.extend_from_slice(b"\r\n"),
                4 => o.push(b'\t'),
                _ => {
                    for _ in 0..1 + sm.below(3) {
                        o.push(b" \n\t\r"[sm.below(4) as usize]);
                    }
                }
            }
        }
        // every third sample carries the leading zeros
        if c.zero_pad[2] > 0 && i % 3 == (c.txt_seed % 3) as usize {
            o.extend(std::iter::repeat(b'0').take(c.zero_pad[2] as usize));
        }
        o.extend_from_slice(s.to_string().as_bytes());
    }
    if !c.px.0.is_empty() {
        o.extend_from_slice(&c.txt_tail.0);
    }
    o
}

pub fn check_encodings(c: &EncCase, obs: &mut Obs) -> Check {
    let (w, h) = (c.w, c.h);
    let per = if c.gray { 1 } else { 3 };
    ensure!(w <= 64 && h <= 64 && c.px.0.len() == (w * h * per) as usize, "bad-case", "sample array does not match the dims");
    ensure!((1..=255).contains(&c.max) && c.px.0.iter().all(|&b| b as u16 <= c.max), "bad-case", "samples exceed maxval, or maxval outside 1..=255");
    ensure!(c.zero_pad.iter().all(|&z| z <= 16), "bad-case", "too many leading zeros");
    ensure!(c.bin_gaps.iter().chain(c.txt_gaps.iter()).all(|g| valid_gap(&g.0)), "bad-case", "a header gap is not whitespace + whitespace-preceded comments");
    ensure!(is_ws(c.bin_fin) && !c.txt_fin.0.is_empty() && c.txt_fin.0.iter().chain(c.txt_tail.0.iter()).all(|&b| is_ws(b)), "bad-case", "terminators must be whitespace");
    let bin = encode_binary(c);
    let txt = encode_text(c);
    // self-check of the harness: its strict parser reads back what its encoder wrote
    for (f, m) in [(&bin, if c.gray { 5 } else { 6 }), (&txt, if c.gray { 2 } else { 3 })] {
        let hd = hparse(f);
        ensure!(hd.map_or(false, |x| x.fmt == m && (x.w, x.h, x.max) == (w as u128, h as u128, c.max as u128)), "bad-case", "harness encoder and header parser disagree: {hd:?} on {}", show(f));
    }
    let source: Vec<[u8; 3]> = if c.gray { c.px.0.iter().map(|&v| [v, v, v]).collect() } else { c.px.0.chunks(3).map(|p| [p[0], p[1], p[2]]).collect() };
    let db = decode_both(&bin, if c.gray { "P5 file" } else { "P6 file" })?;
    let dt = decode_both(&txt, if c.gray { "P2 file" } else { "P3 file" })?;

    obs.class(if c.gray { "pair:P5/P2" } else { "pair:P6/P3" });
    obs.class(dims_class(w, h));
    obs.class(if c.max == 255 { "maxval:255" } else { "maxval:<255 (binary==text only)" });
    let has_comment = c.bin_gaps.iter().chain(c.txt_gaps.iter()).any(|g| g.0.contains(&b'#'));
    let long_gap = c.bin_gaps.iter().chain(c.txt_gaps.iter()).any(|g| g.0.len() > 1);
    if has_comment {
        obs.class("header:has-comment");
    }
    if c.zero_pad.iter().any(|&z| z >= 8) {
        obs.class("numbers:>= 8 leading zeros somewhere");
    } else if c.zero_pad.iter().any(|&z| z > 0) {
        obs.class("numbers:1..7 leading zeros somewhere");
    }
    if long_gap {
        obs.class("header:multi-byte-gap");
    }
    let (fbc, adversarial) = first_byte_class(c.px.0.first().copied());
    obs.class(fbc);
    obs.class(match c.txt_style {
        0 => "text-sep:space",
        1 => "text-sep:rows",
        2 => "text-sep:lf",
        3 => "text-sep:crlf",
        4 => "text-sep:tab",
        _ => "text-sep:random-runs",
    });
    if !c.px.0.is_empty() && c.txt_tail.0.is_empty() {
        obs.class("text:end-of-input-right-after-last-digit");
    }

    if w == 0 && h > 0 {
        obs.excluded("zero-width image with h>0: result type cannot hold it; only no-panic / Ok=>same dims asserted");
        for d in [&db, &dt] {
            if let Ok((d, _)) = d {
                ensure!(*d == (w, h), "reencode-dims", "header says {w}x{h}, decoded {}x{}", d.0, d.1);
            }
        }
        return Ok(());
    }
    let (db, dt) = match (db, dt) {
        (Ok(a), Ok(b)) => (a, b),
        (a, b) => fail!(
            "reencode-error",
            "a valid {w}x{h} {} image does not decode: binary -> {:?}, text -> {:?}; binary file {}, text file {}",
            if c.gray { "grey" } else { "RGB" },
            a.as_ref().map(|x| x.0),
            b.as_ref().map(|x| x.0),
            show(&bin),
            show(&txt)
        ),
    };
    ensure!(db.0 == (w, h), "reencode-dims", "binary file: header says {w}x{h}, decoded {}x{}; file {}", db.0 .0, db.0 .1, show(&bin));
    ensure!(dt.0 == (w, h), "reencode-dims", "text file: header says {w}x{h}, decoded {}x{}; file {}", dt.0 .0, dt.0 .1, show(&txt));
    if let Some(i) = (0..db.1.len()).find(|&i| db.1[i] != dt.1[i]) {
        fail!("reencode-text-vs-binary", "pixel {i}: binary decodes to {:?}, text to {:?}; binary file {}, text file {}", db.1[i], dt.1[i], show(&bin), show(&txt));
    }
    if c.max == 255 {
        if let Some(i) = (0..db.1.len()).find(|&i| db.1[i] != source[i]) {
            fail!("reencode-vs-source", "pixel {i}: decoded {:?}, source {:?}; binary file {}", db.1[i], source[i], show(&bin));
        }
    }
    if w * h >= 1 && (adversarial || has_comment || long_gap) {
        obs.nontrivial(hash_of(c));
    }
    if obs.wants_sample() && w * h >= 1 && w * h <= 4 && has_comment {
        obs.sample(|| json!({"binary": format!("{}", bin.escape_ascii()), "text": format!("{}", txt.escape_ascii())}));
    }
    Ok(())
}

// ------------------------------------------------------------------ (c) mutated and arbitrary byte strings

#[derive(Clone, Debug, Serialize, Deserialize)]
pub struct BytesCase {
    /// how the input was made (informational)
    pub kind: String,
    pub bytes: Hex,
}

#[derive(Clone, Debug)]
struct Base {
    fmt: u8,
    w: u32,
    h: u32,
    max: u16,
    gaps: [Hex; 3],
    fin: Vec<u8>,
    /// raw material for the raster (and for insertions)
    px: Vec<u8>,
}

#[derive(Clone, Debug)]
enum Mu {
    None,
    Truncate(u16),
    Field(u8, &'static [u8]),
    Dims(&'static [u8], &'static [u8]),
    Magic(Vec<u8>),
    Dup(u16, u16, u16),
    Flip(Vec<(u16, u8)>),
    Insert(u16, Vec<u8>),
    Delete(u16, u16),
    HeaderByte(u16, u8),
    RasterLen(i8),
    Arbitrary(Vec<u8>),
    MagicArbitrary(u8, Vec<u8>),
}

const FIELD_TOKENS: &[&[u8]] = &[
    b"0", b"00", b"1", b"2", b"7", b"007", b"00000000003", b"0000000000000000000002", b"00000000000", b"000000000255", b"255", b"256", b"65535", b"65536", b"65537", b"2147483647", b"2147483648", b"4294967295",
    b"4294967296", b"4294967297", b"18446744073709551616", b"99999999999999999999999", b"-1", b"-0", b"+3", b"abc", b"", b"1.5", b"0x10",
    b"1e3", b"\xff", b"1#", b"#", b"1_0", b"\xd9\xa3",
];

const DIM_PAIRS: &[(&[u8], &[u8])] = &[
    (b"65536", b"65536"),
    (b"65536", b"65537"),
    (b"65537", b"65535"),
    (b"65536", b"65535"),
    (b"4294967295", b"4294967295"),
    (b"2147483648", b"2"),
    (b"3", b"1431655766"),
    (b"1431655766", b"3"),
    (b"0", b"0"),
    (b"0", b"1"),
    (b"0", b"5"),
    (b"5", b"0"),
    (b"0", b"4294967295"),
    (b"4294967295", b"0"),
    (b"1", b"4294967295"),
    (b"4294967295", b"1"),
    (b"4294967296", b"0"),
    (b"0", b"4294967296"),
];

fn base_file() -> impl Strategy<Value = Base> {
    (2u8..=6, dim(6), dim(6), prop_oneof![3 => Just(255u16), 1 => 0u16..=300, 1 => Just(65535u16)], [gap(), gap(), gap()], pvec(ws_byte(), 1..=2), pvec(adv_byte(), 24))
        .prop_map(|(fmt, w, h, max, gaps, fin, px)| Base { fmt, w, h, max, gaps, fin, px })
}

fn mutation() -> impl Strategy<Value = Mu> {
    let p = || any::<u16>();
    prop_oneof![
        2 => Just(Mu::None),
        4 => p().prop_map(Mu::Truncate),
        5 => (0u8..3, select(FIELD_TOKENS)).prop_map(|(k, t)| Mu::Field(k, t)),
        3 => select(DIM_PAIRS).prop_map(|(a, b)| Mu::Dims(a, b)),
        2 => prop_oneof![
            (b'0'..=b'9').prop_map(|d| vec![b'P', d]),
            Just(b"p6".to_vec()),
            Just(b"P".to_vec()),
            Just(vec![]),
            pvec(any::<u8>(), 2),
        ].prop_map(Mu::Magic),
        2 => (p(), p(), p()).prop_map(|(a, b, c)| Mu::Dup(a, b, c)),
        4 => pvec((p(), 0u8..8), 1..=4).prop_map(Mu::Flip),
        3 => (p(), pvec(adv_byte(), 1..=6)).prop_map(|(a, v)| Mu::Insert(a, v)),
        3 => (p(), p()).prop_map(|(a, b)| Mu::Delete(a, b)),
        4 => (p(), adv_byte()).prop_map(|(a, b)| Mu::HeaderByte(a, b)),
        3 => (-4i8..=4).prop_map(Mu::RasterLen),
        2 => pvec(adv_byte(), 0..48).prop_map(Mu::Arbitrary),
        3 => (1u8..=7, pvec(adv_byte(), 0..48)).prop_map(|(m, v)| Mu::MagicArbitrary(m, v)),
    ]
}

/// monotone index map (shrinks towards 0)
fn at(frac: u16, len: usize) -> usize {
    (frac as usize * (len + 1)) >> 16
}

/// Number of raster bytes (binary) or sample tokens (text) the decoder needs.
fn raster_units(fmt: u8, w: u32, h: u32) -> usize {
    let n = (w * h) as usize;
    match fmt {
        6 | 3 => 3 * n,
        4 => (n + 7) / 8,
        _ => n,
    }
}

fn build(b: &Base, m: &Mu) -> BytesCase {
    let kind: &str;
    let mut magic = vec![b'P', b'0' + b.fmt];
    let mut toks: [Vec<u8>; 3] = [b.w.to_string().into_bytes(), b.h.to_string().into_bytes(), b.max.to_string().into_bytes()];
    let mut units = raster_units(b.fmt, b.w, b.h);
    match m {
        Mu::Field(k, t) => {
            toks[*k as usize] = t.to_vec();
        }
        Mu::Dims(x, y) => {
            toks[0] = x.to_vec();
            toks[1] = y.to_vec();
        }
        Mu::Magic(x) => magic = x.clone(),
        Mu::RasterLen(d) => units = (units as i64 + *d as i64).max(0) as usize,
        _ => {}
    }
    let mut f = magic;
    f.extend_from_slice(&b.gaps[0].0);
    f.extend_from_slice(&toks[0]);
    f.extend_from_slice(&b.gaps[1].0);
    f.extend_from_slice(&toks[1]);
    if b.fmt != 4 {
        f.extend_from_slice(&b.gaps[2].0);
        f.extend_from_slice(&toks[2]);
    }
    let binary = b.fmt >= 4;
    if binary {
        f.push(b.fin[0]);
    } else {
        f.extend_from_slice(&b.fin);
    }
    let hdr_len = f.len();
    for i in 0..units {
        let v = b.px[i % b.px.len()];
        if binary {
            f.push(v);
        } else {
            if i > 0 {
                f.push(if i % 5 == 4 { b'\n' } else { b' ' });
            }
            f.extend_from_slice(v.to_string().as_bytes());
        }
    }
    match m {
        Mu::None => kind = "valid",
        Mu::Field(..) => kind = "field-replaced",
        Mu::Dims(..) => kind = "extreme-dims",
        Mu::Magic(_) => kind = "magic-replaced",
        Mu::RasterLen(_) => kind = "raster-length",
        Mu::Truncate(p) => {
            kind = "truncated";
            let n = at(*p, f.len().saturating_sub(1));
            f.truncate(n);
        }
        Mu::Dup(a, b2, c) => {
            kind = "chunk-duplicated";
            let (i, j) = (at(*a, f.len()), at(*b2, f.len()));
            let (i, j) = (i.min(j), i.max(j).min(i.min(j) + 32));
            let chunk = f[i..j].to_vec();
            let k = at(*c, f.len());
            f.splice(k..k, chunk);
        }
        Mu::Flip(v) => {
            kind = "bit-flips";
            for (p, bit) in v {
                if !f.is_empty() {
                    let i = at(*p, f.len() - 1);
                    f[i] ^= 1 << bit;
                }
            }
        }
        Mu::Insert(p, v) => {
            kind = "bytes-inserted";
            let k = at(*p, f.len());
            f.splice(k..k, v.iter().copied());
        }
        Mu::Delete(a, b2) => {
            kind = "range-deleted";
            let (i, j) = (at(*a, f.len()), at(*b2, f.len()));
            let (i, j) = (i.min(j), i.max(j).min(i.min(j) + 16));
            f.drain(i..j);
        }
        Mu::HeaderByte(p, v) => {
            kind = "header-byte-replaced";
            let i = at(*p, hdr_len.saturating_sub(1));
            if i < f.len() {
                f[i] = *v;
            }
        }
        Mu::Arbitrary(v) => {
            kind = "arbitrary";
            f = v.clone();
        }
        Mu::MagicArbitrary(d, v) => {
            kind = "magic+arbitrary";
            f = vec![b'P', b'0' + d];
            f.extend_from_slice(v);
        }
    }
    BytesCase { kind: kind.to_string(), bytes: Hex(f) }
}

fn bytes_case() -> BoxedStrategy<BytesCase> {
    (base_file(), mutation()).prop_map(|(b, m)| build(&b, &m)).boxed()
}

fn kind_class(k: &str) -> &'static str {
    match k {
        "valid" => "mutation:none(valid)",
        "truncated" => "mutation:truncated",
        "field-replaced" => "mutation:field-replaced",
        "extreme-dims" => "mutation:extreme-dims",
        "magic-replaced" => "mutation:magic-replaced",
        "chunk-duplicated" => "mutation:chunk-duplicated",
        "bit-flips" => "mutation:bit-flips",
        "bytes-inserted" => "mutation:bytes-inserted",
        "range-deleted" => "mutation:range-deleted",
        "header-byte-replaced" => "mutation:header-byte-replaced",
        "raster-length" => "mutation:raster-length",
        "arbitrary" => "mutation:arbitrary",
        "magic+arbitrary" => "mutation:magic+arbitrary",
        _ => "mutation:other",
    }
}

pub fn check_bytes_case(c: &BytesCase, obs: &mut Obs) -> Check {
    obs.class(kind_class(&c.kind));
    check_bytes(&c.bytes.0, obs)?;
    if obs.wants_sample() && supported_magic(&c.bytes.0) && c.bytes.0.len() <= 40 {
        obs.sample(|| json!({"kind": c.kind, "bytes": format!("{}", c.bytes.0.escape_ascii())}));
    }
    Ok(())
}

// ------------------------------------------------------------------ literals / seed corpus

/// The crate's unit-test files, boundary headers made by hand, and a few
/// generated files. Used by the `literals` sub-check and as libFuzzer seeds.
pub fn seed_corpus() -> Vec<(String, Vec<u8>)> {
    let mut v: Vec<(String, Vec<u8>)> = vec![];
    let lits: &[(&str, &[u8])] = &[
        ("test-p2", b"P2 2 2 128 \n 12 34 56 78"),
        ("test-p3", b"P3 2 2 256 \n 0 0 0   123 0 42   0 64 128   255 255 255"),
        ("test-p3-truncated", b"P3 2 2 256 \n 0 0 0   123 0 42   0 64 128"),
        ("test-p4", b"P4 4 2\n\x69"),
        ("test-p5", b"P5 2 2 255\n\x01\x23\x45\x67"),
        ("test-p6", b"P6 2 2 255\n\x01\x12\x23\x34\x45\x56\x67\x78\x89\x9A\xAB\xBC"),
        ("test-write-ppm", b"P6 2 2 255\n\xFF\x00\x00\x00\xFF\x00\x00\x00\xFF\xFF\xFF\x00"),
        ("test-header-whitespace", b"P6 123\t \n\r321      255 "),
        ("test-header-comment", b"P6 # foo 42\n 123\n#bar\n#baz\n321 255 "),
        ("test-header-p4", b"P4 123 456 "),
        ("test-header-p5", b"P5 123 456 789 "),
        ("test-p7", b"P7 1 1 1 "),
        ("test-foo", b"FOO"),
        ("test-bad-dims-1", b"P5 abc 1 1 "),
        ("test-bad-dims-2", b"P5 1 1 "),
        ("test-bad-dims-3", b"P6 1 -1 1 "),
        ("empty", b""),
        ("magic-only", b"P6"),
        ("p1", b"P1 2 2\n0 1 1 0"),
        ("zero-0x0", b"P6 0 0 255\n"),
        ("zero-height", b"P6 5 0 255\n"),
        ("zero-width", b"P6 0 5 255\n"),
        ("zero-width-p5", b"P5 0 3 255\nabc"),
        ("zero-width-p4", b"P4 0 3\n\xff"),
        ("zero-width-p3", b"P3 0 2 255\n"),
        ("zero-width-p2", b"P2 0 2 255\n1 2"),
        ("count-overflow-2^32", b"P6 65536 65536 255\n"),
        ("count-overflow-wraps-to-2", b"P5 3 1431655766 255\nabcdef"),
        ("count-overflow-p2", b"P2 65536 65537 255\n1 2 3"),
        ("count-overflow-p4", b"P4 4294967295 4294967295\n\x00\x00"),
        ("count-u32-max", b"P5 65537 65535 255\nabc"),
        ("count-just-below-2^32", b"P6 65536 65535 255\nabc"),
        ("dim-2^32", b"P6 4294967296 1 255\nabc"),
        ("maxval-65535", b"P5 1 1 65535\n\x00\x01"),
        ("maxval-65536", b"P5 1 1 65536\n\x00\x01"),
        ("maxval-0", b"P5 1 1 0\n\x00"),
        ("sample-256", b"P2 1 1 255\n256"),
        ("raster-starts-with-whitespace", b"P6 1 1 255\n\n #"),
        ("raster-starts-with-digits", b"P5 3 1 255 123"),
        ("p4-row-padding", b"P4 3 2\n\xa0\x40"),
        ("comment-after-number", b"P6 1#c\n1 255\nabc"),
        ("plus-sign", b"P5 +1 +1 255\nx"),
    ];
    for (n, b) in lits {
        v.push((n.to_string(), b.to_vec()));
    }
    // a few generated files (fixed parameters, both encoders)
    let g = |s: &[u8]| Hex(s.to_vec());
    for (k, (w, h, gray, max)) in [(3u32, 2u32, false, 255u16), (4, 3, true, 255), (1, 5, false, 99), (7, 1, true, 200)].into_iter().enumerate() {
        let per = if gray { 1 } else { 3 };
        let mut sm = Sm(1234 + k as u64);
        let px: Vec<u8> = (0..w * h * per).map(|_| (sm.below(max as u64 + 1)) as u8).collect();
        let c = EncCase {
            w,
            h,
            gray,
            max,
            px: Hex(px),
            bin_gaps: [g(b"\n"), g(b" # width then height\n"), g(b"\n#c\n# d 7\n \t")],
            bin_fin: b'\n',
            txt_gaps: [g(b" #x\n"), g(b"\r\n"), g(b"  ")],
            txt_fin: g(b"\n"),
            txt_style: k as u8 + 1,
            txt_seed: k as u64,
            txt_tail: g(if k % 2 == 0 { b"\n" } else { b"" }),
            zero_pad: [0, 0, 0],
        };
        v.push((format!("gen-{k}-binary"), encode_binary(&c)));
        v.push((format!("gen-{k}-text"), encode_text(&c)));
    }
    v
}

fn literals(cx: &mut Ctx) {
    let lits = seed_corpus();
    let n = lits.len() as u64;
    cx.enum_check("literals", n, false, move |i, obs| {
        let (name, bytes) = &lits[i as usize];
        let c = BytesCase { kind: format!("literal:{name}"), bytes: Hex(bytes.clone()) };
        match check_bytes(bytes, obs) {
            Ok(()) => Ok(()),
            Err(f) => Err((c, f)),
        }
    });
}

// ------------------------------------------------------------------ thorough: second build, libFuzzer

fn overflow_checks_on() -> bool {
    catch(|| std::hint::black_box(u32::MAX) + std::hint::black_box(1u32)).is_err()
}

fn tail(s: &[u8], n: usize) -> String {
    let t = String::from_utf8_lossy(s);
    let lines: Vec<&str> = t.lines().filter(|l| !l.starts_with("WARNING conda")).collect();
    lines[lines.len().saturating_sub(n)..].join(" | ")
}

fn cargo(dir: &Path, args: &[&str]) -> std::io::Result<std::process::Output> {
    Command::new("cargo")
        .args(args)
        .current_dir(dir)
        .env("CARGO_NET_OFFLINE", "true")
        .env("RUST_BACKTRACE", "0")
        .env("CARGO_TERM_COLOR", "never")
        .output()
}

/// Runs the generated sub-checks once more in a build of the same sources with
/// debug assertions and overflow checks off (profile `nodebug`), as a child
/// process; its violations become violations of this run.
fn nodebug_child(cx: &mut Ctx) {
    let t0 = Instant::now();
    let harness = PathBuf::from(VERIF_DIR);
    let mut obs = Obs::new();
    let note;
    let built = cargo(&harness, &["build", "--profile", "nodebug", "--offline"]);
    let bin = harness.join("target").join("nodebug").join("rfverif");
    match built {
        Ok(o) if o.status.success() && bin.exists() => {
            let run = Command::new(&bin)
                .args([PROP, cx.tier.name()])
                .env("RFVERIF_C13_CHILD", "1")
                .env("VERIF_SEED", format!("{}", cx.seed))
                .env("RUST_BACKTRACE", "0")
                .output();
            match run {
                Ok(o) => {
                    let out = String::from_utf8_lossy(&o.stdout).to_string();
                    let code = o.status.code().unwrap_or(2);
                    let ev: Value = std::fs::read_to_string(verif_root().join("evidence").join(format!("{PROP}.json")))
                        .ok()
                        .and_then(|s| serde_json::from_str(&s).ok())
                        .unwrap_or(Value::Null);
                    let evals = ev["coverage"]["evaluations"].as_u64().unwrap_or(0);
                    obs.evals_n(evals);
                    cx.extra.insert(
                        "nodebug_build".into(),
                        json!({"exit_code": code, "evaluations": evals, "build": ev["coverage"]["build"], "subchecks": ev["coverage"]["subchecks"], "wall_s": ev["wall_s"]}),
                    );
                    if code == 1 {
                        let lines: Vec<&str> = out.lines().collect();
                        for (i, l) in lines.iter().enumerate() {
                            if let Some(rest) = l.strip_prefix("VIOLATION ") {
                                let replay = rest.split("replay=").nth(1).unwrap_or("").trim().to_string();
                                let detail = lines.get(i + 1).map(|s| s.trim().to_string()).unwrap_or_default();
                                println!("VIOLATION property={PROP} replay={replay}");
                                println!("  (build without overflow checks / debug assertions) {detail}");
                                cx.violations.push(Violation { sub: "nodebug-build".into(), msg: detail, replay: PathBuf::from(replay) });
                            }
                        }
                        note = "second build (checks off): VIOLATION".to_string();
                    } else if code == 0 {
                        note = "second build (debug assertions and overflow checks off): same sub-checks, child process".to_string();
                    } else {
                        note = format!("second build ran but was inconclusive (exit {code}): {}", tail(&o.stderr, 2));
                    }
                }
                Err(e) => note = format!("second build could not be started: {e}"),
            }
        }
        Ok(o) => note = format!("second build (profile nodebug) unavailable — skipped, not a failure: {}", tail(&o.stderr, 3)),
        Err(e) => note = format!("second build (profile nodebug) unavailable — skipped, not a failure: {e}"),
    }
    cx.report("nodebug-build", obs, false, t0.elapsed().as_secs_f64(), &note);
}

fn copy_dir_files(from: &Path, to: &Path) -> usize {
    let mut files: Vec<PathBuf> = std::fs::read_dir(from).map(|d| d.filter_map(|e| e.ok()).map(|e| e.path()).filter(|p| p.is_file()).collect()).unwrap_or_default();
    files.sort();
    let mut n = 0;
    for f in files {
        if let Some(name) = f.file_name() {
            if std::fs::copy(&f, to.join(name)).is_ok() {
                n += 1;
            }
        }
    }
    n
}

/// One libFuzzer campaign. Returns false if cargo-fuzz / nightly is unavailable.
/// What one campaign wants recorded (campaigns run on their own threads; folded into the Ctx afterwards).
struct Rec {
    seed: u64,
    reports: Vec<(String, Obs, f64, String)>,
    violations: Vec<(String, BytesCase, Fail)>,
    extra: std::collections::BTreeMap<String, Value>,
}

impl Rec {
    fn new(seed: u64) -> Self {
        Rec { seed, reports: vec![], violations: vec![], extra: Default::default() }
    }
    fn report(&mut self, sub: &str, obs: Obs, _exhaustive: bool, wall: f64, note: &str) {
        self.reports.push((sub.to_string(), obs, wall, note.to_string()));
    }
    fn violation(&mut self, sub: &str, case: &BytesCase, fail: &Fail) {
        self.violations.push((sub.to_string(), case.clone(), fail.clone()));
    }
    fn fold_into(self, cx: &mut Ctx) {
        for (sub, case, fail) in &self.violations {
            cx.violation(sub, case, fail);
        }
        for (k, v) in self.extra {
            cx.extra.insert(k, v);
        }
        for (sub, obs, wall, note) in self.reports {
            cx.report(&sub, obs, false, wall, &note);
        }
    }
}

fn fuzz_campaign(cx: &mut Rec, label: &str, build_flags: &[&str], runs: u64) -> bool {
    let t0 = Instant::now();
    let sub = format!("fuzz-pnm_decode{label}");
    let harness = PathBuf::from(VERIF_DIR);
    let fuzz_dir = harness.join("fuzz");
    let mut obs = Obs::new();
    obs.sample_cap = 3;
    if !fuzz_dir.join("Cargo.toml").exists() {
        cx.report(&sub, obs, false, 0.0, "libFuzzer campaign skipped (not a failure): harness/fuzz/ is missing");
        return false;
    }
    // ---- build
    let mut args = vec!["+nightly", "fuzz", "build"];
    args.extend_from_slice(build_flags);
    args.push("pnm_decode");
    match cargo(&harness, &args) {
        Ok(o) if o.status.success() => {}
        Ok(o) => {
            let note = format!("libFuzzer campaign skipped (not a failure): `cargo +nightly fuzz build` failed: {}", tail(&o.stderr, 3));
            cx.report(&sub, obs, false, t0.elapsed().as_secs_f64(), &note);
            return false;
        }
        Err(e) => {
            let note = format!("libFuzzer campaign skipped (not a failure): cargo could not be started: {e}");
            cx.report(&sub, obs, false, t0.elapsed().as_secs_f64(), &note);
            return false;
        }
    }
    // ---- fresh corpus copy and artifact directory under the harness directory
    let seed = (derive_seed(cx.seed, PROP, &sub, 0) % 0x7fff_fffe) + 1;
    let work = harness.join("target").join(format!("c13-fuzz{label}-{}", cx.seed));
    let _ = std::fs::remove_dir_all(&work);
    let corpus = work.join("corpus");
    let artifacts = work.join("artifacts");
    if std::fs::create_dir_all(&corpus).is_err() || std::fs::create_dir_all(&artifacts).is_err() {
        cx.report(&sub, obs, false, t0.elapsed().as_secs_f64(), "libFuzzer campaign skipped (not a failure): cannot create the work directory");
        return false;
    }
    let mut seeds = copy_dir_files(&fuzz_dir.join("corpus").join("pnm_decode"), &corpus);
    for (name, bytes) in seed_corpus() {
        let p = corpus.join(&name);
        if !p.exists() && std::fs::write(&p, bytes).is_ok() {
            seeds += 1;
        }
    }
    // ---- run
    let corpus_s = corpus.display().to_string();
    let runs_s = format!("-runs={runs}");
    let seed_s = format!("-seed={seed}");
    let art_s = format!("-artifact_prefix={}/", artifacts.display());
    let mut args = vec!["+nightly", "fuzz", "run"];
    args.extend_from_slice(build_flags);
    args.extend_from_slice(&["pnm_decode", &corpus_s, "--", &runs_s, &seed_s, "-len_control=0", "-timeout=10", "-max_len=2048", "-print_final_stats=1", &art_s]);
    let out = match cargo(&harness, &args) {
        Ok(o) => o,
        Err(e) => {
            let note = format!("libFuzzer campaign skipped (not a failure): cargo could not be started: {e}");
            cx.report(&sub, obs, false, t0.elapsed().as_secs_f64(), &note);
            return false;
        }
    };
    let log = String::from_utf8_lossy(&out.stderr).to_string() + &String::from_utf8_lossy(&out.stdout);
    let stat = |key: &str| -> Option<u64> { log.lines().rev().find_map(|l| l.strip_prefix(key)).and_then(|v| v.trim().parse().ok()) };
    let mut execs = stat("stat::number_of_executed_units:").unwrap_or(0);
    let (mut cov, mut ft) = (0u64, 0u64);
    for l in log.lines() {
        if !l.starts_with('#') {
            continue;
        }
        let t: Vec<&str> = l.split_whitespace().collect();
        if let Ok(n) = t[0][1..].parse::<u64>() {
            if stat("stat::number_of_executed_units:").is_none() {
                execs = execs.max(n);
            }
        }
        for i in 0..t.len().saturating_sub(1) {
            match t[i] {
                "cov:" => cov = cov.max(t[i + 1].parse().unwrap_or(0)),
                "ft:" => ft = ft.max(t[i + 1].parse().unwrap_or(0)),
                _ => {}
            }
        }
    }
    obs.evals_n(execs);
    // final corpus: what the campaign kept (measured, for the non-trivial count and histogram)
    let mut files: Vec<PathBuf> = std::fs::read_dir(&corpus).map(|d| d.filter_map(|e| e.ok()).map(|e| e.path()).collect()).unwrap_or_default();
    files.sort();
    let corpus_n = files.len();
    for f in &files {
        if let Ok(b) = std::fs::read(f) {
            obs.class(match fmt_class(&b) {
                "magic:P2" => "final-corpus:P2",
                "magic:P3" => "final-corpus:P3",
                "magic:P4" => "final-corpus:P4",
                "magic:P5" => "final-corpus:P5",
                "magic:P6" => "final-corpus:P6",
                _ => "final-corpus:other",
            });
            if supported_magic(&b) {
                obs.nontrivial(hash_of(&b));
            }
        }
    }
    // ---- crash?
    let artifact = log.lines().find_map(|l| l.split("Test unit written to ").nth(1)).map(|p| PathBuf::from(p.trim()));
    let mut note = format!("libFuzzer: {execs} execs, seed {seed}, {seeds} seeds, final corpus {corpus_n}, cov {cov}, ft {ft}");
    let mut crashed = false;
    if let Some(a) = &artifact {
        let name = a.file_name().and_then(|n| n.to_str()).unwrap_or("").to_string();
        if let Ok(bytes) = std::fs::read(a) {
            if name.starts_with("crash-") {
                crashed = true;
                // the oracle's own message if it printed one, else re-evaluate in this process
                let printed = log.lines().find_map(|l| l.split("C13-FUZZ-VIOLATION sig=").nth(1)).and_then(|r| r.split_once(" :: ")).map(|(s, m)| Fail::new(s.trim(), m.trim()));
                let mut scratch = Obs::new();
                scratch.freeze();
                let fail = printed.or_else(|| check_bytes(&bytes, &mut scratch).err()).unwrap_or_else(|| {
                    Fail::new("fuzz-crash", format!("the fuzz target crashed on {} but the oracle passes in this process (different build flags?): {}", show(&bytes), tail(log.as_bytes(), 4)))
                });
                let case = BytesCase { kind: format!("libfuzzer-artifact:{name}"), bytes: Hex(bytes) };
                cx.violation(&sub, &case, &fail);
            } else {
                note += &format!("; libFuzzer stopped with a non-crash artifact {name} (time-out / memory): inconclusive, not counted as a violation");
            }
        }
    } else if !out.status.success() {
        note += &format!("; the run ended with a failure status but no artifact: {}", tail(log.as_bytes(), 3));
    }
    cx.extra.insert(
        format!("fuzz{label}"),
        json!({"target": "pnm_decode", "build_flags": build_flags, "execs": execs, "runs_requested": runs, "seed": seed, "seeds": seeds, "final_corpus": corpus_n, "cov": cov, "ft": ft, "crashed": crashed}),
    );
    let _ = std::fs::remove_dir_all(&work);
    cx.report(&sub, obs, false, t0.elapsed().as_secs_f64(), &note);
    true
}

// ------------------------------------------------------------------ entry points

pub fn run(cx: &mut Ctx) {
    if let Some(dir) = std::env::var_os("RFVERIF_C13_DUMP_CORPUS") {
        let dir = PathBuf::from(dir);
        let _ = std::fs::create_dir_all(&dir);
        for (name, bytes) in seed_corpus() {
            std::fs::write(dir.join(name), bytes).expect("write corpus file");
        }
        eprintln!("seed corpus written to {}", dir.display());
        std::process::exit(0); // not a check run: leave the evidence file alone
    }
    let child = std::env::var_os("RFVERIF_C13_CHILD").is_some();
    cx.assume("whitespace between header fields = blank, TAB, CR, LF; a comment runs from '#' to the next LF, contains no CR, and is claimed only when preceded by whitespace (the property's wording); no comment between maxval and the raster");
    cx.assume("an image of width 0 and height > 0 cannot be held by Buf2 (its constructor rejects it, DESIGN D-h): for such views/headers only 'no panic; Ok => same dims' is asserted, an Err is accepted (counted under excluded_by_domain)");
    cx.assume("maxval is documented as unused by the decoder: text == binary is asserted for maxval 1..=255, equality with the source samples only for maxval 255");
    cx.assume("P4 (and P1) content is not part of the property; P4 inputs are checked for totality (no panic, dims, pixel count) only");
    cx.assume("write_ppm's exact byte output is not asserted (only that its header parses as P6 w h 255 and that it reads back); a raster length different from 3*w*h is recorded as an observation");
    cx.extra.insert("build".into(), json!({"overflow_checks": overflow_checks_on(), "debug_assertions": cfg!(debug_assertions)}));

    literals(cx);
    // the second (checks-off) build repeats the thorough tier at a quarter of the depth
    let div = if child { 4 } else { 1 };
    let n = cx.n(120_000, 2_000_000 / div);
    cx.prop_check("roundtrip", n, rt_case, |c, obs| check_roundtrip(c, obs));
    let n = cx.n(120_000, 2_000_000 / div);
    cx.prop_check("reencode", n, enc_case, |c, obs| check_encodings(c, obs));
    let n = cx.n(1_200_000, 8_000_000 / div);
    cx.prop_check("mutated", n, bytes_case, |c, obs| check_bytes_case(c, obs));

    if cx.tier == Tier::Thorough && !child {
        nodebug_child(cx);
        // the two campaigns (checks on / off) are independent single-threaded processes: run them side by side
        let seed = cx.seed;
        let (ra, rb) = std::thread::scope(|s| {
            let ha = s.spawn(move || {
                let mut r = Rec::new(seed);
                let ok = fuzz_campaign(&mut r, "", &[], 5_000_000);
                (r, ok)
            });
            let hb = s.spawn(move || {
                let mut r = Rec::new(seed);
                let ok = fuzz_campaign(&mut r, "-O", &["-O", "--target-dir", "fuzz/target-O"], 5_000_000);
                (r, ok)
            });
            (ha.join().expect("fuzz thread"), hb.join().expect("fuzz thread"))
        });
        let (a, b) = (ra.1, rb.1);
        ra.0.fold_into(cx);
        rb.0.fold_into(cx);
        if !a || !b {
            // DESIGN section 7: fall back to the structure-aware mutational generator at 5x the case count (10x would take ~30 min)
            cx.assume("cargo-fuzz / the nightly toolchain was unavailable for at least one campaign: replaced by 5x more structure-aware mutated cases (sub-check mutated-fallback)");
            cx.prop_check("mutated-fallback", 40_000_000, bytes_case, |c, obs| check_bytes_case(c, obs));
        }
    }
}

pub fn replay(sub: &str, case: &Value) -> Check {
    let mut obs = Obs::new();
    obs.freeze();
    let bad = |e: serde_json::Error| Fail::new("bad-replay", e.to_string());
    if sub == "roundtrip" {
        let c: RtCase = serde_json::from_value(case.clone()).map_err(bad)?;
        check_roundtrip(&c, &mut obs)
    } else if sub == "reencode" {
        let c: EncCase = serde_json::from_value(case.clone()).map_err(bad)?;
        check_encodings(&c, &mut obs)
    } else if sub == "literals" || sub.starts_with("mutated") || sub.starts_with("fuzz") {
        let c: BytesCase = serde_json::from_value(case.clone()).map_err(bad)?;
        check_bytes(&c.bytes.0, &mut obs)
    } else {
        Err(Fail::new("bad-replay", format!("unknown subcheck {sub}")))
    }
}
