//! C20 — float helper backends agree with std across their whole domain.
//!
//! The `fpprobe` package (harness/fpprobe) is built once per feature
//! configuration of retrofire-core — {none, libm, mm, std} — in its own target
//! directory, and each binary sweeps the helper functions that exist in its
//! configuration against std f64 references (see fpprobe/src/main.rs for the
//! sweeps, the per-backend bounds and the consequence checks: C04's half-pixel
//! lattice through this backend's tri_fill, SamplerRepeatPot addressing,
//! Angle::wrap range, normalize()). This module builds, runs, parses and
//! cross-checks (the lattice coverage must be identical in all configurations).

use crate::common::*;
use serde::{Deserialize, Serialize};
use serde_json::{json, Value};
use std::path::PathBuf;
use std::process::Command;
use std::time::Instant;

pub const RULE: &str = "per configuration {none, libm, mm, std, libm+mm, std+mm} (the last two: a second backend merely compiled in, as cargo's feature unification does): floor/abs on every 256th f32 bit pattern (thorough: all 2^32) plus every integer +-1 ulp in +-2^18 (2^24) and specials; \
rem_euclid on exact multiples +-1 ulp and log-uniform magnitudes x 7 moduli; sqrt/recip_sqrt on 2^18 (2^22) log-spaced inputs in [1e-30,1e30]; sin/cos/tan dense in [-4pi,4pi] + random to +-100; \
asin/acos dense in [-1,1] with the ends +-ulp; atan2 on a polar grid with axes and (0,0); powf/exp on moderate domains; consequences: C04 half-pixel lattice (531441 triangles, exact oracle), sampler addressing, wrap, normalize. \
Non-trivial = an input where the backend's result differs from the f32-rounded std result, or a negative integer / negative-multiple input; distinct by (function, input bits).";

pub const CONFIGS: [&str; 6] = ["none", "libm", "mm", "std", "libm-mm", "std-mm"];

#[derive(Clone, Debug, Serialize, Deserialize)]
pub struct FpCase {
    pub config: String,
    /// "release" (debug assertions on, like the crate's dev profile) or "nodebug"
    pub profile: String,
    pub function: String,
    /// input bit patterns (hex)
    pub bits: Vec<String>,
}

fn probe_dir() -> PathBuf {
    verif_root().join("harness").join("fpprobe")
}
fn target_dir(cfg: &str) -> PathBuf {
    verif_root().join("harness").join("target-fp").join(cfg)
}
fn binary(cfg: &str, profile: &str) -> PathBuf {
    target_dir(cfg).join(profile).join("fpprobe")
}

/// Builds fpprobe for one configuration. Err(text) = the build failed (inconclusive, not a violation).
pub fn build(cfg: &str, profile: &str) -> Result<(), String> {
    let td = target_dir(cfg);
    // ./check exports the content hash of the repository sources; a changed hash with unchanged mtimes
    // would fool cargo's fingerprints, so the repository crate is cleaned in that case
    if let Ok(h) = std::env::var("RFVERIF_REPO_HASH") {
        let f = td.join(format!(".repo_hash_{profile}"));
        if let Ok(old) = std::fs::read_to_string(&f) {
            if old.trim() != h.trim() {
                let _ = Command::new("cargo")
                    .args(["clean", "--manifest-path"])
                    .arg(probe_dir().join("Cargo.toml"))
                    .args(["--target-dir"])
                    .arg(&td)
                    .args(["--profile", profile, "-p", "retrofire-core"])
                    .output();
            }
        }
    }
    let mut c = Command::new("cargo");
    c.arg("build").arg("--manifest-path").arg(probe_dir().join("Cargo.toml")).arg("--no-default-features").arg("--features").arg(cfg).arg("--target-dir").arg(&td);
    if profile == "release" {
        c.arg("--release");
    } else {
        c.args(["--profile", profile]);
    }
    c.env("CARGO_NET_OFFLINE", "true").env("RUSTFLAGS", "-Awarnings").current_dir(verif_root());
    let out = c.output().map_err(|e| format!("cannot run cargo: {e}"))?;
    if !out.status.success() {
        let err = String::from_utf8_lossy(&out.stderr);
        let tail: Vec<&str> = err.lines().rev().take(25).collect();
        return Err(tail.into_iter().rev().collect::<Vec<_>>().join("\n"));
    }
    if let Ok(h) = std::env::var("RFVERIF_REPO_HASH") {
        let _ = std::fs::write(td.join(format!(".repo_hash_{profile}")), h);
    }
    Ok(())
}

#[derive(Default, Debug)]
pub struct ProbeResult {
    pub evals: u64,
    pub nontrivial: u64,
    pub fails: Vec<(String, String, Vec<String>, String)>, // sig, function, bits, message
    pub total_fails: u64,
    pub maxima: Vec<(String, f64, f64, String)>,
    pub counts: Vec<(String, u64)>,
    pub hashes: Vec<(String, String)>,
    pub samples: Vec<String>,
}

fn parse(out: &str) -> ProbeResult {
    let mut r = ProbeResult::default();
    for l in out.lines() {
        let mut it = l.splitn(2, ' ');
        let (k, rest) = (it.next().unwrap_or(""), it.next().unwrap_or(""));
        match k {
            "EVALS" => r.evals = rest.trim().parse().unwrap_or(0),
            "NONTRIVIAL" => r.nontrivial = rest.trim().parse().unwrap_or(0),
            "FAILS" => r.total_fails = rest.trim().parse().unwrap_or(0),
            "FAIL" => {
                let (head, msg) = rest.split_once(" :: ").unwrap_or((rest, ""));
                let toks: Vec<&str> = head.split_whitespace().collect();
                if toks.len() >= 2 {
                    r.fails.push((toks[0].to_string(), toks[1].to_string(), toks[2..].iter().map(|s| s.to_string()).collect(), msg.to_string()));
                }
            }
            "MAX" => {
                let t: Vec<&str> = rest.split_whitespace().collect();
                if t.len() >= 4 {
                    r.maxima.push((t[0].to_string(), t[1].parse().unwrap_or(f64::NAN), t[2].parse().unwrap_or(f64::NAN), t[3..].join(" ")));
                }
            }
            "COUNT" => {
                if let Some((name, n)) = rest.rsplit_once(' ') {
                    r.counts.push((name.to_string(), n.parse().unwrap_or(0)));
                }
            }
            "HASH" => {
                if let Some((name, h)) = rest.split_once(' ') {
                    r.hashes.push((name.to_string(), h.to_string()));
                }
            }
            "SAMPLE" => r.samples.push(rest.to_string()),
            _ => {}
        }
    }
    r
}

fn run_probe(cfg: &str, profile: &str, args: &[String]) -> Result<ProbeResult, String> {
    let out = Command::new(binary(cfg, profile)).args(args).output().map_err(|e| format!("cannot run fpprobe[{cfg}]: {e}"))?;
    if !out.status.success() {
        return Err(format!("fpprobe[{cfg}/{profile}] exited with {:?}: {}", out.status.code(), String::from_utf8_lossy(&out.stderr).lines().last().unwrap_or("")));
    }
    Ok(parse(&String::from_utf8_lossy(&out.stdout)))
}

/// Builds (sequentially) and runs (concurrently) the probes of all four configurations for one profile.
fn all_configs(cx: &mut Ctx, profile: &'static str, tier_arg: &str, results: &mut Vec<(String, String, ProbeResult)>) {
    for cfg in CONFIGS {
        if let Err(e) = build(cfg, profile) {
            eprintln!("BUILD-FAILED: fpprobe for configuration {cfg} ({profile}) does not build against /repo's current tree (inconclusive)\n{e}");
            std::process::exit(2);
        }
    }
    let seed = cx.seed;
    let outs: Vec<(f64, Result<ProbeResult, String>)> = std::thread::scope(|sc| {
        let hs: Vec<_> = CONFIGS
            .iter()
            .map(|cfg| {
                let args = [tier_arg.to_string(), seed.to_string()];
                sc.spawn(move || {
                    let t0 = Instant::now();
                    let r = run_probe(cfg, profile, &args);
                    (t0.elapsed().as_secs_f64(), r)
                })
            })
            .collect();
        hs.into_iter().map(|h| h.join().expect("probe thread")).collect()
    });
    for (cfg, (secs, r)) in CONFIGS.iter().zip(outs) {
        match r {
            Ok(r) => one_config(cx, cfg, profile, r, secs, results),
            Err(e) => {
                eprintln!("HARNESS-ERROR: {e}");
                std::process::exit(2);
            }
        }
    }
}

fn one_config(cx: &mut Ctx, cfg: &'static str, profile: &'static str, r: ProbeResult, secs: f64, results: &mut Vec<(String, String, ProbeResult)>) {
    let name = if profile == "release" { format!("config-{cfg}") } else { format!("config-{cfg}-{profile}") };
    let mut obs = Obs::new();
    obs.sample_cap = 4;
    obs.evals = r.evals;
    obs.nontrivial_enum = r.nontrivial;
    // class names must be 'static: leak (a few dozen short strings per run)
    for (k, n) in &r.counts {
        let key: &'static str = Box::leak(format!("{cfg}: {k}").into_boxed_str());
        obs.class_n(key, *n);
    }
    for (f, e, b, unit) in &r.maxima {
        let key: &'static str = Box::leak(format!("{cfg}/{profile}: {f} worst error [{unit}] (bound {b:e})").into_boxed_str());
        obs.max(key, *e);
    }
    obs.sample(|| json!({"config": cfg, "profile": profile, "functions_swept": r.maxima.iter().map(|m| m.0.clone()).collect::<Vec<_>>(), "evaluations": r.evals}));
    let mut reported = std::collections::BTreeSet::new();
    for (sig, f, bits, msg) in &r.fails {
        let case = FpCase { config: cfg.to_string(), profile: profile.to_string(), function: f.clone(), bits: bits.clone() };
        let fail = Fail::new(sig.clone(), msg.clone());
        if cx.known.is_open(cx.prop, sig) {
            *obs.excluded_known.entry(sig.clone()).or_insert(0) += 1;
            continue;
        }
        // one violation per (signature, function) is enough
        if reported.insert((sig.clone(), f.clone())) {
            cx.violation(&name, &case, &fail);
        }
    }
    if r.total_fails as usize > r.fails.len() {
        // failures beyond the printed ones: attribute them to the open findings seen, if that accounts for the printed ones
        let unknown = r.fails.iter().any(|(s, _, _, _)| !cx.known.is_open(cx.prop, s));
        if !unknown {
            if let Some((s, _, _, _)) = r.fails.first() {
                *obs.excluded_known.entry(s.clone()).or_insert(0) += r.total_fails - r.fails.len() as u64;
            }
        }
    }
    let exhaustive = false;
    cx.report(&name, obs, exhaustive, secs, "fpprobe binary built for this configuration");
    results.push((cfg.to_string(), profile.to_string(), r));
}

pub fn run(cx: &mut Ctx) {
    cx.assume("floor is asserted exactly over each backend's representable range — |x| < 2^31 for micromath (i32 cast), |x| < 2^63 for the built-in fallback (i64 cast), every finite value for libm and std (DESIGN D-g); beyond that only 'does not panic'");
    cx.assume("atan2 is compared as a direction (modulo one turn): +pi and -pi on either side of the branch cut agree");
    cx.assume("per-backend bounds are fixed in harness/fpprobe/src/main.rs: libm and std <= 4 ulp (1 ulp for sqrt) against the f64 reference; micromath: sin/cos 2e-3 abs, sqrt 3e-3 rel, recip_sqrt 4e-3 rel, tan 2e-2, asin/acos/atan2 5e-2 abs, powf 5e-2 rel");
    let tier_arg = cx.tier.name().to_string();
    let mut results = vec![];
    all_configs(cx, "release", &tier_arg, &mut results);
    if cx.tier == Tier::Thorough {
        // second build of every configuration with debug assertions and overflow checks off (quick-sized sweeps)
        all_configs(cx, "nodebug", "quick", &mut results);
    }
    // cross-configuration consequence: pixel rounding behaves the same in every build
    let t0 = Instant::now();
    let mut obs = Obs::new();
    let std_hash = results.iter().find(|r| r.0 == "std" && r.1 == "release").and_then(|r| r.2.hashes.iter().find(|h| h.0 == "lattice-coverage")).map(|h| h.1.clone());
    for (cfg, profile, r) in &results {
        obs.eval();
        let h = r.hashes.iter().find(|h| h.0 == "lattice-coverage").map(|h| h.1.clone());
        if h.is_some() && h == std_hash {
            obs.nontrivial_enumerated(1);
            obs.class("lattice coverage identical to the std build");
        } else {
            let case = FpCase { config: cfg.clone(), profile: profile.clone(), function: "tri_fill".into(), bits: vec![] };
            cx.violation(
                "cross-config-lattice",
                &case,
                &Fail::new("lattice-differs-from-std", format!("coverage hash of the half-pixel lattice in configuration {cfg}/{profile} is {h:?}, the std build gives {std_hash:?}")),
            );
        }
    }
    obs.sample(|| json!({"lattice_coverage_hash_std": std_hash}));
    cx.report("cross-config-lattice", obs, true, t0.elapsed().as_secs_f64(), "hash comparison over the six builds");
}

pub fn replay(_sub: &str, case: &Value) -> Check {
    let c: FpCase = serde_json::from_value(case.clone()).map_err(|e| Fail::new("bad-replay", e.to_string()))?;
    if !CONFIGS.contains(&c.config.as_str()) {
        fail!("bad-replay", "unknown configuration {}", c.config);
    }
    let profile = if c.profile == "nodebug" { "nodebug" } else { "release" };
    build(&c.config, profile).map_err(|e| Fail::new("build-failed", e))?;
    let mut args = vec!["--replay".to_string(), c.function.clone()];
    args.extend(c.bits.iter().cloned());
    let r = run_probe(&c.config, profile, &args).map_err(|e| Fail::new("harness-error", e))?;
    if let Some((sig, _f, _bits, msg)) = r.fails.first() {
        return Err(Fail::new(sig.clone(), msg.clone()));
    }
    Ok(())
}
