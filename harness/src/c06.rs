//! C06 — hidden-surface removal is independent of submission order.
//!
//! One scene, many histories (permutations, partitions into several render
//! calls, every depth_sort setting, several target kinds, shared or per-call
//! vertex arrays). Reference model: per-pixel arg-max of reciprocal depth over
//! SOLO renders of each triangle into a cleared buffer — it exercises the
//! rasteriser but none of the ordering / depth-test logic. Every history must
//! reproduce the model's colour and depth buffers bit for bit (pixels with an
//! exact depth tie between different triangles are excluded).
//! Second clause: depth-disjoint layers rendered with the depth test off and
//! back-to-front sorting give the same image as with the depth buffer.

use crate::common::fl::*;
use crate::common::*;
use crate::rs::*;
use proptest::prelude::*;
use re::math::{perspective, pt3};
use serde::{Deserialize, Serialize};
use serde_json::{json, Value};

pub const RULE: &str = "proptest: scenes of 2..6 view-space triangles (overlapping, interpenetrating, some crossing frustum planes) through the library's perspective matrix, \
flat integer ids per triangle; per scene 10..14 histories = random permutation x random partition into 1..k render calls x depth_sort {None, FrontToBack, BackToFront} x target kind x shared/per-call vertex arrays. \
'layers': 2..5 depth-disjoint triangles, depth-buffered vs depth-test-off + BackToFront into Framebuf and colour-only targets. \
Non-trivial = a scene with >= 1 pixel covered by >= 2 triangles where the nearest is not the last submitted; distinct by scene bit pattern.";

#[derive(Clone, Debug, Serialize, Deserialize)]
pub struct History {
    /// triangle indices per render call, in submission order
    pub calls: Vec<Vec<usize>>,
    pub depth_sort: u8,
    pub target: TargetKind,
    pub shared_verts: bool,
}

#[derive(Clone, Debug, Serialize, Deserialize)]
pub struct HsrCase {
    pub scene: Scene,
    pub histories: Vec<History>,
}

fn fb_target() -> BoxedStrategy<TargetKind> {
    prop_oneof![
        2 => Just(TargetKind::FbOwned),
        1 => Just(TargetKind::FbRef),
        1 => (0u32..3, 0u32..3, 0u32..3, 0u32..3).prop_map(|(ox, oy, px, py)| TargetKind::FbWindow { ox, oy, px, py }),
    ]
    .boxed()
}

/// view-space triangles mostly inside the frustum, with random depths per vertex (=> interpenetration)
fn view_tris(n: std::ops::RangeInclusive<usize>, focal: f32, aspect: f32, near: f32, far: f32) -> BoxedStrategy<Vec<[[f32; 3]; 3]>> {
    let v = move || {
        let z = prop_oneof![8 => near..far, 1 => (near * 0.5)..near, 1 => far..(far * 1.2), 1 => Just((near + far) * 0.5)];
        let rel = || prop_oneof![8 => -1.1f32..1.1, 1 => Just(0.0f32), 1 => -1.6f32..1.6];
        (z, rel(), rel()).prop_map(move |(z, rx, ry)| [rx * z / focal, ry * z / (focal * aspect), z])
    };
    proptest::collection::vec([v(), v(), v()], n).boxed()
}

fn history(n: usize) -> BoxedStrategy<History> {
    let order = Just((0..n).collect::<Vec<usize>>()).prop_shuffle();
    (order, proptest::collection::vec(any::<bool>(), n), 0u8..3, fb_target(), any::<bool>(), 0u8..4)
        .prop_map(|(order, cuts, depth_sort, target, shared_verts, one_call)| {
            let mut calls: Vec<Vec<usize>> = vec![vec![]];
            for (i, t) in order.iter().enumerate() {
                if i > 0 && cuts[i] && one_call != 0 {
                    calls.push(vec![]);
                }
                calls.last_mut().unwrap().push(*t);
            }
            History { calls, depth_sort, target, shared_verts }
        })
        .boxed()
}

fn base_scene(bw: u32, bh: u32, focal: f32, near: f32, far: f32, tris: &[[[f32; 3]; 3]], camera: bool) -> Scene {
    let aspect = bw as f32 / bh as f32;
    let attrs = (0..tris.len()).map(|i| xs([(i + 1) as f32; 3])).collect();
    let proj = Some(Proj::Perspective { focal: X(focal), near: X(near), far: X(far) });
    let (door, ts) = if camera {
        (Door::Camera, tris.iter().map(|t| t.map(|v| xs([v[0], v[1], v[2], 1.0]))).collect())
    } else {
        let m = perspective(focal, aspect, near..far);
        (Door::Render, tris.iter().map(|t| t.map(|v| xs(m.apply(&pt3(v[0], v[1], v[2])).0))).collect())
    };
    Scene { bw, bh, vp: [0, 0, bw, bh], tris: ts, attrs, door, target: TargetKind::FbOwned, proj, bg_depth: X(0.0), cfg: Cfg::plain(), shader_mode: 1, shared_verts: false, flip: [false, false], swap_axes: false, attr_mode: 0 }
}

pub fn case_strategy(max_dim: u32, n_hist: usize) -> BoxedStrategy<HsrCase> {
    (4u32..=max_dim, 4u32..=max_dim, 0.5f32..2.0, prop_oneof![3 => 0.2f32..2.0, 2 => log_uniform(-1.0, 3.7)], 2.0f32..50.0, 2usize..=6, (any::<bool>(), 0u8..4, prop_oneof![3 => Just(0u8), 1 => Just(1u8), 1 => Just(2u8)], 0u8..4, 0u8..4))
        .prop_flat_map(move |(bw, bh, focal, near, ratio, n, (camera, disc, cull, fx, fy))| {
            let far = near * ratio;
            let aspect = bw as f32 / bh as f32;
            (Just((bw, bh, focal, near, far, camera, disc == 0, cull, fx == 0, fy == 0)), view_tris(n..=n, focal, aspect, near, far), proptest::collection::vec(history(n), n_hist..=n_hist + 4))
        })
        .prop_map(|((bw, bh, focal, near, far, camera, discard, cull, fx, fy), tris, histories)| {
            let mut scene = base_scene(bw, bh, focal, near, far, &tris, camera);
            // face culling and mirrored viewports (render/Batch doors; the Camera builds its own viewport): which faces
            // survive must not depend on the order, the partition or the sort setting either
            scene.cfg.face_cull = cull;
            if !camera {
                scene.flip = [fx, fy];
            }
            // a cut-out (discarding) shader: discarded fragments cover nothing, so they must not occlude anything either
            scene.cfg.discard = discard;
            HsrCase { scene, histories }
        })
        .boxed()
}

/// solo colour and depth of every triangle
fn solos(sc: &Scene) -> Result<Vec<(Vec<u32>, Vec<f32>, Vec<bool>)>, Fail> {
    let mut out = vec![];
    for t in 0..sc.tris.len() {
        let mut s1 = sc.clone();
        s1.target = TargetKind::FbOwned;
        s1.cfg = Cfg { discard: sc.cfg.discard, face_cull: sc.cfg.face_cull, ..Cfg::plain() };
        s1.shared_verts = false;
        let mut s = Session::new(&s1);
        if let Err(p) = s.draw(&[t]) {
            return Err(Fail::new("render-panic", format!("solo render of triangle {t} panicked: {p}")));
        }
        let mut col = vec![];
        let mut dep = vec![];
        let mut drawn = vec![];
        for y in 0..sc.bh {
            for x in 0..sc.bw {
                col.push(s.col(x, y));
                dep.push(s.dep(x, y));
                drawn.push(s.col(x, y) != s.prior_col(x, y));
            }
        }
        out.push((col, dep, drawn));
    }
    Ok(out)
}

pub fn check(c: &HsrCase, obs: &mut Obs) -> Check {
    let sc = &c.scene;
    let n = sc.tris.len();
    let solo = solos(sc)?;
    let npx = (sc.bw * sc.bh) as usize;
    // model: nearest solo fragment per pixel; None = background; tie => excluded
    let mut model: Vec<Option<Option<usize>>> = vec![Some(None); npx]; // outer None = excluded
    let mut overlap_px = 0u64;
    let mut order_matters = false;
    for i in 0..npx {
        let mut best: Option<usize> = None;
        let mut tie = false;
        let mut cover = 0;
        for t in 0..n {
            if !solo[t].2[i] {
                continue;
            }
            cover += 1;
            match best {
                None => best = Some(t),
                Some(b) => {
                    let (db, dt) = (solo[b].1[i], solo[t].1[i]);
                    if dt.to_bits() == db.to_bits() {
                        tie = true;
                    } else if dt > db {
                        best = Some(t);
                        tie = false;
                    }
                }
            }
        }
        // a tie with a non-winning pair does not matter; recompute tie against the final winner
        if let Some(b) = best {
            tie = (0..n).any(|t| t != b && solo[t].2[i] && solo[t].1[i].to_bits() == solo[b].1[i].to_bits());
            if cover >= 2 {
                overlap_px += 1;
                if b != (0..n).filter(|&t| solo[t].2[i]).last().unwrap() {
                    order_matters = true;
                }
            }
        }
        model[i] = if tie { None } else { Some(best) };
    }
    for (hi, h) in c.histories.iter().enumerate() {
        let mut s1 = sc.clone();
        s1.target = h.target.clone();
        s1.cfg.depth_sort = h.depth_sort;
        s1.shared_verts = h.shared_verts;
        let mut s = Session::new(&s1);
        for call in &h.calls {
            if let Err(p) = s.draw(call) {
                fail!("render-panic", "history {hi}: render call {call:?} panicked: {p}");
            }
        }
        if let Some((x, y)) = s.padding_changed() {
            fail!("wrote-outside-target-window", "history {hi}: cell ({x},{y}) outside the target window was modified");
        }
        for y in 0..sc.bh {
            for x in 0..sc.bw {
                let i = (y * sc.bw + x) as usize;
                let Some(m) = model[i] else { continue };
                let (gc, gd) = (s.col(x, y), s.dep(x, y));
                match m {
                    None => {
                        ensure!(gc == s.prior_col(x, y) && gd.to_bits() == 0f32.to_bits(), "background-pixel-changed", "history {hi} ({:?}, sort {}): pixel ({x},{y}) is covered by no triangle alone but changed", h.calls, h.depth_sort);
                    }
                    Some(t) => {
                        let (ec, ed) = (solo[t].0[i], solo[t].1[i]);
                        ensure!(
                            gc == ec && gd.to_bits() == ed.to_bits(),
                            "not-nearest-fragment",
                            "history {hi} (calls {:?}, depth_sort {}, target {:?}): pixel ({x},{y}) holds id {gc:#x} depth {gd} but the nearest fragment is triangle {t} (id {ec:#x}, depth {ed})",
                            h.calls,
                            h.depth_sort,
                            h.target
                        );
                    }
                }
            }
        }
        obs.class(["sort:none", "sort:front-to-back", "sort:back-to-front"][h.depth_sort as usize % 3]);
        obs.class(if h.calls.len() > 1 { "history:split-into-several-calls" } else { "history:one-call" });
        if h.shared_verts {
            obs.class("history:shared-vertex-array");
        }
    }
    obs.class_n("histories", c.histories.len() as u64);
    obs.class_n("pixels-with-overlap", overlap_px);
    obs.class_n("pixels-excluded-exact-tie", model.iter().filter(|m| m.is_none()).count() as u64);
    obs.class(if sc.door == Door::Camera { "door:camera" } else { "door:render" });
    obs.class(["cull:none", "cull:back", "cull:front"][sc.cfg.face_cull as usize % 3]);
    if sc.flip[0] || sc.flip[1] {
        obs.class("viewport:mirrored");
    }
    if sc.cfg.discard {
        obs.class("shader:discarding(cut-out)");
    }
    if order_matters {
        obs.nontrivial(hash_of(&(&sc.tris, sc.bw, sc.bh)));
        if obs.wants_sample() {
            let cc = c.clone();
            obs.sample(|| json!({"case": cc, "pixels_with_overlap": overlap_px}));
        }
    }
    Ok(())
}

// ------------------------------------------------------------------ layers

#[derive(Clone, Debug, Serialize, Deserialize)]
pub struct LayerCase {
    pub scene: Scene,
    /// submission order
    pub order: Vec<usize>,
}

pub fn layer_strategy(max_dim: u32) -> BoxedStrategy<LayerCase> {
    // (on/off, relative gap, depth of the first layer as a fraction of the way (log scale) from 2 near to far/2, far/near)
    let thin = (prop::bool::weighted(0.3), log_uniform(-5.4, -2.0), 0.0f32..1.0, log_uniform(1.6, 5.0));
    (4u32..=max_dim, 4u32..=max_dim, 0.5f32..2.0, prop_oneof![2 => 0.2f32..2.0, 3 => log_uniform(-1.0, 4.0)], 2usize..=5, any::<bool>(), thin)
        .prop_flat_map(|(bw, bh, focal, near, n, camera, thin)| {
            let far = if thin.0 { near * thin.3 } else { near * 40.0 };
            let aspect = bw as f32 / bh as f32;
            // layer k occupies view depths [near*(1.5+3k), near*(3.5+3k)]
            if thin.0 {
                // camera-facing layers (constant view depth each) whose depths differ by a relative gap of 4e-6 .. 1e-2 only,
                // anywhere between 2 near and far/2, with far/near from 40 to 1e5: disjoint depth ranges all the same
                let g = thin.1;
                let zf = 2.0 * (thin.3 / 4.0 / (1.0 + g).powi(5)).max(1.0).powf(thin.2);
                let layers: Vec<BoxedStrategy<[[f32; 3]; 3]>> = (0..n)
                    .map(|k| {
                        let z = near * zf * (1.0 + g).powi(k as i32);
                        let v = move || (-1.3f32..1.3, -1.3f32..1.3).prop_map(move |(rx, ry)| [rx * z / focal, ry * z / (focal * aspect), z]);
                        [v(), v(), v()].boxed()
                    })
                    .collect();
                return (Just((bw, bh, focal, near, far, camera)), layers, Just((0..n).collect::<Vec<usize>>()).prop_shuffle());
            }
            let layers: Vec<BoxedStrategy<[[f32; 3]; 3]>> = (0..n)
                .map(|k| {
                    let (z0, z1) = (near * (1.5 + 3.0 * k as f32), near * (3.5 + 3.0 * k as f32));
                    let v = move || (z0..z1, -1.3f32..1.3, -1.3f32..1.3).prop_map(move |(z, rx, ry)| [rx * z / focal, ry * z / (focal * aspect), z]);
                    [v(), v(), v()].boxed()
                })
                .collect();
            (Just((bw, bh, focal, near, far, camera)), layers, Just((0..n).collect::<Vec<usize>>()).prop_shuffle())
        })
        .prop_map(|((bw, bh, focal, near, far, camera), tris, order)| LayerCase { scene: base_scene(bw, bh, focal, near, far, &tris, camera), order })
        .boxed()
}

pub fn check_layers(c: &LayerCase, obs: &mut Obs) -> Check {
    let sc = &c.scene;
    let render = |target: TargetKind, test: u8, sort: u8| -> Result<Vec<u32>, Fail> {
        let mut s1 = sc.clone();
        s1.target = target;
        s1.cfg.depth_test = test;
        s1.cfg.depth_sort = sort;
        let mut s = Session::new(&s1);
        s.draw(&c.order).map_err(|p| Fail::new("render-panic", format!("render panicked: {p}")))?;
        let mut v = vec![];
        for y in 0..sc.bh {
            for x in 0..sc.bw {
                let col = s.col(x, y);
                v.push(if col == s.prior_col(x, y) { 0 } else { col });
            }
        }
        Ok(v)
    };
    let with_zbuf = render(TargetKind::FbOwned, 1, 0)?;
    let painter_fb = render(TargetKind::FbOwned, 0, 2)?;
    let painter_co = render(TargetKind::ColorOnly, 0, 2)?;
    let mut multi = 0;
    for i in 0..with_zbuf.len() {
        let (x, y) = (i as u32 % sc.bw, i as u32 / sc.bw);
        ensure!(
            painter_fb[i] == with_zbuf[i],
            "painter-differs-from-zbuffer",
            "pixel ({x},{y}): depth-buffered image shows id {:#x}, depth test off + BackToFront into a Framebuf shows {:#x} (submission order {:?})",
            with_zbuf[i],
            painter_fb[i],
            c.order
        );
        ensure!(
            painter_co[i] == with_zbuf[i],
            "painter-differs-from-zbuffer",
            "pixel ({x},{y}): depth-buffered image shows id {:#x}, depth test off + BackToFront into the colour-only target shows {:#x} (submission order {:?})",
            with_zbuf[i],
            painter_co[i],
            c.order
        );
        if with_zbuf[i] != 0 {
            multi += 1;
        }
    }
    // non-trivial when the submission order is not already back-to-front and something is drawn
    let sorted_back_to_front = c.order.windows(2).all(|w| w[0] > w[1]);
    if multi > 0 && !sorted_back_to_front {
        obs.nontrivial(hash_of(&(&sc.tris, &c.order)));
    }
    obs.class(if sc.door == Door::Camera { "door:camera" } else { "door:render" });
    {
        // smallest relative depth gap between consecutive layers (view depth = third coordinate of the scene's triangles is
        // not kept; measured on clip w)
        let mut ws: Vec<(f64, f64)> = (0..sc.tris.len()).map(|t| { let c = clip64(sc, t); let w = [c[0][3], c[1][3], c[2][3]]; (w.iter().cloned().fold(f64::MAX, f64::min), w.iter().cloned().fold(f64::MIN, f64::max)) }).collect();
        ws.sort_by(|a, b| a.0.partial_cmp(&b.0).unwrap());
        let gap = ws.windows(2).map(|p| (p[1].0 - p[0].1) / p[1].0).fold(f64::MAX, f64::min);
        obs.class(if gap < 1e-4 { "layers:relative depth gap < 1e-4" } else if gap < 1e-2 { "layers:relative depth gap 1e-4..1e-2" } else { "layers:relative depth gap > 1e-2" });
    }
    if let Some(Proj::Perspective { far, .. }) = &sc.proj {
        if far.0 > 1e4 {
            obs.class("far-plane>1e4");
        }
    }
    Ok(())
}

// ------------------------------------------------------------------ very many triangles in one call

/// One render call with hundreds or tens of thousands of triangles (around 2^8 and 2^16 of them): with the depth test on,
/// the three sort settings must leave identical buffers. The last triangle is a large one behind all the small ones, so
/// that losing or duplicating an element of the (sorted) list shows.
#[derive(Clone, Debug, Serialize, Deserialize)]
pub struct ManyCase {
    pub n: u32,
    pub seed: u64,
}

fn many_case() -> BoxedStrategy<ManyCase> {
    (prop_oneof![2 => 250u32..300, 1 => 1000u32..1100, 3 => 65530u32..65600], any::<u64>()).prop_map(|(n, seed)| ManyCase { n, seed }).boxed()
}

fn check_many(c: &ManyCase, obs: &mut Obs) -> Check {
    use re::geom::{vertex, Tri, Vertex};
    use re::math::{pt2, viewport};
    use re::render::clip::ClipVec;
    use re::render::raster::Frag;
    use re::render::shader::Shader;
    use re::render::{render, Context, Framebuf};
    use re::util::buf::Buf2;
    ensure!(c.n >= 2 && c.n <= 70_000, "bad-case", "triangle count");
    let (w, h) = (64u32, 64u32);
    let mut sm = Sm(c.seed);
    let n = c.n as usize;
    // small triangles at distinct depths (w = 1 + i/n, nearer first or shuffled), then one large far triangle
    let mut verts: Vec<Vertex<ClipVec, f32>> = Vec::with_capacity(3 * n);
    let mut order: Vec<usize> = (0..n - 1).collect();
    for i in (1..order.len()).rev() {
        order.swap(i, sm.below(i as u64 + 1) as usize);
    }
    for &i in &order {
        let (cx, cy) = (sm.range(-0.9, 0.9) as f32, sm.range(-0.9, 0.9) as f32);
        let wv = 1.0 + i as f32 / n as f32;
        let d = 0.04f32;
        for (dx, dy) in [(0.0, 0.0), (d, 0.0), (0.0, d)] {
            verts.push(vertex([(cx + dx) * wv, (cy + dy) * wv, 0.0, wv].into(), (i + 1) as f32));
        }
    }
    for (x, y) in [(-0.95f32, -0.95f32), (0.95, -0.95), (0.0, 0.95)] {
        verts.push(vertex([x * 3.0, y * 3.0, 1.0, 3.0].into(), n as f32));
    }
    let faces: Vec<Tri<usize>> = (0..n).map(|i| Tri([3 * i, 3 * i + 1, 3 * i + 2])).collect();
    let shader = Shader::new(|v: Vertex<ClipVec, f32>, _: ()| v, |f: Frag<f32>| color_of_id(f.var.round() as u32));
    let run = |sort: Option<re::render::ctx::DepthSort>| -> Result<(Vec<u32>, Vec<u32>), String> {
        let ctx = Context { depth_sort: sort, face_cull: None, ..Context::default() };
        let mut fb = Framebuf { color_buf: Buf2::new_from((w, h), vec![0u32; (w * h) as usize]), depth_buf: Buf2::new_from((w, h), vec![0.0f32; (w * h) as usize]) };
        catch(|| render(&faces, &verts, &shader, (), viewport(pt2(0, 0)..pt2(w, h)), &mut fb, &ctx))?;
        Ok((fb.color_buf.data().to_vec(), fb.depth_buf.data().iter().map(|d| d.to_bits()).collect()))
    };
    let base = run(None).map_err(|p| Fail::new("render-panic", format!("render of {n} triangles panicked: {p}")))?;
    let big_visible = base.0.iter().filter(|&&c| c == color_bits_of_id(n as u32)).count();
    for (name, sort) in [("FrontToBack", re::render::ctx::DepthSort::FrontToBack), ("BackToFront", re::render::ctx::DepthSort::BackToFront)] {
        let got = run(Some(sort)).map_err(|p| Fail::new("render-panic", format!("render of {n} triangles with depth_sort {name} panicked: {p}")))?;
        if let Some(i) = (0..base.0.len()).find(|&i| got.0[i] != base.0[i] || got.1[i] != base.1[i]) {
            fail!(
                "sort-setting-changes-the-image",
                "{n} triangles in one call: pixel ({}, {}) holds colour {:#x} depth bits {:#x} without sorting but {:#x} / {:#x} with depth_sort {name} (depth test on: the sort must not matter)",
                i as u32 % w,
                i as u32 / w,
                base.0[i],
                base.1[i],
                got.0[i],
                got.1[i]
            );
        }
    }
    obs.class(if n > 65536 { "many:more than 65536 triangles in one call" } else if n > 256 { "many:257..65536 triangles" } else { "many:<= 256 triangles" });
    if big_visible > 0 {
        obs.nontrivial(hash_of(&(c.n, c.seed)));
    }
    Ok(())
}

fn color_bits_of_id(id: u32) -> u32 {
    id
}
fn color_of_id(id: u32) -> re::math::Color4 {
    re::math::rgba((id >> 16) as u8, (id >> 8) as u8, id as u8, (id >> 24) as u8)
}

pub fn run(cx: &mut Ctx) {
    cx.assume("triangle ids are flat attributes decoded by rounding in the harness fragment shader, so last-bit differences between fan sub-triangles of one input triangle cannot masquerade as order dependence");
    cx.assume("pixels where two different triangles' solo depths are bit-equal (exact tie) are excluded, as the property's quantifier says");
    let (md, nh) = (cx.tier.pick(32, 64), cx.tier.pick(10, 12));
    let n = cx.n(40_000, 600_000);
    cx.prop_check("histories", n, move || case_strategy(md, nh), |c, obs| check(c, obs));
    let n = cx.n(60_000, 1_000_000);
    cx.prop_check("layers", n, move || layer_strategy(md), |c, obs| check_layers(c, obs));
    let n = cx.n(48, 600);
    cx.prop_check("many-triangles", n, many_case, |c, obs| check_many(c, obs));
}

pub fn replay(sub: &str, case: &Value) -> Check {
    let mut obs = Obs::new();
    obs.freeze();
    if sub == "many-triangles" {
        let c: ManyCase = serde_json::from_value(case.clone()).map_err(|e| Fail::new("bad-replay", e.to_string()))?;
        return check_many(&c, &mut obs);
    }
    if sub == "layers" {
        let c: LayerCase = serde_json::from_value(case.clone()).map_err(|e| Fail::new("bad-replay", e.to_string()))?;
        check_layers(&c, &mut obs)
    } else {
        let c: HsrCase = serde_json::from_value(case.clone()).map_err(|e| Fail::new("bad-replay", e.to_string()))?;
        check(&c, &mut obs)
    }
}
