//! C08 — projection, viewport and camera map points where geometry says.
//!
//! Oracle: an f64 pinhole model written from the documentation (focal ratio 1 =
//! 90 degrees horizontal field of view, aspect = width / height, NDC (-1,-1) ->
//! bounds.start, near -> z/w = -1, far -> z/w = +1).

use crate::common::fl::*;
use crate::common::geo::*;
use crate::common::*;
use proptest::prelude::*;
use re::geom::{vertex, Tri, Vertex};
use re::math::mat::{Mat4x4, RealToReal};
use re::math::{degs, orthographic, perspective, pt2, pt3, rgba, vec3, viewport, Color4, Point3};
use re::render::cam::{FirstPerson, Mode};
use re::render::raster::Frag;
use re::render::shader::Shader;
use re::render::{Camera, Context, Framebuf, Model, ModelToProj, View, World};
use re::util::buf::Buf2;
use serde::{Deserialize, Serialize};
use serde_json::{json, Value};

pub const RULE: &str = "proptest: perspective (focal 0.05..20, aspect 0.1..10, near 1e-3..1e3, far/near 1.001..1e4) and orthographic volumes with probe points inside, outside and within 1e-3 relative of each face; \
viewport rectangles with probe NDC points; cameras (rigid matrix mode and first-person mode) rendering a sub-pixel triangle around a chosen pixel centre; frustum-covering triangles under viewport rectangles inside, partly outside and wholly outside the frame; \
first-person headings from azimuth/altitude (including +-90 degrees) and look-at targets (including straight up/down). \
Non-trivial = a probe within 1 % of a volume face, or a camera with non-zero altitude / a viewport different from the frame; distinct by case bit pattern.";

// ------------------------------------------------------------------ 1. perspective volume

#[derive(Clone, Debug, Serialize, Deserialize)]
pub struct PerspCase {
    pub focal: X,
    pub aspect: X,
    pub near: X,
    pub far: X,
    /// view-space probe
    pub p: [X; 3],
    /// second depth for the monotonicity clause
    pub z2: X,
}

fn persp_params() -> impl Strategy<Value = (f32, f32, f32, f32)> {
    (log_uniform(-1.3, 1.3), log_uniform(-1.0, 1.0), log_uniform(-3.0, 3.0), prop_oneof![1 => Just(1.001f32), 1 => Just(1e4f32), 6 => log_uniform(0.001, 4.0)])
        .prop_map(|(focal, aspect, near, ratio)| (focal, aspect, near, near * ratio.max(1.001)))
}

pub fn persp_case() -> BoxedStrategy<PerspCase> {
    persp_params()
        .prop_flat_map(|(focal, aspect, near, far)| {
            let z = prop_oneof![
                2 => Just(near),
                2 => Just(far),
                2 => prop_oneof![Just(near * (1.0 + 1e-3)), Just(near * (1.0 - 1e-3)), Just(far * (1.0 + 1e-3)), Just(far * (1.0 - 1e-3))],
                8 => near..far,
                2 => (-far)..near,
                2 => far..(far * 2.0),
            ];
            let rel = || prop_oneof![2 => Just(1.0f32), 2 => Just(-1.0f32), 1 => Just(0.0f32), 3 => prop_oneof![Just(1.0f32 + 1e-3), Just(1.0 - 1e-3), Just(-1.0 - 1e-3), Just(-1.0 + 1e-3)], 8 => -1.5f32..1.5];
            (Just((focal, aspect, near, far)), z, rel(), rel(), near..far)
        })
        .prop_map(|((focal, aspect, near, far), z, rx, ry, z2)| PerspCase { focal: X(focal), aspect: X(aspect), near: X(near), far: X(far), p: xs([rx * z / focal, ry * z / (focal * aspect), z]), z2: X(z2) })
        .boxed()
}

fn clip_inside(c: [f32; 4]) -> bool {
    let [x, y, z, w] = c;
    w > 0.0 && -w <= x && x <= w && -w <= y && y <= w && -w <= z && z <= w
}

pub fn check_persp(c: &PerspCase, obs: &mut Obs) -> Check {
    let (f, a, n, fa) = (c.focal.0, c.aspect.0, c.near.0, c.far.0);
    ensure!(f > 0.0 && a > 0.0 && n > 0.0 && fa > n, "bad-case", "parameters outside the documented precondition");
    let m = match catch(|| perspective(f, a, n..fa)) {
        Ok(m) => m,
        Err(p) => fail!("perspective-panic", "perspective({f}, {a}, {n}..{fa}) panicked: {p}"),
    };
    let p = fs(c.p);
    let clip = m.apply(&pt3(p[0], p[1], p[2])).0;
    let (x, y, z) = (p[0] as f64, p[1] as f64, p[2] as f64);
    let (f6, a6, n6, fa6) = (f as f64, a as f64, n as f64, fa as f64);
    // slacks of the four kinds of faces, each relative to its own scale
    // slacks of the faces as relative distances in clip space, (w -+ c)/w; for the near and far
    // faces that is 2 far (z - near) / ((far - near) z) and 2 near (far - z) / ((far - near) z):
    // close to the far plane of a deep volume the depth resolution is what it is
    let zabs = z.abs().max(1e-30);
    let amp = (fa6 + n6) / (fa6 - n6);
    let slack = [
        (z - x.abs() * f6) / zabs,
        (z - y.abs() * f6 * a6) / zabs,
        2.0 * fa6 * (z - n6) / ((fa6 - n6) * zabs) / amp,
        2.0 * n6 * (fa6 - z) / ((fa6 - n6) * zabs) / amp,
    ];
    let smin = if z <= 0.0 { -1.0 } else { slack.iter().cloned().fold(f64::MAX, f64::min) };
    let margin = 1e-4;
    if smin > margin {
        ensure!(clip_inside(clip), "volume-point-not-in-clip-volume", "view point {p:?} is inside the view volume (slack {smin:.2e}) but maps to {clip:?}, outside -w<=x,y,z<=w");
        obs.class("probe:inside");
    } else if smin < -margin {
        ensure!(!clip_inside(clip), "outside-point-in-clip-volume", "view point {p:?} is outside the view volume (slack {smin:.2e}) but maps to {clip:?}, inside the clip volume");
        obs.class("probe:outside");
    } else {
        obs.class("probe:on-a-face(ambiguous)");
    }
    // w is the view depth
    ensure!((clip[3] as f64 - z).abs() <= 1e-6 * z.abs(), "w-not-view-depth", "w = {} for view depth {z}", clip[3]);
    // near and far planes go to the two depth bounds
    let cond = (fa6 + n6) / (fa6 - n6);
    let tol = 4e-7 * cond + 1e-6;
    for (zz, want) in [(n, -1.0f64), (fa, 1.0f64)] {
        let cz = m.apply(&pt3(p[0], p[1], zz)).0;
        let ndc = cz[2] as f64 / cz[3] as f64;
        obs.max("near/far depth-bound error / tolerance", (ndc - want).abs() / tol);
        ensure!((ndc - want).abs() <= tol, "plane-not-at-depth-bound", "z = {zz} (the {} plane) maps to z/w = {ndc}, expected {want} (tolerance {tol:.1e})", if want < 0.0 { "near" } else { "far" });
    }
    // depth order is preserved
    let (z1, z2) = (p[2], c.z2.0);
    if z1 > 0.0 && z2 > 0.0 && (z1 - z2).abs() > 1e-3 * z1.max(z2) {
        let nd = |zz: f32| {
            let cz = m.apply(&pt3(0.0, 0.0, zz)).0;
            cz[2] as f64 / cz[3] as f64
        };
        let (lo, hi) = if z1 < z2 { (z1, z2) } else { (z2, z1) };
        let (dlo, dhi) = (nd(lo), nd(hi));
        // the true gap in NDC depth between the two is 2 f n (1/lo - 1/hi)/(f - n); only assert when it is resolvable
        let gap = 2.0 * fa6 * n6 / (fa6 - n6) * (1.0 / lo as f64 - 1.0 / hi as f64);
        if gap > 10.0 * tol {
            ensure!(dlo < dhi, "depth-order-not-preserved", "z = {lo} maps to NDC depth {dlo} but the farther z = {hi} maps to {dhi}");
            obs.class("monotone-pair-checked");
        }
    }
    if smin.abs() < 0.01 {
        obs.nontrivial(hash_of(&(c.focal, c.aspect, c.near, c.far, c.p)));
        if obs.wants_sample() {
            let cc = c.clone();
            obs.sample(|| json!(cc));
        }
    }
    Ok(())
}

// ------------------------------------------------------------------ 2. orthographic volume

#[derive(Clone, Debug, Serialize, Deserialize)]
pub struct OrthoCase {
    pub lbn: [X; 3],
    pub rtf: [X; 3],
    pub p: [X; 3],
}

pub fn ortho_case() -> BoxedStrategy<OrthoCase> {
    let axis = || (signed(log_uniform(-2.0, 2.0)), log_uniform(-2.0, 2.0)).prop_map(|(c, h)| (c - h, c + h));
    (axis(), axis(), axis())
        .prop_flat_map(|(x, y, z)| {
            let coord = |(lo, hi): (f32, f32)| {
                let (c, h) = ((lo + hi) / 2.0, (hi - lo) / 2.0);
                prop_oneof![
                    2 => Just(lo),
                    2 => Just(hi),
                    1 => Just(c),
                    3 => prop_oneof![Just(c + h * (1.0 + 2e-3)), Just(c + h * (1.0 - 2e-3)), Just(c - h * (1.0 + 2e-3)), Just(c - h * (1.0 - 2e-3))],
                    8 => (c - 1.6 * h)..(c + 1.6 * h),
                ]
            };
            (Just((x, y, z)), coord(x), coord(y), coord(z))
        })
        .prop_map(|((x, y, z), px, py, pz)| OrthoCase { lbn: xs([x.0, y.0, z.0]), rtf: xs([x.1, y.1, z.1]), p: xs([px, py, pz]) })
        .boxed()
}

pub fn check_ortho(c: &OrthoCase, obs: &mut Obs) -> Check {
    let (lo, hi, p) = (fs(c.lbn), fs(c.rtf), fs(c.p));
    let m = match catch(|| orthographic(pt3(lo[0], lo[1], lo[2]), pt3(hi[0], hi[1], hi[2]))) {
        Ok(m) => m,
        Err(e) => fail!("orthographic-panic", "orthographic({lo:?}, {hi:?}) panicked: {e}"),
    };
    let clip = m.apply(&pt3(p[0], p[1], p[2])).0;
    ensure!(clip[3] == 1.0, "ortho-w-not-one", "orthographic projection gave w = {}", clip[3]);
    let mut smin = f64::MAX;
    for k in 0..3 {
        let (l, h, v) = (lo[k] as f64, hi[k] as f64, p[k] as f64);
        let half = (h - l) / 2.0;
        // f32 evaluates (v - c)/half with c, v up to |c|+half in magnitude: condition of the subtraction
        let cnd = ((l.abs().max(h.abs())) / half).max(1.0);
        let s = (half - (v - (l + h) / 2.0).abs()) / half / cnd;
        smin = smin.min(s);
        // exact images of the faces and the centre
        let want = (2.0 * v - (l + h)) / (h - l);
        let tol = 4e-7 * cnd + 1e-6;
        obs.max("ortho ndc error / tolerance", (clip[k] as f64 - want).abs() / tol);
        ensure!((clip[k] as f64 - want).abs() <= tol, "ortho-wrong-coordinate", "axis {k}: {v} in [{l}, {h}] maps to {} but should map to {want:.7}", clip[k]);
    }
    if smin > 1e-5 {
        ensure!(clip_inside(clip), "volume-point-not-in-clip-volume", "point {p:?} is inside the box {lo:?}..{hi:?} but maps to {clip:?}");
        obs.class("probe:inside");
    } else if smin < -1e-5 {
        ensure!(!clip_inside(clip), "outside-point-in-clip-volume", "point {p:?} is outside the box {lo:?}..{hi:?} but maps to {clip:?}");
        obs.class("probe:outside");
    } else {
        obs.class("probe:on-a-face(ambiguous)");
    }
    if smin.abs() < 0.01 {
        obs.nontrivial(hash_of(&(c.lbn, c.rtf, c.p)));
    }
    Ok(())
}

// ------------------------------------------------------------------ 3. viewport matrix

#[derive(Clone, Debug, Serialize, Deserialize)]
pub struct ViewportCase {
    pub rect: [u32; 4],
    pub ndc: [X; 3],
}

pub fn viewport_case() -> BoxedStrategy<ViewportCase> {
    let c = || prop_oneof![2 => Just(-1.0f32), 2 => Just(1.0f32), 2 => Just(0.0f32), 6 => -1.0f32..1.0, 1 => -3.0f32..3.0];
    // a third of the rectangles are given with an axis reversed (end < start): the matrix then mirrors that axis, as the
    // render checks' mirrored viewports rely on
    (0u32..4096, 0u32..4096, 0u32..4096, 0u32..4096, c(), c(), -2.0f32..2.0, 0u8..9)
        .prop_map(|(l, t, w, h, x, y, z, fl)| {
            let (mut a, mut b) = ([l, t], [l + w, t + h]);
            if fl % 3 == 0 {
                std::mem::swap(&mut a[0], &mut b[0]);
            }
            if fl / 3 == 0 {
                std::mem::swap(&mut a[1], &mut b[1]);
            }
            ViewportCase { rect: [a[0], a[1], b[0], b[1]], ndc: xs([x, y, z]) }
        })
        .boxed()
}

pub fn check_viewport(c: &ViewportCase, obs: &mut Obs) -> Check {
    let [l, t, r, b] = c.rect;
    let m = viewport(pt2(l, t)..pt2(r, b));
    let n = fs(c.ndc);
    let s = m.apply(&vec3(n[0], n[1], n[2])).0;
    let (lf, tf, rf, bf) = (l as f64, t as f64, r as f64, b as f64);
    let want = [lf + (n[0] as f64 + 1.0) / 2.0 * (rf - lf), tf + (n[1] as f64 + 1.0) / 2.0 * (bf - tf)];
    let exact = n[0].abs() == 1.0 || n[0] == 0.0;
    for k in 0..2 {
        let is_exact = [n[0], n[1]][k].abs() == 1.0 || [n[0], n[1]][k] == 0.0;
        let scale = [rf.max(lf).max(1.0), bf.max(tf).max(1.0)][k];
        let tol = if is_exact { 0.0 } else { 1e-6 * scale * (1.0 + [n[0], n[1]][k].abs() as f64) };
        ensure!(
            (s[k] as f64 - want[k]).abs() <= tol,
            "viewport-wrong-position",
            "viewport {:?}: NDC {:?} maps to {:?} but should map to {want:?} (axis {k}; corners and the centre must be exact)",
            c.rect,
            n,
            s
        );
    }
    ensure!(s[2].to_bits() == n[2].to_bits(), "viewport-changes-depth", "viewport changed z from {} to {}", n[2], s[2]);
    obs.class(if exact { "ndc:corner-or-centre(exact)" } else { "ndc:interior" });
    if r == l || b == t {
        obs.class("rect:empty");
    }
    if r < l || b < t {
        obs.class("rect:an axis reversed (mirroring viewport)");
    }
    obs.nontrivial(hash_of(&(c.rect, c.ndc)));
    Ok(())
}

// ------------------------------------------------------------------ 4/5. camera rendering

#[derive(Clone, Debug, Serialize, Deserialize)]
pub struct CamCase {
    /// frame dimensions
    pub dims: [u32; 2],
    /// requested viewport l, t, r, b (may exceed the frame)
    pub rect: [u32; 4],
    pub ortho: bool,
    pub focal: X,
    pub near: X,
    pub far: X,
    /// camera placement: position, azimuth and altitude in degrees
    pub pos: [X; 3],
    pub az: X,
    pub alt: X,
    /// true: FirstPerson mode; false: the same rigid transform handed over as a Mat4x4<WorldToView>
    pub first_person: bool,
    /// target pixel (as fractions of the visible rectangle) and depth fraction between near and far
    pub pick: [X; 3],
    /// true: confinement clause (a triangle covering the whole frustum); false: sub-pixel triangle
    pub cover: bool,
}

pub fn cam_case(cover: bool) -> BoxedStrategy<CamCase> {
    let dims = (1u32..=40, 1u32..=40);
    dims.prop_flat_map(move |(w, h)| {
        let rect = if cover {
            prop_oneof![
                2 => Just([0, 0, w, h]),
                4 => (0..w, 0..h).prop_flat_map(move |(l, t)| (Just(l), Just(t), l + 1..=w, t + 1..=h)).prop_map(|(l, t, r, b)| [l, t, r, b]),
                // partly outside the frame
                3 => (0..w, 0..h, 1u32..30, 1u32..30).prop_map(move |(l, t, dw, dh)| [l, t, w + dw, h + dh]),
                // wholly outside (to the right / below / both)
                2 => (0u32..20, 0u32..20, 1u32..30, 1u32..30, 0u8..3).prop_map(move |(dl, dt, dw, dh, k)| match k {
                    0 => [w + dl, 0, w + dl + dw, h],
                    1 => [0, h + dt, w, h + dt + dh],
                    _ => [w + dl, h + dt, w + dl + dw, h + dt + dh],
                }),
                // empty
                1 => (0..=w, 0..=h).prop_map(|(l, t)| [l, t, l, t]),
            ]
            .boxed()
        } else {
            prop_oneof![
                2 => Just([0, 0, w, h]),
                4 => (0..w, 0..h).prop_flat_map(move |(l, t)| (Just(l), Just(t), l + 1..=w, t + 1..=h)).prop_map(|(l, t, r, b)| [l, t, r, b]),
                2 => (0..w, 0..h, 1u32..30, 1u32..30).prop_map(move |(l, t, dw, dh)| [l, t, w + dw, h + dh]),
            ]
            .boxed()
        };
        (
            Just([w, h]),
            rect,
            any::<bool>(),
            0.3f32..4.0,
            log_uniform(-1.0, 1.0),
            1.5f32..200.0,
            [-50.0f32..50.0, -50.0f32..50.0, -50.0f32..50.0],
            prop_oneof![1 => Just(0.0f32), 1 => Just(90.0f32), 1 => Just(-180.0f32), 6 => -179.0f32..179.0],
            prop_oneof![3 => Just(0.0f32), 1 => Just(90.0f32), 1 => Just(-90.0f32), 5 => -89.0f32..89.0],
            any::<bool>(),
            [0.0f32..1.0, 0.0f32..1.0, 0.02f32..0.98],
        )
    })
    .prop_map(move |(dims, rect, ortho, focal, near, ratio, pos, az, alt, first_person, pick)| CamCase {
        dims,
        rect,
        ortho,
        focal: X(focal),
        near: X(near),
        far: X(near * ratio),
        pos: xs(pos),
        az: X(az),
        alt: X(alt),
        first_person,
        pick: xs(pick),
        cover,
    })
    .boxed()
}

/// f64 camera frame from azimuth/altitude in degrees: (right, up', forward) as rows of R, R v = view coordinates of world vector v.
/// forward = (cos alt cos az, sin alt, cos alt sin az); right = world-up x horizontal heading; up' = forward x right.
fn frame(az_deg: f64, alt_deg: f64) -> [[f64; 3]; 3] {
    let (az, alt) = (az_deg.to_radians(), alt_deg.to_radians());
    let fwd = [alt.cos() * az.cos(), alt.sin(), alt.cos() * az.sin()];
    let fwd_h = [az.cos(), 0.0, az.sin()];
    let right = v3_cross([0.0, 1.0, 0.0], fwd_h);
    let up = v3_cross(fwd, right);
    [right, up, fwd]
}

fn flat_shader() -> Shader<impl Fn(Vertex<Point3<Model>, f32>, (&Mat4x4<ModelToProj>, ())) -> Vertex<re::render::clip::ClipVec, f32>, impl Fn(Frag<f32>) -> Color4> {
    Shader::new(|v: Vertex<Point3<Model>, f32>, (tf, _): (&Mat4x4<ModelToProj>, ())| vertex(tf.apply(&v.pos), v.attrib), |_f: Frag<f32>| rgba(1u8, 2, 3, 4))
}

const LIT: u32 = 0x04010203;

/// Renders world-space triangles through the case's camera; returns (colour, depth) of the frame. Err = panic.
fn render_cam(c: &CamCase, tris: &[[[f32; 3]; 3]]) -> Result<(Buf2<u32>, Buf2<f32>, [u32; 4]), String> {
    let [w, h] = c.dims;
    catch(|| {
        let mut fb = Framebuf { color_buf: Buf2::<u32>::new((w, h)), depth_buf: Buf2::<f32>::new((w, h)) };
        let [l, t, r, b] = c.rect;
        let cam = Camera::new((w, h)).viewport((l..r, t..b));
        let vis = [l.min(w), t.min(h), r.min(w).max(l.min(w)), b.min(h).max(t.min(h))];
        let cam = if c.ortho {
            let (hx, hy) = (c.near.0 * 2.0, c.near.0 * 1.5);
            cam.orthographic(pt3(-hx, -hy, c.near.0)..pt3(hx, hy, c.far.0))
        } else {
            cam.perspective(c.focal.0, c.near.0..c.far.0)
        };
        let verts: Vec<Vertex<Point3<Model>, f32>> = tris.iter().flatten().map(|p| vertex(pt3(p[0], p[1], p[2]), 0.0)).collect();
        let faces: Vec<Tri<usize>> = (0..tris.len()).map(|i| Tri([3 * i, 3 * i + 1, 3 * i + 2])).collect();
        let ctx = Context { face_cull: None, ..Context::default() };
        let to_world = Mat4x4::<RealToReal<3, Model, World>>::identity();
        let sh = flat_shader();
        if c.first_person {
            let mut fp = FirstPerson::new();
            fp.pos = vec3(c.pos[0].0, c.pos[1].0, c.pos[2].0);
            fp.rotate_to(degs(c.az.0), degs(c.alt.0));
            cam.mode(fp).render(&faces, &verts, &to_world, &sh, (), &mut fb, &ctx);
        } else {
            let m = matrix_mode(c);
            cam.mode(m).render(&faces, &verts, &to_world, &sh, (), &mut fb, &ctx);
        }
        (fb.color_buf, fb.depth_buf, vis)
    })
}

/// the rigid world-to-view transform of the case, rounded to f32 (for the matrix mode)
fn matrix_mode(c: &CamCase) -> Mat4x4<RealToReal<3, World, View>> {
    let r = frame(c.az.0 as f64, c.alt.0 as f64);
    let pos = c.pos.map(|x| x.0 as f64);
    let mut m = [[0.0f32; 4]; 4];
    for i in 0..3 {
        for j in 0..3 {
            m[i][j] = r[i][j] as f32;
        }
        m[i][3] = -(v3_dot(r[i], pos)) as f32;
    }
    m[3][3] = 1.0;
    Mat4x4::new(m)
}

/// view coordinates (f64) of a world point under the case's camera, using exactly the f32 inputs the library receives
fn view_of(c: &CamCase, p: [f64; 3]) -> [f64; 3] {
    if c.first_person {
        // rotate_to wraps/clamps in f32; the azimuth/altitude it stores are the f32 inputs (already in range)
        let r = frame(c.az.0 as f64, c.alt.0 as f64);
        let d = v3_sub(p, c.pos.map(|x| x.0 as f64));
        [v3_dot(r[0], d), v3_dot(r[1], d), v3_dot(r[2], d)]
    } else {
        let m = matrix_mode(c).0;
        std::array::from_fn(|i| m[i][0] as f64 * p[0] + m[i][1] as f64 * p[1] + m[i][2] as f64 * p[2] + m[i][3] as f64)
    }
}

/// world point with the given view coordinates (f64 inverse of the rigid frame)
fn world_of(c: &CamCase, v: [f64; 3]) -> [f64; 3] {
    let r = frame(c.az.0 as f64, c.alt.0 as f64);
    let pos = c.pos.map(|x| x.0 as f64);
    std::array::from_fn(|k| pos[k] + r[0][k] * v[0] + r[1][k] * v[1] + r[2][k] * v[2])
}

/// pinhole projection of a view point to screen coordinates of the visible rectangle `vis`
fn screen_of(c: &CamCase, vis: [u32; 4], v: [f64; 3]) -> (P2, f64) {
    let [l, t, r, b] = vis.map(|x| x as f64);
    let aspect = (r - l) / (b - t);
    let (nx, ny, w) = if c.ortho {
        let (hx, hy) = (c.near.0 as f64 * 2.0, c.near.0 as f64 * 1.5);
        (v[0] / hx, v[1] / hy, 1.0)
    } else {
        let f = c.focal.0 as f64;
        (f * v[0] / v[2], f * aspect * v[1] / v[2], v[2])
    };
    ([l + (nx + 1.0) / 2.0 * (r - l), t + (ny + 1.0) / 2.0 * (b - t)], w)
}

pub fn check_cam(c: &CamCase, obs: &mut Obs) -> Check {
    let [w, h] = c.dims;
    let [l, t, r, b] = c.rect;
    // the visible rectangle = requested ∩ frame
    let vis = [l.min(w), t.min(h), r.min(w).max(l.min(w)), b.min(h).max(t.min(h))];
    let empty = vis[0] >= vis[2] || vis[1] >= vis[3];
    if empty && !c.ortho {
        // Camera::perspective derives the aspect ratio from the visible size: 0 or NaN here, which
        // perspective() documents as a panic. Not a camera defect.
        obs.excluded("empty visible rectangle with perspective projection (documented panic: aspect ratio must be positive)");
        return Ok(());
    }
    let (near, far) = (c.near.0 as f64, c.far.0 as f64);
    let zv = near + (far - near) * c.pick[2].0 as f64;
    if c.cover {
        // a triangle spanning far more than the whole view volume's cross-section at depth zv
        let ext = if c.ortho { near * 20.0 } else { 30.0 * zv / (c.focal.0 as f64).min(1.0) * (w.max(h) as f64) };
        let tri_v = [[-ext, -ext, zv], [3.0 * ext, -ext, zv], [-ext, 3.0 * ext, zv]];
        let tri_w: Vec<[f32; 3]> = tri_v.iter().map(|v| world_of(c, *v).map(|x| x as f32)).collect();
        let (col, _dep, _) = match render_cam(c, &[[tri_w[0], tri_w[1], tri_w[2]]]) {
            Ok(x) => x,
            Err(p) => fail!("camera-render-panic", "rendering through a camera with frame {w}x{h} and viewport {:?} panicked: {p}", c.rect),
        };
        if std::env::var("RFVERIF_DEBUG").is_ok() {
            eprintln!("tri_w {tri_w:?} vis {vis:?}");
            for y in 0..h {
                eprintln!("{}", (0..w).map(|x| if col[[x, y]] == LIT { '#' } else { '.' }).collect::<String>());
            }
        }
        for y in 0..h {
            for x in 0..w {
                let inside = x >= vis[0] && x < vis[2] && y >= vis[1] && y < vis[3];
                let lit = col[[x, y]] == LIT;
                if inside {
                    // the clipped polygon is the visible rectangle itself; its re-triangulation has one of the two
                    // diagonals as an internal edge, and a pixel centre on it may fall to neither half (C04's band)
                    let cc = [x as f64 + 0.5, y as f64 + 0.5];
                    let [vl, vt, vr, vb] = vis.map(|v| v as f64);
                    if seg_dist([vl, vt], [vr, vb], cc) <= 0.02 || seg_dist([vr, vt], [vl, vb], cc) <= 0.02 {
                        obs.class("pixel-on-possible-fan-diagonal(skipped)");
                        continue;
                    }
                }
                ensure!(
                    lit == inside,
                    if lit { "drew-outside-visible-rectangle" } else { "visible-rectangle-not-filled" },
                    "frame {w}x{h}, requested viewport {:?} (visible part {:?}): pixel ({x},{y}) is {} although a triangle covers the whole field of view",
                    c.rect,
                    vis,
                    if lit { "lit" } else { "not lit" }
                );
            }
        }
        obs.class(if empty {
            "viewport:no-visible-part"
        } else if r > w || b > h {
            "viewport:partly-outside-frame"
        } else if c.rect == [0, 0, w, h] {
            "viewport:whole-frame"
        } else {
            "viewport:sub-rectangle"
        });
    } else {
        // target pixel inside the visible rectangle
        let (vw, vh) = (vis[2] - vis[0], vis[3] - vis[1]);
        let px = vis[0] + ((c.pick[0].0 * vw as f32) as u32).min(vw - 1);
        let py = vis[1] + ((c.pick[1].0 * vh as f32) as u32).min(vh - 1);
        let centre = [px as f64 + 0.5, py as f64 + 0.5];
        // unproject the centre to view space at depth zv
        let [vl, vt, vr, vb] = vis.map(|x| x as f64);
        let aspect = (vr - vl) / (vb - vt);
        let (nx, ny) = (2.0 * (centre[0] - vl) / (vr - vl) - 1.0, 2.0 * (centre[1] - vt) / (vb - vt) - 1.0);
        // size of one pixel in view units at that depth
        let (ux, uy, q) = if c.ortho {
            let (hx, hy) = (near * 2.0, near * 1.5);
            (2.0 * hx / (vr - vl), 2.0 * hy / (vb - vt), [nx * hx, ny * hy, zv])
        } else {
            let f = c.focal.0 as f64;
            (2.0 * zv / f / (vr - vl), 2.0 * zv / (f * aspect) / (vb - vt), [nx * zv / f, ny * zv / (f * aspect), zv])
        };
        let tri_v = [[q[0] - 0.3 * ux, q[1] - 0.25 * uy, zv], [q[0] + 0.3 * ux, q[1] - 0.25 * uy, zv], [q[0], q[1] + 0.35 * uy, zv]];
        let tri_w: Vec<[f32; 3]> = tri_v.iter().map(|v| world_of(c, *v).map(|x| x as f32)).collect();
        // the oracle's own projection of the f32 world vertices
        let sv: Vec<(P2, f64)> = tri_w.iter().map(|p| screen_of(c, vis, view_of(c, p.map(|x| x as f64)))).collect();
        let st = [sv[0].0, sv[1].0, sv[2].0];
        let m_in = tri_inside_margin(st, centre);
        if !(m_in > 0.05) || sv.iter().any(|s| !(s.1 > 0.0)) {
            obs.excluded("f32 rounding of the world vertices moved the tiny triangle off its pixel centre");
            return Ok(());
        }
        let (col, dep, _) = match render_cam(c, &[[tri_w[0], tri_w[1], tri_w[2]]]) {
            Ok(x) => x,
            Err(p) => fail!("camera-render-panic", "rendering through the camera panicked: {p}"),
        };
        for y in 0..h {
            for x in 0..w {
                let cc = [x as f64 + 0.5, y as f64 + 0.5];
                let m = tri_inside_margin(st, cc);
                let lit = col[[x, y]] == LIT;
                if (x, y) == (px, py) {
                    ensure!(lit, "world-point-not-at-predicted-pixel", "a sub-pixel triangle around the world point that pinhole geometry puts at pixel ({px},{py}) did not light that pixel (frame {w}x{h}, viewport {:?})", c.rect);
                    let wv = sv.iter().map(|s| s.1).sum::<f64>() / 3.0;
                    let want = 1.0 / wv;
                    let got = dep[[x, y]] as f64;
                    ensure!((got - want).abs() <= 0.003 * want, "wrong-depth-at-predicted-pixel", "pixel ({px},{py}) holds reciprocal depth {got}, pinhole geometry gives 1/{wv:.5} = {want:.6}");
                } else if m < -0.05 {
                    ensure!(!lit, "world-point-at-wrong-pixel", "pixel ({x},{y}) was lit, but the world point projects to pixel ({px},{py})");
                }
            }
        }
        obs.class(if c.first_person { "mode:first-person" } else { "mode:matrix" });
    }
    obs.class(if c.ortho { "proj:orthographic" } else { "proj:perspective" });
    if c.alt.0 != 0.0 && c.rect != [0, 0, w, h] {
        obs.nontrivial(hash_of(&(c.dims, c.rect, c.pos, c.az, c.alt, c.pick, c.cover, c.ortho)));
        if obs.wants_sample() {
            let cc = c.clone();
            obs.sample(|| json!(cc));
        }
    }
    Ok(())
}

// ------------------------------------------------------------------ 6. first-person camera

#[derive(Clone, Debug, Serialize, Deserialize)]
pub struct FpCase {
    pub pos: [X; 3],
    /// heading set by look_at(target) when Some, otherwise by rotate_to(az, alt)
    pub target: Option<[X; 3]>,
    pub az: X,
    pub alt: X,
    pub delta: [X; 3],
}

pub fn fp_case() -> BoxedStrategy<FpCase> {
    let coord = || prop_oneof![1 => Just(0.0f32), 4 => -100.0f32..100.0];
    let target = prop_oneof![
        3 => Just(None),
        4 => [coord(), coord(), coord()].prop_map(Some),
        // straight up / down (offset from the camera position filled in below)
        1 => Just(Some([f32::NAN, 1.0, 0.0])),
        1 => Just(Some([f32::NAN, -1.0, 0.0])),
        // within a fraction of a degree of straight up / down, but not exactly vertical
        2 => (log_uniform(-5.0, -2.0), -1.0f32..1.0, any::<bool>()).prop_map(|(e, k, up)| Some([f32::NAN, if up { 1.0 } else { -1.0 }, e * 1e3 + k * 1e-9])),
    ];
    (
        [coord(), coord(), coord()],
        target,
        prop_oneof![1 => Just(0.0f32), 1 => Just(90.0f32), 1 => Just(180.0f32), 1 => Just(-90.0f32), 4 => -180.0f32..180.0, 2 => -1000.0f32..1000.0],
        prop_oneof![2 => Just(0.0f32), 1 => Just(90.0f32), 1 => Just(-90.0f32), 5 => -90.0f32..90.0, 1 => -200.0f32..200.0],
        [-10.0f32..10.0, -10.0f32..10.0, -10.0f32..10.0],
    )
        .prop_map(|(pos, target, az, alt, delta)| {
            let target = target.map(|t| {
                if t[0].is_nan() {
                    // t[2] != 0 encodes a small horizontal offset (relative to the 7-unit vertical distance, scaled by 1e3)
                    let e = t[2] / 1e3;
                    [pos[0] + 7.0 * e, pos[1] + t[1] * 7.0, pos[2] + 3.0 * e]
                } else {
                    t
                }
            });
            FpCase { pos: xs(pos), target: target.map(xs), az: X(az), alt: X(alt), delta: xs(delta) }
        })
        .boxed()
}

pub fn check_fp(c: &FpCase, obs: &mut Obs) -> Check {
    let pos = fs(c.pos);
    let mut fp = FirstPerson::new();
    fp.pos = vec3(pos[0], pos[1], pos[2]);
    let r = catch(|| {
        let mut fp = fp;
        match c.target {
            Some(t) => fp.look_at(vec3(t[0].0, t[1].0, t[2].0)),
            None => fp.rotate_to(degs(c.az.0), degs(c.alt.0)),
        }
        let m = fp.world_to_view();
        let before = fp.pos;
        fp.translate(vec3(c.delta[0].0, c.delta[1].0, c.delta[2].0));
        (m.0, before.0, fp.pos.0, fp.heading.az().to_degs(), fp.heading.alt().to_degs())
    });
    let (m, _before, after, az_deg, alt_deg) = match r {
        Ok(x) => x,
        Err(p) => {
            // looking at the camera's own position has no direction: nothing is claimed
            if let Some(t) = c.target {
                if fs(t) == pos {
                    obs.excluded("look_at(own position)");
                    return Ok(());
                }
            }
            fail!("first-person-panic", "first-person camera panicked: {p}");
        }
    };
    let m64 = m4_from_f32(&m);
    let p64 = f3(pos);
    // rigid: R^T R = I, det R = +1, last row (0,0,0,1)
    let rr: [[f64; 3]; 3] = std::array::from_fn(|i| std::array::from_fn(|j| m64[i][j]));
    for i in 0..3 {
        for j in 0..3 {
            let d: f64 = (0..3).map(|k| rr[k][i] * rr[k][j]).sum();
            let want = if i == j { 1.0 } else { 0.0 };
            obs.max("orthonormality error (bound 1e-4)", (d - want).abs());
            ensure!((d - want).abs() <= 1e-4, "view-transform-not-rigid", "R^T R [{i}][{j}] = {d} for the first-person view transform (heading az {az_deg}, alt {alt_deg})");
        }
    }
    let det = det3(rr);
    ensure!((det - 1.0).abs() <= 1e-4, "view-transform-not-proper", "det R = {det}: the view transform mirrors space");
    ensure!(m[3] == [0.0, 0.0, 0.0, 1.0], "view-transform-not-affine", "last row {:?}", m[3]);
    // position -> origin
    let o = m4_apply(&m64, [p64[0], p64[1], p64[2], 1.0]);
    let scale = v3_len(p64).max(1.0);
    for k in 0..3 {
        ensure!(o[k].abs() <= 1e-4 * scale, "position-not-at-origin", "the camera position {pos:?} maps to {:?}, not the origin", &o[..3]);
    }
    // look-at target -> positive depth axis
    let horizontal_heading: Option<[f64; 3]>;
    match c.target {
        Some(t) => {
            let t64 = f3(fs(t));
            let d = v3_sub(t64, p64);
            let dist = v3_len(d);
            if dist < 1e-3 * scale {
                obs.excluded("look-at target (almost) at the camera position");
                return Ok(());
            }
            let v = m4_apply(&m64, [t64[0], t64[1], t64[2], 1.0]);
            let tol = 2e-4 * (dist + scale * 1e-2);
            ensure!(
                v[0].abs() <= tol && v[1].abs() <= tol && (v[2] - dist).abs() <= tol,
                "target-not-on-depth-axis",
                "look_at({:?}) from {pos:?}: the target maps to view coordinates {:?}, expected (0, 0, {dist:.5})",
                fs(t),
                &v[..3]
            );
            let hl = (d[0] * d[0] + d[2] * d[2]).sqrt();
            horizontal_heading = if hl > 1e-2 * dist { Some([d[0] / hl, 0.0, d[2] / hl]) } else { None };
            obs.class(if hl <= 1e-6 * dist { "look-at:exactly-vertical" } else if hl <= 1e-2 * dist { "look-at:nearly-vertical" } else { "look-at:general" });
        }
        None => {
            // heading from azimuth (wrapped) and altitude (clamped to +-90 degrees)
            let az = (c.az.0 as f64).to_radians();
            let alt = (c.alt.0 as f64).clamp(-90.0, 90.0).to_radians();
            let fwd = [alt.cos() * az.cos(), alt.sin(), alt.cos() * az.sin()];
            let v = m4_apply(&m64, [p64[0] + fwd[0], p64[1] + fwd[1], p64[2] + fwd[2], 1.0]);
            let tol = 1e-4 * (1.0 + (c.az.0.abs() as f64) * 2e-2) + 1e-5 * scale;
            ensure!(v[0].abs() <= tol && v[1].abs() <= tol && (v[2] - 1.0).abs() <= tol, "heading-not-on-depth-axis", "rotate_to(az {}, alt {}): the point one unit along the heading maps to {:?}, expected (0, 0, 1)", c.az.0, c.alt.0, &v[..3]);
            horizontal_heading = Some([az.cos(), 0.0, az.sin()]);
            obs.class(if c.alt.0.abs() >= 90.0 { "rotate-to:vertical" } else { "rotate-to:general" });
        }
    }
    // translation: delta = (right, up, forward) components, right = up x horizontal heading
    if let Some(fh) = horizontal_heading {
        let right = v3_cross([0.0, 1.0, 0.0], fh);
        let d = f3(fs(c.delta));
        let want: [f64; 3] = std::array::from_fn(|k| p64[k] + d[0] * right[k] + d[1] * [0.0, 1.0, 0.0][k] + d[2] * fh[k]);
        let tol = 1e-4 * (v3_len(d) + scale) * (1.0 + (c.az.0.abs() as f64) * 2e-2);
        for k in 0..3 {
            ensure!(
                (after[k] as f64 - want[k]).abs() <= tol,
                "translate-wrong-displacement",
                "translate({:?}) with horizontal heading {fh:?}: position became {after:?}, expected {want:?} (delta = right, up, forward components)",
                fs(c.delta)
            );
        }
        // the camera's right axis is the view-space x axis (no roll): R * right = (1, 0, 0)
        let rx = m4_apply(&m64, [p64[0] + right[0], p64[1] + right[1], p64[2] + right[2], 1.0]);
        let tol = 2e-4 * (1.0 + (c.az.0.abs() as f64) * 2e-2) + 1e-5 * scale;
        ensure!((rx[0] - 1.0).abs() <= tol && rx[1].abs() <= tol && rx[2].abs() <= tol, "right-axis-not-view-x", "the camera's right axis {right:?} maps to view coordinates {:?}, expected (1, 0, 0)", &rx[..3]);
    }
    if c.alt.0 != 0.0 || c.target.is_some() {
        obs.nontrivial(hash_of(&(c.pos, c.target, c.az, c.alt, c.delta)));
        if obs.wants_sample() {
            let cc = c.clone();
            obs.sample(|| json!(cc));
        }
    }
    Ok(())
}

pub fn run(cx: &mut Ctx) {
    cx.assume("points within 1e-4 relative of a volume face are not asserted either way (f32 rounding decides)");
    cx.assume("an empty visible rectangle combined with perspective projection is excluded: Camera::perspective derives a zero aspect ratio, which perspective() documents as a panic");
    cx.assume("the first-person camera's right axis (up x horizontal heading, the axis translate() uses) is read as the view-space x axis (no roll)");
    let n = cx.n(600_000, 20_000_000);
    cx.prop_check("perspective-volume", n, persp_case, |c, o| check_persp(c, o));
    let n = cx.n(300_000, 10_000_000);
    cx.prop_check("orthographic-volume", n, ortho_case, |c, o| check_ortho(c, o));
    let n = cx.n(200_000, 5_000_000);
    cx.prop_check("viewport-matrix", n, viewport_case, |c, o| check_viewport(c, o));
    let n = cx.n(60_000, 1_000_000);
    cx.prop_check("camera-pixel", n, || cam_case(false), |c, o| check_cam(c, o));
    let n = cx.n(60_000, 1_000_000);
    cx.prop_check("camera-confinement", n, || cam_case(true), |c, o| check_cam(c, o));
    let n = cx.n(300_000, 10_000_000);
    cx.prop_check("first-person", n, fp_case, |c, o| check_fp(c, o));
}

pub fn replay(sub: &str, case: &Value) -> Check {
    let mut obs = Obs::new();
    obs.freeze();
    let bad = |e: serde_json::Error| Fail::new("bad-replay", e.to_string());
    match sub {
        "perspective-volume" => check_persp(&serde_json::from_value(case.clone()).map_err(bad)?, &mut obs),
        "orthographic-volume" => check_ortho(&serde_json::from_value(case.clone()).map_err(bad)?, &mut obs),
        "viewport-matrix" => check_viewport(&serde_json::from_value(case.clone()).map_err(bad)?, &mut obs),
        "camera-pixel" | "camera-confinement" => check_cam(&serde_json::from_value(case.clone()).map_err(bad)?, &mut obs),
        "first-person" => check_fp(&serde_json::from_value(case.clone()).map_err(bad)?, &mut obs),
        _ => Err(Fail::new("bad-replay", format!("unknown subcheck {sub}"))),
    }
}
