//! C10 — mixing spaces, bases or units is a compile-time error.
//!
//! A property over PROGRAMS: the generator produces small Rust functions over
//! the public API, a model of the tag discipline (a small type checker written
//! from the trait bounds) says which are well-typed, and rustc is the system
//! under test. All programs the model calls well-typed go into one crate
//! (`twins`, fully built so post-monomorphisation assertions run), all others
//! into another (`misuse`, `cargo check --message-format=json`). Oracle:
//! `twins` has no error; every case of `misuse` owns at least one error whose
//! primary span lies inside its function (a case without one is re-compiled
//! alone before it is reported).

use crate::common::*;
use serde::{Deserialize, Serialize};
use serde_json::{json, Value};
use std::collections::{BTreeMap, BTreeSet};
use std::path::{Path, PathBuf};
use std::process::Command;
use std::time::Instant;

pub const RULE: &str = "fixed enumeration: one (ill-typed program, well-typed twin) pair per misuse class x API entry point (operators, Affine/Linear methods, lerp, dot/cross, Matrix::apply/apply_pt/compose/then/inverse/transpose, \
projective matrices, angle constructors/trig/wrap/clamp, colour conversions, render()'s shader output type); random: typed expression trees over vectors/points/matrices with bases {A,B,C} and dimensions {2,3}, \
generated well-typed by construction and then hit by one mutation (retag a leaf, change its dimension or kind, swap compose operands, drop a conversion); the model type-checks the mutant to decide its crate. \
Every (ill-typed, twin) pair is non-trivial; distinct by program text.";

const PRELUDE: &str = r#"#![allow(unused, clippy::all)]
use retrofire_core::geom::{vertex, Tri, Vertex};
use retrofire_core::math::color::{hsl, hsla, Hsl, Hsla, LinRgb, Rgb, Rgba};
use retrofire_core::math::mat::{RealToProj, RealToReal};
use retrofire_core::math::space::Real;
use retrofire_core::math::vec::ProjVec4;
use retrofire_core::math::*;
use retrofire_core::render::raster::Frag;
use retrofire_core::render::shader::Shader;
use retrofire_core::render::{render, Context, Framebuf, NdcToScreen};
use retrofire_core::util::buf::Buf2;

#[derive(Copy, Clone, Debug, Default, Eq, PartialEq)]
pub struct A;
#[derive(Copy, Clone, Debug, Default, Eq, PartialEq)]
pub struct B;
#[derive(Copy, Clone, Debug, Default, Eq, PartialEq)]
pub struct C;
"#;

/// leaf declarations available to every enumerated case
const LEAVES: &str = r#"    let v3a: Vec3<A> = vec3(1.0, 2.0, 3.0);
    let v3a2: Vec3<A> = vec3(4.0, 5.0, 6.0);
    let v3b: Vec3<B> = vec3(1.0, 2.0, 3.0);
    let v2a: Vec2<A> = vec2(1.0, 2.0);
    let v2a2: Vec2<A> = vec2(3.0, 4.0);
    let v2b: Vec2<B> = vec2(1.0, 2.0);
    let p3a: Point3<A> = pt3(1.0, 2.0, 3.0);
    let p3a2: Point3<A> = pt3(4.0, 5.0, 6.0);
    let p3b: Point3<B> = pt3(1.0, 2.0, 3.0);
    let p2a: Point2<A> = pt2(1.0, 2.0);
    let p2a2: Point2<A> = pt2(3.0, 4.0);
    let p2b: Point2<B> = pt2(1.0, 2.0);
    let m_ab: Mat4x4<RealToReal<3, A, B>> = Mat4x4::identity();
    let m_bc: Mat4x4<RealToReal<3, B, C>> = Mat4x4::identity();
    let m_ac: Mat4x4<RealToReal<3, A, C>> = Mat4x4::identity();
    let m2_ab: Mat3x3<RealToReal<2, A, B>> = Mat3x3::identity();
    let m2_bc: Mat3x3<RealToReal<2, B, C>> = Mat3x3::identity();
    let q_a: Mat4x4<RealToProj<A>> = Mat4x4::identity();
    let q_b: Mat4x4<RealToProj<B>> = Mat4x4::identity();
    let rgb_f: Color3f<Rgb> = rgb(0.1, 0.2, 0.3);
    let hsl_f: Color3f<Hsl> = hsl(0.1, 0.2, 0.3);
    let rgb_u: Color3<Rgb> = rgb(1, 2, 3);
    let hsl_u: Color3<Hsl> = hsl(1, 2, 3);
"#;

/// (misuse class, API entry point, ill-typed body, well-typed twin body)
const PAIRS: &[(&str, &str, &str, &str)] = &[
    // ---- operators on vectors and points
    ("cross-basis", "Vector + Vector", "let _r = v3a + v3b;", "let _r = v3a + v3a2;"),
    ("cross-basis", "Vector - Vector", "let _r = v3a - v3b;", "let _r = v3a - v3a2;"),
    ("cross-basis", "Vector += Vector", "let mut v = v3a; v += v3b;", "let mut v = v3a; v += v3a2;"),
    ("cross-basis", "Vector -= Vector", "let mut v = v2a; v -= v2b;", "let mut v = v2a; v -= v2a2;"),
    ("cross-basis", "Point + Vector", "let _r = p3a + v3b;", "let _r = p3a + v3a;"),
    ("cross-basis", "Point - Vector", "let _r = p2a - v2b;", "let _r = p2a - v2a;"),
    ("cross-basis", "Point - Point", "let _r = p3a - p3b;", "let _r = p3a - p3a2;"),
    ("cross-basis", "Point += Vector", "let mut p = p3a; p += v3b;", "let mut p = p3a; p += v3a;"),
    ("cross-basis", "result type of Point - Point", "let _r: Vec3<B> = p3a - p3a2;", "let _r: Vec3<A> = p3a - p3a2;"),
    ("explicit-conversion", "Vector::to", "let _r = v3a + v3b;", "let _r = v3a + v3b.to::<Real<3, A>>();"),
    ("explicit-conversion", "Point::to", "let _r = p3a - p3b;", "let _r = p3a - p3b.to::<Real<3, A>>();"),
    ("mixed-dimension", "Vector + Vector", "let _r = v2a + v3a;", "let _r = v2a + v2a2;"),
    ("mixed-dimension", "Point + Vector", "let _r = p3a + v2a;", "let _r = p3a + v3a;"),
    ("mixed-dimension", "Point - Point", "let _r = p3a - p2a;", "let _r = p2a2 - p2a;"),
    ("point-plus-point", "Point + Point", "let _r = p3a + p3a2;", "let _r = p3a + (p3a2 - p3a);"),
    ("point-plus-point", "Point2 + Point2", "let _r = p2a + p2a2;", "let _r = p2a + v2a;"),
    ("point-plus-point", "Vector + Point", "let _r = v3a + p3a;", "let _r = p3a + v3a;"),
    ("point-plus-point", "Point += Point", "let mut p = p3a; p += p3a2;", "let mut p = p3a; p += v3a2;"),
    // ---- Affine / Linear methods
    ("cross-basis", "Affine::add", "let _r = Affine::add(&p3a, &v3b);", "let _r = Affine::add(&p3a, &v3a);"),
    ("cross-basis", "Affine::sub", "let _r = Affine::sub(&p3a, &p3b);", "let _r = Affine::sub(&p3a, &p3a2);"),
    ("cross-basis", "Affine::add on vectors", "let _r = Affine::add(&v2a, &v2b);", "let _r = Affine::add(&v2a, &v2a2);"),
    ("point-plus-point", "Affine::add", "let _r = Affine::add(&p3a, &p3a2);", "let _r = Affine::add(&p3a, &v3a2);"),
    ("cross-basis", "Vector::dot", "let _r = v3a.dot(&v3b);", "let _r = v3a.dot(&v3a2);"),
    ("cross-basis", "Vector::cross", "let _r = v3a.cross(&v3b);", "let _r = v3a.cross(&v3a2);"),
    ("mixed-dimension", "Vector::dot", "let _r = v3a.dot(&v2a);", "let _r = v2a.dot(&v2a2);"),
    ("mixed-dimension", "Vector::cross", "let _r = v2a.cross(&v2a2);", "let _r = v3a.cross(&v3a2);"),
    // ---- lerp
    ("cross-basis", "Lerp::lerp on vectors", "let _r = v3a.lerp(&v3b, 0.5);", "let _r = v3a.lerp(&v3a2, 0.5);"),
    ("cross-basis", "Lerp::lerp on points", "let _r = p2a.lerp(&p2b, 0.5);", "let _r = p2a.lerp(&p2a2, 0.5);"),
    ("mixed-dimension", "Lerp::lerp", "let _r = v2a.lerp(&v3a, 0.5);", "let _r = v2a.lerp(&v2a2, 0.5);"),
    ("point-plus-point", "Lerp::lerp point with vector", "let _r = p3a.lerp(&v3a, 0.5);", "let _r = p3a.lerp(&p3a2, 0.5);"),
    // ---- Matrix::apply / apply_pt
    ("wrong-source-space", "Mat4x4::apply", "let _r = m_ab.apply(&v3b);", "let _r = m_ab.apply(&v3a);"),
    ("wrong-source-space", "Mat4x4::apply_pt", "let _r = m_ab.apply_pt(&p3b);", "let _r = m_ab.apply_pt(&p3a);"),
    ("wrong-source-space", "Mat3x3::apply", "let _r = m2_ab.apply(&v2b);", "let _r = m2_ab.apply(&v2a);"),
    ("wrong-source-space", "Mat3x3::apply_pt", "let _r = m2_ab.apply_pt(&p2b);", "let _r = m2_ab.apply_pt(&p2a);"),
    ("wrong-source-space", "result of Mat4x4::apply", "let _r: Vec3<A> = m_ab.apply(&v3a);", "let _r: Vec3<B> = m_ab.apply(&v3a);"),
    ("wrong-source-space", "result of Mat4x4::apply_pt", "let _r: Point3<A> = m_ab.apply_pt(&p3a);", "let _r: Point3<B> = m_ab.apply_pt(&p3a);"),
    ("wrong-source-space", "apply twice", "let _r = m_ab.apply(&m_ab.apply(&v3a));", "let _r = m_bc.apply(&m_ab.apply(&v3a));"),
    ("mixed-dimension", "Mat4x4::apply", "let _r = m_ab.apply(&v2a);", "let _r = m_ab.apply(&v3a);"),
    ("mixed-dimension", "Mat3x3::apply", "let _r = m2_ab.apply(&v3a);", "let _r = m2_ab.apply(&v2a);"),
    ("point-plus-point", "Mat4x4::apply with a point", "let _r = m_ab.apply(&p3a);", "let _r = m_ab.apply_pt(&p3a);"),
    ("point-plus-point", "Mat4x4::apply_pt with a vector", "let _r = m_ab.apply_pt(&v3a);", "let _r = m_ab.apply(&v3a);"),
    // ---- compose / then
    ("compose-mismatch", "Matrix::compose wrong order", "let _r = m_ab.compose(&m_bc);", "let _r = m_bc.compose(&m_ab);"),
    ("compose-mismatch", "Matrix::compose intermediate space", "let _r = m_bc.compose(&m_ac);", "let _r = m_bc.compose(&m_ab);"),
    ("compose-mismatch", "Matrix::then wrong order", "let _r = m_bc.then(&m_ab);", "let _r = m_ab.then(&m_bc);"),
    ("compose-mismatch", "Matrix::then intermediate space", "let _r = m_ab.then(&m_ac);", "let _r = m_ab.then(&m_bc);"),
    ("compose-mismatch", "Mat3x3::compose", "let _r = m2_ab.compose(&m2_bc);", "let _r = m2_bc.compose(&m2_ab);"),
    ("compose-mismatch", "Mat3x3::then", "let _r = m2_bc.then(&m2_ab);", "let _r = m2_ab.then(&m2_bc);"),
    ("compose-mismatch", "result of compose", "let _r: Mat4x4<RealToReal<3, A, B>> = m_bc.compose(&m_ab);", "let _r: Mat4x4<RealToReal<3, A, C>> = m_bc.compose(&m_ab);"),
    ("compose-mismatch", "composite applied in the wrong space", "let _r = m_bc.compose(&m_ab).apply(&v3b);", "let _r = m_bc.compose(&m_ab).apply(&v3a);"),
    ("compose-mismatch", "then-chain applied in the wrong space", "let _r = m_ab.then(&m_bc).apply_pt(&p3b);", "let _r = m_ab.then(&m_bc).apply_pt(&p3a);"),
    ("mixed-dimension", "Matrix::compose 4x4 with 3x3", "let _r = m_bc.compose(&m2_ab);", "let _r = m_bc.compose(&m_ab);"),
    ("explicit-conversion", "Matrix::to", "let _r = m_ab.compose(&m_bc);", "let _r = m_ab.compose(&m_bc.to::<RealToReal<3, C, A>>());"),
    // ---- inverse / transpose
    ("wrong-source-space", "inverse maps back", "let _r = m_ab.inverse().apply(&v3a);", "let _r = m_ab.inverse().apply(&v3b);"),
    ("wrong-source-space", "transpose swaps spaces", "let _r = m_ab.transpose().apply(&v3a);", "let _r = m_ab.transpose().apply(&v3b);"),
    ("compose-mismatch", "inverse composed", "let _r = m_ab.inverse().compose(&m_ab.inverse());", "let _r = m_ab.inverse().compose(&m_ab);"),
    // ---- projective transforms are not affine
    ("projective-as-affine", "Matrix::inverse", "let _r = q_a.inverse();", "let _r = m_ab.inverse();"),
    ("projective-as-affine", "Matrix::transpose", "let _r = q_a.transpose();", "let _r = m_ab.transpose();"),
    // rejected by an inline const assertion: only a full build (not `cargo check`) reports it
    ("mixed-dimension", "Matrix::transpose of a 2x2 matrix tagged as a map of 3-space",
        "let m: retrofire_core::math::mat::Matrix<[[f32; 2]; 2], RealToReal<3, A, B>> = retrofire_core::math::mat::Matrix::new([[1.0, 2.0], [3.0, 4.0]]); let _t = m.transpose();",
        "let m: retrofire_core::math::mat::Matrix<[[f32; 3]; 3], RealToReal<3, A, B>> = retrofire_core::math::mat::Matrix::new([[1.0; 3]; 3]); let _t: retrofire_core::math::mat::Matrix<[[f32; 3]; 3], RealToReal<3, B, A>> = m.transpose();"),
    ("mixed-dimension", "Matrix::transpose of a 3x3 matrix tagged as a map of 4-space",
        "let m: retrofire_core::math::mat::Matrix<[[f32; 3]; 3], RealToReal<4, A, B>> = retrofire_core::math::mat::Matrix::new([[1.0; 3]; 3]); let _t = m.transpose();",
        "let m: retrofire_core::math::mat::Matrix<[[f32; 4]; 4], RealToReal<4, A, B>> = retrofire_core::math::mat::Matrix::new([[1.0; 4]; 4]); let _t = m.transpose();"),
    ("projective-as-affine", "apply twice", "let _r = q_a.apply(&q_a.apply(&p3a));", "let _r = q_a.apply(&p3a);"),
    ("projective-as-affine", "apply_pt", "let _r = q_a.apply_pt(&p3a);", "let _r = q_a.apply(&p3a);"),
    ("projective-as-affine", "projective as inner map", "let _r = m_ab.compose(&q_a);", "let _r = q_b.compose(&m_ab);"),
    ("projective-as-affine", "projective composed with projective", "let _r = q_a.compose(&q_a);", "let _r = q_b.compose(&m_ab);"),
    ("projective-as-affine", "affine after projective", "let _r = q_a.then(&m_ab);", "let _r = m_ab.then(&q_b);"),
    ("projective-as-affine", "projected vector added to a real vector", "let _r = v3a + q_a.apply(&p3a);", "let _r = v3a + v3a2;"),
    ("wrong-source-space", "RealToProj::apply", "let _r = q_b.apply(&p3a);", "let _r = q_b.apply(&p3b);"),
    ("wrong-source-space", "then into a projection", "let _r = m_ab.then(&q_a);", "let _r = m_ab.then(&q_b);"),
    ("point-plus-point", "RealToProj::apply with a vector", "let _r = q_a.apply(&v3a);", "let _r = q_a.apply(&p3a);"),
    // ---- angles
    ("bare-number-as-angle", "rotate_x", "let _r = rotate_x(1.0);", "let _r = rotate_x(rads(1.0));"),
    ("bare-number-as-angle", "rotate_y", "let _r = rotate_y(90.0);", "let _r = rotate_y(degs(90.0));"),
    ("bare-number-as-angle", "rotate_z", "let _r = rotate_z(0.25);", "let _r = rotate_z(turns(0.25));"),
    ("bare-number-as-angle", "polar", "let _r = polar(1.0, 1.0);", "let _r = polar(1.0, turns(0.25));"),
    ("bare-number-as-angle", "spherical", "let _r = spherical(1.0, 0.5, degs(1.0));", "let _r = spherical(1.0, rads(0.5), degs(1.0));"),
    ("bare-number-as-angle", "Angle binding", "let _r: Angle = 1.0;", "let _r: Angle = rads(1.0);"),
    ("bare-number-as-angle", "Angle tuple constructor", "let _r = Angle(1.0);", "let _r = rads(1.0);"),
    ("bare-number-as-angle", "Angle field access", "let _r: f32 = degs(1.0).0;", "let _r: f32 = degs(1.0).to_rads();"),
    ("bare-number-as-angle", "Angle + f32", "let _r = degs(90.0) + 1.0;", "let _r = degs(90.0) + degs(1.0);"),
    ("bare-number-as-angle", "Angle - f32", "let _r = turns(0.5) - 0.25;", "let _r = turns(0.5) - turns(0.25);"),
    ("bare-number-as-angle", "Angle % f32", "let _r = degs(370.0) % 360.0;", "let _r = degs(370.0) % degs(360.0);"),
    ("bare-number-as-angle", "f32 + Angle", "let _r = 1.0 + degs(90.0);", "let _r = rads(1.0) + degs(90.0);"),
    ("bare-number-as-angle", "f32 - Angle", "let _r = 1.0 - degs(90.0);", "let _r = rads(1.0) - degs(90.0);"),
    ("bare-number-as-angle", "f32 % Angle", "let _r = 370.0 % degs(360.0);", "let _r = degs(370.0) % degs(360.0);"),
    ("bare-number-as-angle", "Angle * Angle", "let _r = degs(2.0) * degs(2.0);", "let _r = degs(2.0) * 2.0;"),
    ("bare-number-as-angle", "Angle / Angle", "let _r: Angle = degs(2.0) / degs(2.0);", "let _r: Angle = degs(2.0) / 2.0;"),
    ("bare-number-as-angle", "Angle equal to f32", "let _r = degs(1.0) == 1.0;", "let _r = degs(1.0) == rads(1.0);"),
    ("bare-number-as-angle", "Affine::add on Angle with f32", "let _r = Affine::add(&degs(1.0), &1.0);", "let _r = Affine::add(&degs(1.0), &rads(1.0));"),
    ("bare-number-as-angle", "Affine::sub on Angle with f32", "let _r = Affine::sub(&degs(1.0), &1.0);", "let _r = Affine::sub(&degs(1.0), &rads(1.0));"),
    ("bare-number-as-angle", "Angle::wrap", "let _r = degs(400.0).wrap(0.0, 360.0);", "let _r = degs(400.0).wrap(degs(0.0), degs(360.0));"),
    ("bare-number-as-angle", "Angle::clamp", "let _r = degs(10.0).clamp(0.0, 1.0);", "let _r = degs(10.0).clamp(degs(0.0), degs(1.0));"),
    ("bare-number-as-angle", "Angle::min", "let _r = degs(10.0).min(1.0);", "let _r = degs(10.0).min(rads(1.0));"),
    ("bare-number-as-angle", "Angle as f32", "let _r: f32 = degs(90.0);", "let _r: f32 = degs(90.0).to_degs();"),
    ("bare-number-as-angle", "f32 trig on an Angle", "let _r = f32::sin(degs(90.0));", "let _r = degs(90.0).sin();"),
    ("bare-number-as-angle", "asin of an Angle", "let _r = asin(degs(1.0));", "let _r = asin(0.5);"),
    ("bare-number-as-angle", "atan2 + f32", "let _r = atan2(1.0, 1.0) + 1.0;", "let _r = atan2(1.0, 1.0) + rads(1.0);"),
    ("bare-number-as-angle", "Angle lerp with f32", "let _r = degs(0.0).lerp(&90.0, 0.5);", "let _r = degs(0.0).lerp(&degs(90.0), 0.5);"),
    // ---- colours
    ("cross-colour-space", "Lerp::lerp RGB with HSL", "let _r = rgb_f.lerp(&hsl_f, 0.5);", "let _r = rgb_f.lerp(&hsl_f.to_rgb(), 0.5);"),
    ("cross-colour-space", "Affine::add RGB + HSL", "let _r = Affine::add(&rgb_f, &hsl_f);", "let _r = Affine::add(&rgb_f, &hsl_f.to_rgb());"),
    ("cross-colour-space", "Affine::sub RGB - HSL", "let _r = Affine::sub(&hsl_f, &rgb_f);", "let _r = Affine::sub(&hsl_f, &rgb_f.to_hsl());"),
    ("cross-colour-space", "binding HSL from RGB", "let _r: Color3f<Hsl> = rgb_f;", "let _r: Color3f<Hsl> = rgb_f.to_hsl();"),
    ("cross-colour-space", "binding RGB from HSL (8-bit)", "let _r: Color3<Rgb> = hsl_u;", "let _r: Color3<Rgb> = hsl_u.to_rgb();"),
    ("cross-colour-space", "to_hsl twice", "let _r = rgb_f.to_hsl().to_hsl();", "let _r = rgb_f.to_hsl().to_rgb();"),
    ("cross-colour-space", "to_rgb on RGB (8-bit)", "let _r = hsl_u.to_rgb().to_rgb();", "let _r = hsl_u.to_rgb().to_hsl();"),
    ("cross-colour-space", "to_linear on HSL", "let _r = hsl_f.to_linear();", "let _r = hsl_f.to_rgb().to_linear();"),
    ("cross-colour-space", "to_srgb on sRGB", "let _r = rgb_f.to_srgb();", "let _r = rgb_f.to_linear().to_srgb();"),
    ("cross-colour-space", "linear mixed with sRGB", "let _r = rgb_f.to_linear().lerp(&rgb_f, 0.5);", "let _r = rgb_f.to_linear().lerp(&rgb_f.to_linear(), 0.5);"),
    ("cross-colour-space", "packing an HSL colour", "let _r = hsl_u.to_rgb_u32();", "let _r = hsl_u.to_rgb().to_rgb_u32();"),
    ("cross-colour-space", "packing HSLA as ARGB", "let _r = hsla(1u8, 2, 3, 4).to_argb_u32();", "let _r = hsla(1u8, 2, 3, 4).to_rgba().to_argb_u32();"),
    ("cross-colour-space", "fragment colour in HSLA", "let _f = |_f: Frag<()>| -> Color4 { hsla(1u8, 2, 3, 4) };", "let _f = |_f: Frag<()>| -> Color4 { hsla(1u8, 2, 3, 4).to_rgba() };"),
    ("cross-colour-space", "Affine::add 8-bit colour + difference taken in another space", "let _r = Affine::add(&hsl_u, &Affine::sub(&rgb_u, &rgb_u));", "let _r = Affine::add(&rgb_u, &Affine::sub(&rgb_u, &rgb_u));"),
    ("cross-colour-space", "Affine::sub 8-bit RGB - HSL", "let _r = Affine::sub(&rgb_u, &hsl_u);", "let _r = Affine::sub(&rgb_u, &hsl_u.to_rgb());"),
    ("cross-colour-space", "difference of 8-bit colours keeps its space", "let _r: Vector<[i32; 3], Hsl> = Affine::sub(&rgb_u, &rgb_u);", "let _r: Vector<[i32; 3], Rgb> = Affine::sub(&rgb_u, &rgb_u);"),
    ("cross-colour-space", "Affine::add float colour + difference taken in another space", "let _r = Affine::add(&hsl_f, &Affine::sub(&rgb_f, &rgb_f));", "let _r = Affine::add(&rgb_f, &Affine::sub(&rgb_f, &rgb_f));"),
    ("cross-colour-space", "scaled difference added in another space", "let _r = Affine::add(&hsl_f, &Linear::mul(&Affine::sub(&rgb_f, &rgb_f), 0.5));", "let _r = Affine::add(&rgb_f, &Linear::mul(&Affine::sub(&rgb_f, &rgb_f), 0.5));"),
    ("cross-colour-space", "8-bit lerp RGB with HSL", "let _r = rgb_f.to_color3().to_hsl().to_rgb_u32();", "let _r = rgb_f.to_color3().to_hsl().to_rgb().to_rgb_u32();"),
    ("cross-basis", "difference vector of points added in another basis", "let _r = p3b + (p3a2 - p3a);", "let _r = p3a + (p3a2 - p3a);"),
    ("cross-basis", "Mat3x3::apply_pt result basis", "let _r = m2_ab.apply_pt(&p2a) - p2a;", "let _r = m2_ab.apply_pt(&p2a) - p2b;"),
    ("cross-basis", "Mat3x3::apply result basis", "let _r = m2_ab.apply(&v2a) + v2a;", "let _r = m2_ab.apply(&v2a) + v2b;"),
    ("cross-basis", "Mat4x4::apply_pt result basis", "let _r = m_ab.apply_pt(&p3a) - p3a;", "let _r = m_ab.apply_pt(&p3a) - p3b;"),
    ("wrong-source-space", "Mat3x3::apply_pt twice", "let _r = m2_ab.apply_pt(&m2_ab.apply_pt(&p2a));", "let _r = m2_bc.apply_pt(&m2_ab.apply_pt(&p2a));"),
    ("wrong-source-space", "RealToProj composite applied", "let _r = q_b.compose(&m_ab).apply(&p3b);", "let _r = q_b.compose(&m_ab).apply(&p3a);"),
    ("point-plus-point", "Iterator::sum over points", "let _r = [p3a, p3a2].into_iter().sum::<Vec3<A>>();", "let _r = [v3a, v3a2].into_iter().sum::<Vec3<A>>();"),
    ("point-plus-point", "Iterator::sum over 2-D points", "let _r: Vec2<A> = [p2a, p2a2].into_iter().sum();", "let _r: Vec2<A> = [v2a, v2a2].into_iter().sum();"),
    ("cross-basis", "Iterator::sum into another basis", "let _r = [v3a, v3a2].into_iter().sum::<Vec3<B>>();", "let _r = [v3a, v3a2].into_iter().sum::<Vec3<A>>();"),
    ("point-plus-point", "implicit Point -> Vector conversion", "let _r: Vec3<A> = p3a.into();", "let _r: Vec3<A> = p3a.to_vec();"),
    ("point-plus-point", "implicit Vector -> Point conversion", "let _r: Point3<A> = v3a.into();", "let _r: Point3<A> = v3a.to_pt();"),
    ("cross-basis", "implicit conversion between bases", "let _r: Vec3<A> = v3b.into();", "let _r: Vec3<A> = v3b.to();"),
    ("cross-basis", "From between bases (points)", "let _r = Point3::<A>::from(p3b);", "let _r = Point3::<A>::from(p3b.0);"),
    ("mixed-dimension", "implicit Vec2 -> Vec3", "let _r: Vec3<A> = v2a.into();", "let _r: Vec3<A> = vec3(v2a.x(), v2a.y(), 0.0);"),
    ("bare-number-as-angle", "implicit f32 -> Angle conversion", "let _r: Angle = 1.0f32.into();", "let _r: Angle = rads(1.0f32);"),
    ("bare-number-as-angle", "Angle -> f32 conversion", "let _r: f32 = degs(1.0).into();", "let _r: f32 = degs(1.0).to_rads();"),
    ("cross-colour-space", "implicit HSL -> RGB conversion", "let _r: Color3f<Rgb> = hsl_f.into();", "let _r: Color3f<Rgb> = hsl_f.to_rgb();"),
    ("projective-as-affine", "implicit projective -> affine matrix", "let _r: Mat4x4<RealToReal<3, A, A>> = q_a.into();", "let _r: Mat4x4<RealToReal<3, A, A>> = q_a.to();"),
    ("compose-mismatch", "implicit matrix retagging", "let _r: Mat4x4<RealToReal<3, A, C>> = m_ab.into();", "let _r: Mat4x4<RealToReal<3, A, C>> = m_ab.to();"),
    ("cross-basis", "Vector == Vector across bases", "let _r = v3a == v3b;", "let _r = v3a == v3a2;"),
    ("cross-basis", "Point == Point across bases", "let _r = p3a == p3b;", "let _r = p3a == p3a2;"),
    ("cross-basis", "approx_eq across bases", "let _r = v3a.approx_eq(&v3b);", "let _r = v3a.approx_eq(&v3a2);"),
    ("cross-basis", "Vector::vector_project across bases", "let _r = v3a.vector_project(&v3b);", "let _r = v3a.vector_project(&v3a2);"),
    ("cross-basis", "Point::distance across bases", "let _r = p3a.distance(&p3b);", "let _r = p3a.distance(&p3a2);"),
    ("cross-basis", "Vector::clamp across bases", "let _r = v3a.clamp(&v3b, &v3a2);", "let _r = v3a.clamp(&v3a2, &v3a2);"),
    ("cross-basis", "Lerp on tuples with a cross-basis member", "let _r = (v3a, p3a).lerp(&(v3b, p3a2), 0.5);", "let _r = (v3a, p3a).lerp(&(v3a2, p3a2), 0.5);"),
    ("cross-basis", "Vary::vary_to across bases", "let _r = v3a.vary_to(v3b, 4);", "let _r = v3a.vary_to(v3a2, 4);"),
    ("cross-basis", "Vary::dv_dt across bases", "let _r = p3a.dv_dt(&p3b, 1.0);", "let _r = p3a.dv_dt(&p3a2, 1.0);"),
    ("cross-basis", "Vary::step with a difference from another basis", "let _r = p3a.step(&v3b);", "let _r = p3a.step(&v3a);"),
    ("cross-basis", "Bezier control points in different bases", "let _r = CubicBezier([p3a, p3a2, p3b, p3a]);", "let _r = CubicBezier([p3a, p3a2, p3a2, p3a]);"),
    ("point-plus-point", "Bezier control polygon mixing points and vectors", "let _r = CubicBezier([p3a, v3a, p3a2, p3a]);", "let _r = CubicBezier([p3a, p3a + v3a, p3a2, p3a]);"),
    ("mixed-dimension", "Bezier control points of different dimensions", "let _r = CubicBezier([v2a, v2a2, v3a, v2a]);", "let _r = CubicBezier([v2a, v2a2, v2a2, v2a]);"),
    ("cross-basis", "spherical vector converted into a tagged basis", "let _r: Vec3<A> = spherical(1.0, degs(10.0), degs(20.0)).into();", "let _r: Vec3 = spherical(1.0, degs(10.0), degs(20.0)).into();"),
    ("mixed-dimension", "polar vector converted to 3-D", "let _r: Vec3 = polar(1.0, degs(10.0)).into();", "let _r: Vec2 = polar(1.0, degs(10.0)).into();"),
    ("bare-number-as-angle", "spherical vector built from a real vector's components", "let _r: SphericalVec = vec3(1.0, 0.5, 0.25);", "let _r: SphericalVec = vec3(1.0, 0.5, 0.25).into();"),
    ("cross-basis", "f32 * Vector keeps the basis", "let _r: Vec3<B> = 2.0 * v3a;", "let _r: Vec3<A> = 2.0 * v3a;"),
    ("cross-basis", "-Vector keeps the basis", "let _r = -v3a + v3b;", "let _r = -v3a + v3a2;"),
    ("cross-basis", "Vector / f32 keeps the basis", "let _r = v3a / 2.0 - v3b;", "let _r = v3a / 2.0 - v3a2;"),
    ("cross-basis", "Vector::normalize keeps the basis", "let _r = v3a.normalize().dot(&v3b);", "let _r = v3a.normalize().dot(&v3a2);"),
    ("cross-basis", "Vector::map keeps the basis", "let _r = v3a.map(|c| c * 2.0) + v3b;", "let _r = v3a.map(|c| c * 2.0) + v3a2;"),
    ("cross-basis", "Point::to_vec keeps the basis", "let _r = p3a.to_vec() + v3b;", "let _r = p3a.to_vec() + v3a;"),
    ("cross-basis", "row_vec is in the source space", "let _r = m_ab.row_vec(0).dot(&m_ab.col_vec(0));", "let _r = m_ab.row_vec(0).dot(&m_ab.row_vec(1));"),
    ("mixed-dimension", "colour with alpha mixed with colour without", "let _r = rgb_f.lerp(&rgba(0.1f32, 0.2, 0.3, 1.0), 0.5);", "let _r = rgb_f.lerp(&rgba(0.1f32, 0.2, 0.3, 1.0).to_rgb(), 0.5);"),
    // ---- render(): the vertex shader must output clip-space (projective) positions
    (
        "shader-output-not-projective",
        "render() vertex shader position type",
        "let sh = Shader::new(|v: Vertex<Point3<A>, ()>, m: &Mat4x4<RealToReal<3, A, B>>| vertex(m.apply_pt(&v.pos), v.attrib), |_f: Frag<()>| rgba(1u8, 2, 3, 4));
    let mut fb = Framebuf { color_buf: Buf2::<u32>::new((4, 4)), depth_buf: Buf2::<f32>::new((4, 4)) };
    render([Tri([0, 1, 2])], [vertex(p3a, ()), vertex(p3a2, ()), vertex(p3a, ())], &sh, &m_ab, Mat4x4::<NdcToScreen>::identity(), &mut fb, &Context::default());",
        "let sh = Shader::new(|v: Vertex<Point3<A>, ()>, m: &Mat4x4<RealToProj<A>>| vertex(m.apply(&v.pos), v.attrib), |_f: Frag<()>| rgba(1u8, 2, 3, 4));
    let mut fb = Framebuf { color_buf: Buf2::<u32>::new((4, 4)), depth_buf: Buf2::<f32>::new((4, 4)) };
    render([Tri([0, 1, 2])], [vertex(p3a, ()), vertex(p3a2, ()), vertex(p3a, ())], &sh, &q_a, Mat4x4::<NdcToScreen>::identity(), &mut fb, &Context::default());",
    ),
    (
        "shader-output-not-projective",
        "render() vertex shader returning a real vector",
        "let sh = Shader::new(|v: Vertex<Vec3<A>, f32>, _u: ()| v, |_f: Frag<f32>| rgba(1u8, 2, 3, 4));
    let mut fb = Framebuf { color_buf: Buf2::<u32>::new((4, 4)), depth_buf: Buf2::<f32>::new((4, 4)) };
    render([Tri([0, 1, 2])], [vertex(v3a, 0.0f32), vertex(v3a2, 0.0), vertex(v3a, 0.0)], &sh, (), Mat4x4::<NdcToScreen>::identity(), &mut fb, &Context::default());",
        "let sh = Shader::new(|v: Vertex<ProjVec4, f32>, _u: ()| v, |_f: Frag<f32>| rgba(1u8, 2, 3, 4));
    let mut fb = Framebuf { color_buf: Buf2::<u32>::new((4, 4)), depth_buf: Buf2::<f32>::new((4, 4)) };
    let c = q_a.apply(&p3a);
    render([Tri([0, 1, 2])], [vertex(c, 0.0f32), vertex(c, 0.0), vertex(c, 0.0)], &sh, (), Mat4x4::<NdcToScreen>::identity(), &mut fb, &Context::default());",
    ),
];

// ------------------------------------------------------------------ the model for random programs

#[derive(Copy, Clone, Debug, PartialEq, Eq, Hash, Serialize, Deserialize)]
pub enum Ty {
    Vec(u8, u8),
    Pt(u8, u8),
    Mat(u8, u8, u8),
    Proj(u8),
    PV4,
    F32,
}

#[derive(Clone, Debug, PartialEq, Serialize, Deserialize)]
pub enum Expr {
    Leaf(Ty),
    Add(Box<Expr>, Box<Expr>),
    Sub(Box<Expr>, Box<Expr>),
    Dot(Box<Expr>, Box<Expr>),
    Cross(Box<Expr>, Box<Expr>),
    Lerp(Box<Expr>, Box<Expr>),
    Apply(Box<Expr>, Box<Expr>),
    ApplyPt(Box<Expr>, Box<Expr>),
    Compose(Box<Expr>, Box<Expr>),
    Then(Box<Expr>, Box<Expr>),
    Inverse(Box<Expr>),
    Transpose(Box<Expr>),
    /// retag a vector or point
    To(Box<Expr>, u8),
}

const TAGS: [&str; 3] = ["A", "B", "C"];

pub fn ty_name(t: Ty) -> String {
    match t {
        Ty::Vec(d, b) => format!("Vec{d}<{}>", TAGS[b as usize]),
        Ty::Pt(d, b) => format!("Point{d}<{}>", TAGS[b as usize]),
        Ty::Mat(3, s, d) => format!("Mat4x4<RealToReal<3, {}, {}>>", TAGS[s as usize], TAGS[d as usize]),
        Ty::Mat(_, s, d) => format!("Mat3x3<RealToReal<2, {}, {}>>", TAGS[s as usize], TAGS[d as usize]),
        Ty::Proj(s) => format!("Mat4x4<RealToProj<{}>>", TAGS[s as usize]),
        Ty::PV4 => "ProjVec4".into(),
        Ty::F32 => "f32".into(),
    }
}

fn leaf_init(t: Ty) -> String {
    match t {
        Ty::Vec(2, _) => "vec2(1.0, 2.0)".into(),
        Ty::Vec(_, _) => "vec3(1.0, 2.0, 3.0)".into(),
        Ty::Pt(2, _) => "pt2(1.0, 2.0)".into(),
        Ty::Pt(_, _) => "pt3(1.0, 2.0, 3.0)".into(),
        Ty::Mat(3, _, _) | Ty::Proj(_) => "Mat4x4::identity()".into(),
        Ty::Mat(_, _, _) => "Mat3x3::identity()".into(),
        Ty::PV4 => "ProjVec4::new([0.0, 0.0, 0.0, 1.0])".into(),
        Ty::F32 => "1.0".into(),
    }
}

/// The tag discipline, written from the trait bounds in vec.rs, point.rs, mat.rs and math.rs.
pub fn type_of(e: &Expr) -> Result<Ty, String> {
    use Expr::*;
    use Ty::*;
    Ok(match e {
        Leaf(t) => *t,
        Add(a, b) => match (type_of(a)?, type_of(b)?) {
            (Vec(d, t), Vec(d2, t2)) if d == d2 && t == t2 => Vec(d, t),
            (Pt(d, t), Vec(d2, t2)) if d == d2 && t == t2 => Pt(d, t),
            (x, y) => return Err(format!("{} + {}", ty_name(x), ty_name(y))),
        },
        Sub(a, b) => match (type_of(a)?, type_of(b)?) {
            (Vec(d, t), Vec(d2, t2)) if d == d2 && t == t2 => Vec(d, t),
            (Pt(d, t), Vec(d2, t2)) if d == d2 && t == t2 => Pt(d, t),
            (Pt(d, t), Pt(d2, t2)) if d == d2 && t == t2 => Vec(d, t),
            (x, y) => return Err(format!("{} - {}", ty_name(x), ty_name(y))),
        },
        Dot(a, b) => match (type_of(a)?, type_of(b)?) {
            (Vec(d, t), Vec(d2, t2)) if d == d2 && t == t2 => F32,
            (x, y) => return Err(format!("{}.dot({})", ty_name(x), ty_name(y))),
        },
        Cross(a, b) => match (type_of(a)?, type_of(b)?) {
            (Vec(3, t), Vec(3, t2)) if t == t2 => Vec(3, t),
            (x, y) => return Err(format!("{}.cross({})", ty_name(x), ty_name(y))),
        },
        Lerp(a, b) => match (type_of(a)?, type_of(b)?) {
            (Vec(d, t), Vec(d2, t2)) if d == d2 && t == t2 => Vec(d, t),
            (Pt(d, t), Pt(d2, t2)) if d == d2 && t == t2 => Pt(d, t),
            (x, y) => return Err(format!("{}.lerp({})", ty_name(x), ty_name(y))),
        },
        Apply(m, v) => match (type_of(m)?, type_of(v)?) {
            (Mat(dim, s, d), Vec(dv, t)) if dim == dv && s == t => Vec(dim, d),
            (Proj(s), Pt(3, t)) if s == t => PV4,
            (x, y) => return Err(format!("{}.apply({})", ty_name(x), ty_name(y))),
        },
        ApplyPt(m, p) => match (type_of(m)?, type_of(p)?) {
            (Mat(dim, s, d), Pt(dp, t)) if dim == dp && s == t => Pt(dim, d),
            (x, y) => return Err(format!("{}.apply_pt({})", ty_name(x), ty_name(y))),
        },
        Compose(m, n) => compose(type_of(m)?, type_of(n)?)?,
        Then(m, n) => compose(type_of(n)?, type_of(m)?)?,
        Inverse(m) => match type_of(m)? {
            Mat(3, s, d) => Mat(3, d, s),
            x => return Err(format!("{}.inverse()", ty_name(x))),
        },
        Transpose(m) => match type_of(m)? {
            Mat(dim, s, d) => Mat(dim, d, s),
            x => return Err(format!("{}.transpose()", ty_name(x))),
        },
        To(x, tag) => match type_of(x)? {
            Vec(d, _) => Vec(d, *tag),
            Pt(d, _) => Pt(d, *tag),
            y => return Err(format!("{}.to()", ty_name(y))),
        },
    })
}

fn compose(outer: Ty, inner: Ty) -> Result<Ty, String> {
    use Ty::*;
    match (outer, inner) {
        (Mat(dim, i, d), Mat(dim2, s, i2)) if dim == dim2 && i == i2 => Ok(Mat(dim, s, d)),
        (Proj(i), Mat(3, s, i2)) if i == i2 => Ok(Proj(s)),
        (x, y) => Err(format!("{} o {}", ty_name(x), ty_name(y))),
    }
}

/// Rust source of an expression; leaves are named l0, l1, ... in traversal order
fn emit(e: &Expr, leaves: &mut Vec<Ty>) -> String {
    use Expr::*;
    match e {
        Leaf(t) => {
            leaves.push(*t);
            format!("l{}", leaves.len() - 1)
        }
        Add(a, b) => format!("({} + {})", emit(a, leaves), emit(b, leaves)),
        Sub(a, b) => format!("({} - {})", emit(a, leaves), emit(b, leaves)),
        Dot(a, b) => format!("{}.dot(&{})", emit(a, leaves), emit(b, leaves)),
        Cross(a, b) => format!("{}.cross(&{})", emit(a, leaves), emit(b, leaves)),
        Lerp(a, b) => format!("{}.lerp(&{}, 0.25)", emit(a, leaves), emit(b, leaves)),
        Apply(m, v) => format!("{}.apply(&{})", emit(m, leaves), emit(v, leaves)),
        ApplyPt(m, p) => format!("{}.apply_pt(&{})", emit(m, leaves), emit(p, leaves)),
        Compose(m, n) => format!("{}.compose(&{})", emit(m, leaves), emit(n, leaves)),
        Then(m, n) => format!("{}.then(&{})", emit(m, leaves), emit(n, leaves)),
        Inverse(m) => format!("{}.inverse()", emit(m, leaves)),
        Transpose(m) => format!("{}.transpose()", emit(m, leaves)),
        To(x, tag) => {
            let inner = emit(x, leaves);
            // the dimension of the target space is taken from the model (or 3 when the operand is ill-typed anyway)
            let d = match type_of(x) {
                Ok(Ty::Vec(d, _)) | Ok(Ty::Pt(d, _)) => d,
                _ => 3,
            };
            format!("{inner}.to::<Real<{d}, {}>>()", TAGS[*tag as usize])
        }
    }
}

pub fn program_body(e: &Expr) -> String {
    let mut leaves = vec![];
    let src = emit(e, &mut leaves);
    let mut s = String::new();
    for (i, t) in leaves.iter().enumerate() {
        s.push_str(&format!("    let l{i}: {} = {};\n", ty_name(*t), leaf_init(*t)));
    }
    s.push_str(&format!("    let _r = {src};\n"));
    s
}

/// Generates a well-typed expression of type `want` (depth-bounded), using the PRNG.
fn gen_typed(r: &mut Sm, want: Ty, depth: u32) -> Expr {
    use Expr::*;
    use Ty::*;
    let tag = |r: &mut Sm| r.below(3) as u8;
    let b = |e: Expr| Box::new(e);
    if depth == 0 || r.below(5) == 0 {
        return Leaf(want);
    }
    match want {
        Vec(d, t) => match r.below(7) {
            0 => Add(b(gen_typed(r, Vec(d, t), depth - 1)), b(gen_typed(r, Vec(d, t), depth - 1))),
            1 => Sub(b(gen_typed(r, Vec(d, t), depth - 1)), b(gen_typed(r, Vec(d, t), depth - 1))),
            2 => Sub(b(gen_typed(r, Pt(d, t), depth - 1)), b(gen_typed(r, Pt(d, t), depth - 1))),
            3 => Lerp(b(gen_typed(r, Vec(d, t), depth - 1)), b(gen_typed(r, Vec(d, t), depth - 1))),
            4 => {
                let s = tag(r);
                Apply(b(gen_typed(r, Mat(d, s, t), depth - 1)), b(gen_typed(r, Vec(d, s), depth - 1)))
            }
            5 if d == 3 => Cross(b(gen_typed(r, Vec(3, t), depth - 1)), b(gen_typed(r, Vec(3, t), depth - 1))),
            _ => {
                let s = tag(r);
                To(b(gen_typed(r, Vec(d, s), depth - 1)), t)
            }
        },
        Pt(d, t) => match r.below(5) {
            0 => Add(b(gen_typed(r, Pt(d, t), depth - 1)), b(gen_typed(r, Vec(d, t), depth - 1))),
            1 => Sub(b(gen_typed(r, Pt(d, t), depth - 1)), b(gen_typed(r, Vec(d, t), depth - 1))),
            2 => Lerp(b(gen_typed(r, Pt(d, t), depth - 1)), b(gen_typed(r, Pt(d, t), depth - 1))),
            3 => {
                let s = tag(r);
                ApplyPt(b(gen_typed(r, Mat(d, s, t), depth - 1)), b(gen_typed(r, Pt(d, s), depth - 1)))
            }
            _ => {
                let s = tag(r);
                To(b(gen_typed(r, Pt(d, s), depth - 1)), t)
            }
        },
        Mat(dim, s, d) => match r.below(4) {
            0 => {
                let i = tag(r);
                Compose(b(gen_typed(r, Mat(dim, i, d), depth - 1)), b(gen_typed(r, Mat(dim, s, i), depth - 1)))
            }
            1 => {
                let i = tag(r);
                Then(b(gen_typed(r, Mat(dim, s, i), depth - 1)), b(gen_typed(r, Mat(dim, i, d), depth - 1)))
            }
            2 if dim == 3 => Inverse(b(gen_typed(r, Mat(3, d, s), depth - 1))),
            _ => Transpose(b(gen_typed(r, Mat(dim, d, s), depth - 1))),
        },
        Proj(s) => {
            let i = tag(r);
            if r.below(2) == 0 {
                Compose(b(gen_typed(r, Proj(i), depth - 1)), b(gen_typed(r, Mat(3, s, i), depth - 1)))
            } else {
                Then(b(gen_typed(r, Mat(3, s, i), depth - 1)), b(gen_typed(r, Proj(i), depth - 1)))
            }
        }
        PV4 => {
            let s = tag(r);
            Apply(b(gen_typed(r, Proj(s), depth - 1)), b(gen_typed(r, Pt(3, s), depth - 1)))
        }
        F32 => {
            let (d, t) = (2 + r.below(2) as u8, tag(r));
            Dot(b(gen_typed(r, Vec(d, t), depth - 1)), b(gen_typed(r, Vec(d, t), depth - 1)))
        }
    }
}

fn count_nodes(e: &Expr) -> usize {
    use Expr::*;
    match e {
        Leaf(_) => 1,
        Add(a, b) | Sub(a, b) | Dot(a, b) | Cross(a, b) | Lerp(a, b) | Apply(a, b) | ApplyPt(a, b) | Compose(a, b) | Then(a, b) => 1 + count_nodes(a) + count_nodes(b),
        Inverse(a) | Transpose(a) | To(a, _) => 1 + count_nodes(a),
    }
}

/// Applies one mutation at the `k`-th node (pre-order).
fn mutate(e: &Expr, k: &mut usize, r: &mut Sm) -> Expr {
    use Expr::*;
    let here = *k == 0;
    *k = k.wrapping_sub(1);
    if here {
        return match e {
            Leaf(t) => Leaf(mutate_ty(*t, r)),
            Compose(a, b) => Compose(b.clone(), a.clone()),
            Then(a, b) => Then(b.clone(), a.clone()),
            Apply(m, v) => ApplyPt(m.clone(), v.clone()),
            ApplyPt(m, v) => Apply(m.clone(), v.clone()),
            To(x, _) => (**x).clone(), // drop the explicit conversion
            Inverse(m) => Transpose(m.clone()),
            Transpose(m) => (**m).clone(),
            Add(a, b) => Add(b.clone(), a.clone()),
            Sub(a, b) => Add(a.clone(), b.clone()),
            Lerp(a, b) => Add(a.clone(), b.clone()),
            Dot(a, b) => Cross(a.clone(), b.clone()),
            Cross(a, b) => Dot(a.clone(), b.clone()),
        };
    }
    let mut m1 = |x: &Expr, k: &mut usize, r: &mut Sm| Box::new(mutate(x, k, r));
    match e {
        Leaf(t) => Leaf(*t),
        Add(a, b) => Add(m1(a, k, r), m1(b, k, r)),
        Sub(a, b) => Sub(m1(a, k, r), m1(b, k, r)),
        Dot(a, b) => Dot(m1(a, k, r), m1(b, k, r)),
        Cross(a, b) => Cross(m1(a, k, r), m1(b, k, r)),
        Lerp(a, b) => Lerp(m1(a, k, r), m1(b, k, r)),
        Apply(a, b) => Apply(m1(a, k, r), m1(b, k, r)),
        ApplyPt(a, b) => ApplyPt(m1(a, k, r), m1(b, k, r)),
        Compose(a, b) => Compose(m1(a, k, r), m1(b, k, r)),
        Then(a, b) => Then(m1(a, k, r), m1(b, k, r)),
        Inverse(a) => Inverse(m1(a, k, r)),
        Transpose(a) => Transpose(m1(a, k, r)),
        To(a, t) => To(m1(a, k, r), *t),
    }
}

fn mutate_ty(t: Ty, r: &mut Sm) -> Ty {
    use Ty::*;
    let other = |b: u8, r: &mut Sm| (b + 1 + r.below(2) as u8) % 3;
    match t {
        Vec(d, b) => match r.below(3) {
            0 => Vec(d, other(b, r)),
            1 => Vec(5 - d, b),
            _ => Pt(d, b),
        },
        Pt(d, b) => match r.below(3) {
            0 => Pt(d, other(b, r)),
            1 => Pt(5 - d, b),
            _ => Vec(d, b),
        },
        Mat(dim, s, d) => match r.below(4) {
            0 => Mat(dim, other(s, r), d),
            1 => Mat(dim, s, other(d, r)),
            2 => Mat(5 - dim, s, d),
            _ if dim == 3 => Proj(s),
            _ => Mat(dim, d, s),
        },
        Proj(s) => match r.below(2) {
            0 => Proj(other(s, r)),
            _ => Mat(3, s, s),
        },
        PV4 => Vec(3, 0),
        F32 => F32,
    }
}

// ------------------------------------------------------------------ corpus, compilation, attribution

#[derive(Clone, Debug, Serialize, Deserialize)]
pub struct Program {
    pub name: String,
    pub class: String,
    pub entry: String,
    /// function body (after the shared leaf declarations, if `with_leaves`)
    pub body: String,
    pub with_leaves: bool,
    /// the model's verdict
    pub well_typed: bool,
    /// for random programs: the model's reason when ill-typed
    pub model_says: String,
}

fn work_dir() -> PathBuf {
    verif_root().join("work").join("c10")
}

fn repo_core_path() -> String {
    // the same location the harness itself was built against
    let toml = std::fs::read_to_string(Path::new(VERIF_DIR).join("Cargo.toml")).unwrap_or_default();
    for l in toml.lines() {
        if l.starts_with("re = ") {
            if let Some(p) = l.split("path = \"").nth(1).and_then(|s| s.split('"').next()) {
                return p.to_string();
            }
        }
    }
    "/repo/core".to_string()
}

/// Writes a crate containing `progs` (one function each); returns (lib.rs path, line ranges per program).
fn write_crate(name: &str, progs: &[Program]) -> (PathBuf, Vec<(usize, usize)>) {
    let dir = work_dir().join(name);
    let _ = std::fs::create_dir_all(dir.join("src"));
    let toml = format!(
        "[package]\nname = \"c10_{name}\"\nversion = \"0.0.0\"\nedition = \"2021\"\npublish = false\n\n[workspace]\n\n[dependencies]\nretrofire-core = {{ path = \"{}\", features = [\"std\"] }}\n",
        repo_core_path()
    );
    write_if_changed(&dir.join("Cargo.toml"), &toml);
    let lock = Path::new(VERIF_DIR).join("Cargo.lock");
    if !dir.join("Cargo.lock").exists() {
        let _ = std::fs::copy(lock, dir.join("Cargo.lock"));
    }
    let mut src = String::from(PRELUDE);
    let mut ranges = vec![];
    for p in progs {
        let start = src.lines().count() + 1;
        src.push_str(&format!("\n// {} :: {}\npub fn {}() {{\n", p.class, p.entry, p.name));
        if p.with_leaves {
            src.push_str(LEAVES);
            src.push_str("    ");
            src.push_str(&p.body);
            src.push('\n');
        } else {
            src.push_str(&p.body);
        }
        src.push_str("}\n");
        ranges.push((start, src.lines().count()));
    }
    let path = dir.join("src").join("lib.rs");
    write_if_changed(&path, &src);
    (path, ranges)
}

fn write_if_changed(p: &Path, s: &str) {
    if std::fs::read_to_string(p).map(|old| old != s).unwrap_or(true) {
        std::fs::write(p, s).expect("write generated crate");
    }
}

#[derive(Debug, Clone)]
struct Diag {
    code: String,
    line: usize,
    message: String,
}

/// Runs cargo (check or build) with JSON diagnostics; returns the error diagnostics of the crate's lib.rs
/// and whether cargo itself succeeded. Err = cargo could not run / a dependency failed to build.
fn cargo_json(name: &str, build: bool) -> Result<(Vec<Diag>, bool), String> {
    let dir = work_dir().join(name);
    let mut c = Command::new("cargo");
    c.arg(if build { "build" } else { "check" })
        .arg("--message-format=json")
        .arg("--manifest-path")
        .arg(dir.join("Cargo.toml"))
        .arg("--target-dir")
        .arg(work_dir().join("target"))
        .env("CARGO_NET_OFFLINE", "true")
        .env("RUSTFLAGS", "-Awarnings")
        .current_dir(&dir);
    let out = c.output().map_err(|e| format!("cannot run cargo: {e}"))?;
    let mut diags = vec![];
    let mut dep_failed = false;
    for l in String::from_utf8_lossy(&out.stdout).lines() {
        let Ok(v) = serde_json::from_str::<Value>(l) else { continue };
        if v["reason"] != "compiler-message" {
            continue;
        }
        let m = &v["message"];
        if m["level"] != "error" {
            continue;
        }
        let target = v["target"]["name"].as_str().unwrap_or("");
        if !target.starts_with("c10_") {
            dep_failed = true;
            continue;
        }
        let code = m["code"]["code"].as_str().unwrap_or("").to_string();
        let text = m["message"].as_str().unwrap_or("").to_string();
        if text.starts_with("aborting due to") || text.starts_with("could not compile") {
            continue;
        }
        let mut line = 0usize;
        if let Some(spans) = m["spans"].as_array() {
            for s in spans {
                if s["is_primary"] == true {
                    line = s["line_start"].as_u64().unwrap_or(0) as usize;
                    // errors inside macro expansions point into the expansion: use the outermost call site
                    let mut e = &s["expansion"];
                    while !e.is_null() {
                        if let Some(l) = e["span"]["line_start"].as_u64() {
                            if e["span"]["file_name"].as_str().map_or(false, |f| f.ends_with("lib.rs")) {
                                line = l as usize;
                            }
                        }
                        e = &e["span"]["expansion"];
                    }
                    break;
                }
            }
        }
        diags.push(Diag { code, line, message: text });
    }
    if dep_failed {
        return Err("retrofire-core itself does not compile".into());
    }
    Ok((diags, out.status.success()))
}

fn owner(ranges: &[(usize, usize)], line: usize) -> Option<usize> {
    ranges.iter().position(|(a, b)| line >= *a && line <= *b)
}

pub fn enumerated() -> Vec<(Program, Program)> {
    PAIRS
        .iter()
        .enumerate()
        .map(|(i, (class, entry, ill, twin))| {
            let mk = |body: &str, ok: bool| Program {
                name: format!("{}_{:03}", if ok { "twin" } else { "case" }, i),
                class: class.to_string(),
                entry: entry.to_string(),
                body: body.to_string(),
                with_leaves: true,
                well_typed: ok,
                model_says: String::new(),
            };
            (mk(ill, false), mk(twin, true))
        })
        .collect()
}

pub fn random_programs(seed: u64, n: usize) -> Vec<Program> {
    let mut r = Sm(seed ^ 0xc10c10);
    let mut out = vec![];
    let mut seen = BTreeSet::new();
    let mut i = 0;
    while out.len() < 2 * n && i < 50 * n {
        i += 1;
        let want = match r.below(8) {
            0 | 1 => Ty::Vec(2 + r.below(2) as u8, r.below(3) as u8),
            2 | 3 => Ty::Pt(2 + r.below(2) as u8, r.below(3) as u8),
            4 => Ty::Mat(2 + r.below(2) as u8, r.below(3) as u8, r.below(3) as u8),
            5 => Ty::Proj(r.below(3) as u8),
            6 => Ty::PV4,
            _ => Ty::F32,
        };
        let e = gen_typed(&mut r, want, 3);
        if count_nodes(&e) < 3 || type_of(&e).is_err() {
            continue;
        }
        let mut k = r.below(count_nodes(&e) as u64) as usize;
        let m = mutate(&e, &mut k, &mut r);
        if m == e {
            continue;
        }
        let body_twin = program_body(&e);
        let body_mut = program_body(&m);
        if !seen.insert(body_mut.clone()) {
            continue;
        }
        let idx = out.len() / 2;
        out.push(Program { name: format!("rnd_{idx:04}_orig"), class: "random".into(), entry: "expression tree".into(), body: body_twin, with_leaves: false, well_typed: true, model_says: String::new() });
        let verdict = type_of(&m);
        out.push(Program {
            name: format!("rnd_{idx:04}_mut"),
            class: "random".into(),
            entry: "mutated expression tree".into(),
            body: body_mut,
            with_leaves: false,
            well_typed: verdict.is_ok(),
            model_says: verdict.err().unwrap_or_default(),
        });
    }
    out
}

fn type_error_code(code: &str) -> bool {
    matches!(code, "E0308" | "E0277" | "E0271" | "E0599" | "E0369" | "E0368" | "E0423" | "E0603" | "E0616" | "E0282" | "E0283" | "E0061" | "E0107" | "E0618" | "E0631" | "E0080" | "E0605" | "E0614" | "E0609" | "E0614" | "E0600" | "E0604")
}

/// Compiles the two crates and applies the oracle. Returns Err for harness-level problems.
pub fn evaluate(cx: &mut Ctx, sub: &str, twins: &[Program], misuse: &[Program], obs: &mut Obs) -> Result<(), String> {
    // ---- twins: a full build, zero errors
    let tname = format!("{sub}_twins");
    let (_p, ranges) = write_crate(&tname, twins);
    let (diags, ok) = cargo_json(&tname, true)?;
    obs.evals_n(twins.len() as u64);
    let mut bad_twins = BTreeSet::new();
    for d in &diags {
        match owner(&ranges, d.line) {
            Some(i) => {
                if bad_twins.insert(i) {
                    let f = Fail::new("well-typed-program-rejected", format!("the model (and the unchanged crate) accept `{}` [{} :: {}] but rustc reports {} {}", twins[i].body.trim().replace('\n', " "), twins[i].class, twins[i].entry, d.code, d.message));
                    cx.violation(sub, &twins[i], &f);
                }
            }
            None => return Err(format!("error outside any case in the twins crate (line {}): {} {}", d.line, d.code, d.message)),
        }
    }
    if !ok && bad_twins.is_empty() {
        return Err("the twins crate failed to build without a diagnostic in any case".into());
    }
    // ---- misuse: every case owns at least one error
    let mname = format!("{sub}_misuse");
    let (_p, ranges) = write_crate(&mname, misuse);
    let (diags, _ok) = cargo_json(&mname, false)?;
    obs.evals_n(misuse.len() as u64);
    let mut owned: BTreeMap<usize, Vec<Diag>> = BTreeMap::new();
    for d in diags {
        match owner(&ranges, d.line) {
            Some(i) => owned.entry(i).or_default().push(d),
            None => return Err(format!("error outside any case in the misuse crate (line {}): {} {}", d.line, d.code, d.message)),
        }
    }
    for (i, p) in misuse.iter().enumerate() {
        let mut ds = owned.get(&i).cloned().unwrap_or_default();
        if ds.is_empty() {
            // rustc may suppress follow-on errors: compile this case alone before judging
            let single = format!("{sub}_single");
            let (_p, r1) = write_crate(&single, std::slice::from_ref(p));
            let (d1, ok1) = cargo_json(&single, true)?;
            obs.evals_n(1);
            obs.class("recompiled-alone");
            // the crate holds this one case: every error is its own, including post-monomorphisation errors (E0080 from an
            // inline `const { assert!(..) }`), whose primary span lies in the library and which only a full build reports
            let _ = &r1;
            if d1.iter().any(|d| d.code == "E0080") {
                obs.class("rejected only by a full build (post-monomorphisation error)");
            }
            ds = d1;
            if ds.is_empty() && !ok1 {
                return Err(format!("case {} failed to build alone without an attributable diagnostic", p.name));
            }
        }
        if ds.is_empty() {
            let why = if p.model_says.is_empty() { String::new() } else { format!(" (the tag discipline forbids {})", p.model_says) };
            let f = Fail::new("ill-typed-program-accepted", format!("`{}` [{} :: {}] compiles{why}", p.body.trim().replace('\n', " "), p.class, p.entry));
            cx.violation(sub, p, &f);
        } else {
            let key: &'static str = Box::leak(format!("rejected-with:{}", ds[0].code).into_boxed_str());
            obs.class(key);
            if !ds.iter().any(|d| type_error_code(&d.code)) {
                obs.class("rejected-with-unexpected-error-code");
            }
        }
        let key: &'static str = Box::leak(format!("class:{}", p.class).into_boxed_str());
        obs.class(key);
    }
    Ok(())
}

pub fn run(cx: &mut Ctx) {
    cx.assume("the model of the tag discipline (c10.rs: type_of) mirrors the trait bounds of vec.rs, point.rs, mat.rs and math.rs; the enumerated pairs were validated against the unchanged crate");
    cx.assume("programs are compiled against retrofire-core with the `std` feature (the tag discipline is feature-independent)");
    // enumerated pairs
    let t0 = Instant::now();
    let pairs = enumerated();
    let twins: Vec<Program> = pairs.iter().map(|p| p.1.clone()).collect();
    let misuse: Vec<Program> = pairs.iter().map(|p| p.0.clone()).collect();
    let mut obs = Obs::new();
    obs.sample_cap = 4;
    for (ill, twin) in pairs.iter().take(200) {
        obs.nontrivial(hash_of(&(&ill.body, &twin.body)));
    }
    for k in [0usize, 12, 41, 66] {
        if let Some((ill, twin)) = pairs.get(k) {
            let (a, b, c, e) = (ill.body.clone(), twin.body.clone(), ill.class.clone(), ill.entry.clone());
            obs.sample(|| json!({"class": c, "entry": e, "ill_typed": a, "twin": b}));
        }
    }
    if let Err(e) = evaluate(cx, "enumerated", &twins, &misuse, &mut obs) {
        eprintln!("HARNESS-ERROR C10/enumerated: {e}");
        std::process::exit(2);
    }
    cx.report("enumerated", obs, true, t0.elapsed().as_secs_f64(), "fixed corpus, two cargo invocations");
    // random programs, in batches
    let (batches, per) = (cx.tier.pick(1, 10), cx.tier.pick(300, 500));
    for b in 0..batches {
        let t0 = Instant::now();
        let progs = random_programs(derive_seed(cx.seed, "C10", "random", b as u64), per);
        let twins: Vec<Program> = progs.iter().filter(|p| p.well_typed).cloned().collect();
        let misuse: Vec<Program> = progs.iter().filter(|p| !p.well_typed).cloned().collect();
        let mut obs = Obs::new();
        obs.sample_cap = 3;
        for p in &misuse {
            obs.nontrivial(hash_of(&p.body));
        }
        obs.class_n("random:mutants-the-model-calls-ill-typed", misuse.len() as u64);
        obs.class_n("random:programs-the-model-calls-well-typed", twins.len() as u64);
        for p in misuse.iter().take(2) {
            let (a, m) = (p.body.clone(), p.model_says.clone());
            obs.sample(|| json!({"ill_typed_mutant": a, "model_says": m}));
        }
        let name = format!("random-{b}");
        if let Err(e) = evaluate(cx, &name, &twins, &misuse, &mut obs) {
            eprintln!("HARNESS-ERROR C10/{name}: {e}");
            std::process::exit(2);
        }
        cx.report(&name, obs, false, t0.elapsed().as_secs_f64(), "grammar-generated programs, mutated, model-classified");
    }
}

pub fn replay(sub: &str, case: &Value) -> Check {
    let p: Program = serde_json::from_value(case.clone()).map_err(|e| Fail::new("bad-replay", e.to_string()))?;
    let name = "replay".to_string();
    let (_path, ranges) = write_crate(&name, std::slice::from_ref(&p));
    let (diags, ok) = cargo_json(&name, true).map_err(|e| Fail::new("harness-error", e))?;
    let _ = sub;
    let mine: Vec<&Diag> = diags.iter().filter(|d| owner(&ranges, d.line).is_some()).collect();
    if p.well_typed {
        ensure!(mine.is_empty() && ok, "well-typed-program-rejected", "`{}` is well-typed by the model but rustc reports {}", p.body.trim(), mine.first().map(|d| format!("{} {}", d.code, d.message)).unwrap_or_default());
    } else {
        ensure!(!mine.is_empty(), "ill-typed-program-accepted", "`{}` [{} :: {}] compiles", p.body.trim().replace('\n', " "), p.class, p.entry);
    }
    Ok(())
}
