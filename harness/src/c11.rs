//! C11 — 2D buffers and views act as windows onto a plain 2D array.
//!
//! Model: the root buffer is a `Vec<Vec<u32>>` holding unique values; every
//! view is a window (x0, y0, w, h) onto it (equivalently offset/stride onto the
//! row-major storage). For directly constructed views the model is the flat
//! backing slice and cell (x, y) is `backing[y * stride + x]`.
//!
//! Sub-checks
//!   exhaustive  every root <= DxD, every sub-rectangle, every sub-rectangle of
//!               that (two levels), a fixed battery of scripts on each view
//!   histories   proptest `vec(op, 0..40)` interpreted over a stack of views
//!   direct      Slice2::new / MutSlice2::new over all dims, strides, lengths
//! Every script re-creates the views from the root for each operation (views
//! are stateless windows), which lets `root.data()` be compared with the model
//! after every single write.

use crate::common::*;
use proptest::prelude::*;
use re::math::point::Point2u;
use re::math::vec::Vec2u;
use re::math::{pt2, vec2};
use re::util::buf::inner::Inner;
use re::util::buf::{Buf2, MutSlice2, Slice2};
use re::util::rect::Rect;
use serde::{Deserialize, Serialize};
use serde_json::{json, Value};
use std::ops::{Bound, Deref, DerefMut};

pub const RULE: &str = "exhaustive: all root sizes <= DxD (D=4 quick, 6 thorough), all sub-rectangles incl. empty and edge-touching ones, two nesting levels, \
x a fixed battery of scripts (read 4 ways + rows/iter under every mutability pattern, out-of-bounds probes incl. row indices >= 2^32, illegal slices, \
fill, fill_with, rows_mut, iter_mut, copy_from x4 source kinds + mismatched, per-cell IndexMut/row/get_mut writes); range forms rotate over all equivalent encodings. \
histories: proptest vec(op,0..40) on roots up to 9x9 over a stack of views, legal and illegal rects in every range form. \
direct: Slice2::new/MutSlice2::new for all dims <= D', stride 0..=w+2, len 0..=need+2*stride+3, battery + every sub-rectangle. \
root.data()/backing compared with the model after every write. Non-trivial = script/history with a write through a nested view later read through a shallower view, \
or a direct view with surplus backing data; distinct by case hash (enumerators count visited cases).";

type In<D> = Inner<u32, D>;

// ------------------------------------------------------------------ rect specs (concrete)

#[derive(Clone, Copy, Debug, PartialEq, Eq, Hash, Serialize, Deserialize)]
pub enum Bd {
    I(u32),
    E(u32),
    U,
}

impl Bd {
    fn std(self) -> Bound<u32> {
        match self {
            Bd::I(a) => Bound::Included(a),
            Bd::E(a) => Bound::Excluded(a),
            Bd::U => Bound::Unbounded,
        }
    }
}

/// One axis of a rect in a concrete range form.
#[derive(Clone, Copy, Debug, PartialEq, Eq, Hash, Serialize, Deserialize)]
pub enum Ax {
    /// a..b
    R(u32, u32),
    /// a..=b
    RI(u32, u32),
    /// ..b
    T(u32),
    /// ..=b
    TI(u32),
    /// a..
    F(u32),
    /// ..
    Full,
    /// (Bound, Bound)
    B(Bd, Bd),
}

impl Ax {
    fn bounds(&self) -> (Bd, Bd) {
        match *self {
            Ax::R(a, b) => (Bd::I(a), Bd::E(b)),
            Ax::RI(a, b) => (Bd::I(a), Bd::I(b)),
            Ax::T(b) => (Bd::U, Bd::E(b)),
            Ax::TI(b) => (Bd::U, Bd::I(b)),
            Ax::F(a) => (Bd::I(a), Bd::U),
            Ax::Full => (Bd::U, Bd::U),
            Ax::B(l, h) => (l, h),
        }
    }
    fn form_class(&self) -> &'static str {
        match self {
            Ax::R(..) => "form:a..b",
            Ax::RI(..) => "form:a..=b",
            Ax::T(..) => "form:..b",
            Ax::TI(..) => "form:..=b",
            Ax::F(..) => "form:a..",
            Ax::Full => "form:..",
            Ax::B(..) => "form:(Bound,Bound)",
        }
    }
}

#[derive(Clone, Copy, Debug, PartialEq, Eq, Hash, Serialize, Deserialize)]
pub enum RSpec {
    /// `(h, v)` pair of ranges
    Pair(Ax, Ax),
    /// `vec2(l, t)..vec2(r, b)`
    Corners(u32, u32, u32, u32),
    /// `..`
    All,
    /// `Rect { left, top, right, bottom }`
    Raw(Option<u32>, Option<u32>, Option<u32>, Option<u32>),
    /// `as_slice2()` / `as_mut_slice2()`
    Ident,
}

#[derive(Clone, Copy, Debug, PartialEq)]
enum AxRes {
    Legal(u32, u32),
    Inverted,
    Outside,
    Overflow,
}

/// The model's reading of one axis on an extent of n cells.
fn resolve_axis(lo: Bd, hi: Bd, n: u32) -> AxRes {
    if matches!(hi, Bd::I(u32::MAX)) || matches!(lo, Bd::E(u32::MAX)) {
        return AxRes::Overflow;
    }
    let s = match lo {
        Bd::I(a) => a as u64,
        Bd::E(a) => a as u64 + 1,
        Bd::U => 0,
    };
    let e = match hi {
        Bd::I(b) => b as u64 + 1,
        Bd::E(b) => b as u64,
        Bd::U => n as u64,
    };
    if e > n as u64 {
        AxRes::Outside
    } else if s > e {
        AxRes::Inverted
    } else {
        AxRes::Legal(s as u32, e as u32)
    }
}

#[derive(Clone, Copy, Debug, PartialEq)]
enum Expect {
    Legal { l: u32, t: u32, r: u32, b: u32 },
    MustPanic,
    PanicOrEmpty,
}

fn expect(spec: &RSpec, w: u32, h: u32) -> Expect {
    let (hb, vb) = match *spec {
        RSpec::Ident | RSpec::All => return Expect::Legal { l: 0, t: 0, r: w, b: h },
        RSpec::Pair(a, b) => (a.bounds(), b.bounds()),
        RSpec::Corners(l, t, r, b) => ((Bd::I(l), Bd::E(r)), (Bd::I(t), Bd::E(b))),
        RSpec::Raw(l, t, r, b) => (
            (l.map_or(Bd::U, Bd::I), r.map_or(Bd::U, Bd::E)),
            (t.map_or(Bd::U, Bd::I), b.map_or(Bd::U, Bd::E)),
        ),
    };
    let hr = resolve_axis(hb.0, hb.1, w);
    let vr = resolve_axis(vb.0, vb.1, h);
    match (hr, vr) {
        (AxRes::Outside, _) | (_, AxRes::Outside) => Expect::MustPanic,
        (AxRes::Legal(l, r), AxRes::Legal(t, b)) => Expect::Legal { l, t, r, b },
        _ => Expect::PanicOrEmpty,
    }
}

/// Every range form that denotes start s, end e on an extent of n cells.
fn encodings(s: u32, e: u32, n: u32) -> Vec<Ax> {
    let mut v = vec![Ax::R(s, e)];
    if e >= 1 && s <= e {
        v.push(Ax::RI(s, e - 1));
    }
    if s == 0 {
        v.push(Ax::T(e));
        if e >= 1 {
            v.push(Ax::TI(e - 1));
        }
    }
    if e == n {
        v.push(Ax::F(s));
    }
    if s == 0 && e == n {
        v.push(Ax::Full);
    }
    let mut los = vec![Bd::I(s)];
    if s > 0 {
        los.push(Bd::E(s - 1));
    }
    if s == 0 {
        los.push(Bd::U);
    }
    let mut his = vec![Bd::E(e)];
    if e > 0 && s <= e {
        his.push(Bd::I(e - 1));
    }
    if e == n {
        his.push(Bd::U);
    }
    for lo in &los {
        for hi in &his {
            v.push(Ax::B(*lo, *hi));
        }
    }
    v
}

/// All whole-rect encodings of the legal rectangle [l, r) x [t, b) of a (w, h) view, indexed by `pick`.
fn encode_rect(rc: [u32; 4], w: u32, h: u32, pick: u32) -> RSpec {
    let [l, t, r, b] = rc;
    let full = l == 0 && t == 0 && r == w && b == h;
    let shape = pick % 8;
    let p2 = pick / 8;
    match shape {
        5 => RSpec::Corners(l, t, r, b),
        6 => RSpec::Raw(
            if l == 0 && p2 & 1 == 0 { None } else { Some(l) },
            if t == 0 && p2 & 2 == 0 { None } else { Some(t) },
            if r == w && p2 & 4 == 0 { None } else { Some(r) },
            if b == h && p2 & 8 == 0 { None } else { Some(b) },
        ),
        7 if full => {
            if p2 & 1 == 0 {
                RSpec::All
            } else {
                RSpec::Ident
            }
        }
        _ => {
            let he = encodings(l, r, w);
            let ve = encodings(t, b, h);
            RSpec::Pair(he[(p2 as usize) % he.len()], ve[(p2 as usize / he.len()) % ve.len()])
        }
    }
}

macro_rules! ax_range {
    ($ax:expr, |$r:ident| $body:expr) => {
        match $ax {
            Ax::R(a, b) => {
                let $r = a..b;
                $body
            }
            Ax::RI(a, b) => {
                let $r = a..=b;
                $body
            }
            Ax::T(b) => {
                let $r = ..b;
                $body
            }
            Ax::TI(b) => {
                let $r = ..=b;
                $body
            }
            Ax::F(a) => {
                let $r = a..;
                $body
            }
            Ax::Full => {
                let $r = ..;
                $body
            }
            Ax::B(lo, hi) => {
                let $r = (lo.std(), hi.std());
                $body
            }
        }
    };
}

/// Goes through the crate's own `From` conversions for every range form (may panic on overflow).
fn to_rect(spec: &RSpec) -> Rect<u32> {
    match *spec {
        RSpec::Pair(h, v) => ax_range!(h, |hr| ax_range!(v, |vr| Rect::from((hr, vr)))),
        RSpec::Corners(l, t, r, b) => {
            let a: Vec2u = vec2(l, t);
            let c: Vec2u = vec2(r, b);
            Rect::from(a..c)
        }
        RSpec::All | RSpec::Ident => Rect::from(..),
        RSpec::Raw(l, t, r, b) => Rect { left: l, top: t, right: r, bottom: b },
    }
}

fn slice_imm<'a, D: Deref<Target = [u32]>>(v: &'a In<D>, s: &RSpec) -> Slice2<'a, u32> {
    match s {
        RSpec::Ident => v.as_slice2(),
        RSpec::All => v.slice(..),
        _ => v.slice(to_rect(s)),
    }
}

fn slice_mut<'a, D: DerefMut<Target = [u32]>>(v: &'a mut In<D>, s: &RSpec) -> MutSlice2<'a, u32> {
    match s {
        RSpec::Ident => v.as_mut_slice2(),
        RSpec::All => v.slice_mut(..),
        _ => v.slice_mut(to_rect(s)),
    }
}

// ------------------------------------------------------------------ expected contents of a view

#[derive(Clone, Debug)]
pub struct Grid {
    w: u32,
    h: u32,
    c: Vec<Vec<u32>>,
}

impl Grid {
    fn at(&self, x: u32, y: u32) -> Option<u32> {
        if x < self.w && y < self.h {
            Some(self.c[y as usize][x as usize])
        } else {
            None
        }
    }
    fn flat(&self) -> Vec<u32> {
        self.c.iter().flatten().copied().collect()
    }
}

// ------------------------------------------------------------------ concrete operations

#[derive(Clone, Debug, PartialEq, Eq, Hash, Serialize, Deserialize)]
pub enum COp {
    Push { spec: RSpec, mutable: bool },
    Pop,
    ReadAll,
    Probe { x: u32, y: u32 },
    RowProbe { i: u64 },
    SetPos { x: u32, y: u32 },
    SetPt { x: u32, y: u32 },
    SetRow { x: u32, y: u32 },
    GetMut { x: u32, y: u32 },
    Fill,
    FillWith,
    RowsMut,
    IterMut,
    Copy { kind: u8, dw: u32, dh: u32 },
}

impl COp {
    fn is_write(&self) -> bool {
        !matches!(self, COp::Push { .. } | COp::Pop | COp::ReadAll | COp::Probe { .. } | COp::RowProbe { .. })
    }
    fn class(&self) -> &'static str {
        match self {
            COp::Push { .. } => "op:slice",
            COp::Pop => "op:pop",
            COp::ReadAll => "op:read-all",
            COp::Probe { .. } => "op:probe",
            COp::RowProbe { .. } => "op:row-probe",
            COp::SetPos { .. } => "op:index_mut[[x,y]]",
            COp::SetPt { .. } => "op:index_mut[pt2]",
            COp::SetRow { .. } => "op:index_mut[row][x]",
            COp::GetMut { .. } => "op:get_mut",
            COp::Fill => "op:fill",
            COp::FillWith => "op:fill_with",
            COp::RowsMut => "op:rows_mut",
            COp::IterMut => "op:iter_mut",
            COp::Copy { .. } => "op:copy_from",
        }
    }
}

/// Cells a write addresses in a (w, h) view and the values it stores there: the model's semantics.
fn model_cells(op: &COp, val: u32, w: u32, h: u32) -> Vec<(u32, u32, u32)> {
    let all = |f: &dyn Fn(u32, u32) -> u32| {
        let mut v = vec![];
        for y in 0..h {
            for x in 0..w {
                v.push((x, y, f(x, y)));
            }
        }
        v
    };
    match *op {
        COp::SetPos { x, y } | COp::SetPt { x, y } | COp::SetRow { x, y } | COp::GetMut { x, y } => {
            if x < w && y < h {
                vec![(x, y, val)]
            } else {
                vec![]
            }
        }
        COp::Fill => all(&|_, _| val),
        COp::FillWith | COp::RowsMut => all(&|x, y| val + y * 64 + x),
        COp::IterMut => all(&|x, y| val + y * w + x),
        COp::Copy { dw, dh, .. } => {
            if dw == 0 && dh == 0 {
                all(&|x, y| val + y * 64 + x)
            } else {
                vec![]
            }
        }
        _ => vec![],
    }
}

/// Source for copy_from.
pub struct Src {
    kind: u8,
    sw: u32,
    sh: u32,
    buf: Option<Buf2<u32>>,
    backing: Vec<u32>,
}

const JUNK: u32 = 0xDEAD_0000;

fn make_src(kind: u8, sw: u32, sh: u32, val: u32) -> Src {
    let kind = kind % 4;
    let owned = kind < 2 && !(sw == 0 && sh > 0);
    let buf = if owned { Some(Buf2::new_with((sw, sh), |x, y| val + y * 64 + x)) } else { None };
    let stride = sw + 2;
    let len = 1 + (sh * stride + sh + 3) as usize;
    let mut backing: Vec<u32> = (0..len as u32).map(|i| JUNK + i).collect();
    for y in 0..sh {
        for x in 0..sw {
            backing[(1 + y * stride + x) as usize] = val + y * 64 + x;
        }
    }
    Src { kind: if owned { kind } else { kind.max(2) }, sw, sh, buf, backing }
}

// ------------------------------------------------------------------ leaf operations on a real view

fn read_all<D: Deref<Target = [u32]>>(v: &In<D>, g: &Grid) -> Check {
    ensure!(
        v.width() == g.w && v.height() == g.h && v.dims() == (g.w, g.h),
        "view-dims",
        "view reports dims {:?} but the model window is {}x{}",
        v.dims(),
        g.w,
        g.h
    );
    ensure!(v.is_empty() == (g.w == 0 || g.h == 0), "view-dims", "is_empty() = {} for a {}x{} view", v.is_empty(), g.w, g.h);
    for y in 0..g.h {
        match catch(|| v[y as usize].to_vec()) {
            Ok(r) => ensure!(r == g.c[y as usize], "read-mismatch", "row index [{y}] reads {:?}, model row is {:?}", r, g.c[y as usize]),
            // zero-width views: `view[y]` is implemented as the position (0, y), which does not exist; a panic is
            // accepted like the other zero-area rejections (DESIGN D-h), an empty row is accepted too
            Err(_) if g.w == 0 => {}
            Err(p) => fail!("legal-read-panicked", "row index [{y}] of a {}x{} view panicked: {p}", g.w, g.h),
        }
        for x in 0..g.w {
            let e = g.c[y as usize][x as usize];
            let p: Point2u = pt2(x, y);
            match catch(|| (v[[x, y]], v[p], v[y as usize][x as usize], v.get([x, y]).copied(), v.get(p).copied())) {
                Ok(t) => ensure!(
                    t == (e, e, e, Some(e), Some(e)),
                    "read-mismatch",
                    "cell ({x},{y}) of a {}x{} view reads [[x,y]]={}, [pt2]={}, [y][x]={}, get={:?}/{:?}; model value {e}",
                    g.w,
                    g.h,
                    t.0,
                    t.1,
                    t.2,
                    t.3,
                    t.4
                ),
                Err(p) => fail!("legal-read-panicked", "reading in-bounds cell ({x},{y}) of a {}x{} view panicked: {p}", g.w, g.h),
            }
        }
    }
    match catch(|| v.rows().map(|r| r.to_vec()).collect::<Vec<_>>()) {
        Err(p) => fail!("rows-panicked", "rows() on a {}x{} view (stride {}) panicked: {p}", g.w, g.h, v.stride()),
        Ok(rows) => check_rows("rows()", &rows, g)?,
    }
    match catch(|| v.iter().copied().collect::<Vec<_>>()) {
        Err(p) => fail!("iter-panicked", "iter() on a {}x{} view panicked: {p}", g.w, g.h),
        Ok(it) => ensure!(it == g.flat(), "iter-mismatch", "iter() on a {}x{} view yields {:?}, model {:?}", g.w, g.h, it, g.flat()),
    }
    Ok(())
}

fn check_rows(what: &str, rows: &[Vec<u32>], g: &Grid) -> Check {
    if g.w > 0 {
        ensure!(rows.len() == g.h as usize, "rows-count", "{what} yields {} rows for a view of width {} and height {}", rows.len(), g.w, g.h);
        ensure!(rows == &g.c[..], "rows-content", "{what} yields {:?}, row indexing / model gives {:?}", rows, g.c);
    } else {
        ensure!(rows.len() <= g.h as usize, "rows-count", "{what} yields {} rows for a zero-width view of height {}", rows.len(), g.h);
        ensure!(rows.iter().all(|r| r.is_empty()), "rows-content", "{what} yields non-empty rows {:?} for a zero-width view", rows);
    }
    Ok(())
}

fn probe<D: Deref<Target = [u32]>>(v: &In<D>, g: &Grid, x: u32, y: u32) -> Check {
    let exp = g.at(x, y);
    let judge = |how: &str, r: Result<Option<u32>, String>, none_ok: bool| -> Check {
        match (r, exp) {
            (Ok(Some(a)), Some(e)) => ensure!(a == e, "read-mismatch", "{how} at ({x},{y}) reads {a}, model {e}"),
            (Ok(Some(a)), None) => fail!("oob-returned-value", "{how} at ({x},{y}) outside a {}x{} view returned {a}", g.w, g.h),
            (Ok(None), Some(e)) => fail!("read-mismatch", "{how} at in-bounds ({x},{y}) returned None, model {e}"),
            (Ok(None), None) => ensure!(none_ok, "harness", "unreachable"),
            (Err(p), Some(_)) => fail!("legal-read-panicked", "{how} at in-bounds ({x},{y}) of a {}x{} view panicked: {p}", g.w, g.h),
            (Err(_), None) => {}
        }
        Ok(())
    };
    judge("get([x,y])", catch(|| v.get([x, y]).copied()), true)?;
    judge("index [[x,y]]", catch(|| Some(v[[x, y]])), false)?;
    if exp.is_some() || x == g.w || y == g.h {
        let p: Point2u = pt2(x, y);
        judge("index [pt2(x,y)]", catch(|| Some(v[p])), false)?;
    }
    judge("index [y][x]", catch(|| Some(v[y as usize][x as usize])), false)?;
    Ok(())
}

fn row_probe<D: Deref<Target = [u32]>>(v: &In<D>, g: &Grid, i: u64) -> Check {
    let r = catch(|| v[i as usize].to_vec());
    if i < g.h as u64 {
        match r {
            Ok(r) => ensure!(r == g.c[i as usize], "read-mismatch", "row index [{i}] reads {:?}, model {:?}", r, g.c[i as usize]),
            Err(_) if g.w == 0 => {}
            Err(p) => fail!("legal-read-panicked", "row index [{i}] of a {}x{} view panicked: {p}", g.w, g.h),
        }
    } else if let Ok(r) = r {
        fail!("oob-returned-value", "row index [{i}] on a view of height {} returned the row {:?} instead of panicking", g.h, r);
    }
    Ok(())
}

/// Inputs and outputs of one operation applied at the end of a path of views.
pub struct Leaf<'a> {
    op: &'a COp,
    val: u32,
    g: &'a Grid,
    src: Option<&'a Src>,
    new_dims: Option<(u32, u32)>,
    slice_panic: Option<String>,
    immutable_leaf: bool,
}

impl<'a> Leaf<'a> {
    fn new(op: &'a COp, val: u32, g: &'a Grid, src: Option<&'a Src>) -> Self {
        Leaf { op, val, g, src, new_dims: None, slice_panic: None, immutable_leaf: false }
    }
}

fn do_write<D: DerefMut<Target = [u32]>>(v: &mut In<D>, lf: &mut Leaf) -> Check {
    let g = lf.g;
    let val = lf.val;
    let (w, h) = (g.w, g.h);
    match *lf.op {
        COp::SetPos { x, y } | COp::SetPt { x, y } | COp::SetRow { x, y } => {
            let how = lf.op.class();
            let r = match lf.op {
                COp::SetPos { .. } => catch(|| v[[x, y]] = val),
                COp::SetPt { .. } => {
                    let p: Point2u = pt2(x, y);
                    catch(|| v[p] = val)
                }
                _ => catch(|| v[y as usize][x as usize] = val),
            };
            match (r, g.at(x, y)) {
                (Err(p), Some(_)) => fail!("legal-write-panicked", "{how} at in-bounds ({x},{y}) of a {w}x{h} view panicked: {p}"),
                (Ok(()), None) => fail!("oob-write-accepted", "{how} at ({x},{y}) outside a {w}x{h} view did not panic"),
                _ => {}
            }
        }
        COp::GetMut { x, y } => {
            let r = catch(|| {
                v.get_mut([x, y]).map(|c| {
                    let o = *c;
                    *c = val;
                    o
                })
            });
            match (r, g.at(x, y)) {
                (Ok(Some(o)), Some(e)) => ensure!(o == e, "read-mismatch", "get_mut at ({x},{y}) saw {o}, model {e}"),
                (Ok(Some(o)), None) => fail!("oob-returned-value", "get_mut at ({x},{y}) outside a {w}x{h} view returned a cell holding {o}"),
                (Ok(None), Some(_)) => fail!("read-mismatch", "get_mut at in-bounds ({x},{y}) of a {w}x{h} view returned None"),
                (Err(p), Some(_)) => fail!("legal-write-panicked", "get_mut at in-bounds ({x},{y}) of a {w}x{h} view panicked: {p}"),
                _ => {}
            }
        }
        COp::Fill => {
            if let Err(p) = catch(|| v.fill(val)) {
                fail!("legal-write-panicked", "fill on a {w}x{h} view (stride {}) panicked: {p}", v.stride());
            }
        }
        COp::FillWith => {
            let mut calls = vec![];
            let r = catch(|| {
                v.fill_with(|x, y| {
                    calls.push((x, y));
                    val.wrapping_add(y.wrapping_mul(64)).wrapping_add(x)
                })
            });
            if let Err(p) = r {
                fail!("legal-write-panicked", "fill_with on a {w}x{h} view (stride {}) panicked: {p}", v.stride());
            }
            let mut want = vec![];
            for y in 0..h {
                for x in 0..w {
                    want.push((x, y));
                }
            }
            ensure!(calls == want, "fill-with-calls", "fill_with on a {w}x{h} view called f with {:?}, expected row-major {:?}", calls, want);
        }
        COp::RowsMut => {
            let r = catch(|| {
                let mut shape = vec![];
                for (y, row) in v.rows_mut().enumerate() {
                    shape.push(row.to_vec());
                    for (x, c) in row.iter_mut().enumerate() {
                        *c = val.wrapping_add((y as u32).wrapping_mul(64)).wrapping_add(x as u32);
                    }
                }
                shape
            });
            match r {
                Err(p) => fail!("rows-panicked", "rows_mut() on a {w}x{h} view (stride {}) panicked: {p}", v.stride()),
                Ok(rows) => check_rows("rows_mut()", &rows, g)?,
            }
        }
        COp::IterMut => {
            let r = catch(|| {
                let mut old = vec![];
                for (i, c) in v.iter_mut().enumerate() {
                    old.push(*c);
                    *c = val.wrapping_add(i as u32);
                }
                old
            });
            match r {
                Err(p) => fail!("iter-panicked", "iter_mut() on a {w}x{h} view panicked: {p}"),
                Ok(old) => ensure!(old == g.flat(), "iter-mismatch", "iter_mut() on a {w}x{h} view yields {:?}, model {:?}", old, g.flat()),
            }
        }
        COp::Copy { dw, dh, .. } => {
            let src = lf.src.expect("copy source");
            let (sw, sh) = (src.sw, src.sh);
            let r = catch(|| match (src.kind, &src.buf) {
                (0, Some(b)) => v.copy_from(b.clone()),
                (1, Some(b)) => v.copy_from(b),
                (3, _) => {
                    let mut bk = src.backing.clone();
                    v.copy_from(MutSlice2::new((sw, sh), sw + 2, &mut bk[1..]))
                }
                _ => v.copy_from(Slice2::new((sw, sh), sw + 2, &src.backing[1..])),
            });
            match (r, dw == 0 && dh == 0) {
                (Err(p), true) => fail!("legal-write-panicked", "copy_from a {sw}x{sh} source (kind {}) into a {w}x{h} view panicked: {p}", src.kind),
                (Ok(()), false) => fail!("copy-mismatch-accepted", "copy_from a {sw}x{sh} source into a {w}x{h} view did not panic (documented: panics on dimension mismatch)"),
                _ => {}
            }
        }
        _ => {}
    }
    Ok(())
}

fn leaf_imm<D: Deref<Target = [u32]>>(v: &In<D>, lf: &mut Leaf) -> Check {
    match lf.op {
        COp::Push { spec, .. } => {
            match catch(|| slice_imm(v, spec).dims()) {
                Ok(d) => lf.new_dims = Some(d),
                Err(p) => lf.slice_panic = Some(p),
            }
            Ok(())
        }
        COp::Probe { x, y } => probe(v, lf.g, *x, *y),
        COp::RowProbe { i } => row_probe(v, lf.g, *i),
        _ => read_all(v, lf.g),
    }
}

fn leaf_mut<D: DerefMut<Target = [u32]>>(v: &mut In<D>, lf: &mut Leaf) -> Check {
    match lf.op {
        COp::Push { spec, mutable: true } => {
            match catch(|| slice_mut(v, spec).dims()) {
                Ok(d) => lf.new_dims = Some(d),
                Err(p) => lf.slice_panic = Some(p),
            }
            Ok(())
        }
        op if op.is_write() => do_write(v, lf),
        COp::RowProbe { i } => {
            // the same probe through IndexMut<usize> (a separate impl from Index<usize>)
            row_probe(&*v, lf.g, *i)?;
            let g = lf.g;
            let r = catch(|| {
                let row: &mut [u32] = &mut v[*i as usize];
                row.to_vec()
            });
            if *i < g.h as u64 {
                match r {
                    Ok(r) => ensure!(r == g.c[*i as usize], "read-mismatch", "mutable row index [{i}] reads {:?}, model {:?}", r, g.c[*i as usize]),
                    Err(_) if g.w == 0 => {}
                    Err(p) => fail!("legal-read-panicked", "mutable row index [{i}] of a {}x{} view panicked: {p}", g.w, g.h),
                }
            } else if let Ok(r) = r {
                fail!("oob-returned-value", "mutable row index [{i}] on a view of height {} returned the row {:?} instead of panicking", g.h, r);
            }
            Ok(())
        }
        _ => leaf_imm(&*v, lf),
    }
}

fn walk_imm<D: Deref<Target = [u32]>>(v: &In<D>, path: &[(RSpec, bool)], lf: &mut Leaf) -> Check {
    match path.split_first() {
        None => {
            lf.immutable_leaf = true;
            leaf_imm(v, lf)
        }
        Some(((spec, _), rest)) => {
            let c = slice_imm(v, spec);
            walk_imm(&*c, rest, lf)
        }
    }
}

fn walk_mut<D: DerefMut<Target = [u32]>>(v: &mut In<D>, path: &[(RSpec, bool)], lf: &mut Leaf) -> Check {
    match path.split_first() {
        None => leaf_mut(v, lf),
        Some(((spec, true), rest)) => {
            let mut c = slice_mut(v, spec);
            walk_mut(&mut *c, rest, lf)
        }
        Some(((spec, false), rest)) => {
            let c = slice_imm(&*v, spec);
            walk_imm(&*c, rest, lf)
        }
    }
}

// ------------------------------------------------------------------ the world: real root + model

#[derive(Clone, Copy, Debug)]
struct Win {
    x0: u32,
    y0: u32,
    w: u32,
    h: u32,
}

/// A concrete, self-contained sequence of operations on one root buffer.
#[derive(Clone, Debug, PartialEq, Eq, Hash, Serialize, Deserialize)]
pub struct Script {
    pub rw: u32,
    pub rh: u32,
    /// 0 = new_from, 1 = new_with, 2 = new + data_mut
    pub ctor: u8,
    /// stop (instead of carrying on with the parent) when a legal zero-area slice is rejected
    pub strict: bool,
    pub ops: Vec<COp>,
}

#[derive(PartialEq)]
enum Flow {
    Go,
    Rejected,
}

struct World {
    root: Buf2<u32>,
    model: Vec<Vec<u32>>,
    rw: u32,
    path: Vec<(RSpec, bool)>,
    wins: Vec<Win>,
    next: u32,
    nested_write: Option<usize>,
    nt: bool,
    max_depth: usize,
}

fn build_root(rw: u32, rh: u32, ctor: u8) -> Buf2<u32> {
    match ctor % 3 {
        0 => Buf2::new_from((rw, rh), 1u32..),
        1 => Buf2::new_with((rw, rh), |x, y| 1 + y * rw + x),
        _ => {
            let mut b = Buf2::new((rw, rh));
            for (i, c) in b.data_mut().iter_mut().enumerate() {
                *c = 1 + i as u32;
            }
            b
        }
    }
}

impl World {
    /// Ok(None): the constructor rejected a zero-width buffer (DESIGN D-h).
    fn new(rw: u32, rh: u32, ctor: u8, obs: &mut Obs) -> Result<Option<World>, Fail> {
        let model: Vec<Vec<u32>> = (0..rh).map(|y| (0..rw).map(|x| 1 + y * rw + x).collect()).collect();
        let root = match catch(|| build_root(rw, rh, ctor)) {
            Ok(b) => b,
            Err(p) => {
                if rw == 0 && rh > 0 {
                    obs.class("ctor:zero-width-owned-rejected(D-h)");
                    return Ok(None);
                }
                fail!("ctor-rejected-legal", "Buf2 constructor {} for dims ({rw},{rh}) panicked: {p}", ctor % 3);
            }
        };
        ensure!(root.dims() == (rw, rh) && root.stride() == rw, "view-dims", "new buffer ({rw},{rh}) reports dims {:?} stride {}", root.dims(), root.stride());
        let flat: Vec<u32> = model.iter().flatten().copied().collect();
        ensure!(root.data() == &flat[..], "ctor-content", "constructor {} for ({rw},{rh}) produced {:?}, expected row-major {:?}", ctor % 3, root.data(), flat);
        Ok(Some(World {
            root,
            model,
            rw,
            path: vec![],
            wins: vec![Win { x0: 0, y0: 0, w: rw, h: rh }],
            next: 1_000_000,
            nested_write: None,
            nt: false,
            max_depth: 0,
        }))
    }

    fn top(&self) -> Win {
        *self.wins.last().unwrap()
    }

    fn grid(&self, w: &Win) -> Grid {
        let c = (w.y0..w.y0 + w.h).map(|y| self.model[y as usize][w.x0 as usize..(w.x0 + w.w) as usize].to_vec()).collect();
        Grid { w: w.w, h: w.h, c }
    }

    fn compare_storage(&self, what: &str) -> Check {
        let flat: Vec<u32> = self.model.iter().flatten().copied().collect();
        let data = self.root.data();
        if data == &flat[..] {
            return Ok(());
        }
        ensure!(data.len() == flat.len(), "storage-mismatch", "root data length {} != model {}", data.len(), flat.len());
        let i = (0..flat.len()).find(|&i| data[i] != flat[i]).unwrap();
        let (x, y) = (i as u32 % self.rw, i as u32 / self.rw);
        let w = self.top();
        let inside = x >= w.x0 && x < w.x0 + w.w && y >= w.y0 && y < w.y0 + w.h;
        let n = (0..flat.len()).filter(|&i| data[i] != flat[i]).count();
        if inside {
            fail!("write-wrong-cell-or-value", "after {what} through the view at root window {:?}: root cell ({x},{y}) holds {} but the model says {} ({n} cells differ)", w, data[i], flat[i]);
        } else {
            fail!("write-outside-view", "after {what} through the view at root window {:?}: root cell ({x},{y}), which is outside the view, changed from {} to {} ({n} cells differ)", w, flat[i], data[i]);
        }
    }

    fn exec(&mut self, op: &COp, obs: &mut Obs) -> Result<Flow, Fail> {
        let depth = self.path.len();
        self.max_depth = self.max_depth.max(depth);
        let win = self.top();
        if let COp::Pop = op {
            if depth > 0 {
                self.path.pop();
                self.wins.pop();
            } else {
                obs.class("pop-at-root(no-op)");
            }
            return Ok(Flow::Go);
        }
        let all_mut = self.path.iter().all(|l| l.1);
        let degraded = op.is_write() && !all_mut;
        if degraded {
            obs.class("write-on-immutable-view(degraded to read-all)");
        }
        let g = self.grid(&win);
        let val = self.next;
        let mut src = None;
        if op.is_write() && !degraded {
            self.next += 4096;
            if let COp::Copy { kind, dw, dh } = *op {
                src = Some(make_src(kind, win.w + dw, win.h + dh, val));
            }
        }
        let rop = if degraded { &COp::ReadAll } else { op };
        let mut lf = Leaf::new(rop, val, &g, src.as_ref());
        let path = std::mem::take(&mut self.path);
        let r = catch(|| walk_mut(&mut *self.root, &path, &mut lf));
        self.path = path;
        let (new_dims, slice_panic, imm_leaf) = (lf.new_dims, lf.slice_panic.take(), lf.immutable_leaf);
        match r {
            Err(p) => fail!("legal-op-panicked", "re-creating the established views (depth {depth}) or a harness step panicked: {p}"),
            Ok(c) => c?,
        }
        match rop {
            COp::Push { spec, mutable } => {
                let exp = expect(spec, win.w, win.h);
                match (exp, new_dims, slice_panic) {
                    (Expect::Legal { l, t, r, b }, Some(d), _) => {
                        ensure!(d == (r - l, b - t), "slice-dims", "slice {:?} of a {}x{} view has dims {:?}, expected {:?}", spec, win.w, win.h, d, (r - l, b - t));
                        self.path.push((*spec, *mutable && !imm_leaf));
                        self.wins.push(Win { x0: win.x0 + l, y0: win.y0 + t, w: r - l, h: b - t });
                        obs.class(if r - l == 0 || b - t == 0 { "slice:legal-empty" } else { "slice:legal-nonempty" });
                    }
                    (Expect::Legal { l, t, r, b }, None, p) => {
                        let p = p.unwrap_or_default();
                        if r - l == 0 && b - t > 0 {
                            obs.class("slice:legal-zero-width-rejected(accepted, D-h)");
                        } else if b - t == 0 {
                            obs.class("slice:legal-zero-height-rejected(accepted, D-h)");
                        } else {
                            fail!("legal-slice-panicked", "slice {:?} (cells [{l},{r})x[{t},{b})) of a {}x{} view panicked: {p}", spec, win.w, win.h);
                        }
                        return Ok(Flow::Rejected);
                    }
                    (Expect::MustPanic, Some(d), _) => fail!("illegal-slice-accepted", "slice {:?} reaches outside a {}x{} view but returned a view of dims {:?}", spec, win.w, win.h, d),
                    (Expect::PanicOrEmpty, Some(d), _) => {
                        ensure!(d.0 == 0 || d.1 == 0, "illegal-slice-accepted", "inverted/overflowing slice {:?} of a {}x{} view returned a non-empty view {:?}", spec, win.w, win.h, d);
                        obs.class("slice:inverted-returned-empty");
                    }
                    (Expect::MustPanic, None, _) => obs.class("slice:outside-panicked"),
                    (Expect::PanicOrEmpty, None, _) => obs.class("slice:inverted-or-overflow-panicked"),
                }
            }
            COp::ReadAll | COp::Probe { .. } | COp::RowProbe { .. } => {
                if let Some(wd) = self.nested_write {
                    if depth < wd {
                        self.nt = true;
                    }
                }
            }
            _ => {
                let cells = model_cells(rop, val, win.w, win.h);
                if !cells.is_empty() && depth >= 1 {
                    self.nested_write = Some(self.nested_write.map_or(depth, |d| d.max(depth)));
                }
                for (x, y, v) in cells {
                    self.model[(win.y0 + y) as usize][(win.x0 + x) as usize] = v;
                }
                self.compare_storage(rop.class())?;
            }
        }
        Ok(Flow::Go)
    }
}

fn depth_class(d: usize) -> &'static str {
    match d {
        0 => "depth:0(root)",
        1 => "depth:1",
        2 => "depth:2",
        3 => "depth:3",
        _ => "depth:4+",
    }
}

fn spec_classes(spec: &RSpec, obs: &mut Obs) {
    match spec {
        RSpec::Pair(a, b) => {
            obs.class(a.form_class());
            obs.class(b.form_class());
        }
        RSpec::Corners(..) => obs.class("form:Range<Vec2u>"),
        RSpec::All => obs.class("form:.. (whole rect)"),
        RSpec::Raw(..) => obs.class("form:Rect{..}"),
        RSpec::Ident => obs.class("form:as_slice2/as_mut_slice2"),
    }
}

/// Runs a script. Returns whether it was non-trivial by RULE.
pub fn run_script(s: &Script, obs: &mut Obs) -> Result<bool, Fail> {
    let Some(mut w) = World::new(s.rw, s.rh, s.ctor, obs)? else { return Ok(false) };
    for (k, op) in s.ops.iter().enumerate() {
        obs.class(op.class());
        let top = w.top();
        if !matches!(op, COp::Pop) {
            obs.class(depth_class(w.path.len()));
            if top.w == 0 || top.h == 0 {
                obs.class("on-empty-view");
            }
        }
        if let COp::Push { spec, mutable } = op {
            spec_classes(spec, obs);
            obs.class(if *mutable { "slice_mut" } else { "slice" });
        }
        match w.exec(op, obs) {
            Ok(Flow::Go) => {}
            Ok(Flow::Rejected) => {
                if s.strict {
                    break;
                }
            }
            Err(mut f) => {
                f.msg = format!("op #{k} {:?} at depth {} on a {}x{} view of a {}x{} root: {}", op, w.path.len(), top.w, top.h, s.rw, s.rh, f.msg);
                return Err(f);
            }
        }
    }
    obs.max("max-nesting-depth", w.max_depth as f64);
    Ok(w.nt)
}

// ------------------------------------------------------------------ (a) exhaustive batteries

fn rects(w: u32, h: u32) -> Vec<[u32; 4]> {
    let mut v = vec![];
    for l in 0..=w {
        for r in l..=w {
            for t in 0..=h {
                for b in t..=h {
                    v.push([l, t, r, b]);
                }
            }
        }
    }
    v
}

fn oob_points(w: u32, h: u32) -> Vec<(u32, u32)> {
    let mut v = vec![(w, 0), (0, h), (w, h), (u32::MAX, 0), (0, u32::MAX), (w + 1, h + 1)];
    if h > 0 {
        v.push((w, h - 1));
    }
    if w > 0 {
        v.push((w - 1, h));
    }
    v
}

fn row_probes(h: u32) -> Vec<u64> {
    let mut v = vec![h as u64, h as u64 + 1, u32::MAX as u64, usize::MAX as u64];
    if usize::BITS > 32 {
        v.push(1u64 << 32);
        v.push((1u64 << 32) + h as u64);
        v.push(3u64 << 32);
        for y in 0..h as u64 {
            v.push((1u64 << 32) + y);
        }
        if h > 0 {
            v.push((1u64 << 40) + h as u64 - 1);
        }
    }
    for y in 0..h as u64 {
        v.push(y);
    }
    v
}

fn illegal_specs(w: u32, h: u32, pick: u32) -> Vec<RSpec> {
    let mut v = vec![
        RSpec::Pair(Ax::R(0, w + 1), Ax::Full),
        RSpec::Pair(Ax::Full, Ax::R(0, h + 1)),
        RSpec::Pair(Ax::RI(0, w), Ax::T(h)),
        RSpec::Pair(Ax::T(w), Ax::TI(h)),
        RSpec::Pair(Ax::R(w + 1, w + 1), Ax::Full),
        RSpec::Pair(Ax::Full, Ax::F(h + 1)),
        RSpec::Corners(0, 0, w + 1, h),
        RSpec::Corners(0, 0, w, h + 2),
        RSpec::Raw(None, None, Some(w + 1), None),
        RSpec::Raw(None, Some(h + 1), None, Some(h + 1)),
        RSpec::Pair(Ax::B(Bd::E(w), Bd::U), Ax::Full),
        RSpec::Pair(Ax::TI(u32::MAX), Ax::Full),
        RSpec::Pair(Ax::Full, Ax::RI(0, u32::MAX)),
        RSpec::Pair(Ax::T(u32::MAX), Ax::Full),
        // overruns combined with an empty or one-line extent on the other axis (the linear range then still fits the data)
        RSpec::Pair(Ax::R(0, w + 1), Ax::R(0, 0)),
        RSpec::Pair(Ax::R(0, w + 1), Ax::T(h.min(1))),
        RSpec::Pair(Ax::R(0, 0), Ax::R(0, h + 1)),
        RSpec::Pair(Ax::T(w.min(1)), Ax::TI(h)),
    ];
    if w >= 1 {
        v.push(RSpec::Pair(Ax::R(1, 0), Ax::Full));
        v.push(RSpec::Corners(w, 0, w - 1, h));
    }
    if h >= 1 {
        v.push(RSpec::Pair(Ax::Full, Ax::R(h, h - 1)));
        v.push(RSpec::Raw(None, Some(1), None, Some(0)));
    }
    if h >= 2 {
        v.push(RSpec::Pair(Ax::Full, Ax::RI(2, 0)));
    }
    let k = pick as usize % v.len();
    v.rotate_left(k);
    v
}

fn patterns(k: usize) -> Vec<Vec<bool>> {
    match k {
        0 => vec![vec![]],
        1 => vec![vec![false], vec![true]],
        _ => vec![vec![false, false], vec![true, true], vec![true, false]],
    }
}

/// (rect, parent dims) per level
type Levels = Vec<([u32; 4], (u32, u32))>;

fn pushes(levels: &Levels, pat: &[bool], salt: &mut u64) -> Vec<COp> {
    levels
        .iter()
        .zip(pat)
        .map(|((rc, (pw, ph)), m)| {
            *salt += 1;
            COp::Push { spec: encode_rect(*rc, *pw, *ph, splitmix(*salt) as u32), mutable: *m }
        })
        .collect()
}

fn battery(rw: u32, rh: u32, levels: &Levels, salt: &mut u64) -> Vec<Script> {
    let k = levels.len();
    let (w, h) = levels.last().map_or((rw, rh), |(rc, _)| (rc[2] - rc[0], rc[3] - rc[1]));
    let mut out = vec![];
    let mut mk = |ops: Vec<COp>, salt: &mut u64| {
        out.push(Script { rw, rh, ctor: (*salt % 3) as u8, strict: true, ops });
    };
    let all_mut = vec![true; k];
    let all_imm = vec![false; k];
    for pat in patterns(k) {
        let mut ops = pushes(levels, &pat, salt);
        ops.push(COp::ReadAll);
        mk(ops, salt);
    }
    for (j, pat) in [&all_mut, &all_imm].into_iter().enumerate() {
        let mut ops = pushes(levels, pat, salt);
        // (unwinding is serialised process-wide, so the second mutability pattern probes fewer points)
        let pts = oob_points(w, h);
        let n = if j == 0 { pts.len() } else { 3 };
        let r = *salt as usize % pts.len();
        for (x, y) in pts.into_iter().cycle().skip(if j == 0 { 0 } else { r }).take(n) {
            ops.push(COp::Probe { x, y });
        }
        if w > 0 && h > 0 {
            ops.push(COp::Probe { x: 0, y: 0 });
            ops.push(COp::Probe { x: w - 1, y: h - 1 });
        }
        mk(ops, salt);
        if k == 0 {
            break;
        }
    }
    {
        let mut ops = pushes(levels, if *salt & 1 == 0 { &all_imm } else { &all_mut }, salt);
        for i in row_probes(h) {
            ops.push(COp::RowProbe { i });
        }
        mk(ops, salt);
    }
    {
        let mut ops = pushes(levels, &all_mut, salt);
        // every illegal form on the root and on level-1 views; a rotating selection of 6 on level-2 views
        let ill = illegal_specs(w, h, (*salt >> 3) as u32);
        let n = if k < 2 { ill.len() } else { 6 };
        for (j, spec) in ill.into_iter().take(n).enumerate() {
            ops.push(COp::Push { spec, mutable: j % 2 == 0 });
        }
        mk(ops, salt);
    }
    let cells: Vec<(u32, u32)> = (0..h).flat_map(|y| (0..w).map(move |x| (x, y))).collect();
    let mut writes: Vec<Vec<COp>> = vec![
        vec![COp::Fill],
        vec![COp::FillWith],
        vec![COp::RowsMut],
        vec![COp::IterMut],
        vec![COp::Copy { kind: 0, dw: 0, dh: 0 }],
        vec![COp::Copy { kind: 1, dw: 0, dh: 0 }],
        vec![COp::Copy { kind: 2, dw: 0, dh: 0 }],
        vec![COp::Copy { kind: 3, dw: 0, dh: 0 }],
        vec![COp::Copy { kind: (*salt % 4) as u8, dw: 1, dh: 0 }, COp::Copy { kind: (*salt / 4 % 4) as u8, dw: 0, dh: 1 }],
        cells.iter().map(|&(x, y)| COp::SetPos { x, y }).collect(),
        cells.iter().map(|&(x, y)| COp::SetPt { x, y }).collect(),
        cells.iter().rev().map(|&(x, y)| COp::SetRow { x, y }).collect(),
        cells.iter().map(|&(x, y)| COp::GetMut { x, y }).collect(),
    ];
    let mut oobw = vec![];
    for (j, (x, y)) in oob_points(w, h).into_iter().enumerate() {
        oobw.push(COp::GetMut { x, y });
        oobw.push(if j % 2 == 0 { COp::SetPos { x, y } } else { COp::SetRow { x, y } });
        if j < 3 {
            oobw.push(if j % 2 == 0 { COp::SetRow { x, y } } else { COp::SetPos { x, y } });
            oobw.push(COp::SetPt { x, y });
        }
    }
    writes.push(oobw);
    for wops in writes {
        let mut ops = pushes(levels, &all_mut, salt);
        ops.extend(wops);
        ops.push(COp::ReadAll);
        for _ in 0..k {
            ops.push(COp::Pop);
            ops.push(COp::ReadAll);
        }
        mk(ops, salt);
    }
    out
}

/// Work items: (rw, rh, None) = battery on the root; (rw, rh, Some(r1)) = battery on that level-1
/// view and on every sub-rectangle of it.
fn exhaustive_items(d: u32) -> Vec<(u32, u32, Option<[u32; 4]>)> {
    let mut v = vec![];
    for rw in 0..=d {
        for rh in 0..=d {
            v.push((rw, rh, None));
            for r in rects(rw, rh) {
                v.push((rw, rh, Some(r)));
            }
        }
    }
    v
}

fn run_scripts(scripts: Vec<Script>, obs: &mut Obs) -> Result<(), (Script, Fail)> {
    for s in scripts {
        obs.evals_n(1);
        match catch(|| run_script(&s, obs)) {
            Ok(Ok(nt)) => {
                if nt {
                    obs.nontrivial_enumerated(1);
                    if obs.wants_sample() {
                        obs.sample(|| json!(s));
                    }
                }
            }
            Ok(Err(f)) => return Err((s, f)),
            Err(p) => return Err((s, Fail::new("harness-or-library-panic", format!("unexpected panic: {p}")))),
        }
    }
    Ok(())
}

fn exhaustive_item(item: &(u32, u32, Option<[u32; 4]>), idx: u64, obs: &mut Obs) -> Result<(), (Script, Fail)> {
    let (rw, rh, r1) = *item;
    let mut salt = idx.wrapping_mul(0x9E37_79B9);
    match r1 {
        None => {
            obs.class("views:level-0");
            run_scripts(battery(rw, rh, &vec![], &mut salt), obs)
        }
        Some(r1) => {
            obs.class("views:level-1");
            let l1 = vec![(r1, (rw, rh))];
            run_scripts(battery(rw, rh, &l1, &mut salt), obs)?;
            let (w1, h1) = (r1[2] - r1[0], r1[3] - r1[1]);
            for r2 in rects(w1, h1) {
                obs.class("views:level-2");
                let l2 = vec![(r1, (rw, rh)), (r2, (w1, h1))];
                run_scripts(battery(rw, rh, &l2, &mut salt), obs)?;
            }
            Ok(())
        }
    }
}

// ------------------------------------------------------------------ (b) generated histories

/// A coordinate chosen relative to the extent of the current view (resolved at interpretation time).
#[derive(Clone, Copy, Debug, PartialEq, Eq, Hash, Serialize, Deserialize)]
pub struct CoG {
    pub k: u16,
    /// 0..=4 inside, 5 = extent (first outside), 6 = a little beyond, 7 = u32::MAX
    pub kind: u8,
}

/// One axis of a rectangle chosen relative to the extent of the current view.
#[derive(Clone, Copy, Debug, PartialEq, Eq, Hash, Serialize, Deserialize)]
pub struct AxG {
    pub a: u16,
    pub b: u16,
    /// index into the equivalent range forms
    pub form: u8,
    /// 0..=12 legal, 13 beyond the far edge, 14 inverted, 15 end = u32::MAX (inclusive)
    pub bad: u8,
    /// 0 whole extent, 1 trim each side by 0/1, 2.. arbitrary
    pub mode: u8,
}

#[derive(Clone, Debug, PartialEq, Eq, Hash, Serialize, Deserialize)]
pub enum Op {
    Push { h: AxG, v: AxG, shape: u8, mutable: bool },
    Pop,
    ReadAll,
    Probe { x: CoG, y: CoG },
    RowProbe { y: CoG, hi: u8 },
    Set { x: CoG, y: CoG, via: u8 },
    Fill,
    FillWith,
    RowsMut,
    IterMut,
    Copy { kind: u8, dw: u8, dh: u8 },
}

#[derive(Clone, Debug, PartialEq, Eq, Hash, Serialize, Deserialize)]
pub struct HistCase {
    pub rw: u32,
    pub rh: u32,
    pub ctor: u8,
    pub ops: Vec<Op>,
}

fn res_co(c: &CoG, n: u32) -> u32 {
    match c.kind % 8 {
        0..=4 => ((c.k as u64 * n as u64) >> 16) as u32,
        5 => n,
        6 => n + 1 + (c.k % 3) as u32,
        _ => u32::MAX - (c.k % 2) as u32,
    }
}

fn res_ax(g: &AxG, n: u32) -> Ax {
    let n64 = n as u64;
    let (mut s, mut e): (u64, u64) = match g.mode % 4 {
        0 => (0, n64),
        1 => {
            let s = (g.a % 2) as u64;
            let e = n64.saturating_sub((g.b % 2) as u64);
            if s <= e {
                (s, e)
            } else {
                (e, e)
            }
        }
        _ => {
            let i = (g.a as u64 * (n64 + 1)) >> 16;
            let j = (g.b as u64 * (n64 + 1)) >> 16;
            (i.min(j), i.max(j))
        }
    };
    match g.bad % 16 {
        13 => e = n64 + 1 + (g.a % 2) as u64,
        14 => {
            if s == e {
                s = e + 1
            } else {
                std::mem::swap(&mut s, &mut e)
            }
        }
        15 => {
            return if s == 0 && g.a & 1 == 0 { Ax::TI(u32::MAX) } else { Ax::RI(s as u32, u32::MAX) };
        }
        _ => {}
    }
    let enc = encodings(s as u32, e as u32, n);
    enc[g.form as usize % enc.len()]
}

fn res_spec(h: &AxG, v: &AxG, shape: u8, w: u32, hh: u32) -> RSpec {
    let ha = res_ax(h, w);
    let va = res_ax(v, hh);
    let num = |ax: &Ax, n: u32| -> Option<(u32, u32)> {
        let (lo, hi) = ax.bounds();
        let s = match lo {
            Bd::I(a) => a,
            Bd::E(a) => a.checked_add(1)?,
            Bd::U => 0,
        };
        let e = match hi {
            Bd::I(b) => b.checked_add(1)?,
            Bd::E(b) => b,
            Bd::U => n,
        };
        Some((s, e))
    };
    match (shape % 8, num(&ha, w), num(&va, hh)) {
        (4, Some((l, r)), Some((t, b))) => RSpec::Corners(l, t, r, b),
        (5, Some((l, r)), Some((t, b))) => RSpec::Raw(
            if l == 0 && h.a & 16 == 0 { None } else { Some(l) },
            if t == 0 && v.a & 16 == 0 { None } else { Some(t) },
            if r == w && h.b & 16 == 0 { None } else { Some(r) },
            if b == hh && v.b & 16 == 0 { None } else { Some(b) },
        ),
        (6, _, _) => RSpec::All,
        (7, _, _) => RSpec::Ident,
        _ => RSpec::Pair(ha, va),
    }
}

fn cog() -> impl Strategy<Value = CoG> {
    (any::<u16>(), 0u8..8).prop_map(|(k, kind)| CoG { k, kind })
}

fn axg() -> impl Strategy<Value = AxG> {
    (any::<u16>(), any::<u16>(), 0u8..16, 0u8..16, 0u8..4).prop_map(|(a, b, form, bad, mode)| AxG { a, b, form, bad, mode })
}

fn op_strategy() -> impl Strategy<Value = Op> {
    prop_oneof![
        20 => (axg(), axg(), 0u8..8, prop::bool::weighted(0.7)).prop_map(|(h, v, shape, mutable)| Op::Push { h, v, shape, mutable }),
        10 => Just(Op::Pop),
        6 => Just(Op::ReadAll),
        9 => (cog(), cog()).prop_map(|(x, y)| Op::Probe { x, y }),
        6 => (cog(), 0u8..4).prop_map(|(y, hi)| Op::RowProbe { y, hi }),
        14 => (cog(), cog(), 0u8..4).prop_map(|(x, y, via)| Op::Set { x, y, via }),
        8 => Just(Op::Fill),
        6 => Just(Op::FillWith),
        5 => Just(Op::RowsMut),
        5 => Just(Op::IterMut),
        9 => (0u8..4, prop_oneof![8 => Just(0u8), 1 => Just(1u8), 1 => Just(2u8)], prop_oneof![8 => Just(0u8), 1 => Just(1u8)]).prop_map(|(kind, dw, dh)| Op::Copy { kind, dw, dh }),
    ]
}

pub fn hist_case() -> BoxedStrategy<HistCase> {
    let dim = || prop_oneof![1 => Just(0u32), 2 => Just(1u32), 12 => 2u32..=9];
    (dim(), dim(), 0u8..3, prop::collection::vec(op_strategy(), 0..40))
        .prop_map(|(rw, rh, ctor, ops)| HistCase { rw, rh, ctor, ops })
        .boxed()
}

/// Resolves a generated history against the evolving views and runs it. Also returns the concrete script.
pub fn run_hist(c: &HistCase, obs: &mut Obs) -> Check {
    let Some(mut w) = World::new(c.rw, c.rh, c.ctor, obs)? else { return Ok(()) };
    let mut trace: Vec<COp> = vec![];
    let mut writes = 0u32;
    for op in &c.ops {
        let top = w.top();
        let cops: Vec<COp> = match op {
            Op::Push { h, v, shape, mutable } => vec![COp::Push { spec: res_spec(h, v, *shape, top.w, top.h), mutable: *mutable }],
            Op::Pop => vec![COp::Pop, COp::ReadAll],
            Op::ReadAll => vec![COp::ReadAll],
            Op::Probe { x, y } => vec![COp::Probe { x: res_co(x, top.w), y: res_co(y, top.h) }],
            Op::RowProbe { y, hi } => {
                let y = res_co(y, top.h) as u64;
                let i = match hi % 4 {
                    0 => y,
                    1 => y + (1u64 << 32),
                    2 => y + ((2 + (y % 5)) << 32),
                    _ => u64::MAX - y,
                };
                vec![COp::RowProbe { i: if usize::BITS > 32 { i } else { y } }]
            }
            Op::Set { x, y, via } => {
                let (x, y) = (res_co(x, top.w), res_co(y, top.h));
                vec![match via % 4 {
                    0 => COp::SetPos { x, y },
                    1 => COp::SetPt { x, y },
                    2 => COp::SetRow { x, y },
                    _ => COp::GetMut { x, y },
                }]
            }
            Op::Fill => vec![COp::Fill],
            Op::FillWith => vec![COp::FillWith],
            Op::RowsMut => vec![COp::RowsMut],
            Op::IterMut => vec![COp::IterMut],
            Op::Copy { kind, dw, dh } => vec![COp::Copy { kind: *kind, dw: *dw as u32, dh: *dh as u32 }],
        };
        for cop in cops {
            obs.class(cop.class());
            if !matches!(cop, COp::Pop) {
                obs.class(depth_class(w.path.len()));
                let t = w.top();
                if t.w == 0 || t.h == 0 {
                    obs.class("on-empty-view");
                }
            }
            if let COp::Push { spec, mutable } = &cop {
                spec_classes(spec, obs);
                obs.class(if *mutable { "slice_mut" } else { "slice" });
            }
            if let COp::RowProbe { i } = &cop {
                if *i >= 1u64 << 32 {
                    obs.class("row-index>=2^32");
                }
            }
            if cop.is_write() {
                writes += 1;
            }
            trace.push(cop.clone());
            if let Err(mut f) = w.exec(&cop, obs) {
                let t = w.top();
                let tail: Vec<&COp> = trace.iter().rev().take(12).rev().collect();
                f.msg = format!(
                    "{}x{} root, concrete op #{} {:?} at depth {} on a {}x{} view: {} [last concrete ops: {:?}]",
                    c.rw,
                    c.rh,
                    trace.len() - 1,
                    cop,
                    w.path.len(),
                    t.w,
                    t.h,
                    f.msg,
                    tail
                );
                return Err(f);
            }
        }
    }
    obs.max("max-nesting-depth", w.max_depth as f64);
    obs.max("max-history-length(concrete ops)", trace.len() as f64);
    obs.class(match writes {
        0 => "history:no-writes",
        1..=3 => "history:1-3-writes",
        _ => "history:4+-writes",
    });
    if w.nt {
        obs.class("history:nested-write-then-read-through-parent");
        obs.nontrivial(hash_of(c));
        if obs.wants_sample() {
            let s = Script { rw: c.rw, rh: c.rh, ctor: c.ctor, strict: false, ops: trace };
            obs.sample(|| json!({"concrete": s}));
        }
    }
    Ok(())
}

// ------------------------------------------------------------------ (c) direct construction

#[derive(Clone, Debug, PartialEq, Eq, Hash, Serialize, Deserialize)]
pub struct DirCase {
    pub w: u32,
    pub h: u32,
    pub stride: u32,
    /// length of the backing slice handed to the constructor (values 1..=len)
    pub len: u32,
    /// MutSlice2::new instead of Slice2::new
    pub mutable: bool,
    pub step: String,
    /// sub-rectangle [l, t, r, b] for the sub-* steps
    pub sub: Option<[u32; 4]>,
}

const DIR_READ_STEPS: [&str; 3] = ["read", "oob", "rowprobe"];
const DIR_WRITE_STEPS: [&str; 14] =
    ["fill", "fill_with", "rows_mut", "iter_mut", "copy0", "copy1", "copy2", "copy3", "copy-mismatch", "set-pos", "set-pt", "set-row", "get-mut", "oob-writes"];

fn dir_need(w: u32, h: u32, stride: u32) -> u32 {
    if h == 0 {
        0
    } else {
        (h - 1) * stride + w
    }
}

fn dir_grid(model: &[u32], w: u32, h: u32, stride: u32) -> Grid {
    Grid { w, h, c: (0..h).map(|y| (0..w).map(|x| model[(y * stride + x) as usize]).collect()).collect() }
}

fn dir_ops(step: &str, w: u32, h: u32) -> Vec<COp> {
    let cells: Vec<(u32, u32)> = (0..h).flat_map(|y| (0..w).map(move |x| (x, y))).collect();
    match step {
        "fill" => vec![COp::Fill],
        "fill_with" => vec![COp::FillWith],
        "rows_mut" => vec![COp::RowsMut],
        "iter_mut" => vec![COp::IterMut],
        "copy0" => vec![COp::Copy { kind: 0, dw: 0, dh: 0 }],
        "copy1" => vec![COp::Copy { kind: 1, dw: 0, dh: 0 }],
        "copy2" => vec![COp::Copy { kind: 2, dw: 0, dh: 0 }],
        "copy3" => vec![COp::Copy { kind: 3, dw: 0, dh: 0 }],
        "copy-mismatch" => vec![COp::Copy { kind: 2, dw: 1, dh: 0 }, COp::Copy { kind: 0, dw: 0, dh: 1 }],
        "set-pos" => cells.iter().map(|&(x, y)| COp::SetPos { x, y }).collect(),
        "set-pt" => cells.iter().map(|&(x, y)| COp::SetPt { x, y }).collect(),
        "set-row" => cells.iter().map(|&(x, y)| COp::SetRow { x, y }).collect(),
        "get-mut" => cells.iter().map(|&(x, y)| COp::GetMut { x, y }).collect(),
        "oob-writes" => oob_points(w, h).into_iter().flat_map(|(x, y)| [COp::SetPos { x, y }, COp::SetRow { x, y }, COp::GetMut { x, y }, COp::SetPt { x, y }]).collect(),
        _ => vec![],
    }
}

pub fn dir_step(c: &DirCase, obs: &mut Obs) -> Check {
    let (w, h, stride, len) = (c.w, c.h, c.stride, c.len);
    let dims = (w, h);
    let mut backing: Vec<u32> = (1..=len).collect();
    let mut model = backing.clone();
    let legal = w <= stride && dir_need(w, h, stride) <= len;
    let desc = format!("{}::new(({w},{h}), stride {stride}, data of length {len})", if c.mutable { "MutSlice2" } else { "Slice2" });
    if c.step == "ctor" {
        let r = if c.mutable { catch(|| MutSlice2::new(dims, stride, &mut backing[..]).dims()) } else { catch(|| Slice2::new(dims, stride, &backing[..]).dims()) };
        match (legal, r) {
            (false, Ok(d)) => fail!("ctor-accepted-illegal", "{desc} needs {} > {len} elements or has stride < width, yet returned a view of dims {:?}", dir_need(w, h, stride), d),
            (false, Err(_)) => obs.class("direct:illegal-rejected"),
            (true, Ok(d)) => {
                ensure!(d == dims, "view-dims", "{desc} reports dims {:?}", d);
                obs.class("direct:legal-accepted");
                if len > dir_need(w, h, stride) {
                    obs.class("direct:surplus-backing");
                }
                if w == 0 || h == 0 {
                    obs.class("direct:empty-dimension");
                }
            }
            (true, Err(p)) => {
                if w == 0 && h > 0 {
                    obs.class("direct:legal-zero-width-rejected(D-h)");
                } else {
                    fail!("ctor-rejected-legal", "{desc} fits the data (needs {}) but panicked: {p}", dir_need(w, h, stride));
                }
            }
        }
        return Ok(());
    }
    if !legal {
        return Ok(());
    }
    let g = dir_grid(&model, w, h, stride);
    // read-only steps (both view types)
    let read_step = |v: &In<&[u32]>, obs: &mut Obs| -> Check {
        match c.step.as_str() {
            "read" => read_all(v, &g),
            "oob" => {
                for (x, y) in oob_points(w, h) {
                    probe(v, &g, x, y)?;
                }
                // x in [w, stride): inside the backing row pitch but outside the view
                for x in w..stride.min(w + 2) {
                    for y in 0..h {
                        probe(v, &g, x, y)?;
                    }
                }
                Ok(())
            }
            "rowprobe" => {
                for i in row_probes(h) {
                    row_probe(v, &g, i)?;
                }
                Ok(())
            }
            "sub-read" => {
                let rc = c.sub.unwrap_or([0, 0, w, h]);
                let spec = encode_rect(rc, w, h, splitmix(hash_of(c)) as u32);
                let sg = Grid { w: rc[2] - rc[0], h: rc[3] - rc[1], c: (rc[1]..rc[3]).map(|y| g.c[y as usize][rc[0] as usize..rc[2] as usize].to_vec()).collect() };
                match catch(|| slice_imm(v, &spec).dims()) {
                    Ok(_) => {
                        let s = slice_imm(v, &spec);
                        read_all(&*s, &sg)
                    }
                    Err(p) => {
                        ensure!(sg.w == 0 || sg.h == 0, "legal-slice-panicked", "slice {:?} of the direct view panicked: {p}", spec);
                        obs.class("slice:legal-empty-rejected(accepted, D-h)");
                        Ok(())
                    }
                }
            }
            _ => Ok(()),
        }
    };
    let is_read = DIR_READ_STEPS.contains(&c.step.as_str()) || c.step == "sub-read";
    if is_read {
        let r = if c.mutable {
            match catch(|| MutSlice2::new(dims, stride, &mut backing[..])) {
                Ok(v) => {
                    let s = v.as_slice2();
                    read_step(&*s, obs)
                }
                Err(_) => return Ok(()),
            }
        } else {
            match catch(|| Slice2::new(dims, stride, &backing[..])) {
                Ok(v) => read_step(&*v, obs),
                Err(_) => return Ok(()),
            }
        };
        return r.map_err(|mut f| {
            f.msg = format!("{desc}, step {}: {}", c.step, f.msg);
            f
        });
    }
    if !c.mutable {
        return Ok(());
    }
    // write steps: the view is re-created for every operation; the whole backing slice is compared afterwards
    let mut val = 1_000_000u32;
    if c.step == "sub-fill" {
        let rc = c.sub.unwrap_or([0, 0, w, h]);
        let spec = encode_rect(rc, w, h, splitmix(hash_of(c)) as u32);
        let Ok(mut v) = catch(|| MutSlice2::new(dims, stride, &mut backing[..])) else { return Ok(()) };
        let r = catch(|| slice_mut(&mut *v, &spec).fill(val));
        drop(v);
        match r {
            Ok(()) => {
                for y in rc[1]..rc[3] {
                    for x in rc[0]..rc[2] {
                        model[(y * stride + x) as usize] = val;
                    }
                }
            }
            Err(p) => {
                ensure!(rc[0] == rc[2] || rc[1] == rc[3], "legal-slice-panicked", "{desc}: slice_mut {:?} + fill panicked: {p}", spec);
                obs.class("slice:legal-empty-rejected(accepted, D-h)");
            }
        }
        if let Some(i) = (0..len as usize).find(|&i| backing[i] != model[i]) {
            fail!("write-outside-view", "{desc}: after slice_mut({:?}).fill the backing element {i} is {} but the model says {}", spec, backing[i], model[i]);
        }
        return Ok(());
    }
    for op in dir_ops(&c.step, w, h) {
        let g = dir_grid(&model, w, h, stride);
        let src = if let COp::Copy { kind, dw, dh } = op { Some(make_src(kind, w + dw, h + dh, val)) } else { None };
        let Ok(mut v) = catch(|| MutSlice2::new(dims, stride, &mut backing[..])) else { return Ok(()) };
        let mut lf = Leaf::new(&op, val, &g, src.as_ref());
        let r = do_write(&mut *v, &mut lf);
        drop(v);
        r.map_err(|mut f| {
            f.msg = format!("{desc}, step {}, {:?}: {}", c.step, op, f.msg);
            f
        })?;
        for (x, y, nv) in model_cells(&op, val, w, h) {
            model[(y * stride + x) as usize] = nv;
        }
        val += 4096;
        if let Some(i) = (0..len as usize).find(|&i| backing[i] != model[i]) {
            let inside = w > 0 && stride > 0 && (i as u32 % stride) < w && (i as u32 / stride) < h;
            fail!(
                if inside { "write-wrong-cell-or-value" } else { "write-outside-view" },
                "{desc}, step {}: after {:?} the backing element {i} (x={}, y={}) is {} but the model says {}",
                c.step,
                op,
                if stride > 0 { i as u32 % stride } else { 0 },
                if stride > 0 { i as u32 / stride } else { 0 },
                backing[i],
                model[i]
            );
        }
    }
    Ok(())
}

fn dir_configs(d: u32) -> Vec<(u32, u32, u32, u32, bool)> {
    let mut v = vec![];
    for w in 0..=d {
        for h in 0..=d {
            for stride in 0..=w + 2 {
                let need = dir_need(w, h, stride);
                for len in 0..=need + 2 * stride + 3 {
                    v.push((w, h, stride, len, false));
                    v.push((w, h, stride, len, true));
                }
            }
        }
    }
    v
}

fn dir_config(cfg: &(u32, u32, u32, u32, bool), obs: &mut Obs) -> Result<(), (DirCase, Fail)> {
    let (w, h, stride, len, mutable) = *cfg;
    let mut run = |step: &str, sub: Option<[u32; 4]>, obs: &mut Obs| -> Result<(), (DirCase, Fail)> {
        let c = DirCase { w, h, stride, len, mutable, step: step.to_string(), sub };
        obs.evals_n(1);
        match catch(|| dir_step(&c, obs)) {
            Ok(Ok(())) => Ok(()),
            Ok(Err(f)) => Err((c, f)),
            Err(p) => Err((c, Fail::new("harness-or-library-panic", format!("unexpected panic: {p}")))),
        }
    };
    run("ctor", None, obs)?;
    let legal = w <= stride && dir_need(w, h, stride) <= len;
    if !legal {
        return Ok(());
    }
    if len > dir_need(w, h, stride) {
        obs.nontrivial_enumerated(1);
        if obs.wants_sample() {
            obs.sample(|| json!({"w": w, "h": h, "stride": stride, "len": len, "mutable": mutable}));
        }
    }
    for s in DIR_READ_STEPS {
        run(s, None, obs)?;
    }
    if mutable {
        for s in DIR_WRITE_STEPS {
            run(s, None, obs)?;
        }
    }
    for rc in rects(w, h) {
        run("sub-read", Some(rc), obs)?;
        if mutable {
            run("sub-fill", Some(rc), obs)?;
        }
    }
    Ok(())
}

// ------------------------------------------------------------------ driver

pub fn run(cx: &mut Ctx) {
    cx.assume("DESIGN D-h, extended to views: a panic while *creating* a zero-area buffer or view from arguments the model calls legal (Buf2::new((0,h>0)); \
a legal zero-width or zero-height slice; Slice2::new with w = 0 < h) is a clean rejection and accepted either way; counted in classes '*rejected*'. \
Non-empty legal slices and constructions must succeed.");
    cx.assume("a rect with start > end inside the view, or whose inclusive end is u32::MAX (overflows to 2^32), must panic or yield an empty view; a rect whose end exceeds the view must panic (slice docs + unit tests)");
    cx.assume("copy_from with mismatching dimensions must panic (documented) and leave the storage unchanged; fill_with must call f(x, y) exactly once per cell in row-major order (documented)");
    cx.assume("row indices >= 2^32 are only probed on 64-bit targets");

    let d = cx.n(4, 6) as u32;
    let items = exhaustive_items(d);
    cx.enum_check("exhaustive", items.len() as u64, true, |i, obs| exhaustive_item(&items[i as usize], i, obs));

    let n = cx.n(100_000, 1_000_000);
    cx.prop_check("histories", n, hist_case, |c, obs| run_hist(c, obs));

    let dd = cx.n(3, 5) as u32;
    let cfgs = dir_configs(dd);
    cx.enum_check("direct", cfgs.len() as u64, true, |i, obs| dir_config(&cfgs[i as usize], obs));

    cx.extra.insert("exhaustive_max_root".into(), json!(d));
    cx.extra.insert("direct_max_dim".into(), json!(dd));
}

pub fn replay(sub: &str, case: &Value) -> Check {
    let mut obs = Obs::new();
    obs.freeze();
    let bad = |e: serde_json::Error| Fail::new("bad-replay", e.to_string());
    match sub {
        "exhaustive" | "script" => {
            let s: Script = serde_json::from_value(case.clone()).map_err(bad)?;
            run_script(&s, &mut obs).map(|_| ())
        }
        "histories" => {
            let c: HistCase = serde_json::from_value(case.clone()).map_err(bad)?;
            run_hist(&c, &mut obs)
        }
        "direct" => {
            let c: DirCase = serde_json::from_value(case.clone()).map_err(bad)?;
            dir_step(&c, &mut obs)
        }
        _ => Err(Fail::new("bad-replay", format!("unknown subcheck {sub}"))),
    }
}
