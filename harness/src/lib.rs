//! rfverif — property-based checks for jdahlstrom/retrofire (library part:
//! shared machinery, one module per property, and the module registry).

#[macro_use]
pub mod common;

pub mod rs;
pub mod c01;
pub mod c02;
pub mod c03;
pub mod c04;
pub mod c05;
pub mod c06;
pub mod c07;
pub mod c08;
pub mod c09;
pub mod c10;
pub mod c11;
pub mod c12;
// C13 / C14 use the std-only parts of the codecs (io::Read / io::Write entry points): std configuration only
#[cfg(feature = "cfg-std")]
pub mod c13;
#[cfg(feature = "cfg-std")]
pub mod c14;
pub mod c15;
pub mod c16;
pub mod c17;
pub mod c18;
pub mod c19;
pub mod c20;

use common::*;
use serde_json::Value;

pub struct Module {
    pub id: &'static str,
    pub rule: &'static str,
    pub run: fn(&mut Ctx),
    pub replay: fn(&str, &Value) -> Check,
}

macro_rules! module {
    ($id:literal, $m:ident) => {
        Module { id: $id, rule: $m::RULE, run: $m::run, replay: $m::replay }
    };
}

pub fn modules() -> Vec<Module> {
    vec![
        module!("C01", c01),
        module!("C02", c02),
        module!("C03", c03),
        module!("C04", c04),
        module!("C05", c05),
        module!("C06", c06),
        module!("C07", c07),
        module!("C08", c08),
        module!("C09", c09),
        module!("C10", c10),
        module!("C11", c11),
        module!("C12", c12),
        #[cfg(feature = "cfg-std")]
        module!("C13", c13),
        #[cfg(feature = "cfg-std")]
        module!("C14", c14),
        module!("C15", c15),
        module!("C16", c16),
        module!("C17", c17),
        module!("C18", c18),
        module!("C19", c19),
        module!("C20", c20),
    ]
}

pub fn find(id: &str) -> Option<Module> {
    modules().into_iter().find(|m| m.id == id)
}
