//! C03 — frustum clipping returns exactly the inside part, attributes intact.
//!
//! All oracles work in f64 in the input triangle's own barycentric chart
//! (the input is the unit simplex (0,0),(1,0),(0,1) of the chart):
//!   * every output vertex is an (almost) convex combination of the input
//!     vertices (least-squares barycentrics, small residual)       -> output ⊂ input
//!   * every output vertex satisfies the six frustum inequalities  -> output ⊂ frustum
//!   * its attribute equals the input's linear field at that chart position
//!   * every non-degenerate output triangle is positively oriented in the chart
//!   * point membership: chart sample points definitely inside the frustum lie in
//!     exactly one output triangle, points definitely outside in none
//!   * all-inside input is returned bit-for-bit, all-outside-one-plane gives nothing
//!   * clip(batch) == concatenation of clip([t]) bit-for-bit

use crate::common::fl::*;
use crate::common::*;
use proptest::prelude::*;
use re::geom::{vertex, Tri};
use re::math::{vec2, vec3, Lerp, Vec2, Vec3};
use re::render::clip::{view_frustum, ClipVert};
use serde::{Deserialize, Serialize};
use serde_json::{json, Value};

pub const RULE: &str = "proptest: clip-space triangles with per-vertex w from {1, U(0.2,4), U(-3,3)} and x,y,z from {+w, -w, 0, U(-1.6|w|,1.6|w|), w*(1±1e-6)} \
(every outcode combination, w of either sign, vertices exactly on planes), attribute types f32 / Vec3 / (f32,Vec2) with independent values, batches of 1..8; \
grid: every triangle with coordinates in {-1.5,0,1.5}*|w| and w in {-1,0.5,1,2} per vertex (exhaustive). \
Non-trivial = crosses >= 1 frustum plane and yields >= 1 output triangle; distinct by bit pattern.";

#[derive(Clone, Debug, Serialize, Deserialize)]
pub struct ClipCase {
    pub ty: String,
    /// clip-space positions [x, y, z, w] per vertex per triangle
    pub tris: Vec<[[X; 4]; 3]>,
    /// attribute components per vertex per triangle (first ncomp used)
    pub attrs: Vec<[[X; 3]; 3]>,
    /// metamorphic relation: clip space is homogeneous, so clipping the batch scaled by 2^scale_exp must give
    /// exactly the results scaled by 2^scale_exp (power-of-two scaling is exact in binary floating point)
    #[serde(default)]
    pub scale_exp: i32,
}

fn ncomp(ty: &str) -> usize {
    match ty {
        "f32" => 1,
        _ => 3,
    }
}

pub trait ClipAttr: Lerp + Clone {
    fn make(c: &[f32]) -> Self;
    fn comps(&self) -> Vec<f32>;
}
impl ClipAttr for f32 {
    fn make(c: &[f32]) -> Self {
        c[0]
    }
    fn comps(&self) -> Vec<f32> {
        vec![*self]
    }
}
impl ClipAttr for Vec3 {
    fn make(c: &[f32]) -> Self {
        vec3(c[0], c[1], c[2])
    }
    fn comps(&self) -> Vec<f32> {
        self.0.to_vec()
    }
}
impl ClipAttr for (f32, Vec2) {
    fn make(c: &[f32]) -> Self {
        (c[0], vec2(c[1], c[2]))
    }
    fn comps(&self) -> Vec<f32> {
        vec![self.0, self.1 .0[0], self.1 .0[1]]
    }
}

/// An output vertex as plain numbers.
#[derive(Clone, Debug, PartialEq)]
pub struct OutV {
    pub pos: [f32; 4],
    pub attr: Vec<f32>,
}
pub type OutTri = [OutV; 3];

fn clip_typed<A: ClipAttr>(tris: &[[[X; 4]; 3]], attrs: &[[[X; 3]; 3]]) -> Result<Vec<OutTri>, String> {
    catch(|| {
        let input: Vec<Tri<ClipVert<A>>> = tris
            .iter()
            .zip(attrs)
            .map(|(t, a)| {
                Tri([0, 1, 2].map(|i| {
                    let p = fs(t[i]);
                    let c = fs(a[i]);
                    ClipVert::new(vertex(p.into(), A::make(&c)))
                }))
            })
            .collect();
        let mut out = vec![];
        view_frustum::clip(&input[..], &mut out);
        out.into_iter().map(|Tri(vs)| vs.map(|v| OutV { pos: v.pos.0, attr: v.attrib.comps() })).collect()
    })
}

/// Clips once, then clips the *returned* triangles (the very ClipVert values, cached outcodes and all) again.
fn clip_twice_typed<A: ClipAttr>(tris: &[[[X; 4]; 3]], attrs: &[[[X; 3]; 3]]) -> Result<(Vec<OutTri>, Vec<OutTri>), String> {
    catch(|| {
        let input: Vec<Tri<ClipVert<A>>> = tris
            .iter()
            .zip(attrs)
            .map(|(t, a)| {
                Tri([0, 1, 2].map(|i| {
                    let p = fs(t[i]);
                    let c = fs(a[i]);
                    ClipVert::new(vertex(p.into(), A::make(&c)))
                }))
            })
            .collect();
        let mut out = vec![];
        view_frustum::clip(&input[..], &mut out);
        let mut out2 = vec![];
        view_frustum::clip(&out[..], &mut out2);
        let conv = |v: Vec<Tri<ClipVert<A>>>| -> Vec<OutTri> { v.into_iter().map(|Tri(vs)| vs.map(|v| OutV { pos: v.pos.0, attr: v.attrib.comps() })).collect() };
        (conv(out), conv(out2))
    })
}

pub fn clip_twice_case(ty: &str, tris: &[[[X; 4]; 3]], attrs: &[[[X; 3]; 3]]) -> Result<(Vec<OutTri>, Vec<OutTri>), String> {
    match ty {
        "f32" => clip_twice_typed::<f32>(tris, attrs),
        "Vec3" => clip_twice_typed::<Vec3>(tris, attrs),
        "(f32,Vec2)" => clip_twice_typed::<(f32, Vec2)>(tris, attrs),
        t => Err(format!("unknown attribute type {t}")),
    }
}

pub fn clip_case(ty: &str, tris: &[[[X; 4]; 3]], attrs: &[[[X; 3]; 3]]) -> Result<Vec<OutTri>, String> {
    match ty {
        "f32" => clip_typed::<f32>(tris, attrs),
        "Vec3" => clip_typed::<Vec3>(tris, attrs),
        "(f32,Vec2)" => clip_typed::<(f32, Vec2)>(tris, attrs),
        t => Err(format!("unknown attribute type {t}")),
    }
}

// ------------------------------------------------------------------ generators

/// One clip-space vertex: w class, then x, y, z relative to w.
pub fn clip_vertex() -> BoxedStrategy<[f32; 4]> {
    let w = prop_oneof![
        3 => Just(1.0f32),
        3 => 0.2f32..4.0,
        2 => -3.0f32..3.0,
    ];
    let rel = || {
        prop_oneof![
            2 => Just(1.0f32),
            2 => Just(-1.0f32),
            1 => Just(0.0f32),
            1 => prop_oneof![Just(1.0f32 + 1e-6), Just(1.0 - 1e-6), Just(-1.0 - 1e-6), Just(-1.0 + 1e-6)],
            8 => -1.6f32..1.6,
            3 => -0.95f32..0.95,
        ]
    };
    (w, rel(), rel(), rel())
        .prop_map(|(w, x, y, z)| {
            let a = w.abs();
            // "+w" and "-w" are exact; the others are scaled by |w|
            let m = |r: f32| if r == 1.0 { w } else if r == -1.0 { -w } else { r * a };
            [m(x), m(y), m(z), w]
        })
        .boxed()
}

/// A vertex a small relative distance (1e-4 .. 3e-2 of its w) inside or outside one frustum plane, otherwise inside.
fn near_plane_vertex() -> BoxedStrategy<[f32; 4]> {
    (0.2f32..4.0, 0usize..6, log_uniform(-4.0, -1.5), any::<bool>(), -0.9f32..0.9, -0.9f32..0.9).prop_map(|(w, pl, d, outside, a, b)| {
        let r = if outside { 1.0 + d } else { 1.0 - d };
        let r = if pl % 2 == 0 { -r } else { r };
        let mut v = [a * w, b * w, 0.3 * w, w];
        match pl / 2 {
            0 => v[2] = r * w,
            1 => v[0] = r * w,
            _ => v[1] = r * w,
        }
        if pl / 2 != 0 {
            v[2] = b * w;
            v[if pl / 2 == 1 { 1 } else { 0 }] = a * w;
        }
        v
    }).boxed()
}

/// A vertex two to three decades further from the eye (|w| 100..3000, either sign), anywhere relative to the frustum.
fn far_vertex() -> BoxedStrategy<[f32; 4]> {
    (log_uniform(2.0, 3.5), any::<bool>(), -1.6f32..1.6, -1.6f32..1.6, -1.6f32..1.6).prop_map(|(w, neg, x, y, z)| [x * w, y * w, z * w, if neg { -w } else { w }]).boxed()
}

pub fn clip_tri() -> BoxedStrategy<[[f32; 4]; 3]> {
    prop_oneof![
        10 => [clip_vertex(), clip_vertex(), clip_vertex()],
        // vertices of very different magnitudes ("coordinates within a few decades of each other"): a plane crossing a
        // tiny fraction of the way along an edge, next to a vertex that is just inside or just outside
        1 => ([near_plane_vertex(), far_vertex(), far_vertex()], 0usize..3).prop_map(|(mut t, k)| { t.rotate_left(k); t }),
        1 => ([near_plane_vertex(), near_plane_vertex(), far_vertex()], 0usize..3).prop_map(|(mut t, k)| { t.rotate_left(k); t }),
        1 => ([near_plane_vertex(), clip_vertex(), far_vertex()], 0usize..6).prop_map(|(t, k)| { let mut t = t; if k >= 3 { t.swap(1, 2); } t.rotate_left(k % 3); t }),
        // all three well inside (emitted unchanged)
        1 => [inside_vertex(), inside_vertex(), inside_vertex()],
        // two vertices shared position (degenerate) or an exact duplicate
        1 => (clip_vertex(), clip_vertex()).prop_map(|(a, b)| [a, a, b]),
    ]
    .boxed()
}

fn inside_vertex() -> BoxedStrategy<[f32; 4]> {
    (0.2f32..4.0, -0.99f32..0.99, -0.99f32..0.99, -0.99f32..0.99).prop_map(|(w, x, y, z)| [x * w, y * w, z * w, w]).boxed()
}

fn attr3() -> impl Strategy<Value = [f32; 3]> {
    [attr1(), attr1(), attr1()]
}
fn attr1() -> impl Strategy<Value = f32> {
    prop_oneof![4 => -1.0f32..1.0, 1 => Just(0.0f32), 1 => Just(1.0f32), 1 => (-1.0f32..1.0).prop_map(|v| 10.0 + v)]
}

pub fn case_strategy(max_tris: usize) -> BoxedStrategy<ClipCase> {
    let ty = prop_oneof![2 => Just("f32"), 1 => Just("Vec3"), 1 => Just("(f32,Vec2)")];
    let exp = prop_oneof![2 => Just(0i32), 1 => Just(-22i32), 1 => Just(-40i32), 1 => Just(30i32), 4 => -60i32..=60];
    (ty, proptest::collection::vec((clip_tri(), [attr3(), attr3(), attr3()]), 1..=max_tris), exp)
        .prop_map(|(ty, mut ts, scale_exp)| {
            // a quarter of the batches repeat a triangle's positions bit for bit in the next item, with that item's own
            // attributes (two coincident triangles of different meshes; multi-pass geometry)
            if ts.len() >= 2 && scale_exp.rem_euclid(4) == 1 {
                let k = (scale_exp.unsigned_abs() as usize) % (ts.len() - 1);
                ts[k + 1].0 = ts[k].0;
            }
            (ty, ts, scale_exp)
        })
        .prop_map(|(ty, ts, scale_exp)| ClipCase {
            ty: ty.to_string(),
            tris: ts.iter().map(|(t, _)| t.map(xs)).collect(),
            attrs: ts.iter().map(|(_, a)| a.map(xs)).collect(),
            scale_exp,
        })
        .boxed()
}

// ------------------------------------------------------------------ oracle

const PLANE_NAMES: [&str; 6] = ["near", "far", "left", "right", "bottom", "top"];

/// signed distances to the six planes, positive = outside (same convention as the crate's docs)
fn plane_dists(p: [f64; 4]) -> [f64; 6] {
    let [x, y, z, w] = p;
    [-z - w, z - w, -x - w, x - w, -y - w, y - w]
}

fn outcode64(p: [f64; 4]) -> u8 {
    let d = plane_dists(p);
    (0..6).map(|i| ((d[i] > 0.0) as u8) << i).sum()
}

fn to64(p: [f32; 4]) -> [f64; 4] {
    p.map(|v| v as f64)
}

/// Least-squares chart coordinates (l1, l2) of q with respect to triangle p, and the residual.
fn chart(p: &[[f64; 4]; 3], q: [f64; 4]) -> Option<([f64; 2], f64)> {
    let e1: Vec<f64> = (0..4).map(|i| p[1][i] - p[0][i]).collect();
    let e2: Vec<f64> = (0..4).map(|i| p[2][i] - p[0][i]).collect();
    let d: Vec<f64> = (0..4).map(|i| q[i] - p[0][i]).collect();
    let dot = |a: &[f64], b: &[f64]| a.iter().zip(b).map(|(x, y)| x * y).sum::<f64>();
    let (a11, a12, a22) = (dot(&e1, &e1), dot(&e1, &e2), dot(&e2, &e2));
    let (b1, b2) = (dot(&e1, &d), dot(&e2, &d));
    let det = a11 * a22 - a12 * a12;
    if det <= 1e-12 * a11 * a22 || det == 0.0 {
        return None; // input triangle (numerically) degenerate in R^4
    }
    let l1 = (b1 * a22 - b2 * a12) / det;
    let l2 = (a11 * b2 - a12 * b1) / det;
    let res: f64 = (0..4).map(|i| (d[i] - l1 * e1[i] - l2 * e2[i]).powi(2)).sum::<f64>().sqrt();
    Some(([l1, l2], res))
}

fn orient(a: [f64; 2], b: [f64; 2], c: [f64; 2]) -> f64 {
    (b[0] - a[0]) * (c[1] - a[1]) - (b[1] - a[1]) * (c[0] - a[0])
}

/// min signed (chart) barycentric of point p in triangle t, oriented so positive = inside;
/// None if t is degenerate in the chart.
fn chart_inside(t: &[[f64; 2]; 3], p: [f64; 2]) -> Option<f64> {
    let a = orient(t[0], t[1], t[2]);
    if a.abs() < 1e-12 {
        return None;
    }
    let l0 = orient(t[1], t[2], p) / a;
    let l1 = orient(t[2], t[0], p) / a;
    let l2 = orient(t[0], t[1], p) / a;
    Some(l0.min(l1).min(l2))
}

/// Checks the outputs `outs` produced for the single input triangle (pos, attr).
pub fn check_one(ty: &str, pos: &[[X; 4]; 3], attr: &[[X; 3]; 3], outs: &[OutTri], obs: &mut Obs) -> Check {
    let n = ncomp(ty);
    let pf: [[f32; 4]; 3] = pos.map(fs);
    let p: [[f64; 4]; 3] = pf.map(to64);
    let a: [[f64; 3]; 3] = attr.map(|c| fs(c).map(|v| v as f64));
    let scale = p.iter().flatten().fold(0.0f64, |m, &v| m.max(v.abs())).max(1e-3);
    let codes = p.map(outcode64);
    let all_out = codes[0] & codes[1] & codes[2];
    let any_out = codes[0] | codes[1] | codes[2];
    let planes_crossed = (0..6).filter(|i| any_out >> i & 1 == 1 && all_out >> i & 1 == 0).count();

    // (7) trivial accept / reject
    if any_out == 0 {
        obs.class("all-inside");
        ensure!(outs.len() == 1, "inside-not-unchanged", "triangle wholly inside the frustum produced {} triangles instead of itself", outs.len());
        for i in 0..3 {
            let same = outs[0][i].pos.map(f32::to_bits) == pf[i].map(f32::to_bits)
                && outs[0][i].attr.iter().map(|v| v.to_bits()).eq(fs(attr[i])[..n].iter().map(|v| v.to_bits()));
            ensure!(same, "inside-not-unchanged", "triangle wholly inside the frustum was altered at vertex {i}: {:?} -> {:?}", pf[i], outs[0][i]);
        }
        return Ok(());
    }
    if all_out != 0 {
        obs.class("all-outside-one-plane");
        ensure!(outs.is_empty(), "outside-not-empty", "all three vertices are outside the {} plane but {} triangles were produced", PLANE_NAMES[all_out.trailing_zeros() as usize], outs.len());
        return Ok(());
    }
    obs.class(match planes_crossed {
        1 => "crosses-1-plane",
        2 => "crosses-2-planes",
        3 => "crosses-3-planes",
        4 => "crosses-4-planes",
        5 => "crosses-5-planes",
        _ => "crosses-6-planes",
    });
    let wsign = p.iter().filter(|v| v[3] < 0.0).count();
    obs.class(match wsign {
        0 => "w:+++",
        3 => "w:---",
        _ => "w:mixed",
    });
    if (0..3).any(|i| plane_dists(p[i]).iter().any(|d| *d == 0.0)) {
        obs.class("vertex-exactly-on-plane");
    }
    obs.class(match outs.len() {
        0 => "out:0",
        1 => "out:1",
        2 => "out:2",
        3 => "out:3",
        4 => "out:4",
        _ => "out:5+",
    });

    // (2) output inside the frustum, beyond rounding
    let eps = 2e-6 * scale;
    for (k, t) in outs.iter().enumerate() {
        for v in t {
            ensure!(v.pos.iter().all(|c| c.is_finite()) && v.attr.iter().all(|c| c.is_finite()), "non-finite-output", "output triangle {k} has a non-finite vertex {v:?}");
            let d = plane_dists(to64(v.pos));
            for i in 0..6 {
                obs.max("output-vertex-outside-plane / (2e-6*scale)", d[i] / eps);
                ensure!(d[i] <= eps, "output-outside-frustum", "output triangle {k} vertex {:?} is {:.3e} outside the {} plane (scale {scale:.3})", v.pos, d[i], PLANE_NAMES[i]);
            }
        }
    }

    // chart-based checks need a non-degenerate input
    let charts: Option<Vec<[([f64; 2], f64); 3]>> = outs
        .iter()
        .map(|t| {
            let c: Vec<_> = t.iter().map(|v| chart(&p, to64(v.pos))).collect();
            if c.iter().all(|x| x.is_some()) {
                Some([c[0].unwrap(), c[1].unwrap(), c[2].unwrap()])
            } else {
                None
            }
        })
        .collect();
    let Some(charts) = charts else {
        obs.excluded("input-degenerate-in-R4");
        return Ok(());
    };
    // condition of the chart: smallest altitude of the input triangle in R^4 relative to its scale
    let cond = {
        let e = |i: usize, j: usize| (0..4).map(|k| (p[i][k] - p[j][k]).powi(2)).sum::<f64>().sqrt();
        let (l0, l1, l2) = (e(0, 1), e(1, 2), e(2, 0));
        let s = (l0 + l1 + l2) / 2.0;
        let area = (s * (s - l0) * (s - l1) * (s - l2)).max(0.0).sqrt();
        let lmax = l0.max(l1).max(l2);
        if lmax == 0.0 {
            0.0
        } else {
            2.0 * area / lmax / scale
        }
    };
    if chart(&p, p[0]).is_none() || cond < 1e-3 {
        obs.excluded("input-near-degenerate-in-R4");
        return Ok(());
    }

    let tol_l = 4e-6 / cond.min(1.0); // chart-coordinate tolerance
    for (k, (t, c)) in outs.iter().zip(&charts).enumerate() {
        for (v, (l, res)) in t.iter().zip(c) {
            // (1) output ⊂ input
            obs.max("chart-residual / (2e-6*scale)", res / (2e-6 * scale));
            ensure!(*res <= 2e-6 * scale, "output-off-input-plane", "output triangle {k} vertex {:?} is {:.3e} away from the input triangle's plane (scale {scale:.3})", v.pos, res);
            let l0 = 1.0 - l[0] - l[1];
            let lmin = l0.min(l[0]).min(l[1]);
            obs.max("negative-barycentric / tolerance", -lmin / tol_l);
            ensure!(lmin >= -tol_l, "output-outside-input", "output triangle {k} vertex {:?} has barycentrics ({l0:.6}, {:.6}, {:.6}) — outside the input triangle", v.pos, l[0], l[1]);
            // (3) attribute = linear field of the input at that chart position
            for j in 0..n {
                let expect = l0 * a[0][j] + l[0] * a[1][j] + l[1] * a[2][j];
                let lo = a.iter().map(|x| x[j]).fold(f64::MAX, f64::min);
                let hi = a.iter().map(|x| x[j]).fold(f64::MIN, f64::max);
                let tol = (hi - lo) * tol_l * 2.0 + 2e-6 * lo.abs().max(hi.abs()) + 1e-7;
                let e = (v.attr[j] as f64 - expect).abs();
                obs.max("attribute-error / tolerance", e / tol);
                ensure!(
                    e <= tol,
                    "attribute-not-linear-field",
                    "output triangle {k} vertex {:?} component {j} carries {} but the input's linear field there is {:.7} (vertex values {:?})",
                    v.pos,
                    v.attr[j],
                    expect,
                    [a[0][j], a[1][j], a[2][j]]
                );
            }
        }
    }

    // (4) winding kept
    let ctris: Vec<[[f64; 2]; 3]> = charts.iter().map(|c| [c[0].0, c[1].0, c[2].0]).collect();
    let mut area_sum = 0.0;
    for (k, t) in ctris.iter().enumerate() {
        let ar = orient(t[0], t[1], t[2]);
        area_sum += ar.max(0.0) / 2.0;
        ensure!(ar >= -4.0 * tol_l, "winding-flipped", "output triangle {k} has signed chart area {:.3e}: winding reversed relative to the input", ar / 2.0);
    }
    // (6) cheap global cross-check: the outputs cannot cover more than the input
    ensure!(area_sum <= 0.5 + 1e-4 / cond.min(1.0), "outputs-exceed-input", "output chart areas sum to {area_sum:.6} > 0.5");

    // (5) point membership
    let m = 1e-4 * scale;
    let delta = 4.0 * tol_l;
    let mut pts: Vec<[f64; 2]> = vec![];
    for i in 1..8 {
        for j in 1..(8 - i) {
            pts.push([i as f64 / 8.0 + 0.013, j as f64 / 8.0 + 0.007]);
        }
    }
    // points bracketing every plane crossing on every input edge, pushed slightly into the interior
    let chart_v = [[0.0, 0.0], [1.0, 0.0], [0.0, 1.0]];
    let centroid = [1.0 / 3.0, 1.0 / 3.0];
    for e in 0..3 {
        let (i, j) = (e, (e + 1) % 3);
        let (di, dj) = (plane_dists(p[i]), plane_dists(p[j]));
        for pl in 0..6 {
            if di[pl] * dj[pl] < 0.0 {
                let t = di[pl] / (di[pl] - dj[pl]);
                for dt in [-0.02, 0.02] {
                    let tt = (t + dt).clamp(0.001, 0.999);
                    let on = [chart_v[i][0] + (chart_v[j][0] - chart_v[i][0]) * tt, chart_v[i][1] + (chart_v[j][1] - chart_v[i][1]) * tt];
                    pts.push([on[0] + (centroid[0] - on[0]) * 0.01, on[1] + (centroid[1] - on[1]) * 0.01]);
                }
            }
        }
    }
    let mut n_in = 0u32;
    let mut n_out = 0u32;
    for q in &pts {
        let l0 = 1.0 - q[0] - q[1];
        if l0 < 0.002 || q[0] < 0.002 || q[1] < 0.002 {
            continue;
        }
        let pt: [f64; 4] = std::array::from_fn(|k| l0 * p[0][k] + q[0] * p[1][k] + q[1] * p[2][k]);
        let d = plane_dists(pt);
        let dmax = d.iter().cloned().fold(f64::MIN, f64::max);
        let definitely_in = dmax < -m;
        let definitely_out = dmax > m;
        if !definitely_in && !definitely_out {
            continue;
        }
        let mut k_in = 0;
        let mut k_maybe = 0;
        for t in &ctris {
            if let Some(s) = chart_inside(t, *q) {
                if s > delta {
                    k_in += 1;
                }
                if s > -delta {
                    k_maybe += 1;
                }
            }
        }
        if definitely_in {
            n_in += 1;
            ensure!(
                k_maybe >= 1,
                "inside-part-lost",
                "the point with barycentrics ({l0:.4}, {:.4}, {:.4}) of the input is inside the frustum by {:.3e} but lies in no output triangle",
                q[0],
                q[1],
                -dmax
            );
            ensure!(k_in <= 1, "outputs-overlap", "the point with barycentrics ({l0:.4}, {:.4}, {:.4}) lies strictly inside {k_in} output triangles", q[0], q[1]);
        } else {
            n_out += 1;
            ensure!(
                k_in == 0,
                "outside-part-kept",
                "the point with barycentrics ({l0:.4}, {:.4}, {:.4}) of the input is outside the frustum by {:.3e} but lies inside an output triangle",
                q[0],
                q[1],
                dmax
            );
        }
    }
    obs.class_n("membership-points-inside", n_in as u64);
    obs.class_n("membership-points-outside", n_out as u64);
    Ok(())
}

pub fn check(c: &ClipCase, obs: &mut Obs) -> Check {
    ensure!(c.tris.len() == c.attrs.len() && !c.tris.is_empty(), "bad-case", "malformed case");
    let whole = match clip_case(&c.ty, &c.tris, &c.attrs) {
        Ok(o) => o,
        Err(p) => fail!("clip-panic", "view_frustum::clip panicked: {p}"),
    };
    // (8) batch result == concatenation of single results, bit for bit
    let mut concat: Vec<OutTri> = vec![];
    let mut nontrivial = false;
    for (t, a) in c.tris.iter().zip(&c.attrs) {
        let single = match clip_case(&c.ty, std::slice::from_ref(t), std::slice::from_ref(a)) {
            Ok(o) => o,
            Err(p) => fail!("clip-panic", "view_frustum::clip panicked: {p}"),
        };
        check_one(&c.ty, t, a, &single, obs)?;
        let p: [[f64; 4]; 3] = t.map(|v| to64(fs(v)));
        // clipping is idempotent on its own output: what it returned lies inside the frustum, so handing the returned
        // triangles back must return (up to slivers of rounding size) the same region — nothing may vanish
        if !single.is_empty() {
            let (o1, o2) = match clip_twice_case(&c.ty, std::slice::from_ref(t), std::slice::from_ref(a)) {
                Ok(o) => o,
                Err(p) => fail!("clip-panic", "view_frustum::clip panicked when given its own output: {p}"),
            };
            // the re-clipped output must satisfy the same oracle with respect to the ORIGINAL triangle: every point that is
            // inside the frustum by a margin is still covered, nothing outside is, attributes are the input's linear field
            // (comparing areas would be ill-conditioned for triangles nearly coplanar with a frustum plane)
            obs.class("re-clip of the output checked");
            let _ = o1;
            if let Err(f) = check_one(&c.ty, t, a, &o2, &mut Obs::frozen_scratch()) {
                fail!("reclip-changes-the-region", "clipping the triangles that clip returned (the returned vertices themselves) violates the oracle for the original triangle: [{}] {}", f.sig, f.msg);
            }
        }
        let codes = p.map(outcode64);
        if (codes[0] | codes[1] | codes[2]) != 0 && (codes[0] & codes[1] & codes[2]) == 0 && !single.is_empty() {
            nontrivial = true;
        }
        concat.extend(single);
    }
    let bits = |v: &Vec<OutTri>| -> Vec<u32> { v.iter().flat_map(|t| t.iter().flat_map(|x| x.pos.iter().chain(x.attr.iter()).map(|f| f.to_bits()).collect::<Vec<_>>())).collect() };
    ensure!(
        bits(&whole) == bits(&concat),
        "batch-differs-from-singles",
        "clipping {} triangles in one call gives {} triangles, one call per triangle gives {} (or different values)",
        c.tris.len(),
        whole.len(),
        concat.len()
    );
    // scale invariance (exact): clip(2^k T) == 2^k clip(T), attributes untouched
    if c.scale_exp != 0 {
        let k = 2f32.powi(c.scale_exp);
        let scaled: Vec<[[X; 4]; 3]> = c.tris.iter().map(|t| t.map(|v| v.map(|x| X(x.0 * k)))).collect();
        // skip when scaling would overflow or lose bits to subnormals
        let representable = c.tris.iter().flatten().flatten().all(|x| x.0 == 0.0 || ((x.0 * k).is_finite() && (x.0 * k).abs() >= 1e-30 && (x.0 * k) / k == x.0));
        if representable {
            let out_s = match clip_case(&c.ty, &scaled, &c.attrs) {
                Ok(o) => o,
                Err(p) => fail!("clip-panic", "view_frustum::clip panicked on the batch scaled by 2^{}: {p}", c.scale_exp),
            };
            let same = out_s.len() == whole.len()
                && out_s.iter().zip(&whole).all(|(a, b)| (0..3).all(|i| (0..4).all(|j| a[i].pos[j].to_bits() == (b[i].pos[j] * k).to_bits() || (a[i].pos[j] == 0.0 && b[i].pos[j] == 0.0)) && a[i].attr.iter().zip(&b[i].attr).all(|(x, y)| x.to_bits() == y.to_bits())));
            ensure!(
                same,
                "not-scale-invariant",
                "clipping the batch scaled by 2^{} gives {} triangles, the unscaled batch gives {} (or different values): clip space is homogeneous, the result must scale exactly",
                c.scale_exp,
                out_s.len(),
                whole.len()
            );
            obs.class("scale-invariance-checked");
            if c.scale_exp < -15 {
                obs.class("scale:tiny(<2^-15)");
            }
        } else {
            obs.excluded("scaled coordinates not exactly representable");
        }
    }
    obs.class(match c.ty.as_str() {
        "f32" => "attr:f32",
        "Vec3" => "attr:Vec3",
        _ => "attr:(f32,Vec2)",
    });
    obs.class(if c.tris.len() > 1 { "batch>1" } else { "batch=1" });
    if c.tris.windows(2).zip(c.attrs.windows(2)).any(|(t, a)| t[0].iter().flatten().map(|x| x.0.to_bits()).eq(t[1].iter().flatten().map(|x| x.0.to_bits())) && a[0] != a[1]) {
        obs.class("batch: consecutive items with identical positions and different attributes");
    }
    if nontrivial {
        obs.nontrivial(hash_of(&(&c.ty, &c.tris, &c.attrs)));
        if obs.wants_sample() {
            let cc = c.clone();
            let n = whole.len();
            obs.sample(|| json!({"case": cc, "output_triangles": n}));
        }
    }
    Ok(())
}

fn grid_case(idx: u64) -> ClipCase {
    // 9 coordinates from {-1.5, 0, 1.5} * |w|, 3 w values from {-1, 0.5, 1, 2}
    let mut k = idx;
    let mut coords = [0.0f32; 9];
    for c in coords.iter_mut() {
        *c = [-1.5f32, 0.0, 1.5][(k % 3) as usize];
        k /= 3;
    }
    let mut ws = [0.0f32; 3];
    for w in ws.iter_mut() {
        *w = [-1.0f32, 0.5, 1.0, 2.0][(k % 4) as usize];
        k /= 4;
    }
    let tri: [[f32; 4]; 3] = std::array::from_fn(|i| {
        let a = ws[i].abs();
        [coords[3 * i] * a, coords[3 * i + 1] * a, coords[3 * i + 2] * a, ws[i]]
    });
    let attrs = [[1.0f32, -2.0, 0.25], [3.0, 0.5, -1.0], [-2.0, 4.0, 2.0]];
    ClipCase { ty: "Vec3".into(), tris: vec![tri.map(xs)], attrs: vec![attrs.map(xs)], scale_exp: [0, -24, 17][(idx % 3) as usize] }
}

pub fn run(cx: &mut Ctx) {
    cx.assume("chart-based clauses are asserted when the input triangle's smallest altitude in R^4 is >= 1e-3 of its scale (otherwise only finiteness, frustum containment, trivial accept/reject and batch independence)");
    cx.assume("'beyond rounding' = 2e-5 x the triangle's coordinate scale; membership points are classified with a 1e-4 x scale margin");
    let total = 3u64.pow(9) * 64;
    cx.enum_check("grid-3^9x4^3", total, true, |idx, obs| {
        let c = grid_case(idx);
        if obs.wants_sample() && idx % 100_003 == 77 {
            let cc = c.clone();
            obs.sample(|| json!(cc));
        }
        // count non-trivial by enumeration
        let before = obs.nontrivial.len();
        let r = check(&c, obs);
        let _ = before;
        r.map_err(|f| (c, f))
    });
    let n = cx.n(600_000, 20_000_000);
    cx.prop_check("single", n, || case_strategy(1), |c, obs| check(c, obs));
    let n = cx.n(60_000, 2_000_000);
    cx.prop_check("batch", n, || case_strategy(8), |c, obs| check(c, obs));
}

pub fn replay(_sub: &str, case: &Value) -> Check {
    let mut obs = Obs::new();
    obs.freeze();
    let c: ClipCase = serde_json::from_value(case.clone()).map_err(|e| Fail::new("bad-replay", e.to_string()))?;
    check(&c, &mut obs)
}
