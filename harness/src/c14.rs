//! C14 — OBJ parsing is total and faithful.
//!
//! Sub-checks
//!   wellformed  files rendered from random meshes (positions printed so that
//!               f32 parsing is exact, plain and exponent notation, the four
//!               index forms with matching vt/vn lines, faces before / after /
//!               interleaved with the vertices they use, blank lines, comments,
//!               indentation, separators, CRLF): parse_obj and read_obj must
//!               return exactly the generated positions (bit for bit, file
//!               order) and faces (indices - 1), and build() must succeed.
//!   mutations   structure-aware mutations of such files (index 0, negative,
//!               > len, 2^32 / 2^63 / 2^64 neighbours, dropped vertices, missing
//!               fields, unknown items, bad floats, non-ASCII bytes, byte
//!               edits), token soup and arbitrary bytes: no panic; on Ok every
//!               face index < vertex count and build() does not panic.
//!   corpus      the same byte oracle on the repository's unit-test literals
//!               and the committed libFuzzer seed corpus.
//!   libfuzzer   (thorough only) `cargo +nightly fuzz run obj_parse` with the
//!               same oracle compiled into the target (`fuzz_one`); falls back
//!               to a second mutation run (with an evidence note, not a failure)
//!               when nightly / cargo-fuzz / the fuzz build is unavailable.
//!   nodebug     (thorough only) corpus + mutations again in a child process
//!               built with the harness profile `nodebug` (debug assertions and
//!               overflow checks off).
//!
//! Maintenance switch: RFVERIF_C14_ONLY=<comma separated sub-check names>
//! restricts a run to those sub-checks (recorded in the evidence as a partial
//! run; also how the nodebug child is driven). Unset in normal use.

use crate::common::fl::*;
use crate::common::*;
use proptest::collection::vec as pvec;
use proptest::prelude::*;
use re_geom::io::{parse_obj, read_obj, Error as ObjError};
use serde::{Deserialize, Serialize};
use serde_json::{json, Value};
use std::path::{Path, PathBuf};
use std::process::Command;
use std::time::Instant;

pub const RULE: &str = "wellformed: proptest meshes (0..40 vertices, 0..60 triangles, 5 % up to 400/600 in thorough; coordinates from a class mixture: +-0, integers, dyadic, decimal, uniform, \
arbitrary finite bit patterns, subnormal, MAX) rendered as OBJ text with 10 exact number formats (shortest plain, Debug, e/E exponent, signed/zero-padded exponent, 13-digit exponent, trailing zeros, 30..80-digit decimals just above / just below the midpoint to a neighbouring f32), \
index forms v, v/vt, v//vn, v/vt/vn with matching vt/vn lines, 4 orderings (faces after, before, between, interleaved), per-line decorations (blank, whitespace-only, comment, indented comment, \
comment with non-ASCII bytes, indentation, multi-space/tab separators, trailing whitespace), LF/CRLF, with/without final newline. Non-trivial = at least one face and at least one layout feature other than \
'plain v lines, then f lines with bare indices, single spaces'; distinct by the hash of the case structure. \
mutations: 1..3 structure-aware mutations of a small well-formed file, or token soup lines, or biased/arbitrary bytes. Non-trivial = the input contains at least one lexically valid f line \
(item 'f' + three index groups digits[/digits?[/digits]] with non-zero values); distinct by hash of the bytes. libfuzzer: executions of the obj_parse target (same oracle).";

// =====================================================================================
// Observation of one parse
// =====================================================================================

/// What one API call returned, reduced to comparable data.
#[derive(Clone, Debug, PartialEq)]
pub enum Outcome {
    Ok { verts: Vec<[u32; 3]>, faces: Vec<[usize; 3]> },
    Err(&'static str),
}

fn err_label(e: &ObjError) -> &'static str {
    match e {
        ObjError::Io(_) => "err:Io",
        ObjError::UnsupportedItem(_) => "err:UnsupportedItem",
        ObjError::UnexpectedEnd => "err:UnexpectedEnd",
        ObjError::InvalidValue => "err:InvalidValue",
        ObjError::IndexOutOfBounds(what, _) => match *what {
            "vertex" => "err:IndexOutOfBounds(vertex)",
            "texcoord" => "err:IndexOutOfBounds(texcoord)",
            "normal" => "err:IndexOutOfBounds(normal)",
            _ => "err:IndexOutOfBounds(other)",
        },
    }
}

/// Signature of a panic coming out of the parser / builder (keys known findings).
fn panic_sig(msg: &str) -> &'static str {
    if msg.contains("subtract with overflow") {
        "panic-index-underflow"
    } else if msg.contains("vertex index out of bounds") {
        "panic-unchecked-face-index"
    } else {
        "panic-other"
    }
}

fn show(data: &[u8]) -> String {
    let s: String = String::from_utf8_lossy(data).chars().take(400).collect();
    format!("{s:?}{}", if data.len() > 400 { " (truncated)" } else { "" })
}

/// Runs one API on `data` and applies the totality oracle of the property:
/// no panic; on Ok every face index refers to an existing vertex and build()
/// succeeds (and does not change faces or vertices).
fn observe(api: &'static str, data: &[u8]) -> Result<Outcome, Fail> {
    let res = match api {
        "parse_obj" => catch(|| parse_obj(data.iter().copied())),
        // straight from the slice, or (decided by the content) through a reader that returns 1..7 bytes per call
        _ if hash_of(&data) & 0x30 == 0 => catch(|| read_obj(ChunkReader::for_content(data))),
        _ => catch(|| read_obj(data)),
    };
    let b = match res {
        Err(p) => return Err(Fail::new(panic_sig(&p), format!("{api} panicked: {p}; input {}", show(data)))),
        Ok(Err(e)) => return Ok(Outcome::Err(err_label(&e))),
        Ok(Ok(b)) => b,
    };
    let nv = b.mesh.verts.len();
    let verts: Vec<[u32; 3]> = b.mesh.verts.iter().map(|v| v.pos.0.map(f32::to_bits)).collect();
    let faces: Vec<[usize; 3]> = b.mesh.faces.iter().map(|t| t.0).collect();
    for (k, f) in faces.iter().enumerate() {
        if f.iter().any(|&i| i >= nv) {
            return Err(Fail::new(
                "face-index-out-of-range",
                format!("{api} returned Ok but face {k} = {f:?} refers to a vertex >= vertex count {nv}; input {}", show(data)),
            ));
        }
    }
    let m = match catch(|| b.build()) {
        Err(p) => return Err(Fail::new("build-panic", format!("{api} returned Ok but build() panicked: {p}; input {}", show(data)))),
        Ok(m) => m,
    };
    let mverts: Vec<[u32; 3]> = m.verts.iter().map(|v| v.pos.0.map(f32::to_bits)).collect();
    let mfaces: Vec<[usize; 3]> = m.faces.iter().map(|t| t.0).collect();
    if mverts != verts || mfaces != faces {
        return Err(Fail::new("build-changes-mesh", format!("build() returned a mesh that differs from the builder's contents; input {}", show(data))));
    }
    Ok(Outcome::Ok { verts, faces })
}

fn outcome_brief(o: &Outcome) -> String {
    match o {
        Outcome::Ok { verts, faces } => format!("Ok({} vertices, {} faces)", verts.len(), faces.len()),
        Outcome::Err(l) => l.to_string(),
    }
}

/// Sub-check (b) oracle on raw bytes — also what the libFuzzer target runs.
pub fn check_bytes(data: &[u8], obs: &mut Obs) -> Check {
    let a = observe("parse_obj", data)?;
    let b = observe("read_obj", data)?;
    // read_obj is parse_obj over the bytes of a reader; a slice never fails to read
    ensure!(a == b, "parse-read-disagree", "parse_obj gave {} but read_obj gave {} on the same bytes {}", outcome_brief(&a), outcome_brief(&b), show(data));
    match &a {
        Outcome::Ok { verts, faces } => obs.class(if !faces.is_empty() {
            "result:Ok(with faces)"
        } else if !verts.is_empty() {
            "result:Ok(vertices only)"
        } else {
            "result:Ok(empty)"
        }),
        Outcome::Err(l) => obs.class(*l),
    }
    if !obs.frozen() && has_valid_f_line(data) {
        obs.class("input has a lexically valid f line");
        obs.nontrivial(hash_of(&data));
        if obs.wants_sample() {
            let o = outcome_brief(&a);
            obs.sample(|| json!({"input": String::from_utf8_lossy(data).chars().take(200).collect::<String>(), "outcome": o}));
        }
    }
    Ok(())
}

fn is_ws(b: u8) -> bool {
    matches!(b, b' ' | b'\t' | b'\r' | b'\n' | 0x0c)
}

fn valid_index(part: &[u8]) -> bool {
    !part.is_empty() && part.len() <= 18 && part.iter().all(|b| b.is_ascii_digit()) && part.iter().any(|&b| b != b'0')
}

fn valid_group(tok: &[u8]) -> bool {
    let parts: Vec<&[u8]> = tok.split(|&b| b == b'/').collect();
    match parts.len() {
        1 => valid_index(parts[0]),
        2 => valid_index(parts[0]) && (parts[1].is_empty() || valid_index(parts[1])),
        3 => valid_index(parts[0]) && (parts[1].is_empty() || valid_index(parts[1])) && valid_index(parts[2]),
        _ => false,
    }
}

/// Lexical (parser-independent) test used only for the non-triviality count.
fn has_valid_f_line(data: &[u8]) -> bool {
    data.split(|&b| b == b'\n').any(|line| {
        let mut toks = line.split(|&b| is_ws(b)).filter(|t| !t.is_empty());
        toks.next() == Some(&b"f"[..]) && {
            let g: Vec<&[u8]> = toks.take(3).collect();
            g.len() == 3 && g.iter().all(|t| valid_group(t))
        }
    })
}

// =====================================================================================
// Well-formed files
// =====================================================================================

#[derive(Clone, Debug, Hash, Serialize, Deserialize)]
pub struct Deco {
    /// lines inserted before: 0 none, 1 empty, 2 whitespace-only, 3 comment, 4 indented comment,
    /// 5 comment glued to '#', 6 comment with non-ASCII bytes, 7 two blank lines and a comment
    pub pre: u8,
    /// 0 none, 1 " ", 2 four spaces, 3 tab, 4 " \t "
    pub indent: u8,
    /// field separator: 0 " ", 1 two spaces, 2 tab, 3 "   \t "
    pub sep: u8,
    /// trailing whitespace: 0 none, 1 " ", 2 "\t "
    pub trail: u8,
}

#[derive(Clone, Debug, Hash, Serialize, Deserialize)]
pub struct FaceSpec {
    /// selectors: zero-based index = sel * count >> 16
    pub p: [u16; 3],
    pub t: [u16; 3],
    pub n: [u16; 3],
    /// 0 `v`, 1 `v/vt`, 2 `v//vn`, 3 `v/vt/vn` (degraded when there are no vt / vn lines)
    pub form: u8,
}

#[derive(Clone, Debug, Hash, Serialize, Deserialize)]
pub struct WfCase {
    pub verts: Vec<[X; 3]>,
    /// number format per printed coordinate (cycled)
    pub fmts: Vec<u8>,
    pub nt: u8,
    pub nn: u8,
    pub faces: Vec<FaceSpec>,
    /// 0 v, vt, vn, f   1 f, vn, vt, v   2 interleaved by `mix`   3 v, f, vt, vn
    pub order: u8,
    pub mix: Vec<u8>,
    /// per-line decoration (cycled)
    pub deco: Vec<Deco>,
    pub crlf: bool,
    pub final_eol: bool,
}

#[derive(Clone, Debug)]
struct Line {
    pre: Vec<Vec<u8>>,
    indent: &'static str,
    toks: Vec<Vec<u8>>,
    sep: &'static str,
    trail: &'static str,
    /// 0 v, 1 vt, 2 vn, 3 f, 4 other
    kind: u8,
}

fn plain_line(kind: u8, toks: Vec<Vec<u8>>) -> Line {
    Line { pre: vec![], indent: "", toks, sep: " ", trail: "", kind }
}

fn pad_exp(s: &str, plus: bool) -> String {
    let Some((m, e)) = s.split_once('e') else { return s.to_string() };
    let (neg, digits) = match e.strip_prefix('-') {
        Some(d) => (true, d),
        None => (false, e),
    };
    format!("{m}e{}{:0>3}", if neg { "-" } else if plus { "+" } else { "" }, digits)
}

/// Decimal text that parses back to exactly `x` (every form is exact by
/// construction; the final guard only protects the generator itself).
fn fmt_num(x: f32, code: u8) -> String {
    let s = match code % 10 {
        // a long decimal a hair on x's side of the midpoint between x and a neighbouring f32 (exact binary expansion of
        // the midpoint, then pushed off it): the nearest f32 is x, but only a correctly rounding parser returns it
        8 | 9 if x != 0.0 && (1e-6..=1e7).contains(&x.abs()) => {
            let a = x.abs();
            let (lo, hi) = (f32::from_bits(a.to_bits() - 1), f32::from_bits(a.to_bits() + 1));
            let sign = if x < 0.0 { "-" } else { "" };
            let exact = |m: f64| format!("{m:.70}").trim_end_matches('0').to_string();
            if code % 10 == 8 {
                // just above (lo + a) / 2
                let t = exact((lo as f64 + a as f64) / 2.0);
                if t.ends_with('.') { format!("{sign}{t}00000000000000000000000001") } else { format!("{sign}{t}0000000001") }
            } else {
                // just below (a + hi) / 2
                let t = exact((a as f64 + hi as f64) / 2.0);
                match t.strip_suffix('5') {
                    Some(h) if t.contains('.') => format!("{sign}{h}4999999999999"),
                    _ => format!("{x}"),
                }
            }
        }
        8 | 9 => format!("{x}"),
        0 => format!("{x}"),
        1 => format!("{x:?}"),
        2 => format!("{x:e}"),
        3 => format!("{x:E}"),
        4 => pad_exp(&format!("{x:e}"), true),
        5 => pad_exp(&format!("{x:e}"), false),
        6 => format!("{x:.12e}"),
        _ => {
            let d = format!("{x}");
            if d.contains('.') {
                format!("{d}000")
            } else {
                format!("{d}.000")
            }
        }
    };
    match s.parse::<f32>() {
        Ok(v) if v.to_bits() == x.to_bits() => s,
        _ => format!("{x:?}"),
    }
}

fn sel(s: u16, n: usize) -> usize {
    (s as usize * n) >> 16
}

struct Rendered {
    lines: Vec<Line>,
    faces: Vec<[usize; 3]>,
    /// layout features present (for the non-triviality rule and the histogram)
    feats: Vec<&'static str>,
}

impl WfCase {
    fn render(&self) -> Rendered {
        let nv = self.verts.len();
        let (nt, nn) = (self.nt as usize, self.nn as usize);
        let mut feats: Vec<&'static str> = vec![];
        let mut feat = |f: &'static str| {
            if !feats.contains(&f) {
                feats.push(f)
            }
        };
        let mut fi = 0usize;
        let mut num = |x: f32, feat: &mut dyn FnMut(&'static str)| -> Vec<u8> {
            let code = if self.fmts.is_empty() { 0 } else { self.fmts[fi % self.fmts.len()] };
            fi += 1;
            let s = fmt_num(x, code);
            if s.len() > 25 && !s.contains('e') {
                feat("number:long decimal next to an f32 rounding midpoint")
            } else if s.contains('e') || s.contains('E') {
                feat("number:exponent")
            } else {
                feat("number:plain")
            }
            s.into_bytes()
        };
        let mut seqs: [Vec<Line>; 4] = [vec![], vec![], vec![], vec![]];
        for v in &self.verts {
            let mut t = vec![b"v".to_vec()];
            for c in v {
                t.push(num(c.0, &mut feat));
            }
            seqs[0].push(plain_line(0, t));
        }
        for j in 0..nt {
            let mut t = vec![b"vt".to_vec(), num(j as f32 / 8.0, &mut feat), num(1.0 - j as f32 / 16.0, &mut feat)];
            if j % 3 == 2 {
                // the repository's own tests write a third texture coordinate
                t.push(num(0.0, &mut feat));
            }
            seqs[1].push(plain_line(1, t));
        }
        for k in 0..nn {
            let t = vec![b"vn".to_vec(), num(k as f32 - 1.0, &mut feat), num(0.5, &mut feat), num(-(k as f32) / 4.0, &mut feat)];
            seqs[2].push(plain_line(2, t));
        }
        let mut faces = vec![];
        if nv > 0 {
            for f in &self.faces {
                let mut form = f.form % 4;
                if nt == 0 {
                    form &= !1;
                }
                if nn == 0 {
                    form &= !2;
                }
                feat(match form {
                    0 => "index-form:v",
                    1 => "index-form:v/vt",
                    2 => "index-form:v//vn",
                    _ => "index-form:v/vt/vn",
                });
                let mut t = vec![b"f".to_vec()];
                let mut tri = [0usize; 3];
                for i in 0..3 {
                    let p = sel(f.p[i], nv);
                    tri[i] = p;
                    if p == nv - 1 {
                        feat("face uses the last vertex");
                    }
                    let s = match form {
                        0 => format!("{}", p + 1),
                        1 => format!("{}/{}", p + 1, sel(f.t[i], nt) + 1),
                        2 => format!("{}//{}", p + 1, sel(f.n[i], nn) + 1),
                        _ => format!("{}/{}/{}", p + 1, sel(f.t[i], nt) + 1, sel(f.n[i], nn) + 1),
                    };
                    t.push(s.into_bytes());
                }
                faces.push(tri);
                seqs[3].push(plain_line(3, t));
            }
        }
        // ordering (each sequence keeps its internal order: it defines the indices)
        let total: usize = seqs.iter().map(|s| s.len()).sum();
        let mut its: Vec<std::vec::IntoIter<Line>> = seqs.into_iter().map(|s| s.into_iter()).collect();
        let mut lines: Vec<Line> = Vec::with_capacity(total);
        let order = self.order % 4;
        let fixed: [usize; 4] = match order {
            0 => [0, 1, 2, 3],
            1 => [3, 2, 1, 0],
            3 => [0, 3, 1, 2],
            _ => [0, 1, 2, 3],
        };
        if order == 2 && !self.mix.is_empty() {
            let mut k = 0usize;
            while lines.len() < total {
                let mut q = (self.mix[k % self.mix.len()] as usize + k / self.mix.len()) % 4;
                k += 1;
                loop {
                    if let Some(l) = its[q].next() {
                        lines.push(l);
                        break;
                    }
                    q = (q + 1) % 4;
                }
            }
        } else {
            for q in fixed {
                lines.extend(&mut its[q]);
            }
        }
        if !faces.is_empty() {
            // where do faces sit relative to the vertices they use?
            let mut seen_v = 0usize;
            let (mut before, mut after) = (false, false);
            let mut fk = 0usize;
            for l in &lines {
                match l.kind {
                    0 => seen_v += 1,
                    3 => {
                        if faces[fk].iter().any(|&i| i >= seen_v) {
                            before = true
                        } else {
                            after = true
                        }
                        fk += 1;
                    }
                    _ => {}
                }
            }
            feat(match (before, after) {
                (true, true) => "order:faces before and after their vertices",
                (true, false) => "order:all faces before some vertex they use",
                _ => "order:all faces after their vertices",
            });
        }
        // decorations
        for (li, l) in lines.iter_mut().enumerate() {
            let Some(d) = (if self.deco.is_empty() { None } else { Some(&self.deco[li % self.deco.len()]) }) else { continue };
            match d.pre % 10 {
                0 => {}
                8 => {
                    // a very long comment line (banner / embedded metadata): longer than any fixed line buffer
                    let mut c = b"# ".to_vec();
                    c.extend(std::iter::repeat(*b"v 9 9 9 f 1 1 1 ").take(70 + (li % 150)).flatten());
                    l.pre.push(c);
                    feat("deco:comment line longer than 1 KiB")
                }
                9 => {
                    // a line of whitespace only, longer than 1 KiB, then a short comment
                    l.pre.push(vec![b' '; 1030 + 17 * (li % 60)]);
                    l.pre.push(b"# after a long blank line".to_vec());
                    feat("deco:whitespace-only line longer than 1 KiB")
                }
                1 => {
                    l.pre.push(vec![]);
                    feat("deco:blank line")
                }
                2 => {
                    l.pre.push(b"   \t ".to_vec());
                    feat("deco:whitespace-only line")
                }
                3 => {
                    l.pre.push(format!("# comment {li}").into_bytes());
                    feat("deco:comment")
                }
                4 => {
                    l.pre.push(b"  \t# f 0 0 0 v x y z / indented comment".to_vec());
                    feat("deco:indented comment")
                }
                5 => {
                    l.pre.push(b"#v 1 2 3".to_vec());
                    feat("deco:comment glued to #")
                }
                6 => {
                    l.pre.push(b"# caf\xc3\xa9 \xff\xa0\x85 non-ASCII".to_vec());
                    feat("deco:comment with non-ASCII bytes")
                }
                _ => {
                    l.pre.push(vec![]);
                    l.pre.push(vec![]);
                    l.pre.push(b"#".to_vec());
                    feat("deco:blank line")
                }
            }
            l.indent = ["", " ", "    ", "\t", " \t "][d.indent as usize % 5];
            l.sep = [" ", "  ", "\t", "   \t "][d.sep as usize % 4];
            l.trail = ["", " ", "\t "][d.trail as usize % 3];
            if !l.indent.is_empty() {
                feat("deco:indentation")
            }
            if l.sep != " " {
                feat("deco:wide or tab separator")
            }
            if !l.trail.is_empty() {
                feat("deco:trailing whitespace")
            }
        }
        if self.crlf && !lines.is_empty() {
            feat("eol:CRLF")
        }
        if !self.final_eol && !lines.is_empty() {
            feat("eol:no final newline")
        }
        Rendered { lines, faces, feats }
    }
}

fn serialise(lines: &[Line], crlf: bool, final_eol: bool) -> Vec<u8> {
    let eol: &[u8] = if crlf { b"\r\n" } else { b"\n" };
    let mut out = vec![];
    for (i, l) in lines.iter().enumerate() {
        for p in &l.pre {
            out.extend_from_slice(p);
            out.extend_from_slice(eol);
        }
        out.extend_from_slice(l.indent.as_bytes());
        for (k, t) in l.toks.iter().enumerate() {
            if k > 0 {
                out.extend_from_slice(l.sep.as_bytes());
            }
            out.extend_from_slice(t);
        }
        out.extend_from_slice(l.trail.as_bytes());
        if i + 1 < lines.len() || final_eol {
            out.extend_from_slice(eol);
        }
    }
    out
}

const TRIVIAL_FEATS: &[&str] = &["number:plain", "index-form:v", "order:all faces after their vertices", "face uses the last vertex"];

fn coord() -> impl Strategy<Value = f32> {
    prop_oneof![
        2 => Just(0.0f32),
        1 => Just(-0.0f32),
        3 => (-20i32..=20).prop_map(|i| i as f32),
        3 => (-1600i32..=1600).prop_map(|i| i as f32 / 16.0),
        3 => (-100000i32..=100000).prop_map(|i| i as f32 / 1000.0),
        4 => -10.0f32..10.0,
        2 => any::<u32>().prop_map(|b| { let f = f32::from_bits(b); if f.is_finite() { f } else { f32::from_bits(b & 0x807f_ffff | 0x3f00_0000) } }),
        1 => (0u32..0x0080_0000, any::<bool>()).prop_map(|(m, s)| f32::from_bits(m | if s { 0x8000_0000 } else { 0 })),
        1 => prop_oneof![Just(f32::MAX), Just(f32::MIN), Just(f32::MIN_POSITIVE), Just(1e-45f32), Just(1e30f32), Just(16777216.0f32), Just(0.1f32), Just(0.03f32), Just(-5.67e2f32)],
    ]
}

fn selector() -> impl Strategy<Value = u16> {
    prop_oneof![1 => Just(0u16), 1 => Just(0xffffu16), 4 => any::<u16>()]
}

fn face_spec() -> impl Strategy<Value = FaceSpec> {
    ([selector(), selector(), selector()], [selector(), selector(), selector()], [selector(), selector(), selector()], 0u8..4)
        .prop_map(|(p, t, n, form)| FaceSpec { p, t, n, form })
}

fn deco() -> impl Strategy<Value = Deco> {
    (
        prop_oneof![6 => Just(0u8), 4 => 1u8..8, 1 => 8u8..10],
        prop_oneof![3 => Just(0u8), 2 => 1u8..5],
        prop_oneof![3 => Just(0u8), 2 => 1u8..4],
        prop_oneof![4 => Just(0u8), 1 => 1u8..3],
    )
        .prop_map(|(pre, indent, sep, trail)| Deco { pre, indent, sep, trail })
}

fn sized<T: std::fmt::Debug + Clone + 'static>(e: impl Strategy<Value = T> + Clone + 'static, max: usize, big: usize) -> BoxedStrategy<Vec<T>> {
    if big > max {
        prop_oneof![2 => Just(vec![]), 2 => pvec(e.clone(), 1..=3), 15 => pvec(e.clone(), 0..=max), 1 => pvec(e, max..=big)].boxed()
    } else {
        prop_oneof![2 => Just(vec![]), 2 => pvec(e.clone(), 1..=3), 16 => pvec(e, 0..=max)].boxed()
    }
}

/// `max_v`/`max_f`: usual size bounds; `big_*`: occasional large files (thorough).
pub fn wf_case(max_v: usize, max_f: usize, big_v: usize, big_f: usize) -> BoxedStrategy<WfCase> {
    let verts = sized([coord(), coord(), coord()].prop_map(xs).boxed(), max_v, big_v);
    let faces = sized(face_spec().boxed(), max_f, big_f);
    let fmts = prop_oneof![1 => Just(vec![0u8]), 1 => Just(vec![2u8]), 6 => pvec(0u8..10, 1..=7)];
    let counts = prop_oneof![2 => Just(0u8), 1 => Just(1u8), 5 => 0u8..=50];
    let order = prop_oneof![3 => Just(0u8), 2 => Just(1u8), 3 => Just(2u8), 1 => Just(3u8)];
    let decos = prop_oneof![2 => Just(vec![]), 6 => pvec(deco(), 1..=8)];
    (verts, fmts, counts.clone(), counts, faces, order, pvec(0u8..4, 1..=12), decos, prop::bool::weighted(0.25), prop::bool::weighted(0.7))
        .prop_map(|(verts, fmts, nt, nn, faces, order, mix, deco, crlf, final_eol)| WfCase { verts, fmts, nt, nn, faces, order, mix, deco, crlf, final_eol })
        .boxed()
}

fn coord_class(x: f32) -> &'static str {
    let a = x.abs();
    if x == 0.0 {
        if x.is_sign_negative() {
            "coord:-0"
        } else {
            "coord:+0"
        }
    } else if a < f32::MIN_POSITIVE {
        "coord:subnormal"
    } else if a < 1e-20 {
        "coord:tiny (<1e-20)"
    } else if a > 1e20 {
        "coord:huge (>1e20)"
    } else if x.fract() == 0.0 {
        "coord:integer"
    } else {
        "coord:fractional"
    }
}

/// Sub-check (a) oracle.
pub fn check_wellformed(c: &WfCase, obs: &mut Obs) -> Check {
    let r = c.render();
    let data = serialise(&r.lines, c.crlf, c.final_eol);
    let want_v: Vec<[u32; 3]> = c.verts.iter().map(|v| [v[0].0.to_bits(), v[1].0.to_bits(), v[2].0.to_bits()]).collect();
    for api in ["parse_obj", "read_obj"] {
        let (verts, faces) = match observe(api, &data)? {
            Outcome::Err(l) => fail!("wellformed-rejected", "{api} rejected a well-formed file with {l}: {}", show(&data)),
            Outcome::Ok { verts, faces } => (verts, faces),
        };
        ensure!(verts.len() == want_v.len(), "vertex-count", "{api}: {} vertices returned, {} `v` lines written: {}", verts.len(), want_v.len(), show(&data));
        for (i, (g, w)) in verts.iter().zip(&want_v).enumerate() {
            ensure!(
                g == w,
                "vertex-position",
                "{api}: vertex {i} is {:?} but the file says {:?} (line {:?}): {}",
                g.map(f32::from_bits),
                w.map(f32::from_bits),
                r.lines.iter().filter(|l| l.kind == 0).nth(i).map(|l| l.toks.iter().map(|t| String::from_utf8_lossy(t).to_string()).collect::<Vec<_>>().join(" ")),
                show(&data)
            );
        }
        ensure!(faces.len() == r.faces.len(), "face-count", "{api}: {} faces returned, {} `f` lines written: {}", faces.len(), r.faces.len(), show(&data));
        for (k, (g, w)) in faces.iter().zip(&r.faces).enumerate() {
            ensure!(
                g == w,
                "face-indices",
                "{api}: face {k} is {g:?} but the file lists (zero-based) {w:?} (line {:?}): {}",
                r.lines.iter().filter(|l| l.kind == 3).nth(k).map(|l| l.toks.iter().map(|t| String::from_utf8_lossy(t).to_string()).collect::<Vec<_>>().join(" ")),
                show(&data)
            );
        }
    }
    if obs.frozen() {
        return Ok(());
    }
    for f in &r.feats {
        obs.class(*f);
    }
    obs.class(match c.verts.len() {
        0 => "vertices:0",
        1..=3 => "vertices:1-3",
        4..=40 => "vertices:4-40",
        _ => "vertices:>40",
    });
    obs.class(match r.faces.len() {
        0 => "faces:0",
        1..=3 => "faces:1-3",
        4..=60 => "faces:4-60",
        _ => "faces:>60",
    });
    for v in &c.verts {
        for x in v {
            obs.class(coord_class(x.0));
        }
    }
    obs.class_n("positions compared", 2 * c.verts.len() as u64);
    obs.class_n("faces compared", 2 * r.faces.len() as u64);
    if !r.faces.is_empty() && r.feats.iter().any(|f| !TRIVIAL_FEATS.contains(f)) {
        obs.nontrivial(hash_of(c));
        if obs.wants_sample() && data.len() < 400 {
            let feats = r.feats.clone();
            let nf = r.faces.len();
            obs.sample(|| json!({"file": String::from_utf8_lossy(&data), "vertices": c.verts.len(), "faces": nf, "features": feats}));
        }
    }
    Ok(())
}

// =====================================================================================
// Mutations and arbitrary bytes
// =====================================================================================

#[derive(Clone, Debug, Serialize, Deserialize)]
pub struct ByteCase {
    /// how the input was produced (mutation names joined by '+')
    pub kind: String,
    /// the input, hex encoded
    pub hex: String,
    /// lossy rendering for the human reader (not used by the replay)
    pub text: String,
}

pub fn to_hex(b: &[u8]) -> String {
    const D: &[u8; 16] = b"0123456789abcdef";
    let mut s = String::with_capacity(b.len() * 2);
    for x in b {
        s.push(D[(x >> 4) as usize] as char);
        s.push(D[(x & 15) as usize] as char);
    }
    s
}

pub fn from_hex(s: &str) -> Option<Vec<u8>> {
    if s.len() % 2 != 0 {
        return None;
    }
    (0..s.len() / 2).map(|i| u8::from_str_radix(s.get(2 * i..2 * i + 2)?, 16).ok()).collect()
}

pub fn byte_case(kind: &str, data: &[u8]) -> ByteCase {
    ByteCase { kind: kind.to_string(), hex: to_hex(data), text: String::from_utf8_lossy(data).chars().take(600).collect() }
}

#[derive(Clone, Debug)]
enum Mut {
    Index { line: u16, tok: u8, slot: u8, val: u8 },
    DropAllV,
    DropV { keep: u16 },
    DropTok { line: u16, tok: u8 },
    TruncLine { line: u16, keep: u8 },
    ReplTok { line: u16, tok: u8, junk: u8 },
    InsLine { at: u16, which: u8 },
    DupLine { line: u16, at: u16 },
    SwapLines { a: u16, b: u16 },
    DropLine { line: u16 },
    Trunc { at: u16 },
    Flip { at: u16, bit: u8 },
    Set { at: u16, val: u8 },
    Ins { at: u16, val: u8 },
    Del { at: u16, len: u8 },
    JoinLines { at: u16, with: u8 },
}

const MUT_NAMES: &[&str] = &[
    "mut:index-value",
    "mut:drop-all-v-lines",
    "mut:drop-trailing-v-lines",
    "mut:drop-token",
    "mut:truncate-line",
    "mut:replace-token",
    "mut:insert-line",
    "mut:duplicate-line",
    "mut:swap-lines",
    "mut:drop-line",
    "mut:truncate-file",
    "mut:bit-flip",
    "mut:set-byte",
    "mut:insert-byte",
    "mut:delete-bytes",
    "mut:replace-newline",
    "gen:token-soup",
    "gen:biased-bytes",
    "gen:arbitrary-bytes",
    "gen:unmutated",
    "corpus:unit-test-literal",
    "corpus:seed-file",
    "libfuzzer-artifact",
];

fn static_name(s: &str) -> &'static str {
    MUT_NAMES.iter().find(|n| **n == s).copied().unwrap_or("kind:other")
}

impl Mut {
    fn name(&self) -> &'static str {
        MUT_NAMES[match self {
            Mut::Index { .. } => 0,
            Mut::DropAllV => 1,
            Mut::DropV { .. } => 2,
            Mut::DropTok { .. } => 3,
            Mut::TruncLine { .. } => 4,
            Mut::ReplTok { .. } => 5,
            Mut::InsLine { .. } => 6,
            Mut::DupLine { .. } => 7,
            Mut::SwapLines { .. } => 8,
            Mut::DropLine { .. } => 9,
            Mut::Trunc { .. } => 10,
            Mut::Flip { .. } => 11,
            Mut::Set { .. } => 12,
            Mut::Ins { .. } => 13,
            Mut::Del { .. } => 14,
            Mut::JoinLines { .. } => 15,
        }]
    }
    fn is_byte_level(&self) -> bool {
        matches!(self, Mut::Trunc { .. } | Mut::Flip { .. } | Mut::Set { .. } | Mut::Ins { .. } | Mut::Del { .. } | Mut::JoinLines { .. })
    }
}

/// Index spellings; `N`, `N+1`, `N+2` are replaced by the vertex count (+1, +2).
const INDEX_VALUES: &[&str] = &[
    "0", "0", "00", "+0", "-0", "-1", "-2", "-9223372036854775808", "1", "+1", "01", "N", "N+1", "N+1", "N+2", "4294967295", "4294967296", "4294967297",
    "9223372036854775807", "9223372036854775808", "18446744073709551615", "18446744073709551615", "18446744073709551616", "18446744073709551617",
    "99999999999999999999999999", "1.0", "1e0", "", "x", "\u{ff11}", "1_0", "0x1", " 1",
];

const JUNK_TOKENS: &[&[u8]] = &[
    b"nan", b"NaN", b"inf", b"-inf", b"infinity", b"1e999", b"-1e999", b"1e-999", b"1.2.3", b"1,5", b"0x10", b"--1", b"+", b"-", b".", b"e5", b"1e", b"1e+", b"\xe9", b"\xff\xfe", b"1\xa0", b"\xc2\xa02",
    b"1/", b"/1", b"1//", b"//1", b"//", b"/", b"1/2/3/4", b"1/ /2", b"0/0/0", b"1/0", b"1//0", b"1/0/1", b"1/1/0", b"2/18446744073709551615", b"1//18446744073709551616", b"3/-1", b"1/2/", b"#", b"#1",
    b"v", b"f", b"1", b"2", b"3", b"0", b"1e38", b"3.5e38", b"1e-46", b"00000000000000000000000000000000000000001", b"0.000000000000000000000000000000000000000000000000001",
];

const EXTRA_LINES: &[&[u8]] = &[
    b"g group1", b"o object", b"s off", b"s 1", b"usemtl mat", b"mtllib file.mtl", b"vp 0.1 0.2 0.3", b"l 1 2", b"p 1", b"f 1 2 3", b"f 1 1 1", b"f 1 2 3 4 5", b"f 1/1/1 2/2/2 3/3/3", b"f 1//1 1//1 1//1", b"f 0 0 0",
    b"f -1 -2 -3", b"f 1 2", b"f", b"v", b"v 1 2", b"v 1 2 3 4", b"v 1 2 3", b"vt", b"vt 0.5", b"vt 0 0", b"vn 0 0", b"vn 0 0 1", b"vx 1 2 3", b"V 1 2 3", b"F 1 2 3", b"fv 1 2 3", b"\xef\xbb\xbfv 1 2 3", b"\xe9 1 2 3",
    b"\x00", b"f 1 2 3 # trailing", b"f 1 2 #3", b"#", b"# f 9 9 9", b"\t", b"f 4294967297 1 1", b"f 18446744073709551615 18446744073709551615 18446744073709551615", b"f 1/1 1/1 1/1", b"f 1/ 1/ 1/", b"f 1// 1// 1//",
];

fn split_slots(tok: &[u8]) -> Vec<Vec<u8>> {
    tok.split(|&b| b == b'/').map(|p| p.to_vec()).collect()
}

fn apply_line_mut(lines: &mut Vec<Line>, m: &Mut) -> bool {
    let n = lines.len();
    match m {
        Mut::Index { line, tok, slot, val } => {
            let fl: Vec<usize> = (0..n).filter(|&i| lines[i].kind == 3).collect();
            if fl.is_empty() {
                return false;
            }
            let nv = lines.iter().filter(|l| l.kind == 0).count();
            let l = &mut lines[fl[sel(*line, fl.len())]];
            if l.toks.len() < 2 {
                return false;
            }
            let ti = 1 + *tok as usize % (l.toks.len() - 1);
            let mut parts = split_slots(&l.toks[ti]);
            let si = *slot as usize % 3;
            while parts.len() <= si {
                parts.push(vec![]);
            }
            let v = INDEX_VALUES[*val as usize % INDEX_VALUES.len()];
            parts[si] = match v {
                "N" => format!("{nv}"),
                "N+1" => format!("{}", nv + 1),
                "N+2" => format!("{}", nv + 2),
                s => s.to_string(),
            }
            .into_bytes();
            l.toks[ti] = parts.join(&b'/');
            true
        }
        Mut::DropAllV => {
            let before = lines.len();
            lines.retain(|l| l.kind != 0);
            lines.len() != before
        }
        Mut::DropV { keep } => {
            let nv = lines.iter().filter(|l| l.kind == 0).count();
            if nv == 0 {
                return false;
            }
            let keep = sel(*keep, nv);
            let mut seen = 0;
            lines.retain(|l| {
                if l.kind == 0 {
                    seen += 1;
                    seen <= keep
                } else {
                    true
                }
            });
            true
        }
        Mut::DropTok { line, tok } => {
            if n == 0 {
                return false;
            }
            let l = &mut lines[sel(*line, n)];
            if l.toks.is_empty() {
                return false;
            }
            let k = *tok as usize % l.toks.len();
            l.toks.remove(k);
            true
        }
        Mut::TruncLine { line, keep } => {
            if n == 0 {
                return false;
            }
            let l = &mut lines[sel(*line, n)];
            let k = *keep as usize % (l.toks.len() + 1);
            l.toks.truncate(k);
            true
        }
        Mut::ReplTok { line, tok, junk } => {
            if n == 0 {
                return false;
            }
            let l = &mut lines[sel(*line, n)];
            if l.toks.is_empty() {
                return false;
            }
            let k = *tok as usize % l.toks.len();
            l.toks[k] = JUNK_TOKENS[*junk as usize % JUNK_TOKENS.len()].to_vec();
            true
        }
        Mut::InsLine { at, which } => {
            let text = EXTRA_LINES[*which as usize % EXTRA_LINES.len()];
            lines.insert(sel(*at, n + 1), plain_line(4, vec![text.to_vec()]));
            true
        }
        Mut::DupLine { line, at } => {
            if n == 0 {
                return false;
            }
            let l = lines[sel(*line, n)].clone();
            lines.insert(sel(*at, n + 1), l);
            true
        }
        Mut::SwapLines { a, b } => {
            if n < 2 {
                return false;
            }
            lines.swap(sel(*a, n), sel(*b, n));
            true
        }
        Mut::DropLine { line } => {
            if n == 0 {
                return false;
            }
            lines.remove(sel(*line, n));
            true
        }
        _ => false,
    }
}

fn apply_byte_mut(data: &mut Vec<u8>, m: &Mut) -> bool {
    let n = data.len();
    match m {
        Mut::Trunc { at } => {
            data.truncate(sel(*at, n + 1));
            true
        }
        Mut::Flip { at, bit } if n > 0 => {
            data[sel(*at, n)] ^= 1 << (bit % 8);
            true
        }
        Mut::Set { at, val } if n > 0 => {
            data[sel(*at, n)] = *val;
            true
        }
        Mut::Ins { at, val } => {
            data.insert(sel(*at, n + 1), *val);
            true
        }
        Mut::Del { at, len } if n > 0 => {
            let a = sel(*at, n);
            let b = (a + 1 + *len as usize % 8).min(n);
            data.drain(a..b);
            true
        }
        Mut::JoinLines { at, with } => {
            let nl: Vec<usize> = (0..n).filter(|&i| data[i] == b'\n').collect();
            if nl.is_empty() {
                return false;
            }
            data[nl[sel(*at, nl.len())]] = [b' ', b'\r', 0x0c, 0x0b, b'#', b'/'][*with as usize % 6];
            true
        }
        _ => false,
    }
}

fn interesting_byte() -> impl Strategy<Value = u8> {
    prop_oneof![
        6 => prop::sample::select(&b"vftn #/\n\r\t 0123456789.-+eE"[..]),
        2 => 0x80u8..=0xff,
        1 => any::<u8>(),
    ]
}

fn mutation() -> impl Strategy<Value = Mut> {
    prop_oneof![
        8 => (any::<u16>(), 0u8..3, prop_oneof![3 => Just(0u8), 1 => Just(1u8), 1 => Just(2u8)], any::<u8>()).prop_map(|(line, tok, slot, val)| Mut::Index { line, tok, slot, val }),
        3 => Just(Mut::DropAllV),
        2 => any::<u16>().prop_map(|keep| Mut::DropV { keep }),
        2 => (any::<u16>(), 0u8..5).prop_map(|(line, tok)| Mut::DropTok { line, tok }),
        2 => (any::<u16>(), 0u8..5).prop_map(|(line, keep)| Mut::TruncLine { line, keep }),
        4 => (any::<u16>(), 0u8..5, any::<u8>()).prop_map(|(line, tok, junk)| Mut::ReplTok { line, tok, junk }),
        4 => (any::<u16>(), any::<u8>()).prop_map(|(at, which)| Mut::InsLine { at, which }),
        1 => (any::<u16>(), any::<u16>()).prop_map(|(line, at)| Mut::DupLine { line, at }),
        1 => (any::<u16>(), any::<u16>()).prop_map(|(a, b)| Mut::SwapLines { a, b }),
        1 => any::<u16>().prop_map(|line| Mut::DropLine { line }),
        2 => any::<u16>().prop_map(|at| Mut::Trunc { at }),
        2 => (any::<u16>(), 0u8..8).prop_map(|(at, bit)| Mut::Flip { at, bit }),
        2 => (any::<u16>(), interesting_byte()).prop_map(|(at, val)| Mut::Set { at, val }),
        2 => (any::<u16>(), interesting_byte()).prop_map(|(at, val)| Mut::Ins { at, val }),
        1 => (any::<u16>(), any::<u8>()).prop_map(|(at, len)| Mut::Del { at, len }),
        1 => (any::<u16>(), any::<u8>()).prop_map(|(at, with)| Mut::JoinLines { at, with }),
    ]
}

fn soup_token() -> impl Strategy<Value = Vec<u8>> {
    prop_oneof![
        10 => (0u32..5).prop_map(|i| i.to_string().into_bytes()),
        3 => (1u32..4, 0u32..4).prop_map(|(a, b)| format!("{a}/{b}").into_bytes()),
        2 => (1u32..4, 0u32..4).prop_map(|(a, b)| format!("{a}//{b}").into_bytes()),
        2 => (1u32..4, 0u32..4, 0u32..4).prop_map(|(a, b, c)| format!("{a}/{b}/{c}").into_bytes()),
        3 => (-30i32..30).prop_map(|i| format!("{}", i as f32 / 4.0).into_bytes()),
        2 => any::<u8>().prop_map(|k| INDEX_VALUES[k as usize % INDEX_VALUES.len()].replace("N+", "").replace('N', "2").into_bytes()),
        3 => any::<u8>().prop_map(|k| JUNK_TOKENS[k as usize % JUNK_TOKENS.len()].to_vec()),
    ]
}

const SOUP_ITEMS: &[&[u8]] = &[b"g", b"o", b"s", b"usemtl", b"vp", b"l", b"V", b"F", b"fv", b"v1", b"\xe9", b"f\x00", b"ff", b"vv"];

fn soup() -> impl Strategy<Value = Vec<u8>> {
    let item = prop_oneof![
        6 => Just(&b"f"[..]), 5 => Just(&b"v"[..]), 2 => Just(&b"vt"[..]), 2 => Just(&b"vn"[..]), 1 => Just(&b"#"[..]), 1 => Just(&b""[..]),
        1 => prop::sample::select(SOUP_ITEMS),
    ];
    let line = (item, pvec(soup_token(), 0..=5), 0u8..4).prop_map(|(item, toks, sep)| {
        let sep: &[u8] = [&b" "[..], b" ", b"\t", b"  "][sep as usize];
        let mut l = item.to_vec();
        for t in toks {
            l.extend_from_slice(sep);
            l.extend_from_slice(&t);
        }
        l
    });
    (pvec(line, 0..=10), prop_oneof![8 => Just(0u8), 2 => Just(1u8), 1 => Just(2u8)], any::<bool>()).prop_map(|(lines, eol, fin)| {
        let eol: &[u8] = [&b"\n"[..], b"\r\n", b"\r"][eol as usize];
        let mut out = vec![];
        let n = lines.len();
        for (i, l) in lines.into_iter().enumerate() {
            out.extend_from_slice(&l);
            if i + 1 < n || fin {
                out.extend_from_slice(eol);
            }
        }
        out
    })
}

pub fn mutated_case() -> BoxedStrategy<ByteCase> {
    let structured = (wf_case(6, 6, 0, 0), pvec(mutation(), 1..=3)).prop_map(|(c, muts)| {
        let r = c.render();
        let mut lines = r.lines;
        let mut names: Vec<&'static str> = vec![];
        for m in muts.iter().filter(|m| !m.is_byte_level()) {
            if apply_line_mut(&mut lines, m) {
                names.push(m.name());
            }
        }
        let mut data = serialise(&lines, c.crlf, c.final_eol);
        for m in muts.iter().filter(|m| m.is_byte_level()) {
            if apply_byte_mut(&mut data, m) {
                names.push(m.name());
            }
        }
        if names.is_empty() {
            names.push("gen:unmutated");
        }
        byte_case(&names.join("+"), &data)
    });
    prop_oneof![
        12 => structured,
        5 => soup().prop_map(|d| byte_case("gen:token-soup", &d)),
        2 => pvec(interesting_byte(), 0..200).prop_map(|d| byte_case("gen:biased-bytes", &d)),
        1 => pvec(any::<u8>(), 0..300).prop_map(|d| byte_case("gen:arbitrary-bytes", &d)),
    ]
    .boxed()
}

pub fn check_byte_case(c: &ByteCase, obs: &mut Obs) -> Check {
    let Some(data) = from_hex(&c.hex) else { fail!("bad-case", "hex field is not valid hex") };
    if !obs.frozen() {
        for k in c.kind.split('+') {
            obs.class(static_name(k));
        }
        obs.class(if data.is_ascii() { "bytes:all ASCII" } else { "bytes:has non-ASCII" });
    }
    check_bytes(&data, obs)
}

// =====================================================================================
// Seed corpus (unit-test literals of geom/src/io.rs)
// =====================================================================================

pub const TEST_LITERALS: &[&[u8]] = &[
    b"\n# comment\nf 1 2 4\n f 4 1 3\n#anothercomment\n    v 0.0 0.0       0.0\nv       1.0 0.0 0.0\n  # comment with leading whitespace\nv 0.0 -2.0 0.0\n        v 1 2 3",
    b"v -1.0e0 0.2e1  3.0e-2",
    b"\n            f 1/1/1 2/3/2 3/2/2\n            f 4/3/2 1/2/3 3/1/3\n\n            vn 1.0 0.0 0.0\n            vt 0.0 0.0 0.0\n            v 0.0 0.0 0.0\n            v 1.0 0.0 0.0\n            vn 1.0 0.0 0.0\n            v 0.0 2.0 0.0\n            vt 1.0 1.0 1.0\n            v 1.0 2.0 3.0\n            vt 0.0 -1.0 2.0\n            vn 1.0 0.0 0.0",
    b"\n            f 1//1 2//3 4//2\n            f 4//3 1//2 3//1\n\n            vn 1.0 0.0 0.0\n            v 0.0 0.0 0.0\n            v 1.0 0.0 0.0\n            v 0.0 2.0 0.0\n            vn 0.0 1.0 0.0\n            v 1.0 2.0 3.0\n            vn 0.0 0.0 -1.0",
    b"",
    b"   \n     \n\n ",
    b"# comment\n #another comment",
    b"f 1 2 3\nxyz 4 5 6",
    b"f 1 2 3\nv 0.0 0.0 0.0\nv 1.0 1.0 1.0",
    b"f 1/1 1/4 1/2\nv 0.0 0.0 0.0\nvt 0.0 0.0\nvt 0.0 1.0",
    b"f",
    b"v 1.23 9.87 -5.67\nv 1.23e3 9.87e-1 -5.67e002\nvn 0.7 0.1 -0.7\nvn 1.0 -1.0 0.5\nvt 0.12 0.56\nf 1 2 3\nf 1 2 3 4 5\nf 1/5/7 2/4/5 3/5/8\nf 1/5 2/4 3/5\nf 1//7 2//4 3//8\n",
    // F7 / F8 of DESIGN.md section 5
    b"f 0 1 2",
    b"f 1 2 3",
    b"v 0 0 0\nf 1/0 1/0 1/0\nvt 0 0\n",
];

fn fuzz_dir() -> PathBuf {
    PathBuf::from(VERIF_DIR).join("fuzz")
}

fn seed_corpus_files() -> Vec<PathBuf> {
    let dir = fuzz_dir().join("corpus").join("obj_parse");
    let mut files: Vec<PathBuf> = std::fs::read_dir(&dir).map(|d| d.filter_map(|e| e.ok()).map(|e| e.path()).filter(|p| p.is_file()).collect()).unwrap_or_default();
    files.sort();
    files
}

fn run_corpus(cx: &mut Ctx) {
    let t0 = Instant::now();
    let mut obs = Obs::new();
    let mut inputs: Vec<(&'static str, Vec<u8>)> = TEST_LITERALS.iter().map(|l| ("corpus:unit-test-literal", l.to_vec())).collect();
    for f in seed_corpus_files() {
        if let Ok(d) = std::fs::read(&f) {
            inputs.push(("corpus:seed-file", d));
        }
    }
    let known = cx.known.clone();
    let mut first: Option<(ByteCase, Fail)> = None;
    for (kind, data) in &inputs {
        obs.eval();
        let c = byte_case(kind, data);
        if let Err(f) = check_byte_case(&c, &mut obs) {
            if let Some(f) = Ctx::filter_known(&known, cx.prop, &mut obs, f) {
                if first.is_none() {
                    first = Some((c, f));
                }
            }
        }
    }
    if let Some((c, f)) = first {
        cx.violation("corpus", &c, &f);
    }
    cx.report("corpus", obs, false, t0.elapsed().as_secs_f64(), "unit-test literals + committed fuzz seed corpus");
}

// =====================================================================================
// libFuzzer: entry point compiled into fuzz/fuzz_targets/obj_parse.rs
// =====================================================================================

/// One libFuzzer execution: the oracle of sub-check `mutations`, panicking on a
/// violation (open known findings are tolerated by signature so a campaign does
/// not rediscover one crash forever).
pub fn fuzz_one(data: &[u8]) {
    use std::sync::OnceLock;
    static KNOWN: OnceLock<Findings> = OnceLock::new();
    let known = KNOWN.get_or_init(|| {
        // replaces libfuzzer-sys' abort-on-panic hook so that library panics can
        // be caught and classified; violations are made fatal again below
        install_silent_panic_hook();
        Findings::load()
    });
    let mut obs = Obs::new();
    obs.freeze();
    if let Err(f) = check_bytes(data, &mut obs) {
        if known.is_open("C14", &f.sig) {
            return;
        }
        std::panic::set_hook(Box::new(|info| {
            eprintln!("{info}");
            std::process::abort();
        }));
        panic!("C14 violation [{}]: {}", f.sig, f.msg);
    }
}

fn tail(s: &[u8], n: usize) -> String {
    let t = String::from_utf8_lossy(s);
    let lines: Vec<&str> = t.lines().filter(|l| !l.starts_with("WARNING conda")).collect();
    lines[lines.len().saturating_sub(n)..].join("\n")
}

fn cargo_fuzz(harness: &Path, args: &[&str]) -> Command {
    let mut c = Command::new("cargo");
    c.current_dir(harness)
        .arg("+nightly")
        .arg("fuzz")
        .args(args)
        .env("CARGO_NET_OFFLINE", "true")
        .env("RUST_BACKTRACE", "0")
        .env("CARGO_TERM_COLOR", "never")
        .env_remove("RUSTFLAGS")
        .env_remove("CARGO_TARGET_DIR");
    c
}

fn after<'a>(text: &'a str, key: &str) -> Option<&'a str> {
    text.rfind(key).map(|i| text[i + key.len()..].trim_start())
}

fn num_after(text: &str, key: &str) -> Option<u64> {
    let s = after(text, key)?;
    let d: String = s.chars().take_while(|c| c.is_ascii_digit()).collect();
    d.parse().ok()
}

/// Runs the libFuzzer campaign(s). Returns false when the campaign could not be
/// run (no nightly / cargo-fuzz / build failure): the caller falls back.
fn run_libfuzzer(cx: &mut Ctx, total_runs: u64, workers: u64) -> bool {
    let t0 = Instant::now();
    let harness = PathBuf::from(VERIF_DIR);
    let mut info = serde_json::Map::new();
    let unavailable = |cx: &mut Ctx, mut info: serde_json::Map<String, Value>, why: String| {
        eprintln!("[C14 thorough] libFuzzer campaign not run: {why}");
        info.insert("status".into(), json!("not-run"));
        info.insert("reason".into(), json!(why));
        cx.extra.insert("libfuzzer".into(), Value::Object(info));
        false
    };
    if !fuzz_dir().join("Cargo.toml").exists() || !fuzz_dir().join("fuzz_targets").join("obj_parse.rs").exists() {
        return unavailable(cx, info, format!("{} has no obj_parse target", fuzz_dir().display()));
    }
    match cargo_fuzz(&harness, &["--version"]).output() {
        Ok(o) if o.status.success() => {
            info.insert("cargo_fuzz".into(), json!(tail(&o.stdout, 1)));
        }
        Ok(o) => return unavailable(cx, info, format!("`cargo +nightly fuzz --version` failed: {}", tail(&o.stderr, 3))),
        Err(e) => return unavailable(cx, info, format!("cannot start cargo: {e}")),
    }
    let tb = Instant::now();
    match cargo_fuzz(&harness, &["build", "obj_parse"]).output() {
        Ok(o) if o.status.success() => {}
        Ok(o) => return unavailable(cx, info, format!("`cargo +nightly fuzz build obj_parse` failed: {}", tail(&o.stderr, 12))),
        Err(e) => return unavailable(cx, info, format!("cannot start cargo: {e}")),
    }
    info.insert("build_wall_s".into(), json!(r6(tb.elapsed().as_secs_f64())));

    // fresh working copies of the seed corpus, one per worker, under the harness directory
    let work = harness.join("target-fuzz-work").join(format!("C14-obj_parse-seed{}", cx.seed));
    let _ = std::fs::remove_dir_all(&work);
    let seeds = seed_corpus_files();
    let runs_each = (total_runs / workers.max(1)).max(1);
    let mut jobs = vec![];
    for w in 0..workers.max(1) {
        let corpus = work.join(format!("corpus-{w}"));
        let artifacts = work.join(format!("artifacts-{w}"));
        if std::fs::create_dir_all(&corpus).is_err() || std::fs::create_dir_all(&artifacts).is_err() {
            return unavailable(cx, info, format!("cannot create {}", work.display()));
        }
        for (i, l) in TEST_LITERALS.iter().enumerate() {
            let _ = std::fs::write(corpus.join(format!("literal-{i:02}.obj")), l);
        }
        for f in &seeds {
            if let Some(name) = f.file_name() {
                let _ = std::fs::copy(f, corpus.join(name));
            }
        }
        // libFuzzer's -seed is a 32-bit unsigned; 0 means "pick one from the clock"
        let fseed = derive_seed(cx.seed, "C14", "libfuzzer", w) % 0x7fff_fffe + 1;
        jobs.push((w, corpus, artifacts, fseed));
    }
    let results: Vec<(u64, u64, Result<std::process::Output, String>, PathBuf)> = std::thread::scope(|s| {
        let hs: Vec<_> = jobs
            .iter()
            .map(|(w, corpus, artifacts, fseed)| {
                let harness = harness.clone();
                s.spawn(move || {
                    let out = cargo_fuzz(
                        &harness,
                        &[
                            "run",
                            "obj_parse",
                            corpus.to_str().unwrap_or("."),
                            "--",
                            &format!("-runs={runs_each}"),
                            &format!("-seed={fseed}"),
                            "-len_control=0",
                            "-timeout=10",
                            "-print_final_stats=1",
                            &format!("-artifact_prefix={}/", artifacts.display()),
                        ],
                    )
                    .output()
                    .map_err(|e| e.to_string());
                    (*w, *fseed, out, artifacts.clone())
                })
            })
            .collect();
        hs.into_iter().map(|h| h.join().expect("fuzz worker thread")).collect()
    });

    let mut obs = Obs::new();
    let mut per_worker = vec![];
    let mut started = false;
    let mut inconclusive: Option<String> = None;
    for (w, fseed, out, artifacts) in results {
        let out = match out {
            Ok(o) => o,
            Err(e) => {
                per_worker.push(json!({"worker": w, "error": e}));
                continue;
            }
        };
        let log = String::from_utf8_lossy(&out.stderr).to_string();
        let execs = num_after(&log, "stat::number_of_executed_units:").unwrap_or(0);
        let status_line = log.lines().rev().find(|l| l.starts_with('#') && l.contains("cov:")).unwrap_or("").to_string();
        let cov = num_after(&status_line, "cov:");
        let ft = num_after(&status_line, "ft:");
        let corp = num_after(&status_line, "corp:");
        if execs > 0 {
            started = true;
        }
        obs.evals_n(execs);
        obs.class_n("libfuzzer executions", execs);
        let mut arts: Vec<PathBuf> = std::fs::read_dir(&artifacts).map(|d| d.filter_map(|e| e.ok()).map(|e| e.path()).collect()).unwrap_or_default();
        arts.sort();
        per_worker.push(json!({"worker": w, "seed": fseed, "runs_requested": runs_each, "executions": execs, "cov": cov, "features": ft, "corpus_units": corp,
            "exit_ok": out.status.success(), "artifacts": arts.iter().map(|a| a.file_name().map(|n| n.to_string_lossy().to_string())).collect::<Vec<_>>()}));
        for a in &arts {
            let name = a.file_name().map(|n| n.to_string_lossy().to_string()).unwrap_or_default();
            let Ok(data) = std::fs::read(a) else { continue };
            started = true;
            if name.starts_with("crash-") {
                let c = byte_case("libfuzzer-artifact", &data);
                let mut scratch = Obs::new();
                scratch.freeze();
                let f = match check_bytes(&data, &mut scratch) {
                    Err(f) => f,
                    Ok(()) => Fail::new(
                        "libfuzzer-crash-not-reproduced-in-process",
                        format!("the obj_parse fuzz target crashed on this input (artifact {name}) but the in-process oracle passes; fuzzer log tail:\n{}", tail(out.stderr.as_slice(), 12)),
                    ),
                };
                if let Some(f) = Ctx::filter_known(&cx.known.clone(), cx.prop, &mut obs, f) {
                    if cx.violations.iter().all(|v| v.sub != "libfuzzer") {
                        cx.violation("libfuzzer", &c, &f);
                    }
                }
            } else {
                // timeout-, oom-, leak-, slow-unit-: a resource verdict, not a semantic one
                inconclusive = Some(format!("libFuzzer wrote {name} ({} bytes): {}", data.len(), show(&data)));
            }
        }
        if !out.status.success() && arts.is_empty() && execs == 0 {
            per_worker.push(json!({"worker": w, "log_tail": tail(out.stderr.as_slice(), 8)}));
        }
    }
    info.insert("workers".into(), json!(per_worker));
    info.insert("flags".into(), json!("-len_control=0 -timeout=10 -print_final_stats=1, ASan build with debug assertions and overflow checks (cargo-fuzz defaults)"));
    if !started {
        return unavailable(cx, info, "the fuzz target built but no worker executed any input (see workers[].log_tail)".into());
    }
    // what the campaign kept: units of the final corpora (measured, for the non-triviality count)
    let mut kept = 0u64;
    for (_, corpus, _, _) in &jobs {
        for e in std::fs::read_dir(corpus).into_iter().flatten().filter_map(|e| e.ok()) {
            if let Ok(d) = std::fs::read(e.path()) {
                kept += 1;
                if has_valid_f_line(&d) {
                    obs.nontrivial(hash_of(&d));
                }
            }
        }
    }
    obs.class_n("units in the final corpora", kept);
    info.insert("status".into(), json!("ran"));
    info.insert("executions".into(), json!(obs.evals));
    cx.extra.insert("libfuzzer".into(), Value::Object(info));
    cx.report("libfuzzer", obs, false, t0.elapsed().as_secs_f64(), "cargo +nightly fuzz run obj_parse (oracle = fuzz_one)");
    let _ = std::fs::remove_dir_all(&work);
    if let Some(why) = inconclusive {
        eprintln!("INCONCLUSIVE: {why}");
        cx.write_evidence(RULE);
        std::process::exit(2);
    }
    true
}

// =====================================================================================
// Entry points
// =====================================================================================

pub fn run(cx: &mut Ctx) {
    cx.assume("well-formed = lines `v x y z`, `vt u v [w]`, `vn x y z`, `f a b c` with the four index forms of the module documentation, decimal numbers in plain or exponent notation (e/E, optional exponent sign and leading zeros, as in the module's own example `-5.67e002`); no leading '+' on numbers, no polygons with more than three indices, no negative (relative) indices");
    cx.assume("a carriage return before the line feed, and spaces/tabs after the last field, count as white space (the parser splits on ASCII white space; the documentation is silent), so CRLF files are generated as well-formed");
    cx.assume("comments may contain arbitrary bytes other than LF, including non-ASCII ones");
    cx.assume("texture-coordinate and normal values are parsed but not returned by the API (documented TODO), so only their acceptance is checked");
    cx.assume("for arbitrary bytes only totality is asserted (no panic; Ok implies valid face indices and a successful build()); which malformed inputs are rejected, and with which error, is recorded in the histogram but not asserted");

    cx.extra.insert("build".into(), json!({"debug_assertions_and_overflow_checks": cfg!(debug_assertions)}));
    let only = std::env::var("RFVERIF_C14_ONLY").ok().filter(|s| !s.trim().is_empty());
    if let Some(o) = &only {
        cx.assume(&format!("PARTIAL RUN: RFVERIF_C14_ONLY={o} restricts this run to the named sub-checks"));
    }
    let enabled = |name: &str| only.as_ref().map_or(true, |o| o.split(',').any(|x| x.trim() == name));

    if enabled("corpus") {
        run_corpus(cx);
    }
    if enabled("wellformed") {
        let big = cx.tier == Tier::Thorough;
        let n = cx.n(60_000, 1_000_000);
        cx.prop_check("wellformed", n, move || if big { wf_case(40, 60, 400, 600) } else { wf_case(40, 60, 0, 0) }, |c, obs| check_wellformed(c, obs));
    }
    if enabled("mutations") {
        let n = cx.n(600_000, 5_000_000);
        cx.prop_check("mutations", n, mutated_case, |c, obs| check_byte_case(c, obs));
    }
    if cx.tier == Tier::Thorough {
        if enabled("libfuzzer") && !run_libfuzzer(cx, 5_000_000, 8) {
            cx.assume("libFuzzer campaign unavailable (see coverage.libfuzzer.reason): replaced by a second, independently seeded run of the structure-aware mutation generator");
            cx.prop_check("mutations-fallback", 10_000_000, mutated_case, |c, obs| check_byte_case(c, obs));
        }
        if enabled("nodebug") {
            run_nodebug_child(cx);
        }
    }
}

/// Thorough tier: the byte oracle once more in a build of the same sources with debug
/// assertions and overflow checks off (profile `nodebug` of the harness package), where
/// wrap-around replaces the overflow panic and may reach a later assertion instead.
/// Runs as a child process restricted to the corpus and mutations sub-checks.
fn run_nodebug_child(cx: &mut Ctx) {
    let t0 = Instant::now();
    let harness = PathBuf::from(VERIF_DIR);
    let mut info = serde_json::Map::new();
    let skip = |cx: &mut Ctx, mut info: serde_json::Map<String, Value>, why: String| {
        eprintln!("[C14 thorough] nodebug build not exercised: {why}");
        info.insert("status".into(), json!("not-run"));
        info.insert("reason".into(), json!(why));
        cx.extra.insert("nodebug_build".into(), Value::Object(info));
    };
    if !cfg!(debug_assertions) {
        return skip(cx, info, "this process is itself the build without debug assertions".into());
    }
    let build = Command::new("cargo")
        .current_dir(&harness)
        .args(["build", "--profile", "nodebug", "--offline"])
        .env("CARGO_NET_OFFLINE", "true")
        .env("CARGO_TERM_COLOR", "never")
        .output();
    match build {
        Ok(o) if o.status.success() => {}
        Ok(o) => return skip(cx, info, format!("`cargo build --profile nodebug` failed: {}", tail(&o.stderr, 10))),
        Err(e) => return skip(cx, info, format!("cannot start cargo: {e}")),
    }
    let target = std::env::var("CARGO_TARGET_DIR").map(PathBuf::from).unwrap_or_else(|_| harness.join("target"));
    let bin = target.join("nodebug").join("rfverif");
    let out = Command::new(&bin)
        .current_dir(&harness)
        .args(["C14", "thorough"])
        .env("RFVERIF_C14_ONLY", "corpus,mutations")
        .env("VERIF_SEED", format!("{}", cx.seed as i128))
        .env("RUST_BACKTRACE", "0")
        .output();
    let out = match out {
        Ok(o) => o,
        Err(e) => return skip(cx, info, format!("cannot start {}: {e}", bin.display())),
    };
    let stdout = String::from_utf8_lossy(&out.stdout).to_string();
    let stderr = String::from_utf8_lossy(&out.stderr).to_string();
    let mut obs = Obs::new();
    for l in stderr.lines() {
        if l.contains("] mutations") || l.contains("] corpus") {
            obs.evals_n(num_after(l, "evals=").unwrap_or(0));
        }
    }
    // same seed, same generator: the inputs equal those of `corpus` and `mutations`, so they are
    // not counted again as distinct non-trivial cases
    obs.class_n("evaluations in the build without debug assertions / overflow checks", obs.evals);
    info.insert("exit_code".into(), json!(out.status.code()));
    info.insert("evaluations".into(), json!(obs.evals));
    match out.status.code() {
        Some(0) => {
            info.insert("status".into(), json!("ran"));
        }
        Some(1) => {
            info.insert("status".into(), json!("violation"));
            let lines: Vec<&str> = stdout.lines().collect();
            for (i, l) in lines.iter().enumerate() {
                if let Some(path) = l.strip_prefix("VIOLATION property=C14 replay=") {
                    let detail = lines.get(i + 1).map(|d| d.trim()).unwrap_or("");
                    println!("{l}");
                    println!("  {detail} [observed in the build WITHOUT debug assertions and overflow checks: replay with harness/target/nodebug/rfverif --replay]");
                    cx.violations.push(Violation { sub: "nodebug".into(), msg: detail.to_string(), replay: PathBuf::from(path.trim()) });
                }
            }
        }
        _ => return skip(cx, info, format!("the child run was inconclusive: {}", tail(out.stderr.as_slice(), 6))),
    }
    cx.extra.insert("nodebug_build".into(), Value::Object(info));
    cx.report("nodebug", obs, false, t0.elapsed().as_secs_f64(), "child process, profile nodebug: corpus + mutations");
}

pub fn replay(sub: &str, case: &Value) -> Check {
    let mut obs = Obs::new();
    obs.freeze();
    match sub {
        "wellformed" => {
            let c: WfCase = serde_json::from_value(case.clone()).map_err(|e| Fail::new("bad-replay", e.to_string()))?;
            check_wellformed(&c, &mut obs)
        }
        "mutations" | "mutations-fallback" | "corpus" | "libfuzzer" => {
            let c: ByteCase = serde_json::from_value(case.clone()).map_err(|e| Fail::new("bad-replay", e.to_string()))?;
            check_byte_case(&c, &mut obs)
        }
        _ => Err(Fail::new("bad-replay", format!("unknown subcheck {sub}"))),
    }
}

#[cfg(test)]
mod tests {
    use super::*;

    /// Regenerates fuzz/corpus/obj_parse from the unit-test literals plus a few generated files:
    /// `cargo test --release --offline c14::tests::write_seed_corpus -- --ignored`
    #[test]
    #[ignore]
    fn write_seed_corpus() {
        use proptest::strategy::ValueTree;
        use proptest::test_runner::{Config, RngSeed, TestRunner};
        let dir = fuzz_dir().join("corpus").join("obj_parse");
        std::fs::create_dir_all(&dir).unwrap();
        for (i, l) in TEST_LITERALS.iter().enumerate() {
            std::fs::write(dir.join(format!("literal-{i:02}.obj")), l).unwrap();
        }
        let mut cfg = Config::default();
        cfg.rng_seed = RngSeed::Fixed(14);
        let mut runner = TestRunner::new(cfg);
        let strat = wf_case(8, 8, 0, 0);
        let mut k = 0;
        while k < 12 {
            let c = strat.new_tree(&mut runner).unwrap().current();
            let r = c.render();
            let data = serialise(&r.lines, c.crlf, c.final_eol);
            if r.faces.is_empty() || data.len() > 1200 {
                continue;
            }
            std::fs::write(dir.join(format!("generated-{k:02}.obj")), data).unwrap();
            k += 1;
        }
    }
}
