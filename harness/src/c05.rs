//! C05 — fragments carry correctly interpolated, finite depth and attributes.
//!
//! Triangles come from C04's class-mixture generator, extended with per-vertex
//! reciprocal depths and attributes of several Rust types. Attributes are
//! handed to tri_fill pre-multiplied by the reciprocal depth, exactly as
//! render() does. Oracle: the f64 planes through the three (x, y) -> z and
//! (x, y) -> a*z values, evaluated at each fragment's pixel centre.

use crate::c04::{band_for, shape_class, tri_case, TriCase};
use crate::common::fl::*;
use crate::common::geo::*;
use crate::common::*;
use proptest::prelude::*;
use re::geom::vertex;
use re::math::color::{Color3f, Color4f};
use re::math::{pt2, pt3, rgb, rgba, vec2, vec3, Point2, Vary, Vec2, Vec3};
use re::render::raster::tri_fill;
use serde::{Deserialize, Serialize};
use serde_json::{json, Value};

pub const RULE: &str = "proptest: C04's triangle generator (shape and scale classes) x per-vertex reciprocal depth in [0.1,1] (equal / two-valued / arbitrary) \
x attribute type {f32, Vec2, Vec3, Point2, Color3f, Color4f, (f32,Vec2), (Vec3,(f32,Point2))} with values from {0, +-1, uniform, large offset}. \
Every fragment of every scanline is compared with the f64 plane oracle. Non-trivial = >= 3 fragments from a triangle with non-constant attribute and non-constant depth; distinct by case bit pattern.";

#[derive(Clone, Debug, Serialize, Deserialize)]
pub struct FragCase {
    pub tri: TriCase,
    /// reciprocal depth per vertex
    pub z: [X; 3],
    /// attribute type name
    pub ty: String,
    /// attribute components per vertex (first `ncomp(ty)` used)
    pub a: [[X; 6]; 3],
}

pub fn ncomp(ty: &str) -> usize {
    match ty {
        "f32" => 1,
        "Vec2" | "Point2" => 2,
        "Vec3" | "Color3f" | "(f32,Vec2)" => 3,
        "Color4f" => 4,
        "(Vec3,(f32,Point2))" => 6,
        _ => 0,
    }
}

fn attr_val() -> impl Strategy<Value = f32> {
    prop_oneof![
        1 => Just(0.0f32),
        1 => Just(1.0f32),
        1 => Just(-1.0f32),
        5 => -1.0f32..=1.0,
        1 => (-1.0f32..=1.0).prop_map(|v| 100.0 + v),
    ]
}

pub fn frag_case() -> BoxedStrategy<FragCase> {
    let zs = prop_oneof![
        2 => (0.1f32..=1.0).prop_map(|z| [z, z, z]),
        1 => Just([1.0f32, 1.0, 1.0]),
        2 => (0.1f32..=1.0, 0.1f32..=1.0, 0u8..3).prop_map(|(a, b, k)| { let mut z = [a, a, a]; z[k as usize] = b; z }),
        1 => Just([0.1f32, 1.0, 0.5]),
        5 => [0.1f32..=1.0, 0.1f32..=1.0, 0.1f32..=1.0],
    ];
    let ty = prop_oneof![
        4 => Just("f32"),
        2 => Just("Vec2"),
        2 => Just("Vec3"),
        1 => Just("Point2"),
        1 => Just("Color3f"),
        1 => Just("Color4f"),
        2 => Just("(f32,Vec2)"),
        1 => Just("(Vec3,(f32,Point2))"),
    ];
    let attrs = proptest::array::uniform3(proptest::array::uniform6(attr_val()));
    // the property bounds the RATIO of the depths (10:1), not their magnitude: far-away geometry has tiny reciprocal depths
    let zexp = prop_oneof![5 => Just(0i32), 1 => Just(-24i32), 1 => Just(-30i32), 3 => -40i32..=10];
    (tri_case(), zs, ty, attrs, any::<bool>(), zexp)
        .prop_map(|(tri, z, ty, mut a, constant, zexp)| {
            let k = 2f32.powi(zexp);
            let mut z = z.map(|v| v * k);
            if ty == "Color3f" || ty == "Color4f" {
                // ZDiv for colours is the identity (affine interpolation by design, DESIGN D-e):
                // exercised where both readings coincide, i.e. with equal depth at all vertices
                z = [z[0], z[0], z[0]];
            }
            if constant {
                a[1] = a[0];
                a[2] = a[0];
            }
            FragCase { tri, z: xs(z), ty: ty.to_string(), a: a.map(xs) }
        })
        .boxed()
}

/// Slivers a few ulps across whose geometry is exact by construction, so that the position of every fragment relative
/// to the triangle is known exactly and the 0.5 % bound applies undiluted (the general D-c widening divides the
/// stepping error of sloped edges by the local thickness and says nothing about them):
///   V: long edge exactly vertical, 1..3 ulps left of a pixel-centre column c (or on it), the third vertex 1..3 ulps
///      to the right, 17..60 rows tall  (x of the long edge is never stepped: x += 0)
///   H: base exactly horizontal, 0..3 ulps above/below a pixel-centre row r, the apex 1..3 ulps beyond the row centre,
///      17..60 px wide  (cy - y is an exact subtraction; the x gradient is moderate)
/// Coordinates c, r are below 8 so that ulps are 6e-8 .. 5e-7 px (the area still exceeds 1e-6 px^2).
pub fn exact_sliver_case() -> BoxedStrategy<FragCase> {
    let zs = prop_oneof![1 => Just([1.0f32, 1.0, 1.0]), 1 => Just([1.0f32, 0.5, 0.25]), 3 => [0.1f32..=1.0, 0.1f32..=1.0, 0.1f32..=1.0]];
    let ty = prop_oneof![3 => Just("f32"), 1 => Just("Vec2"), 1 => Just("(f32,Vec2)")];
    let attrs = proptest::array::uniform3(proptest::array::uniform6(attr_val()));
    ((0u32..8, 0i32..=3, 1i32..=3, 17.0f32..60.0, 0.0f32..1.0, screen_coord(8.0), any::<bool>(), 0u8..12), zs, ty, attrs)
        .prop_map(|((i, k, j, len, t, off, horizontal, perm), z, ty, a)| {
            // H only: the mirror image (base on/below the row centre line, apex above it) is exact as well
            let mirror = horizontal && perm >= 6;
            let perm = perm % 6;
            let c = i as f32 + 0.5;
            let sg = if mirror { -1 } else { 1 };
            let edge = nudge(c, -k * sg); // the exact long edge, k ulps before the centre line
            // the third vertex on the centre line or up to 2 ulps beyond it (never coinciding with the long edge)
            let m = if k == 0 && j == 1 { 1 } else { j - 1 };
            let apex = nudge(c, m * sg);
            let (a0, a1) = (off, off + len);
            let am = a0 + (a1 - a0) * t.clamp(0.05, 0.95);
            let v = if horizontal {
                // base on y = edge from x = a0 to a1, apex at y = apex: rows are centred on c
                [[a0, edge], [am, apex], [a1, edge]]
            } else {
                [[edge, a0], [apex, am], [edge, a1]]
            };
            let order = [[0, 1, 2], [0, 2, 1], [1, 0, 2], [1, 2, 0], [2, 0, 1], [2, 1, 0]][perm as usize];
            let v = order.map(|q| v[q]);
            let z = order.map(|q| z[q]);
            let a = order.map(|q| a[q]);
            FragCase { tri: TriCase { shape: "exact-sliver".into(), v: v.map(|p| [X(p[0]), X(p[1])]) }, z: xs(z), ty: ty.to_string(), a: a.map(xs) }
        })
        .boxed()
}

/// One fragment as observed: scanline y, index along the row, position and attribute components.
pub struct FragObs {
    pub y: usize,
    pub x: usize,
    pub pos: [f32; 3],
    pub comps: Vec<f32>,
}

trait Attr: Vary {
    fn make(c: &[f32]) -> Self;
    fn comps(&self) -> Vec<f32>;
}
impl Attr for f32 {
    fn make(c: &[f32]) -> Self {
        c[0]
    }
    fn comps(&self) -> Vec<f32> {
        vec![*self]
    }
}
impl Attr for Vec2 {
    fn make(c: &[f32]) -> Self {
        vec2(c[0], c[1])
    }
    fn comps(&self) -> Vec<f32> {
        self.0.to_vec()
    }
}
impl Attr for Vec3 {
    fn make(c: &[f32]) -> Self {
        vec3(c[0], c[1], c[2])
    }
    fn comps(&self) -> Vec<f32> {
        self.0.to_vec()
    }
}
impl Attr for Point2 {
    fn make(c: &[f32]) -> Self {
        pt2(c[0], c[1])
    }
    fn comps(&self) -> Vec<f32> {
        self.0.to_vec()
    }
}
impl Attr for Color3f {
    fn make(c: &[f32]) -> Self {
        rgb(c[0], c[1], c[2])
    }
    fn comps(&self) -> Vec<f32> {
        self.0.to_vec()
    }
}
impl Attr for Color4f {
    fn make(c: &[f32]) -> Self {
        rgba(c[0], c[1], c[2], c[3])
    }
    fn comps(&self) -> Vec<f32> {
        self.0.to_vec()
    }
}
impl<A: Attr, B: Attr> Attr for (A, B) {
    fn make(c: &[f32]) -> Self {
        let n = A::make(c).comps().len();
        (A::make(c), B::make(&c[n..]))
    }
    fn comps(&self) -> Vec<f32> {
        let mut v = self.0.comps();
        v.extend(self.1.comps());
        v
    }
}

fn run_typed<A: Attr>(c: &FragCase) -> Result<Vec<FragObs>, String> {
    let p = c.tri.pts();
    let is_color = c.ty == "Color3f" || c.ty == "Color4f";
    catch(|| {
        let mut out = vec![];
        // render() hands tri_fill `attrib.z_div(w)`; here z = 1/w is the given
        // quantity, so the pre-divided attribute is a * z, formed per component
        // in f32 (colours are not divided: their ZDiv is the identity)
        let verts = [0, 1, 2].map(|i| {
            let z = c.z[i].0;
            let comps: Vec<f32> = c.a[i].iter().map(|x| if is_color { x.0 } else { x.0 * z }).collect();
            vertex(pt3(p[i][0], p[i][1], z), A::make(&comps))
        });
        tri_fill(verts, |mut sl| {
            let y = sl.y;
            let x0 = sl.xs.start;
            for (i, f) in sl.fragments().enumerate() {
                if out.len() > 1 << 22 {
                    panic!("runaway rasterisation: more than 2^22 fragments for one triangle");
                }
                out.push(FragObs { y, x: x0 + i, pos: f.pos.0, comps: f.var.comps() });
            }
        });
        out
    })
}

pub fn fragments_of(c: &FragCase) -> Result<Vec<FragObs>, String> {
    match c.ty.as_str() {
        "f32" => run_typed::<f32>(c),
        "Vec2" => run_typed::<Vec2>(c),
        "Vec3" => run_typed::<Vec3>(c),
        "Point2" => run_typed::<Point2>(c),
        "Color3f" => run_typed::<Color3f>(c),
        "Color4f" => run_typed::<Color4f>(c),
        "(f32,Vec2)" => run_typed::<(f32, Vec2)>(c),
        "(Vec3,(f32,Point2))" => run_typed::<(Vec3, (f32, Point2))>(c),
        t => Err(format!("unknown attribute type {t}")),
    }
}

/// value of the plane through (t[i], v[i]) at p
fn plane_at(t: [P2; 3], v: [f64; 3], l: [f64; 3]) -> f64 {
    let _ = t;
    l[0] * v[0] + l[1] * v[1] + l[2] * v[2]
}

fn zratio_of(z: &[f64; 3]) -> f64 {
    let lo = z.iter().cloned().fold(f64::MAX, f64::min);
    if lo > 0.0 {
        z.iter().cloned().fold(f64::MIN, f64::max) / lo
    } else {
        f64::INFINITY
    }
}

pub fn check(c: &FragCase, obs: &mut Obs) -> Check {
    let t = c.tri.pts64();
    let n = ncomp(&c.ty);
    ensure!(n > 0, "bad-case", "unknown attribute type {}", c.ty);
    let frags = match fragments_of(c) {
        Ok(f) => f,
        Err(p) => fail!("tri_fill-panic", "tri_fill/fragments panicked on finite input: {p}"),
    };
    let z: [f64; 3] = c.z.map(|x| x.0 as f64);
    let is_color = c.ty == "Color3f" || c.ty == "Color4f";
    // pre-divided attribute values exactly as handed to tri_fill (f32 products)
    let az: Vec<[f64; 3]> = (0..n)
        .map(|k| [0, 1, 2].map(|i| if is_color { c.a[i][k].0 as f64 } else { (c.a[i][k].0 * c.z[i].0) as f64 }))
        .collect();
    let a: Vec<[f64; 3]> = (0..n).map(|k| [0, 1, 2].map(|i| c.a[i][k].0 as f64)).collect();
    let area2 = orient2(t[0], t[1], t[2]).abs();
    let alt = min_altitude(t);
    let maxc = t.iter().flatten().fold(0.0f64, |a, &b| a.max(b));
    let zr = z.iter().cloned().fold(f64::MIN, f64::max) - z.iter().cloned().fold(f64::MAX, f64::min);
    let zmag = z.iter().cloned().fold(0.0, f64::max);
    // DESIGN D-c (revised after the F1 fix made slivers accurate): the 0.5 % bound is asserted at full strength for
    // well-shaped triangles (smallest altitude >= 1 px, coordinates <= 128 px). Elsewhere the stepped edges place a
    // fragment only to within pos_err(S) px, i.e. to within pos_err/altitude of the way across the triangle, and the
    // perspective gradient can be up to z-ratio times the average one: that relative error is added. When it
    // exceeds the whole range the interpolation clause says nothing (finiteness only).
    // exact slivers (see exact_sliver_case): validated below, then asserted at full strength
    let exact_sliver = c.tri.shape == "exact-sliver" && {
        let p = c.tri.pts();
        let vertical = (0..3).any(|i| p[i][0] == p[(i + 1) % 3][0] && p[(i + 2) % 3][0] > p[i][0] && (p[i][1] - p[(i + 1) % 3][1]).abs() >= 17.0);
        let horizontal = (0..3).any(|i| p[i][1] == p[(i + 1) % 3][1] && p[(i + 2) % 3][1] != p[i][1] && (p[i][0] - p[(i + 1) % 3][0]).abs() >= 17.0);
        (vertical || horizontal) && maxc <= 128.0 && zratio_of(&z) <= 10.0
    };
    let well_shaped = (alt >= 1.0 && maxc <= 128.0) || exact_sliver;
    let zmin = z.iter().cloned().fold(f64::MAX, f64::min);
    let zratio = if zmin > 0.0 { z.iter().cloned().fold(f64::MIN, f64::max) / zmin } else { 1.0 };
    let pos_err = (6.7e-8 * maxc * maxc).max(5e-7 * maxc.max(1.0));
    let steep = if well_shaped { 0.0 } else { 2.0 * pos_err * zratio / alt.max(1e-12) };
    let factor = 1.0;
    let finite_only = steep > 1.0;
    let check_finite = area2 * 0.5 > 1e-6;
    let pos_tol = band_for(maxc).max(1e-3);
    // f32 rounding floor for (nearly) constant fields, where 0.5 % of the range is ~0: the
    // values are accumulated over up to S additions per row/column
    let round_floor = 2e-4 * (maxc / 128.0).max(1.0);
    let mut varying_attr = false;
    for k in 0..n {
        if a[k][0] != a[k][1] || a[k][1] != a[k][2] {
            varying_attr = true;
        }
    }
    for f in &frags {
        let centre = [f.x as f64 + 0.5, f.y as f64 + 0.5];
        if check_finite {
            ensure!(f.pos.iter().all(|v| v.is_finite()), "nan-fragment", "fragment at pixel ({},{}) has non-finite position/depth {:?}", f.x, f.y, f.pos);
            ensure!(f.comps.iter().all(|v| v.is_finite()), "nan-fragment", "fragment at pixel ({},{}) has non-finite attribute {:?}", f.x, f.y, f.comps);
        }
        if !f.pos.iter().all(|v| v.is_finite()) || !f.comps.iter().all(|v| v.is_finite()) {
            continue;
        }
        let ex = (f.pos[0] as f64 - centre[0]).abs();
        let ey = (f.pos[1] as f64 - centre[1]).abs();
        if !finite_only {
            obs.max("fragment-centre-offset-px / tolerance", ex.max(ey) / (pos_tol * factor));
            ensure!(
                ex <= pos_tol * factor && ey <= pos_tol * factor,
                "fragment-not-at-centre",
                "fragment for pixel ({},{}) sits at ({}, {}), {:.5} px from the pixel centre",
                f.x,
                f.y,
                f.pos[0],
                f.pos[1],
                ex.max(ey)
            );
        }
        if finite_only {
            continue;
        }
        let Some(l) = bary(t, centre) else { continue };
        if exact_sliver && l.iter().any(|&b| b < 0.0) {
            // the fill rule admitted a centre that lies outside the exact triangle (by less than an ulp): the plane is
            // extrapolated there by many times the vertex range and the perspective division is ill-conditioned
            obs.class_n("exact-sliver:fragments outside the exact triangle (finite-only)", 1);
            continue;
        }
        // local thickness of the triangle through this pixel centre (along the row and along the column): towards a thin
        // triangle's apex it goes to zero, and with it the accuracy of "where across the triangle" the fragment lies
        let steep = if well_shaped {
            0.0
        } else {
            let extent = |axis: usize| -> f64 {
                let o = 1 - axis;
                let mut v: Vec<f64> = vec![];
                for k in 0..3 {
                    let (p, q) = (t[k], t[(k + 1) % 3]);
                    if (p[o] - centre[o]) * (q[o] - centre[o]) <= 0.0 && p[o] != q[o] {
                        v.push(p[axis] + (q[axis] - p[axis]) * (centre[o] - p[o]) / (q[o] - p[o]));
                    }
                }
                if v.len() < 2 {
                    return 0.0;
                }
                v.iter().cloned().fold(f64::MIN, f64::max) - v.iter().cloned().fold(f64::MAX, f64::min)
            };
            let thick = extent(0).min(extent(1));
            let local = if thick > 0.0 { 2.0 * pos_err * zratio / thick } else { f64::INFINITY };
            steep.max(local)
        };
        if steep > 1.0 {
            obs.class_n("fragments-near-an-apex(finite-only)", 1);
            continue;
        }
        let pz = plane_at(t, z, l);
        // the plane value at a centre a hair outside a sliver is extrapolated far beyond the vertex range: f32 carries
        // it to a relative, not an absolute, accuracy
        let ztol = (0.005 * zr + round_floor * zmag.max(pz.abs())) * factor + steep * zr;
        let ez = (f.pos[2] as f64 - pz).abs();
        obs.max(if well_shaped { "depth-error/tolerance (well-shaped)" } else { "depth-error/tolerance (thin or large)" }, ez / ztol);
        ensure!(ez <= ztol, "depth-interpolation", "pixel ({},{}) depth {} but the plane through the vertex depths gives {:.7} (tolerance {:.2e})", f.x, f.y, f.pos[2], pz, ztol);
        for k in 0..n {
            let paz = plane_at(t, az[k], l);
            let expect = if is_color { paz } else { paz / pz };
            let lo = a[k].iter().cloned().fold(f64::MAX, f64::min);
            let hi = a[k].iter().cloned().fold(f64::MIN, f64::max);
            let mag = lo.abs().max(hi.abs()).max(expect.abs());
            let tol = (0.005 * (hi - lo) + round_floor * mag + 1e-7) * factor + steep * (hi - lo);
            let e = (f.comps[k] as f64 - expect).abs();
            obs.max(if well_shaped { "attribute-error/tolerance (well-shaped)" } else { "attribute-error/tolerance (thin or large)" }, e / tol);
            if well_shaped && hi - lo > 0.01 * mag {
                obs.max("attribute-error/vertex-range (well-shaped, range > 1 % of magnitude; bound 0.005)", e / (hi - lo));
            }
            ensure!(
                e <= tol,
                "attribute-interpolation",
                "pixel ({},{}) component {k} of {} is {} but perspective-correct interpolation gives {:.7} (tolerance {:.2e}, vertex values {:?})",
                f.x,
                f.y,
                c.ty,
                f.comps[k],
                expect,
                tol,
                a[k]
            );
        }
    }
    obs.class(if c.tri.shape == "exact-sliver" { "shape:exact-sliver(1..6 ulps across)" } else { shape_class(&c.tri.shape) });
    if exact_sliver {
        obs.class_n("exact-sliver:fragments", frags.len() as u64);
    }
    obs.class(match c.ty.as_str() {
        "f32" => "attr:f32",
        "Vec2" => "attr:Vec2",
        "Vec3" => "attr:Vec3",
        "Point2" => "attr:Point2",
        "Color3f" => "attr:Color3f",
        "Color4f" => "attr:Color4f",
        "(f32,Vec2)" => "attr:(f32,Vec2)",
        _ => "attr:(Vec3,(f32,Point2))",
    });
    obs.class(if finite_only {
        "domain:finite-only(position error exceeds the triangle's width)"
    } else if well_shaped {
        "domain:strict-0.5%"
    } else {
        "domain:scaled-tolerance"
    });
    if zmag < 1e-6 {
        obs.class("depth-magnitude:tiny(<1e-6)");
    }
    if zr > 0.0 {
        let ratio = z.iter().cloned().fold(f64::MIN, f64::max) / z.iter().cloned().fold(f64::MAX, f64::min);
        obs.class(if ratio > 5.0 { "w-ratio>5" } else if ratio > 2.0 { "w-ratio 2..5" } else { "w-ratio<2" });
    } else {
        obs.class("w-equal");
    }
    if frags.len() >= 3 && varying_attr && zr > 0.0 {
        obs.nontrivial(hash_of(&(&c.tri.v, &c.z, &c.a, &c.ty)));
        if obs.wants_sample() {
            let cc = c.clone();
            let nf = frags.len();
            obs.sample(|| json!({"case": cc, "fragments": nf}));
        }
    }
    obs.class_n("fragments-checked", frags.len() as u64);
    Ok(())
}

// ------------------------------------------------------------------ scan() as an Iterator

/// `scan` returns an `Iterator` of scanlines. However a caller advances it (`next`, `nth`, `skip`, `step_by`, `last`),
/// scanline number i is the same scanline: same row, same span, same fragments (positions, depths, attributes).
#[derive(Clone, Debug, Serialize, Deserialize)]
pub struct ScanCase {
    pub y: [X; 2],
    /// left and right end points at y0 and y1: (x, z, a)
    pub l: [[X; 3]; 2],
    pub r: [[X; 3]; 2],
    /// 0 skip(k), 1 step_by(k+1), 2 repeated nth(k), 3 last
    pub mode: u8,
    pub k: u8,
}

fn scan_case() -> BoxedStrategy<ScanCase> {
    let end = || (screen_coord(24.0), 0.1f32..=1.0, -1.0f32..=1.0);
    (screen_coord(24.0), 0.5f32..24.0, [end(), end()], [end(), end()], 0u8..4, 0u8..6, any::<bool>())
        .prop_map(|(y0, h, l, r, mode, k, apex)| {
            let fix = |a: (f32, f32, f32), b: (f32, f32, f32)| if a.0 <= b.0 { (a, b) } else { (b, a) };
            let (l0, r0) = fix(l[0], r[0]);
            let (l1, r1) = fix(l[1], r[1]);
            // an apex on top (l0 == r0), as tri_fill's upper half, half of the time
            let r0 = if apex { l0 } else { r0 };
            let t = |p: (f32, f32, f32)| xs([p.0, p.1, p.2]);
            ScanCase { y: xs([y0, y0 + h]), l: [t(l0), t(l1)], r: [t(r0), t(r1)], mode, k }
        })
        .boxed()
}

type Row = (usize, usize, usize, Vec<[u32; 4]>);

fn check_scan(c: &ScanCase, obs: &mut Obs) -> Check {
    use re::render::raster::{scan, Scanline, ScreenPt};
    let v = |p: [X; 3], y: X| -> (ScreenPt, f32) { (pt3(p[0].0, y.0, p[1].0), p[2].0 * p[1].0) };
    let (l0, l1, r0, r1) = (v(c.l[0], c.y[0]), v(c.l[1], c.y[1]), v(c.r[0], c.y[0]), v(c.r[1], c.y[1]));
    ensure!(c.y[0].0 < c.y[1].0 && c.y[1].0 <= 64.0 && c.mode < 4, "bad-case", "row range");
    let plain = |mut sl: Scanline<f32>| -> Row {
        let (y, a, b) = (sl.y, sl.xs.start, sl.xs.end);
        let fr: Vec<[u32; 4]> = sl.fragments().take(4096).map(|f| [f.pos.x().to_bits(), f.pos.y().to_bits(), f.pos.z().to_bits(), f.var.to_bits()]).collect();
        (y, a, b, fr)
    };
    let mk = || scan(c.y[0].0..c.y[1].0, &l0..&l1, &r0..&r1);
    let all: Vec<Row> = match catch(|| mk().take(4096).map(plain).collect()) {
        Ok(r) => r,
        Err(p) => fail!("scan-panic", "scan(..) panicked while iterating: {p}"),
    };
    let k = c.k as usize;
    let (got, want): (Vec<Row>, Vec<Row>) = match c.mode {
        0 => (catch(|| mk().skip(k).take(4096).map(plain).collect()).map_err(|p| Fail::new("scan-panic", p))?, all.iter().skip(k).cloned().collect()),
        1 => (catch(|| mk().step_by(k + 1).take(4096).map(plain).collect()).map_err(|p| Fail::new("scan-panic", p))?, all.iter().step_by(k + 1).cloned().collect()),
        2 => {
            let g = catch(|| {
                let mut it = mk();
                let mut v = vec![];
                while let Some(sl) = it.nth(k) {
                    v.push(plain(sl));
                    if v.len() > 4096 {
                        break;
                    }
                }
                v
            })
            .map_err(|p| Fail::new("scan-panic", p))?;
            (g, all.iter().skip(k).step_by(k + 1).cloned().collect())
        }
        _ => (catch(|| mk().last().map(plain).into_iter().collect()).map_err(|p| Fail::new("scan-panic", p))?, all.last().cloned().into_iter().collect()),
    };
    let how = ["skip(k)", "step_by(k+1)", "repeated nth(k)", "last()"][c.mode as usize];
    ensure!(got.len() == want.len(), "scan-iterator-inconsistent", "{how} with k = {k} yields {} scanlines, plain iteration gives {} of {}", got.len(), want.len(), all.len());
    for (i, (g, w)) in got.iter().zip(&want).enumerate() {
        ensure!(
            g == w,
            "scan-iterator-inconsistent",
            "{how} with k = {k}: scanline {i} is row {} span {}..{} ({} fragments, first {:?}); the same scanline reached by next() is row {} span {}..{} ({} fragments, first {:?})",
            g.0, g.1, g.2, g.3.len(), g.3.first().map(|f| f.map(f32::from_bits)),
            w.0, w.1, w.2, w.3.len(), w.3.first().map(|f| f.map(f32::from_bits))
        );
    }
    // the varyings' own stepping iterator (`Vary::vary`): same contract, and exactly n items when a count is given
    {
        let (v0, st) = ((c.l[0][0].0, (c.l[0][1].0, c.l[0][2].0)), (c.r[0][0].0 * 0.125, (c.r[0][1].0 * 0.125, c.r[0][2].0)));
        let n = 3 + 5 * c.k as u32;
        let bits = |v: (f32, (f32, f32))| [v.0.to_bits(), v.1 .0.to_bits(), v.1 .1.to_bits()];
        let all: Vec<[u32; 3]> = v0.vary(st, Some(n)).map(bits).collect();
        ensure!(all.len() == n as usize, "vary-iterator-inconsistent", "vary(step, Some({n})) yields {} items", all.len());
        let got: Vec<[u32; 3]> = match c.mode {
            0 => v0.vary(st, Some(n)).skip(k).map(bits).collect(),
            1 => v0.vary(st, Some(n)).step_by(k + 1).map(bits).collect(),
            2 => {
                let mut it = v0.vary(st, Some(n));
                let mut v = vec![];
                while let Some(x) = it.nth(k) {
                    v.push(bits(x));
                }
                v
            }
            _ => v0.vary(st, Some(n)).last().map(bits).into_iter().collect(),
        };
        let want: Vec<[u32; 3]> = match c.mode {
            0 => all.iter().skip(k).cloned().collect(),
            1 => all.iter().step_by(k + 1).cloned().collect(),
            2 => all.iter().skip(k).step_by(k + 1).cloned().collect(),
            _ => all.last().cloned().into_iter().collect(),
        };
        ensure!(got == want, "vary-iterator-inconsistent", "(f32,(f32,f32))::vary(.., Some({n})) advanced by {how} with k = {k} differs from plain iteration: {} vs {} items", got.len(), want.len());
        // unbounded: the first n items are the same
        let inf: Vec<[u32; 3]> = v0.vary(st, None).take(n as usize).map(bits).collect();
        ensure!(inf == all, "vary-iterator-inconsistent", "vary(step, None).take({n}) differs from vary(step, Some({n}))");
    }
    obs.class(["scan:skip", "scan:step_by", "scan:nth", "scan:last"][c.mode as usize]);
    if all.len() >= 2 && k >= 1 {
        obs.nontrivial(hash_of(&(c.y, c.l, c.r, c.mode, c.k)));
    }
    Ok(())
}

pub fn run(cx: &mut Ctx) {
    cx.assume("coordinates are finite and non-negative (DESIGN D-b); reciprocal depths in [0.1, 1] (w ratio <= 10:1)");
    cx.assume("0.5 % of the per-component vertex range (+ a rounding floor of 2e-4 of the magnitude) is asserted for triangles with smallest altitude >= 1 px and coordinates <= 128 px; thinner or larger triangles add 2*pos_err(S)*z-ratio/altitude of the range, pos_err(S) = max(6.7e-8 S^2, 5e-7 S) px; where that exceeds the range only finiteness is asserted (DESIGN D-c)");
    cx.assume("colour attributes are interpolated affinely by design (ZDiv identity); they are generated with equal depth at the three vertices (DESIGN D-e)");
    let n = cx.n(300_000, 10_000_000);
    cx.prop_check("fragments", n, frag_case, |c, obs| check(c, obs));
    cx.assume("exact slivers (long edge exactly vertical / base exactly horizontal within 3 ulps of a pixel-centre line, 1..5 ulps across, 17..60 px long, coordinates < 70): the edge the fragments are measured from is never stepped, so the 0.5 % bound is asserted without the D-c widening");
    let n = cx.n(40_000, 1_000_000);
    cx.prop_check("exact-slivers", n, exact_sliver_case, |c, obs| check(c, obs));
    let n = cx.n(60_000, 1_500_000);
    cx.prop_check("scan-iterator", n, scan_case, |c, obs| check_scan(c, obs));
}

pub fn replay(sub: &str, case: &Value) -> Check {
    let mut obs = Obs::new();
    obs.freeze();
    match sub {
        "scan-iterator" => {
            let c: ScanCase = serde_json::from_value(case.clone()).map_err(|e| Fail::new("bad-replay", e.to_string()))?;
            check_scan(&c, &mut obs)
        }
        "fragments" | "exact-slivers" => {
            let c: FragCase = serde_json::from_value(case.clone()).map_err(|e| Fail::new("bad-replay", e.to_string()))?;
            check(&c, &mut obs)
        }
        _ => Err(Fail::new("bad-replay", format!("unknown subcheck {sub}"))),
    }
}
