//! f64 reference geometry used by the oracles. Nothing here calls into the
//! code under test.

pub type P2 = [f64; 2];

/// Twice the signed area of (a, b, c): > 0 when c is to the left of a->b in a
/// y-up frame (equivalently clockwise on a y-down screen).
pub fn orient2(a: P2, b: P2, c: P2) -> f64 {
    (b[0] - a[0]) * (c[1] - a[1]) - (b[1] - a[1]) * (c[0] - a[0])
}

pub fn dist2(a: P2, b: P2) -> f64 {
    ((a[0] - b[0]).powi(2) + (a[1] - b[1]).powi(2)).sqrt()
}

/// Signed distance of p from the line a->b, positive on the side where
/// orient2(a, b, p) > 0. For a zero-length edge returns the distance to a.
pub fn line_dist(a: P2, b: P2, p: P2) -> f64 {
    let l = dist2(a, b);
    if l == 0.0 {
        return dist2(a, p);
    }
    orient2(a, b, p) / l
}

/// Distance from p to the segment ab.
pub fn seg_dist(a: P2, b: P2, p: P2) -> f64 {
    let d = [b[0] - a[0], b[1] - a[1]];
    let l2 = d[0] * d[0] + d[1] * d[1];
    if l2 == 0.0 {
        return dist2(a, p);
    }
    let t = (((p[0] - a[0]) * d[0] + (p[1] - a[1]) * d[1]) / l2).clamp(0.0, 1.0);
    dist2([a[0] + t * d[0], a[1] + t * d[1]], p)
}

/// Signed "insideness" of p with respect to triangle t: the minimum over the
/// three edges of the signed distance to the edge line, oriented so positive
/// means inside. For points outside it is <= 0 (a lower bound on -distance).
/// Degenerate (zero-area) triangles return -distance to the nearest edge.
pub fn tri_inside_margin(t: [P2; 3], p: P2) -> f64 {
    let area2 = orient2(t[0], t[1], t[2]);
    if area2 == 0.0 {
        let d = seg_dist(t[0], t[1], p).min(seg_dist(t[1], t[2], p)).min(seg_dist(t[2], t[0], p));
        return -d;
    }
    let s = area2.signum();
    let mut m = f64::INFINITY;
    for i in 0..3 {
        let a = t[i];
        let b = t[(i + 1) % 3];
        m = m.min(s * line_dist(a, b, p));
    }
    m
}

/// Distance from p to the boundary of the triangle (>= 0).
pub fn tri_edge_dist(t: [P2; 3], p: P2) -> f64 {
    seg_dist(t[0], t[1], p).min(seg_dist(t[1], t[2], p)).min(seg_dist(t[2], t[0], p))
}

/// Barycentric coordinates of p in triangle t (None if degenerate).
pub fn bary(t: [P2; 3], p: P2) -> Option<[f64; 3]> {
    let a = orient2(t[0], t[1], t[2]);
    if a == 0.0 {
        return None;
    }
    let l0 = orient2(t[1], t[2], p) / a;
    let l1 = orient2(t[2], t[0], p) / a;
    Some([l0, l1, 1.0 - l0 - l1])
}

/// Smallest altitude of a triangle (0 for degenerate).
pub fn min_altitude(t: [P2; 3]) -> f64 {
    let a2 = orient2(t[0], t[1], t[2]).abs();
    let l = dist2(t[0], t[1]).max(dist2(t[1], t[2])).max(dist2(t[2], t[0]));
    if l == 0.0 {
        0.0
    } else {
        a2 / l
    }
}

/// Solve a 3x3 linear system by Cramer's rule; None if |det| is tiny relative
/// to the matrix scale.
pub fn solve3(m: [[f64; 3]; 3], b: [f64; 3]) -> Option<[f64; 3]> {
    let det = det3(m);
    let scale: f64 = m.iter().flatten().fold(0.0f64, |a, &x| a.max(x.abs()));
    if det.abs() <= 1e-14 * scale * scale * scale || det == 0.0 {
        return None;
    }
    let mut r = [0.0; 3];
    for c in 0..3 {
        let mut mc = m;
        for row in 0..3 {
            mc[row][c] = b[row];
        }
        r[c] = det3(mc) / det;
    }
    Some(r)
}

pub fn det3(m: [[f64; 3]; 3]) -> f64 {
    m[0][0] * (m[1][1] * m[2][2] - m[1][2] * m[2][1]) - m[0][1] * (m[1][0] * m[2][2] - m[1][2] * m[2][0])
        + m[0][2] * (m[1][0] * m[2][1] - m[1][1] * m[2][0])
}

pub type M4 = [[f64; 4]; 4];

pub fn m4_ident() -> M4 {
    let mut m = [[0.0; 4]; 4];
    for i in 0..4 {
        m[i][i] = 1.0;
    }
    m
}

pub fn m4_mul(a: &M4, b: &M4) -> M4 {
    let mut r = [[0.0; 4]; 4];
    for i in 0..4 {
        for j in 0..4 {
            r[i][j] = (0..4).map(|k| a[i][k] * b[k][j]).sum();
        }
    }
    r
}

pub fn m4_apply(a: &M4, v: [f64; 4]) -> [f64; 4] {
    let mut r = [0.0; 4];
    for i in 0..4 {
        r[i] = (0..4).map(|k| a[i][k] * v[k]).sum();
    }
    r
}

pub fn m4_det(m: &M4) -> f64 {
    let mut d = 0.0;
    for c in 0..4 {
        let mut sub = [[0.0; 3]; 3];
        for i in 1..4 {
            let mut cc = 0;
            for j in 0..4 {
                if j == c {
                    continue;
                }
                sub[i - 1][cc] = m[i][j];
                cc += 1;
            }
        }
        let s = if c % 2 == 0 { 1.0 } else { -1.0 };
        d += s * m[0][c] * det3(sub);
    }
    d
}

/// Inverse by Gauss-Jordan with full partial pivoting in f64.
pub fn m4_inv(m: &M4) -> Option<M4> {
    let mut a = *m;
    let mut inv = m4_ident();
    for c in 0..4 {
        let mut p = c;
        for r in c + 1..4 {
            if a[r][c].abs() > a[p][c].abs() {
                p = r;
            }
        }
        if a[p][c] == 0.0 {
            return None;
        }
        a.swap(c, p);
        inv.swap(c, p);
        let d = a[c][c];
        for j in 0..4 {
            a[c][j] /= d;
            inv[c][j] /= d;
        }
        for r in 0..4 {
            if r != c {
                let f = a[r][c];
                for j in 0..4 {
                    a[r][j] -= f * a[c][j];
                    inv[r][j] -= f * inv[c][j];
                }
            }
        }
    }
    Some(inv)
}

pub fn m4_norm(m: &M4) -> f64 {
    m.iter().flatten().map(|x| x * x).sum::<f64>().sqrt()
}

pub fn m4_from_f32(m: &[[f32; 4]; 4]) -> M4 {
    let mut r = [[0.0; 4]; 4];
    for i in 0..4 {
        for j in 0..4 {
            r[i][j] = m[i][j] as f64;
        }
    }
    r
}

pub fn v3_cross(a: [f64; 3], b: [f64; 3]) -> [f64; 3] {
    [a[1] * b[2] - a[2] * b[1], a[2] * b[0] - a[0] * b[2], a[0] * b[1] - a[1] * b[0]]
}
pub fn v3_dot(a: [f64; 3], b: [f64; 3]) -> f64 {
    a[0] * b[0] + a[1] * b[1] + a[2] * b[2]
}
pub fn v3_sub(a: [f64; 3], b: [f64; 3]) -> [f64; 3] {
    [a[0] - b[0], a[1] - b[1], a[2] - b[2]]
}
pub fn v3_add(a: [f64; 3], b: [f64; 3]) -> [f64; 3] {
    [a[0] + b[0], a[1] + b[1], a[2] + b[2]]
}
pub fn v3_scale(a: [f64; 3], s: f64) -> [f64; 3] {
    [a[0] * s, a[1] * s, a[2] * s]
}
pub fn v3_len(a: [f64; 3]) -> f64 {
    v3_dot(a, a).sqrt()
}
pub fn v3_norm(a: [f64; 3]) -> [f64; 3] {
    let l = v3_len(a);
    v3_scale(a, 1.0 / l)
}
pub fn f3(a: [f32; 3]) -> [f64; 3] {
    [a[0] as f64, a[1] as f64, a[2] as f64]
}
