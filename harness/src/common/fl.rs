//! Float helpers: a replay-exact serialisable f32 newtype and class-mixture
//! strategies (values are drawn from classes that sit where the code's
//! branches live, not from one uniform range).

use proptest::prelude::*;
use serde::de::{self, Visitor};
use serde::{Deserialize, Deserializer, Serialize, Serializer};
use std::fmt;

/// f32 that serialises to JSON losslessly (number when that round-trips,
/// otherwise a "bits:0x…" string; NaN and infinities always as strings).
#[derive(Copy, Clone, PartialEq, PartialOrd, Default)]
pub struct X(pub f32);

impl fmt::Debug for X {
    fn fmt(&self, f: &mut fmt::Formatter<'_>) -> fmt::Result {
        write!(f, "{:?}", self.0)
    }
}
impl From<f32> for X {
    fn from(v: f32) -> X {
        X(v)
    }
}
impl std::hash::Hash for X {
    fn hash<H: std::hash::Hasher>(&self, h: &mut H) {
        self.0.to_bits().hash(h)
    }
}

impl Serialize for X {
    fn serialize<S: Serializer>(&self, s: S) -> Result<S::Ok, S::Error> {
        let v = self.0;
        if v.is_finite() {
            let txt = format!("{v:?}");
            let back = txt.parse::<f64>().map(|d| d as f32).unwrap_or(f32::NAN);
            if back.to_bits() == v.to_bits() {
                return s.serialize_f32(v);
            }
        }
        s.serialize_str(&format!("bits:0x{:08x}", v.to_bits()))
    }
}

impl<'de> Deserialize<'de> for X {
    fn deserialize<D: Deserializer<'de>>(d: D) -> Result<X, D::Error> {
        struct V;
        impl<'de> Visitor<'de> for V {
            type Value = X;
            fn expecting(&self, f: &mut fmt::Formatter) -> fmt::Result {
                f.write_str("a number or a bits:0x… string")
            }
            fn visit_f64<E: de::Error>(self, v: f64) -> Result<X, E> {
                Ok(X(v as f32))
            }
            fn visit_i64<E: de::Error>(self, v: i64) -> Result<X, E> {
                Ok(X(v as f32))
            }
            fn visit_u64<E: de::Error>(self, v: u64) -> Result<X, E> {
                Ok(X(v as f32))
            }
            fn visit_str<E: de::Error>(self, v: &str) -> Result<X, E> {
                if let Some(h) = v.strip_prefix("bits:0x") {
                    u32::from_str_radix(h, 16).map(|b| X(f32::from_bits(b))).map_err(E::custom)
                } else {
                    v.parse::<f32>().map(X).map_err(E::custom)
                }
            }
        }
        d.deserialize_any(V)
    }
}

pub fn xs<const N: usize>(a: [f32; N]) -> [X; N] {
    a.map(X)
}
pub fn fs<const N: usize>(a: [X; N]) -> [f32; N] {
    a.map(|x| x.0)
}

pub fn ulp_up(x: f32) -> f32 {
    if x.is_nan() || x == f32::INFINITY {
        return x;
    }
    if x == 0.0 {
        return f32::from_bits(1);
    }
    let b = x.to_bits();
    if x > 0.0 {
        f32::from_bits(b + 1)
    } else {
        f32::from_bits(b - 1)
    }
}
pub fn ulp_down(x: f32) -> f32 {
    -ulp_up(-x)
}

/// Nudge by k ulps (k may be negative).
pub fn nudge(mut x: f32, k: i32) -> f32 {
    for _ in 0..k.abs() {
        x = if k > 0 { ulp_up(x) } else { ulp_down(x) };
    }
    x
}

/// Screen-coordinate mixture in [0, s]: integers, half-integers (pixel
/// centres), dyadic k/16, near-integer/near-half offsets and uniform values.
pub fn screen_coord(s: f32) -> BoxedStrategy<f32> {
    let si = s as i32;
    prop_oneof![
        3 => (0..=si).prop_map(|i| i as f32),
        3 => (0..si.max(1)).prop_map(|i| i as f32 + 0.5),
        2 => (0..=si * 16).prop_map(|i| i as f32 / 16.0),
        1 => ((0..=si * 2), -3i32..=3).prop_map(|(i, k)| nudge(i as f32 * 0.5, k).max(0.0)),
        1 => ((0..=si * 2), prop_oneof![Just(1e-6f32), Just(-1e-6), Just(1e-4), Just(-1e-4), Just(1e-3), Just(-1e-3)])
            .prop_map(move |(i, d)| (i as f32 * 0.5 + d).clamp(0.0, s)),
        6 => (0.0f32..=s),
        // negative zero, and the sliver of negative coordinates that still rounds to pixel 0 (callers clip to the
        // viewport, and f32 rounding there can leave a coordinate a hair below zero)
        1 => Just(-0.0f32),
        1 => prop_oneof![Just(-1e-7f32), Just(-1e-3f32), -0.49f32..0.0],
    ]
    .boxed()
}

/// log-uniform magnitude 10^U(lo, hi)
pub fn log_uniform(lo: f32, hi: f32) -> impl Strategy<Value = f32> + Clone {
    (lo..hi).prop_map(|e| 10f32.powf(e))
}

/// either sign of a strategy
pub fn signed(s: impl Strategy<Value = f32> + Clone) -> impl Strategy<Value = f32> + Clone {
    (s, any::<bool>()).prop_map(|(v, n)| if n { -v } else { v })
}

/// monotone index selection that shrinks towards index 0
pub fn pick_index(raw: u16, len: usize) -> usize {
    ((raw as usize) * len) >> 16
}
