//! Shared machinery: tiers, seeds, observation/evidence, the proptest driver,
//! exhaustive-enumeration driver, replay files, known findings, panic capture.

pub mod fl;
pub mod geo;

use proptest::strategy::Strategy;
use proptest::test_runner::{Config, RngSeed, TestCaseError, TestError, TestRunner};
use rayon::prelude::*;
use serde::Serialize;
use serde_json::{json, Value};
use std::cell::RefCell;
use std::collections::{BTreeMap, HashSet};
use std::fmt::Debug;
use std::hash::{Hash, Hasher};
use std::path::PathBuf;
use std::time::Instant;

pub const VERIF_DIR: &str = env!("CARGO_MANIFEST_DIR");

/// The configuration of retrofire-core this binary was built against ("std", or a twin build: "libm" / "mm").
pub const BUILD_CONFIG: &str = if cfg!(feature = "cfg-std") {
    "std"
} else if cfg!(feature = "twin-libm") {
    "libm"
} else if cfg!(feature = "twin-mm") {
    "mm"
} else {
    "none"
};

/// Twin builds (harness compiled against another feature configuration of the repository) and the properties whose
/// checks run in them as well. libm is as accurate as std, so every check that compiles there must pass unchanged;
/// micromath's documented approximation error (C20's business) exceeds the tolerances of the checks that depend on
/// trigonometry, square roots or normalisation, so only the checks that are independent of those run under mm.
pub const TWINS: [(&str, &[&str]); 2] = [
    ("libm", &["C01", "C02", "C03", "C04", "C05", "C06", "C07", "C08", "C09", "C11", "C12", "C15", "C16", "C17", "C18", "C19"]),
    ("mm", &["C01", "C02", "C03", "C04", "C05", "C06", "C07", "C11", "C12", "C16", "C17"]),
];

pub fn twin_target_dir(cfg: &str) -> PathBuf {
    PathBuf::from(VERIF_DIR).join(format!("target-{cfg}"))
}

/// Builds the harness against configuration `cfg` (own target directory). Err = build failed.
pub fn build_twin(cfg: &str) -> Result<PathBuf, String> {
    let td = twin_target_dir(cfg);
    if let Ok(h) = std::env::var("RFVERIF_REPO_HASH") {
        let f = td.join(".repo_hash");
        if let Ok(old) = std::fs::read_to_string(&f) {
            if old.trim() != h.trim() {
                let _ = std::process::Command::new("cargo")
                    .args(["clean", "--release", "--manifest-path"])
                    .arg(PathBuf::from(VERIF_DIR).join("Cargo.toml"))
                    .arg("--target-dir")
                    .arg(&td)
                    .args(["-p", "retrofire-core", "-p", "retrofire-geom"])
                    .output();
            }
        }
    }
    let out = std::process::Command::new("cargo")
        .args(["build", "--release", "--no-default-features", "--features"])
        .arg(format!("twin-{cfg}"))
        .arg("--manifest-path")
        .arg(PathBuf::from(VERIF_DIR).join("Cargo.toml"))
        .arg("--target-dir")
        .arg(&td)
        .env("CARGO_NET_OFFLINE", "true")
        .current_dir(verif_root())
        .output()
        .map_err(|e| format!("cannot run cargo: {e}"))?;
    if !out.status.success() {
        let err = String::from_utf8_lossy(&out.stderr);
        let tail: Vec<&str> = err.lines().filter(|l| !l.starts_with("WARNING conda")).rev().take(25).collect();
        return Err(tail.into_iter().rev().collect::<Vec<_>>().join("\n"));
    }
    if let Ok(h) = std::env::var("RFVERIF_REPO_HASH") {
        let _ = std::fs::write(td.join(".repo_hash"), h);
    }
    Ok(td.join("release").join("rfverif"))
}

pub fn verif_root() -> PathBuf {
    // harness/ lives directly under the verif root
    let p = PathBuf::from(VERIF_DIR);
    p.parent().unwrap().to_path_buf()
}

#[derive(Copy, Clone, Debug, PartialEq, Eq)]
pub enum Tier {
    Quick,
    Thorough,
}

impl Tier {
    pub fn pick<T>(self, q: T, t: T) -> T {
        match self {
            Tier::Quick => q,
            Tier::Thorough => t,
        }
    }
    pub fn name(self) -> &'static str {
        self.pick("quick", "thorough")
    }
}

// ---------------------------------------------------------------- hashing / seeds

pub fn splitmix(mut x: u64) -> u64 {
    x = x.wrapping_add(0x9E3779B97F4A7C15);
    let mut z = x;
    z = (z ^ (z >> 30)).wrapping_mul(0xBF58476D1CE4E5B9);
    z = (z ^ (z >> 27)).wrapping_mul(0x94D049BB133111EB);
    z ^ (z >> 31)
}

pub fn fnv(s: &str) -> u64 {
    let mut h = 0xcbf29ce484222325u64;
    for b in s.bytes() {
        h ^= b as u64;
        h = h.wrapping_mul(0x100000001b3);
    }
    h
}

pub fn derive_seed(seed: u64, prop: &str, sub: &str, chunk: u64) -> u64 {
    splitmix(splitmix(seed ^ fnv(prop)) ^ fnv(sub).rotate_left(17) ^ chunk.wrapping_mul(0x2545F4914F6CDD1D))
}

/// Deterministic (fixed-key SipHash) hash of anything hashable.
pub fn hash_of<T: Hash>(t: &T) -> u64 {
    #[allow(deprecated)]
    let mut h = std::hash::SipHasher::new_with_keys(0x1234, 0x5678);
    t.hash(&mut h);
    h.finish()
}

pub fn hash_f32s(v: &[f32]) -> u64 {
    let bits: Vec<u32> = v.iter().map(|f| f.to_bits()).collect();
    hash_of(&bits)
}

/// Tiny deterministic PRNG for *enumerators'* auxiliary choices (sampling which
/// enumerated cases become evidence samples) and for the handful of generators
/// that are plain functions of an index. Never seeded from the clock.
#[derive(Clone)]
pub struct Sm(pub u64);
impl Sm {
    pub fn next(&mut self) -> u64 {
        self.0 = self.0.wrapping_add(0x9E3779B97F4A7C15);
        let mut z = self.0;
        z = (z ^ (z >> 30)).wrapping_mul(0xBF58476D1CE4E5B9);
        z = (z ^ (z >> 27)).wrapping_mul(0x94D049BB133111EB);
        z ^ (z >> 31)
    }
    pub fn below(&mut self, n: u64) -> u64 {
        ((self.next() >> 11) as u128 * n as u128 >> 53) as u64
    }
    pub fn unit(&mut self) -> f64 {
        (self.next() >> 11) as f64 / (1u64 << 53) as f64
    }
    pub fn range(&mut self, lo: f64, hi: f64) -> f64 {
        lo + (hi - lo) * self.unit()
    }
}

// ---------------------------------------------------------------- panic capture

thread_local! {
    static LAST_PANIC: RefCell<Option<String>> = RefCell::new(None);
    static CATCH_DEPTH: std::cell::Cell<u32> = std::cell::Cell::new(0);
}

pub fn install_silent_panic_hook() {
    std::panic::set_hook(Box::new(|info| {
        let msg = if let Some(s) = info.payload().downcast_ref::<&str>() {
            s.to_string()
        } else if let Some(s) = info.payload().downcast_ref::<String>() {
            s.clone()
        } else {
            "<non-string panic>".to_string()
        };
        let loc = info
            .location()
            .map(|l| format!("{}:{}", l.file(), l.line()))
            .unwrap_or_default();
        // a panic outside any catch() is a harness (usually generator) bug: say so
        if CATCH_DEPTH.with(|d| d.get()) == 0 {
            eprintln!("HARNESS-PANIC (outside a guarded call): {msg} @ {loc}");
        }
        LAST_PANIC.with(|p| *p.borrow_mut() = Some(format!("{msg} @ {loc}")));
    }));
}

/// Runs `f`, returning Err(panic message + location) if it panics.
pub fn catch<R>(f: impl FnOnce() -> R) -> Result<R, String> {
    LAST_PANIC.with(|p| *p.borrow_mut() = None);
    CATCH_DEPTH.with(|d| d.set(d.get() + 1));
    let r = std::panic::catch_unwind(std::panic::AssertUnwindSafe(f));
    CATCH_DEPTH.with(|d| d.set(d.get().saturating_sub(1)));
    match r {
        Ok(r) => Ok(r),
        Err(_) => Err(LAST_PANIC
            .with(|p| p.borrow_mut().take())
            .unwrap_or_else(|| "<panic>".into())),
    }
}

// ---------------------------------------------------------------- failures

/// A property failure on one case. `sig` is a short stable signature of the
/// failing condition (used to match open known findings); `msg` is for humans.
#[derive(Clone, Debug)]
pub struct Fail {
    pub sig: String,
    pub msg: String,
}

impl Fail {
    pub fn new(sig: impl Into<String>, msg: impl Into<String>) -> Self {
        Fail { sig: sig.into(), msg: msg.into() }
    }
}

pub type Check = Result<(), Fail>;

#[macro_export]
macro_rules! fail {
    ($sig:expr, $($arg:tt)*) => {
        return Err($crate::common::Fail::new($sig, format!($($arg)*)))
    };
}

#[macro_export]
macro_rules! ensure {
    ($cond:expr, $sig:expr, $($arg:tt)*) => {
        if !($cond) {
            return Err($crate::common::Fail::new($sig, format!($($arg)*)));
        }
    };
}

// ---------------------------------------------------------------- observation

/// What a sub-check saw: counts, classes, non-trivial distinct cases, samples.
#[derive(Default, Clone)]
pub struct Obs {
    pub evals: u64,
    pub classes: BTreeMap<&'static str, u64>,
    pub nontrivial: HashSet<u64>,
    /// non-trivial cases counted by an enumerator that visits each case once
    pub nontrivial_enum: u64,
    pub samples: Vec<Value>,
    pub excluded_domain: BTreeMap<&'static str, u64>,
    pub excluded_known: BTreeMap<String, u64>,
    pub maxima: BTreeMap<&'static str, f64>,
    pub sample_cap: usize,
    frozen: bool,
}

impl Obs {
    pub fn new() -> Self {
        Obs { sample_cap: 3, ..Default::default() }
    }
    pub fn frozen(&self) -> bool {
        self.frozen
    }
    /// a throw-away, frozen Obs (for re-using a predicate without recording anything)
    pub fn frozen_scratch() -> Obs {
        let mut o = Obs::new();
        o.freeze();
        o
    }
    pub fn freeze(&mut self) {
        self.frozen = true;
    }
    #[inline]
    pub fn eval(&mut self) {
        if !self.frozen {
            self.evals += 1;
        }
    }
    #[inline]
    pub fn evals_n(&mut self, n: u64) {
        if !self.frozen {
            self.evals += n;
        }
    }
    #[inline]
    pub fn class(&mut self, k: &'static str) {
        if !self.frozen {
            *self.classes.entry(k).or_insert(0) += 1;
        }
    }
    #[inline]
    pub fn class_n(&mut self, k: &'static str, n: u64) {
        if !self.frozen && n > 0 {
            *self.classes.entry(k).or_insert(0) += n;
        }
    }
    #[inline]
    pub fn nontrivial(&mut self, h: u64) {
        if !self.frozen {
            self.nontrivial.insert(h);
        }
    }
    #[inline]
    pub fn nontrivial_enumerated(&mut self, n: u64) {
        if !self.frozen {
            self.nontrivial_enum += n;
        }
    }
    #[inline]
    pub fn excluded(&mut self, k: &'static str) {
        if !self.frozen {
            *self.excluded_domain.entry(k).or_insert(0) += 1;
        }
    }
    #[inline]
    pub fn max(&mut self, k: &'static str, v: f64) {
        if !self.frozen && v.is_finite() {
            let e = self.maxima.entry(k).or_insert(0.0);
            if v > *e {
                *e = v;
            }
        }
    }
    pub fn sample(&mut self, f: impl FnOnce() -> Value) {
        if !self.frozen && self.samples.len() < self.sample_cap {
            self.samples.push(f());
        }
    }
    pub fn wants_sample(&self) -> bool {
        !self.frozen && self.samples.len() < self.sample_cap
    }
    pub fn merge(&mut self, o: Obs) {
        self.evals += o.evals;
        for (k, v) in o.classes {
            *self.classes.entry(k).or_insert(0) += v;
        }
        self.nontrivial.extend(o.nontrivial);
        self.nontrivial_enum += o.nontrivial_enum;
        for s in o.samples {
            if self.samples.len() < self.sample_cap.max(3) {
                self.samples.push(s);
            }
        }
        for (k, v) in o.excluded_domain {
            *self.excluded_domain.entry(k).or_insert(0) += v;
        }
        for (k, v) in o.excluded_known {
            *self.excluded_known.entry(k).or_insert(0) += v;
        }
        for (k, v) in o.maxima {
            let e = self.maxima.entry(k).or_insert(0.0);
            if v > *e {
                *e = v;
            }
        }
    }
    pub fn distinct_nontrivial(&self) -> u64 {
        self.nontrivial.len() as u64 + self.nontrivial_enum
    }
}

// ---------------------------------------------------------------- known findings

#[derive(Clone, Debug, Default)]
pub struct Findings {
    /// (property, signature, description) of every *open* finding
    pub open: Vec<(String, String, String)>,
}

impl Findings {
    pub fn load() -> Self {
        let p = verif_root().join("known_findings.json");
        let mut f = Findings::default();
        if let Ok(s) = std::fs::read_to_string(&p) {
            if let Ok(v) = serde_json::from_str::<Value>(&s) {
                if let Some(a) = v.get("open").and_then(|a| a.as_array()) {
                    for e in a {
                        f.open.push((
                            e["property"].as_str().unwrap_or("").to_string(),
                            e["signature"].as_str().unwrap_or("").to_string(),
                            e["what"].as_str().unwrap_or("").to_string(),
                        ));
                    }
                }
            }
        }
        f
    }
    pub fn is_open(&self, prop: &str, sig: &str) -> bool {
        self.open.iter().any(|(p, s, _)| p == prop && s == sig)
    }
}

// ---------------------------------------------------------------- context

pub struct Violation {
    pub sub: String,
    pub msg: String,
    pub replay: PathBuf,
}

pub struct SubReport {
    pub name: String,
    pub obs: Obs,
    pub exhaustive: bool,
    pub wall_s: f64,
    pub note: String,
}

pub struct Ctx {
    pub prop: &'static str,
    pub tier: Tier,
    pub seed: u64,
    pub subs: Vec<SubReport>,
    pub violations: Vec<Violation>,
    pub known: Findings,
    pub known_seen: BTreeMap<String, u64>,
    pub assumptions: Vec<String>,
    pub extra: BTreeMap<String, Value>,
    pub start: Instant,
    /// when replaying, print details
    pub verbose: bool,
}

impl Ctx {
    pub fn new(prop: &'static str, tier: Tier, seed: u64) -> Self {
        Ctx {
            prop,
            tier,
            seed,
            subs: vec![],
            violations: vec![],
            known: Findings::load(),
            known_seen: BTreeMap::new(),
            assumptions: vec![],
            extra: BTreeMap::new(),
            start: Instant::now(),
            verbose: false,
        }
    }

    pub fn n(&self, q: u64, t: u64) -> u64 {
        self.tier.pick(q, t)
    }

    pub fn assume(&mut self, s: &str) {
        self.assumptions.push(s.to_string());
    }

    /// Record a violation: write the replay file, print the VIOLATION line.
    pub fn violation<T: Serialize>(&mut self, sub: &str, case: &T, fail: &Fail) {
        let case_v = serde_json::to_value(case).unwrap_or(Value::Null);
        let body = json!({
            "property": self.prop,
            "subcheck": sub,
            "signature": fail.sig,
            "message": fail.msg,
            "seed": self.seed,
            "tier": self.tier.name(),
            "build": BUILD_CONFIG,
            "case": case_v,
        });
        let text = serde_json::to_string_pretty(&body).unwrap();
        let dir = verif_root().join("replays").join(self.prop);
        let _ = std::fs::create_dir_all(&dir);
        let name = format!("{}-{:016x}.json", sub, hash_of(&text));
        let path = dir.join(name);
        let _ = std::fs::write(&path, text);
        println!("VIOLATION property={} replay={}", self.prop, path.display());
        println!("  subcheck={} signature={} :: {}", sub, fail.sig, fail.msg);
        self.violations.push(Violation { sub: sub.to_string(), msg: fail.msg.clone(), replay: path });
    }

    pub fn report(&mut self, name: &str, obs: Obs, exhaustive: bool, wall_s: f64, note: &str) {
        for (k, v) in &obs.excluded_known {
            *self.known_seen.entry(k.clone()).or_insert(0) += v;
        }
        eprintln!(
            "[{} {}] {:<28} evals={:<10} nontrivial={:<9} {:.2}s{}{}",
            self.prop,
            self.tier.name(),
            name,
            obs.evals,
            obs.distinct_nontrivial(),
            wall_s,
            if exhaustive { " exhaustive" } else { "" },
            if note.is_empty() { String::new() } else { format!(" ({note})") }
        );
        self.subs.push(SubReport { name: name.to_string(), obs, exhaustive, wall_s, note: note.to_string() });
    }

    /// Filters a failure through the open known findings. Returns None if the
    /// failure is a listed finding (counted), Some(fail) otherwise.
    pub fn filter_known(known: &Findings, prop: &str, obs: &mut Obs, f: Fail) -> Option<Fail> {
        if known.is_open(prop, &f.sig) {
            if !obs.frozen {
                *obs.excluded_known.entry(f.sig.clone()).or_insert(0) += 1;
            }
            None
        } else {
            Some(f)
        }
    }

    // ------------------------------------------------------------ proptest driver

    /// Runs `cases` generated cases (split over parallel chunks, each an
    /// independent proptest TestRunner with a seed derived from VERIF_SEED,
    /// the property, the sub-check name and the chunk index). On failure the
    /// case is shrunk by proptest and written as a replay file.
    pub fn prop_check<T, S, MkS, F>(&mut self, sub: &str, cases: u64, mk_strategy: MkS, test: F)
    where
        T: Debug + Serialize + Send + Clone,
        S: Strategy<Value = T>,
        MkS: Fn() -> S + Sync,
        F: Fn(&T, &mut Obs) -> Check + Sync,
    {
        let t0 = Instant::now();
        let chunks: u64 = if cases >= 2048 { 32 } else if cases >= 64 { 4 } else { 1 };
        let known = self.known.clone();
        let prop = self.prop;
        let seed = self.seed;
        // chunks above the lowest failing chunk stop early (the lowest failing
        // chunk itself always completes, so the reported case is deterministic)
        let min_failed = std::sync::atomic::AtomicU64::new(u64::MAX);
        let results: Vec<(Obs, Option<(T, Fail)>)> = (0..chunks)
            .into_par_iter()
            .map(|c| {
                let n = cases / chunks + if c < cases % chunks { 1 } else { 0 };
                let mut cfg = Config::default();
                cfg.cases = n as u32;
                cfg.rng_seed = RngSeed::Fixed(derive_seed(seed, prop, sub, c));
                cfg.failure_persistence = None;
                cfg.max_shrink_iters = 3000;
                cfg.max_global_rejects = 1 << 20;
                cfg.verbose = 0;
                let mut runner = TestRunner::new(cfg);
                let obs = RefCell::new(Obs::new());
                let last_fail: RefCell<Option<Fail>> = RefCell::new(None);
                let strat = mk_strategy();
                let r = std::panic::catch_unwind(std::panic::AssertUnwindSafe(|| runner.run(&strat, |v| {
                    if min_failed.load(std::sync::atomic::Ordering::Relaxed) < c {
                        return Ok(());
                    }
                    let mut o = obs.borrow_mut();
                    o.eval();
                    let res = catch(|| test(&v, &mut o));
                    let res = match res {
                        Ok(r) => r,
                        Err(p) => Err(Fail::new("harness-or-library-panic", format!("unexpected panic: {p}"))),
                    };
                    match res {
                        Ok(()) => Ok(()),
                        Err(f) => match Ctx::filter_known(&known, prop, &mut o, f) {
                            None => Ok(()),
                            Some(f) => {
                                o.freeze();
                                min_failed.fetch_min(c, std::sync::atomic::Ordering::Relaxed);
                                let m = f.msg.clone();
                                *last_fail.borrow_mut() = Some(f);
                                Err(TestCaseError::fail(m))
                            }
                        },
                    }
                })));
                let r = match r {
                    Ok(r) => r,
                    Err(_) => {
                        eprintln!("HARNESS-ERROR {prop}/{sub}: the case generator panicked (see HARNESS-PANIC above); inconclusive");
                        std::process::exit(2);
                    }
                };
                let obs = obs.into_inner();
                match r {
                    Ok(()) => (obs, None),
                    Err(TestError::Fail(_, v)) => {
                        // re-run the predicate on the shrunk value for an accurate message
                        let mut scratch = Obs::new();
                        scratch.freeze();
                        let f = match catch(|| test(&v, &mut scratch)) {
                            Ok(Err(f)) => f,
                            Ok(Ok(())) => last_fail.into_inner().unwrap_or(Fail::new("unstable", "shrunk case passes on re-run")),
                            Err(p) => Fail::new("harness-or-library-panic", format!("unexpected panic: {p}")),
                        };
                        (obs, Some((v, f)))
                    }
                    Err(TestError::Abort(why)) => {
                        eprintln!("HARNESS-ERROR {prop}/{sub}: generator aborted: {why}");
                        std::process::exit(2);
                    }
                }
            })
            .collect();
        let mut obs = Obs::new();
        obs.sample_cap = 6;
        let mut first: Option<(T, Fail)> = None;
        for (o, f) in results {
            obs.merge(o);
            if first.is_none() {
                first = f;
            }
        }
        if let Some((v, f)) = first {
            self.violation(sub, &v, &f);
        }
        self.report(sub, obs, false, t0.elapsed().as_secs_f64(), "proptest");
    }

    // ------------------------------------------------------------ enumeration driver

    /// Runs `test` for every index in 0..total, in parallel blocks. `test`
    /// decodes the index into a case. The smallest failing index wins.
    /// `exhaustive` says whether 0..total is a complete finite space.
    pub fn enum_check<C, F>(&mut self, sub: &str, total: u64, exhaustive: bool, test: F)
    where
        C: Serialize + Send,
        F: Fn(u64, &mut Obs) -> Result<(), (C, Fail)> + Sync,
    {
        let t0 = Instant::now();
        let blocks: u64 = total.min(512).max(1);
        let known = self.known.clone();
        let prop = self.prop;
        let results: Vec<(Obs, Option<(u64, C, Fail)>)> = (0..blocks)
            .into_par_iter()
            .map(|b| {
                let lo = total * b / blocks;
                let hi = total * (b + 1) / blocks;
                let mut obs = Obs::new();
                obs.sample_cap = 1;
                for i in lo..hi {
                    obs.eval();
                    let r = match catch(|| test(i, &mut obs)) {
                        Ok(r) => r,
                        Err(p) => {
                            eprintln!("HARNESS-ERROR {prop}/{sub}: unexpected panic at index {i}: {p}");
                            std::process::exit(2);
                        }
                    };
                    if let Err((c, f)) = r {
                        if let Some(f) = Ctx::filter_known(&known, prop, &mut obs, f) {
                            return (obs, Some((i, c, f)));
                        }
                    }
                }
                (obs, None)
            })
            .collect();
        let mut obs = Obs::new();
        obs.sample_cap = 6;
        let mut first: Option<(u64, C, Fail)> = None;
        for (o, f) in results {
            obs.merge(o);
            if let Some(f) = f {
                if first.as_ref().map_or(true, |g| f.0 < g.0) {
                    first = Some(f);
                }
            }
        }
        if let Some((_, c, f)) = first {
            self.violation(sub, &c, &f);
        }
        self.report(sub, obs, exhaustive, t0.elapsed().as_secs_f64(), if exhaustive { "enumeration" } else { "indexed generator" });
    }

    // ------------------------------------------------------------ evidence

    pub fn write_evidence(&self, rule: &str) {
        let mut total = Obs::new();
        total.sample_cap = 24;
        let mut per_sub = serde_json::Map::new();
        let mut exhaustive_subs = vec![];
        for s in &self.subs {
            let mut o = s.obs.clone();
            per_sub.insert(
                s.name.clone(),
                json!({
                    "evaluations": o.evals,
                    "distinct_nontrivial": o.distinct_nontrivial(),
                    "exhaustive": s.exhaustive,
                    "wall_s": (s.wall_s * 1000.0).round() / 1000.0,
                    "method": s.note,
                    "classes": o.classes,
                    "excluded_by_domain": o.excluded_domain,
                    "worst_observed": o.maxima,
                }),
            );
            if s.exhaustive {
                exhaustive_subs.push(s.name.clone());
            }
            // tag samples with the sub-check name
            let samples = std::mem::take(&mut o.samples);
            for smp in samples.into_iter().take(3) {
                if total.samples.len() < 24 {
                    total.samples.push(json!({"subcheck": s.name, "case": smp}));
                }
            }
            total.merge(o);
        }
        let all_exhaustive = !self.subs.is_empty() && self.subs.iter().all(|s| s.exhaustive);
        let mut cov = serde_json::Map::new();
        cov.insert("evaluations".into(), json!(total.evals));
        cov.insert("distinct_nontrivial".into(), json!(total.distinct_nontrivial()));
        cov.insert("rule".into(), json!(rule));
        cov.insert("samples".into(), Value::Array(total.samples.clone()));
        cov.insert("exhaustive".into(), json!(all_exhaustive));
        cov.insert("exhaustive_subchecks".into(), json!(exhaustive_subs));
        cov.insert("subchecks".into(), Value::Object(per_sub));
        cov.insert("classes".into(), json!(total.classes));
        cov.insert("excluded_by_domain".into(), json!(total.excluded_domain));
        cov.insert("excluded_known".into(), json!(self.known_seen));
        cov.insert("worst_observed".into(), json!(total.maxima));
        for (k, v) in &self.extra {
            cov.insert(k.clone(), v.clone());
        }
        let ev = json!({
            "property_id": self.prop,
            "tier": self.tier.name(),
            "seed": self.seed,
            "level": "exploration",
            "coverage": Value::Object(cov),
            "assumptions": self.assumptions,
            "wall_s": (self.start.elapsed().as_secs_f64() * 1000.0).round() / 1000.0,
            "violations": self.violations.len(),
        });
        // child runs (twin builds) write their evidence where the parent asks, not over the property's evidence file
        let dir = std::env::var_os("RFVERIF_EVIDENCE_DIR").map(PathBuf::from).unwrap_or_else(|| verif_root().join("evidence"));
        let _ = std::fs::create_dir_all(&dir);
        let path = dir.join(format!("{}.json", self.prop));
        std::fs::write(&path, serde_json::to_string_pretty(&ev).unwrap()).expect("write evidence");
    }
}

/// Round a float for JSON output.
pub fn r6(x: f64) -> f64 {
    if x.is_finite() {
        (x * 1e6).round() / 1e6
    } else {
        x
    }
}

/// JSON-safe f32 (NaN/inf become strings).
pub fn jf(x: f32) -> Value {
    if x.is_finite() {
        json!(x)
    } else {
        json!(format!("{x}"))
    }
}


/// A `Read` over a byte slice that hands out at most `max` bytes per call and, when `intr` is set, answers every fifth
/// call with `ErrorKind::Interrupted` (both are within `Read`'s contract; a correct consumer sees the same bytes).
pub struct ChunkReader<'a> {
    pub data: &'a [u8],
    pub pos: usize,
    pub max: usize,
    pub intr: bool,
    pub calls: usize,
}

impl<'a> ChunkReader<'a> {
    /// parameters derived from the content, so that a case replays identically
    pub fn for_content(data: &'a [u8]) -> ChunkReader<'a> {
        let h = hash_of(&data);
        ChunkReader { data, pos: 0, max: 1 + (h % 7) as usize, intr: (h >> 8) & 1 == 1, calls: 0 }
    }
}

impl std::io::Read for ChunkReader<'_> {
    fn read(&mut self, buf: &mut [u8]) -> std::io::Result<usize> {
        self.calls += 1;
        if self.intr && self.calls % 5 == 2 {
            return Err(std::io::ErrorKind::Interrupted.into());
        }
        let n = buf.len().min(self.max).min(self.data.len() - self.pos);
        buf[..n].copy_from_slice(&self.data[self.pos..self.pos + n]);
        self.pos += n;
        Ok(n)
    }
}
