//! Shared render-scene machinery for the pipeline properties (C01, C02, C06, C07):
//! serialisable scenes, a session that renders them through every front door
//! and target kind with sentinel-filled buffers and counting shaders, and the
//! f64 reference (exact clipped polygons, projection, per-pixel candidates).

use crate::common::fl::*;
use crate::common::geo::{seg_dist, solve3, P2};
use crate::common::*;
use re::geom::{vertex, Tri, Vertex};
use re::math::mat::{Mat4x4, RealToReal};
use re::math::{pt2, pt3, rgba, viewport, Color4, Point3, Vary};
use re::render::clip::ClipVec;
use re::render::ctx::{DepthSort, FaceCull};
use re::render::raster::Frag;
use re::render::shader::Shader;
use re::render::{render, Batch, Camera, Context, Framebuf, Model, ModelToProj, Stats, Target, World};
use re::util::buf::{Buf2, MutSlice2};
use serde::{Deserialize, Serialize};
use std::cell::Cell;
use std::cmp::Ordering;

// ------------------------------------------------------------------ scene description

#[derive(Clone, Debug, Serialize, Deserialize, PartialEq)]
pub enum Door {
    Render,
    Batch,
    /// Camera::render with a matrix Mode; `tris` then hold view-space points (w ignored)
    Camera,
}

#[derive(Clone, Debug, Serialize, Deserialize, PartialEq)]
pub enum TargetKind {
    /// Framebuf<Buf2<u32>, Buf2<f32>>
    FbOwned,
    /// Framebuf<&mut Buf2<u32>, &mut Buf2<f32>>
    FbRef,
    /// Framebuf over MutSlice2 windows at (ox, oy) of buffers padded by (px, py) on the far sides
    FbWindow { ox: u32, oy: u32, px: u32, py: u32 },
    /// the colour-only target: Buf2<u32> (no depth buffer)
    ColorOnly,
    /// colour-only over a MutSlice2 window
    ColorOnlyWindow { ox: u32, oy: u32, px: u32, py: u32 },
}

#[derive(Clone, Debug, Serialize, Deserialize, PartialEq)]
pub enum Proj {
    Perspective { focal: X, near: X, far: X },
    Orthographic { lbn: [X; 3], rtf: [X; 3] },
}

#[derive(Clone, Debug, Serialize, Deserialize, PartialEq)]
pub struct Cfg {
    /// 0 = None, 1 = Back, 2 = Front
    pub face_cull: u8,
    /// 0 = None, 1 = FrontToBack, 2 = BackToFront
    pub depth_sort: u8,
    /// 0 = None, 1 = Less, 2 = Equal, 3 = Greater
    pub depth_test: u8,
    pub color_write: bool,
    pub depth_write: bool,
    /// the fragment shader returns None on a checkerboard of pixels
    pub discard: bool,
}

impl Cfg {
    /// culling off, depth test Less, all writes on (what C01/C06 use)
    pub fn plain() -> Cfg {
        Cfg { face_cull: 0, depth_sort: 0, depth_test: 1, color_write: true, depth_write: true, discard: false }
    }
    pub fn context(&self) -> Context {
        Context {
            color_clear: None,
            depth_clear: None,
            face_cull: [None, Some(FaceCull::Back), Some(FaceCull::Front)][self.face_cull as usize % 3],
            depth_sort: [None, Some(DepthSort::FrontToBack), Some(DepthSort::BackToFront)][self.depth_sort as usize % 3],
            depth_test: [None, Some(Ordering::Less), Some(Ordering::Equal), Some(Ordering::Greater)][self.depth_test as usize % 4],
            color_write: self.color_write,
            depth_write: self.depth_write,
            stats: Default::default(),
        }
    }
}

#[derive(Clone, Debug, Serialize, Deserialize)]
pub struct Scene {
    /// dimensions of the target the renderer sees
    pub bw: u32,
    pub bh: u32,
    /// viewport rectangle l, t, r, b (inside the target)
    pub vp: [u32; 4],
    /// clip-space [x, y, z, w] per vertex per triangle (view-space [x, y, z, 1] for Door::Camera)
    pub tris: Vec<[[X; 4]; 3]>,
    /// one f32 attribute per vertex
    pub attrs: Vec<[X; 3]>,
    pub door: Door,
    pub target: TargetKind,
    /// projection used by Door::Camera (and by generators that build clip coordinates with the library's matrices)
    pub proj: Option<Proj>,
    /// initial depth-buffer contents (reciprocal depth; 0 = cleared)
    pub bg_depth: X,
    pub cfg: Cfg,
    /// 0: the fragment shader emits the attribute's bit pattern; 1: it emits round(attribute) as an
    /// integer id (insensitive to last-bit differences between fan sub-triangles)
    #[serde(default)]
    pub shader_mode: u8,
    /// true: every call passes the scene's full vertex array and only the faces select triangles
    #[serde(default)]
    pub shared_verts: bool,
    /// mirrored viewport: the viewport matrix is built from bounds whose start is the right (bottom) edge, so NDC x (y)
    /// increases leftwards (upwards) on the screen — e.g. a y-up viewport. Not available through Door::Camera.
    #[serde(default)]
    pub flip: [bool; 2],
    /// the NDC-to-screen matrix additionally exchanges the axes (screen x from NDC y and vice versa): a transposed
    /// framebuffer. render() accepts any NdcToScreen matrix; this one has off-diagonal terms and a negative determinant.
    #[serde(default)]
    pub swap_axes: bool,
    /// type of the varying handed through the pipeline: 0 = f32; 1 = (f32, f32) with the attribute in the SECOND slot;
    /// 2 = ((f32, f32), f32) nested, attribute in the innermost second slot
    #[serde(default)]
    pub attr_mode: u8,
}

pub fn sentinel_color(i: usize) -> u32 {
    0xFFA0_0000 | (i as u32 & 0x000F_FFFF)
}

/// checkerboard used by the discarding shader
pub fn discards(x: usize, y: usize) -> bool {
    (x + y) % 2 == 0
}

// ------------------------------------------------------------------ session

pub struct Session {
    pub sc: Scene,
    /// full buffers (window + padding)
    pub color: Buf2<u32>,
    pub depth: Buf2<f32>,
    pub win: [u32; 4], // ox, oy, w, h of the target window inside the full buffers
    pub ctx: Context,
    pub shader_calls: Cell<u64>,
    pub shader_somes: Cell<u64>,
    /// when Some, every fragment that reaches the shader is logged as (x, y, reciprocal depth)
    pub record: std::cell::RefCell<Option<Vec<(u32, u32, f32)>>>,
}

pub fn full_dims(sc: &Scene) -> (u32, u32, u32, u32) {
    match sc.target {
        TargetKind::FbWindow { ox, oy, px, py } | TargetKind::ColorOnlyWindow { ox, oy, px, py } => (sc.bw + ox + px, sc.bh + oy + py, ox, oy),
        _ => (sc.bw, sc.bh, 0, 0),
    }
}

impl Session {
    pub fn new(sc: &Scene) -> Session {
        let (fw, fh, ox, oy) = full_dims(sc);
        let mut i = 0usize;
        let color = Buf2::new_with((fw, fh), |_, _| {
            i += 1;
            sentinel_color(i - 1)
        });
        let bg = sc.bg_depth.0;
        let depth = Buf2::new_with((fw, fh), |_, _| bg);
        Session { sc: sc.clone(), color, depth, win: [ox, oy, sc.bw, sc.bh], ctx: sc.cfg.context(), shader_calls: Cell::new(0), shader_somes: Cell::new(0), record: std::cell::RefCell::new(None) }
    }

    pub fn has_depth(&self) -> bool {
        !matches!(self.sc.target, TargetKind::ColorOnly | TargetKind::ColorOnlyWindow { .. })
    }

    /// colour word at window coordinates
    pub fn col(&self, x: u32, y: u32) -> u32 {
        self.color[[x + self.win[0], y + self.win[1]]]
    }
    pub fn dep(&self, x: u32, y: u32) -> f32 {
        self.depth[[x + self.win[0], y + self.win[1]]]
    }
    pub fn prior_col(&self, x: u32, y: u32) -> u32 {
        let (fw, _, _, _) = full_dims(&self.sc);
        sentinel_color(((y + self.win[1]) * fw + x + self.win[0]) as usize)
    }

    /// Cells of the full buffers outside the target window that changed (must be none).
    pub fn padding_changed(&self) -> Option<(u32, u32)> {
        let (fw, fh, ox, oy) = full_dims(&self.sc);
        for y in 0..fh {
            for x in 0..fw {
                let inside = x >= ox && x < ox + self.sc.bw && y >= oy && y < oy + self.sc.bh;
                if !inside {
                    let c = self.color[[x, y]];
                    let d = self.depth[[x, y]];
                    if c != sentinel_color((y * fw + x) as usize) || d.to_bits() != self.sc.bg_depth.0.to_bits() {
                        return Some((x, y));
                    }
                }
            }
        }
        None
    }

    pub fn stats(&self) -> Stats {
        self.ctx.stats.borrow().clone()
    }

    /// Renders the triangles `which` (indices into the scene, in this order) as ONE render call
    /// through the scene's door into the scene's target. Err = it panicked.
    pub fn draw(&mut self, which: &[usize]) -> Result<(), String> {
        let sc = self.sc.clone();
        let [ox, oy, w, h] = self.win;
        let rect = (ox..ox + w, oy..oy + h);
        let ctx = &self.ctx; // the same Context across calls: statistics must accumulate in it
        let calls = &self.shader_calls;
        let somes = &self.shader_somes;
        let record = &self.record;
        let color = &mut self.color;
        let depth = &mut self.depth;
        let r = catch(move || {
            match sc.target {
                TargetKind::FbOwned => {
                    // the window is the whole buffer here
                    let mut fb = Framebuf { color_buf: std::mem::replace(color, Buf2::new((0, 0))), depth_buf: std::mem::replace(depth, Buf2::new((0, 0))) };
                    let res = catch(|| draw_into(&sc, which, &mut fb, ctx, calls, somes, record));
                    *color = fb.color_buf;
                    *depth = fb.depth_buf;
                    if let Err(p) = res {
                        std::panic::panic_any(p);
                    }
                }
                TargetKind::FbRef => {
                    let mut fb = Framebuf { color_buf: &mut *color, depth_buf: &mut *depth };
                    draw_into(&sc, which, &mut fb, ctx, calls, somes, record);
                }
                TargetKind::FbWindow { .. } => {
                    let mut fb = Framebuf { color_buf: color.slice_mut(rect.clone()), depth_buf: depth.slice_mut(rect.clone()) };
                    draw_into(&sc, which, &mut fb, ctx, calls, somes, record);
                }
                TargetKind::ColorOnly => {
                    draw_into(&sc, which, &mut *color, ctx, calls, somes, record);
                }
                TargetKind::ColorOnlyWindow { .. } => {
                    let mut t: MutSlice2<u32> = color.slice_mut(rect.clone());
                    draw_into(&sc, which, &mut t, ctx, calls, somes, record);
                }
            }
        });
        r
    }
}

fn color_of_bits(b: u32) -> Color4 {
    // Color4::to_argb_u32 packs 0xAARRGGBB; choose channels so that the packed word is exactly `b`
    rgba((b >> 16) as u8, (b >> 8) as u8, b as u8, (b >> 24) as u8)
}

/// viewport bounds (start_x, start_y, end_x, end_y) honouring the mirror flags
pub fn vp_bounds(sc: &Scene) -> [u32; 4] {
    let [l, t, r, b] = sc.vp;
    let (sx, ex) = if sc.flip[0] { (r, l) } else { (l, r) };
    let (sy, ey) = if sc.flip[1] { (b, t) } else { (t, b) };
    [sx, sy, ex, ey]
}

fn viewport_matrix(sc: &Scene) -> Mat4x4<re::render::NdcToScreen> {
    let [sx, sy, ex, ey] = vp_bounds(sc);
    let m = viewport(pt2(sx, sy)..pt2(ex, ey));
    if !sc.swap_axes {
        return m;
    }
    // screen x = sx + (ndc_y + 1)/2 (ex - sx), screen y = sy + (ndc_x + 1)/2 (ey - sy)
    let a = m.0;
    Mat4x4::new([[0.0, a[0][0], 0.0, a[0][3]], [a[1][1], 0.0, 0.0, a[1][3]], a[2], a[3]])
}

/// The varying types a scene can push through the pipeline (the attribute value itself is always one f32).
pub trait SceneVar: Vary + re::math::Lerp + Clone + 'static {
    fn make(a: f32) -> Self;
    fn get(&self) -> f32;
}
impl SceneVar for f32 {
    fn make(a: f32) -> Self {
        a
    }
    fn get(&self) -> f32 {
        *self
    }
}
impl SceneVar for (f32, f32) {
    fn make(a: f32) -> Self {
        (1.0 - a, a)
    }
    fn get(&self) -> f32 {
        self.1
    }
}
impl SceneVar for ((f32, f32), f32) {
    fn make(a: f32) -> Self {
        ((0.5, a), -a)
    }
    fn get(&self) -> f32 {
        self.0 .1
    }
}

fn draw_into<T: Target>(sc: &Scene, which: &[usize], target: &mut T, ctx: &Context, calls: &Cell<u64>, somes: &Cell<u64>, record: &std::cell::RefCell<Option<Vec<(u32, u32, f32)>>>) {
    match sc.attr_mode {
        1 => draw_typed::<T, (f32, f32)>(sc, which, target, ctx, calls, somes, record),
        2 => draw_typed::<T, ((f32, f32), f32)>(sc, which, target, ctx, calls, somes, record),
        _ => draw_typed::<T, f32>(sc, which, target, ctx, calls, somes, record),
    }
}

fn draw_typed<T: Target, V: SceneVar>(sc: &Scene, which: &[usize], target: &mut T, ctx: &Context, calls: &Cell<u64>, somes: &Cell<u64>, record: &std::cell::RefCell<Option<Vec<(u32, u32, f32)>>>) {
    let discard = sc.cfg.discard;
    let id_mode = sc.shader_mode == 1;
    let fs = move |f: Frag<V>| -> Option<Color4> {
        calls.set(calls.get() + 1);
        if let Some(r) = record.borrow_mut().as_mut() {
            r.push((f.pos.x() as u32, f.pos.y() as u32, f.pos.z()));
        }
        if discard {
            let (x, y) = (f.pos.x() as usize, f.pos.y() as usize);
            if discards(x, y) {
                return None;
            }
        }
        somes.set(somes.get() + 1);
        let a = f.var.get();
        Some(color_of_bits(if id_mode { a.round() as i64 as u32 } else { a.to_bits() }))
    };
    let all: Vec<usize> = (0..sc.tris.len()).collect();
    let (faces, which): (Vec<Tri<usize>>, &[usize]) = if sc.shared_verts {
        (which.iter().map(|&t| Tri([3 * t, 3 * t + 1, 3 * t + 2])).collect(), &all[..])
    } else {
        ((0..which.len()).map(|i| Tri([3 * i, 3 * i + 1, 3 * i + 2])).collect(), which)
    };
    match sc.door {
        Door::Render | Door::Batch => {
            let verts: Vec<Vertex<ClipVec, V>> = which
                .iter()
                .flat_map(|&t| (0..3).map(move |i| (t, i)))
                .map(|(t, i)| vertex(fs4(sc.tris[t][i]).into(), V::make(sc.attrs[t][i].0)))
                .collect();
            let vs = |v: Vertex<ClipVec, V>, _: ()| v;
            let shader = Shader::new(vs, fs);
            if sc.door == Door::Render {
                render(&faces, &verts, &shader, (), viewport_matrix(sc), target, ctx);
            } else {
                Batch::new().faces(&faces).vertices(&verts).uniform(()).shader(shader).viewport(viewport_matrix(sc)).target(target).context(ctx).render();
            }
        }
        Door::Camera => {
            let verts: Vec<Vertex<Point3<Model>, V>> = which
                .iter()
                .flat_map(|&t| (0..3).map(move |i| (t, i)))
                .map(|(t, i)| {
                    let p = fs4(sc.tris[t][i]);
                    vertex(pt3(p[0], p[1], p[2]), V::make(sc.attrs[t][i].0))
                })
                .collect();
            let vs = |v: Vertex<Point3<Model>, V>, (tf, _): (&Mat4x4<ModelToProj>, ())| vertex(tf.apply(&v.pos), v.attrib);
            let shader = Shader::new(vs, fs);
            let cam = Camera::new((sc.bw, sc.bh)).viewport((sc.vp[0]..sc.vp[2], sc.vp[1]..sc.vp[3]));
            let cam = match sc.proj.as_ref().expect("camera door needs a projection") {
                Proj::Perspective { focal, near, far } => cam.perspective(focal.0, near.0..far.0),
                Proj::Orthographic { lbn, rtf } => cam.orthographic(pt3(lbn[0].0, lbn[1].0, lbn[2].0)..pt3(rtf[0].0, rtf[1].0, rtf[2].0)),
            };
            let cam = cam.mode(Mat4x4::<RealToReal<3, World, re::render::View>>::identity());
            let to_world = Mat4x4::<RealToReal<3, Model, World>>::identity();
            cam.render(&faces, &verts, &to_world, &shader, (), target, ctx);
        }
    }
}

fn fs4(a: [X; 4]) -> [f32; 4] {
    a.map(|x| x.0)
}

// ------------------------------------------------------------------ f64 reference

/// The clip-space coordinates (f64) the oracle uses for triangle `t` of the scene.
/// For Door::Camera they are derived from the view-space points with the documented
/// pinhole model (focal ratio 1 = 90 degrees horizontal field of view, aspect =
/// viewport width / height, near -> z/w = -1, far -> z/w = +1).
pub fn clip64(sc: &Scene, t: usize) -> [[f64; 4]; 3] {
    let p = sc.tris[t].map(|v| fs4(v).map(|c| c as f64));
    if sc.door != Door::Camera {
        return p;
    }
    let aspect = (sc.vp[2] - sc.vp[0]) as f64 / (sc.vp[3] - sc.vp[1]) as f64;
    match sc.proj.as_ref().expect("camera door needs a projection") {
        Proj::Perspective { focal, near, far } => {
            let (f, n, fa) = (focal.0 as f64, near.0 as f64, far.0 as f64);
            p.map(|[x, y, z, _]| [f * x, f * aspect * y, ((fa + n) * z - 2.0 * fa * n) / (fa - n), z])
        }
        Proj::Orthographic { lbn, rtf } => {
            let lo = lbn.map(|v| v.0 as f64);
            let hi = rtf.map(|v| v.0 as f64);
            p.map(|[x, y, z, _]| {
                let m = |v: f64, a: f64, b: f64| (2.0 * v - (a + b)) / (b - a);
                [m(x, lo[0], hi[0]), m(y, lo[1], hi[1]), m(z, lo[2], hi[2]), 1.0]
            })
        }
    }
}

pub fn plane_dists(p: [f64; 4]) -> [f64; 6] {
    let [x, y, z, w] = p;
    [-z - w, z - w, -x - w, x - w, -y - w, y - w]
}

/// Exact (f64) Sutherland–Hodgman of a triangle against the six frustum planes.
pub fn clip_poly64(tri: &[[f64; 4]; 3]) -> Vec<[f64; 4]> {
    clip_poly64_off(tri, 0.0)
}

/// Same, with every plane pushed outwards by `off` (inwards if negative): a point is kept iff d <= off.
pub fn clip_poly64_off(tri: &[[f64; 4]; 3], off: f64) -> Vec<[f64; 4]> {
    let mut poly: Vec<[f64; 4]> = tri.to_vec();
    for pl in 0..6 {
        if poly.is_empty() {
            break;
        }
        let mut out = Vec::with_capacity(poly.len() + 2);
        for i in 0..poly.len() {
            let a = poly[i];
            let b = poly[(i + 1) % poly.len()];
            let (da, db) = (plane_dists(a)[pl] - off, plane_dists(b)[pl] - off);
            if da <= 0.0 {
                out.push(a);
            }
            if (da < 0.0 && db > 0.0) || (da > 0.0 && db < 0.0) {
                let t = da / (da - db);
                out.push(std::array::from_fn(|k| a[k] + (b[k] - a[k]) * t));
            }
        }
        poly = out;
    }
    poly
}

/// Screen position of a clip-space point under the scene's viewport.
pub fn to_screen(sc: &Scene, p: [f64; 4]) -> P2 {
    let [l, t, r, b] = vp_bounds(sc).map(|v| v as f64);
    let (nx, ny) = if sc.swap_axes { (p[1] / p[3], p[0] / p[3]) } else { (p[0] / p[3], p[1] / p[3]) };
    [l + (nx + 1.0) / 2.0 * (r - l), t + (ny + 1.0) / 2.0 * (b - t)]
}

pub fn to_ndc(sc: &Scene, s: P2) -> P2 {
    let [l, t, r, b] = vp_bounds(sc).map(|v| v as f64);
    let (a, c) = (2.0 * (s[0] - l) / (r - l) - 1.0, 2.0 * (s[1] - t) / (b - t) - 1.0);
    if sc.swap_axes {
        [c, a]
    } else {
        [a, c]
    }
}

/// +1 if the NDC-to-screen map preserves orientation, -1 if it reverses it (one mirrored axis, or exchanged axes)
pub fn screen_parity(sc: &Scene) -> i32 {
    let mut p = 1;
    if sc.flip[0] {
        p = -p;
    }
    if sc.flip[1] {
        p = -p;
    }
    if sc.swap_axes {
        p = -p;
    }
    p
}

/// Reference triangle: clip coordinates, and the triangle clipped exactly (f64) against
/// the frustum planes pushed 1e-6 x scale outwards ("outer") and inwards ("inner"): whatever
/// f32 rounding does to the plane tests, the implementation's polygon lies between the two.
pub struct RefTri {
    pub clip: [[f64; 4]; 3],
    pub attr: [f64; 3],
    /// exact polygon (for statistics / culling orientation)
    pub poly: Vec<[f64; 4]>,
    pub spoly: Vec<P2>,
    pub outer: Vec<P2>,
    pub inner: Vec<P2>,
    /// inner and outer agree to within a fraction of the band (well-conditioned clipping)
    pub stable: bool,
    /// the outer polygon reaches w <= 0: nothing can be said about this triangle
    pub hopeless: bool,
    pub bbox: [f64; 4],
    /// mixed outcodes (actually clipped) / non-uniform w
    pub clipped: bool,
    pub nonuniform_w: bool,
    /// signed area of the exact screen polygon (y-down screen coordinates)
    pub sarea: f64,
    /// screen-space uncertainty (px) of the vertices the clipper generates: an intersection vertex carries an absolute
    /// rounding error of a few eps32 x the triangle's scale in every clip coordinate, and the perspective division by
    /// the smallest w of the visible part magnifies it. Zero for triangles that are not clipped. Added to the band.
    pub extra_band: f64,
}

#[derive(Copy, Clone, Debug, PartialEq)]
pub enum PixClass {
    Out,
    Ambiguous,
    /// attribute, reciprocal depth 1/w, and the magnitudes of their screen-space gradients (per pixel)
    In { attr: f64, rz: f64, g_attr: f64, g_rz: f64 },
}

fn project_dedup(sc: &Scene, poly: &[[f64; 4]]) -> (Vec<P2>, bool) {
    let mut out: Vec<P2> = vec![];
    let mut bad = false;
    for p in poly {
        if !(p[3] > 1e-12) {
            bad = true;
            continue;
        }
        let s = to_screen(sc, *p);
        if let Some(l) = out.last() {
            if (l[0] - s[0]).abs() < 1e-9 && (l[1] - s[1]).abs() < 1e-9 {
                continue;
            }
        }
        out.push(s);
    }
    while out.len() > 1 && (out[0][0] - out[out.len() - 1][0]).abs() < 1e-9 && (out[0][1] - out[out.len() - 1][1]).abs() < 1e-9 {
        out.pop();
    }
    (out, bad)
}

/// signed area (y-down screen coordinates)
pub fn poly_area(p: &[P2]) -> f64 {
    let mut a = 0.0;
    for i in 0..p.len() {
        let (u, v) = (p[i], p[(i + 1) % p.len()]);
        a += u[0] * v[1] - u[1] * v[0];
    }
    a / 2.0
}

/// > 0: strictly inside the convex polygon (returns the distance to the outline);
/// < 0: outside (minus the distance); the polygon may be degenerate.
fn convex_margin(poly: &[P2], c: P2) -> f64 {
    let n = poly.len();
    if n == 0 {
        return f64::MIN;
    }
    let mut d = f64::MAX;
    if n == 1 {
        d = crate::common::geo::dist2(poly[0], c);
    }
    for i in 0..n {
        d = d.min(seg_dist(poly[i], poly[(i + 1) % n], c));
    }
    if n < 3 {
        return -d;
    }
    let (mut pos, mut neg) = (0, 0);
    for i in 0..n {
        let (a, b) = (poly[i], poly[(i + 1) % n]);
        let o = (b[0] - a[0]) * (c[1] - a[1]) - (b[1] - a[1]) * (c[0] - a[0]);
        if o > 0.0 {
            pos += 1;
        } else if o < 0.0 {
            neg += 1;
        }
    }
    if (pos > 0 && neg > 0) || (pos == 0 && neg == 0) {
        -d
    } else {
        d
    }
}

pub const CLIP_SLACK: f64 = 1e-6;

pub fn ref_tri(sc: &Scene, t: usize) -> RefTri {
    let clip = clip64(sc, t);
    let attr = sc.attrs[t].map(|a| a.0 as f64);
    let scale = clip.iter().flatten().fold(0.0f64, |m, v| m.max(v.abs())).max(1e-30);
    let poly = clip_poly64(&clip);
    let (spoly, _) = project_dedup(sc, &poly);
    let (outer, hopeless) = project_dedup(sc, &clip_poly64_off(&clip, CLIP_SLACK * scale));
    let (inner, _) = project_dedup(sc, &clip_poly64_off(&clip, -CLIP_SLACK * scale));
    let near = |a: &[P2], b: &[P2]| a.iter().all(|p| b.iter().any(|q| crate::common::geo::dist2(*p, *q) < 0.005));
    let stable = !hopeless && !inner.is_empty() && near(&inner, &outer) && near(&outer, &inner);
    let mut bbox = [f64::MAX, f64::MAX, f64::MIN, f64::MIN];
    for s in &outer {
        bbox[0] = bbox[0].min(s[0]);
        bbox[1] = bbox[1].min(s[1]);
        bbox[2] = bbox[2].max(s[0]);
        bbox[3] = bbox[3].max(s[1]);
    }
    let codes: Vec<u8> = clip.iter().map(|p| plane_dists(*p).iter().enumerate().map(|(i, d)| ((*d > 0.0) as u8) << i).sum()).collect();
    let any = codes[0] | codes[1] | codes[2];
    let all = codes[0] & codes[1] & codes[2];
    let ws = clip.map(|p| p[3]);
    let sarea = poly_area(&spoly);
    let clipped = any != 0 && all == 0;
    let extra_band = if clipped && !poly.is_empty() {
        let w_min = poly.iter().map(|p| p[3]).fold(f64::MAX, f64::min).max(1e-300);
        let [sx, sy, ex, ey] = vp_bounds(sc);
        let half = ((ex as f64 - sx as f64).abs()).max((ey as f64 - sy as f64).abs()) / 2.0;
        4.0 * f32::EPSILON as f64 * scale / w_min * half
    } else {
        0.0
    };
    RefTri { clip, attr, poly, spoly, outer, inner, stable, hopeless, bbox, clipped, nonuniform_w: ws[0] != ws[1] || ws[1] != ws[2], sarea, extra_band }
}

impl RefTri {
    /// Classifies the pixel centre `c` (screen coordinates) with a band of `band` px.
    pub fn classify(&self, sc: &Scene, c: P2, band: f64) -> PixClass {
        let band = band + self.extra_band;
        if self.hopeless {
            return PixClass::Ambiguous;
        }
        if self.outer.is_empty() {
            return PixClass::Out;
        }
        if self.outer.iter().any(|p| !p[0].is_finite() || !p[1].is_finite()) {
            return PixClass::Ambiguous;
        }
        if c[0] < self.bbox[0] - band - 1e-9 || c[0] > self.bbox[2] + band + 1e-9 || c[1] < self.bbox[1] - band - 1e-9 || c[1] > self.bbox[3] + band + 1e-9 {
            return PixClass::Out;
        }
        let mo = convex_margin(&self.outer, c);
        if mo < -band {
            return PixClass::Out;
        }
        if !self.stable {
            return PixClass::Ambiguous;
        }
        let mi = convex_margin(&self.inner, c);
        if mi <= band {
            return PixClass::Ambiguous;
        }
        // every diagonal of the outer polygon is a possible internal fan edge (whichever vertex the fan starts at)
        let n = self.outer.len();
        for i in 0..n {
            for j in i + 2..n {
                if i == 0 && j == n - 1 {
                    continue;
                }
                if seg_dist(self.outer[i], self.outer[j], c) <= band {
                    return PixClass::Ambiguous;
                }
            }
        }
        // interior: perspective-correct barycentrics from the 3x3 system
        let Some((attr, w, z)) = self.eval_at(sc, c, true) else { return PixClass::Ambiguous };
        // near-coplanar with the near/far plane: ambiguous (f32 rounding decides)
        if (w - z.abs()) / w < 1e-4 {
            return PixClass::Ambiguous;
        }
        // screen-space gradients (per pixel) by differences over 1/64 px of the triangle's plane (extrapolated if need be)
        let (mut g_attr, mut g_rz) = (0.0f64, 0.0f64);
        const H: f64 = 1.0 / 64.0;
        for d in [[H, 0.0], [0.0, H], [-H, 0.0], [0.0, -H]] {
            match self.eval_at(sc, [c[0] + d[0], c[1] + d[1]], false) {
                Some((a2, w2, _)) => {
                    g_attr = g_attr.max((a2 - attr).abs() / H);
                    g_rz = g_rz.max((1.0 / w2 - 1.0 / w).abs() / H);
                }
                None => return PixClass::Ambiguous, // w changes sign within 1/64 px: hopelessly steep
            }
        }
        PixClass::In { attr, rz: 1.0 / w, g_attr, g_rz }
    }

    /// attribute, w and z of the triangle's plane at screen position c (None where w <= 0 or the system is singular)
    fn eval_at(&self, sc: &Scene, c: P2, inside_only: bool) -> Option<(f64, f64, f64)> {
        let [nx, ny] = to_ndc(sc, c);
        let p = &self.clip;
        let m = [
            [p[0][0] - nx * p[0][3], p[1][0] - nx * p[1][3], p[2][0] - nx * p[2][3]],
            [p[0][1] - ny * p[0][3], p[1][1] - ny * p[1][3], p[2][1] - ny * p[2][3]],
            [1.0, 1.0, 1.0],
        ];
        let l = solve3(m, [0.0, 0.0, 1.0])?;
        let w = l[0] * p[0][3] + l[1] * p[1][3] + l[2] * p[2][3];
        let z = l[0] * p[0][2] + l[1] * p[1][2] + l[2] * p[2][2];
        if !(w > 0.0) || (inside_only && l.iter().any(|v| *v < -1e-6)) {
            return None;
        }
        let attr = l[0] * self.attr[0] + l[1] * self.attr[1] + l[2] * self.attr[2];
        Some((attr, w, z))
    }
}

/// Distance from the origin of R^4 to the triangle (exact closest point, Ericson's
/// region walk — it only uses dot products, so it is valid in any dimension),
/// relative to the magnitude of the triangle's smallest vertex.
pub fn apex_closeness(tri: &[[f64; 4]; 3]) -> f64 {
    // relative to the *smallest* vertex magnitude: a triangle with one vertex close to the eye and two far away
    // (depths 1 and 1000 under a projection with near = 0.1) does not pass through the apex, it merely has a small
    // vertex; what is ill-conditioned is a hull that comes much closer to the origin than any of its vertices
    let scale = tri.iter().map(|v| v.iter().map(|c| c * c).sum::<f64>().sqrt()).fold(f64::MAX, f64::min).max(1e-30);
    let sub = |a: [f64; 4], b: [f64; 4]| -> [f64; 4] { std::array::from_fn(|k| a[k] - b[k]) };
    let dot = |a: [f64; 4], b: [f64; 4]| -> f64 { (0..4).map(|k| a[k] * b[k]).sum() };
    let add_s = |a: [f64; 4], b: [f64; 4], s: f64| -> [f64; 4] { std::array::from_fn(|k| a[k] + b[k] * s) };
    let len = |a: [f64; 4]| dot(a, a).sqrt();
    let (a, b, c) = (tri[0], tri[1], tri[2]);
    let p = [0.0; 4];
    let (ab, ac, ap) = (sub(b, a), sub(c, a), sub(p, a));
    let (d1, d2) = (dot(ab, ap), dot(ac, ap));
    let closest = 'c: {
        if d1 <= 0.0 && d2 <= 0.0 {
            break 'c a;
        }
        let bp = sub(p, b);
        let (d3, d4) = (dot(ab, bp), dot(ac, bp));
        if d3 >= 0.0 && d4 <= d3 {
            break 'c b;
        }
        let vc = d1 * d4 - d3 * d2;
        if vc <= 0.0 && d1 >= 0.0 && d3 <= 0.0 {
            let v = if d1 - d3 != 0.0 { d1 / (d1 - d3) } else { 0.0 };
            break 'c add_s(a, ab, v);
        }
        let cp = sub(p, c);
        let (d5, d6) = (dot(ab, cp), dot(ac, cp));
        if d6 >= 0.0 && d5 <= d6 {
            break 'c c;
        }
        let vb = d5 * d2 - d1 * d6;
        if vb <= 0.0 && d2 >= 0.0 && d6 <= 0.0 {
            let w = if d2 - d6 != 0.0 { d2 / (d2 - d6) } else { 0.0 };
            break 'c add_s(a, ac, w);
        }
        let va = d3 * d6 - d5 * d4;
        if va <= 0.0 && (d4 - d3) >= 0.0 && (d5 - d6) >= 0.0 {
            let den = (d4 - d3) + (d5 - d6);
            let w = if den != 0.0 { (d4 - d3) / den } else { 0.0 };
            break 'c add_s(b, sub(c, b), w);
        }
        let den = va + vb + vc;
        if den == 0.0 {
            // degenerate triangle: fall back to the nearest of the three edges' closest points
            let on = |u: [f64; 4], v: [f64; 4]| {
                let e = sub(v, u);
                let l = dot(e, e);
                let t = if l > 0.0 { (dot(sub(p, u), e) / l).clamp(0.0, 1.0) } else { 0.0 };
                add_s(u, e, t)
            };
            let cands = [on(a, b), on(b, c), on(c, a)];
            let mut best = cands[0];
            for q in cands {
                if len(q) < len(best) {
                    best = q;
                }
            }
            break 'c best;
        }
        let (v, w) = (vb / den, vc / den);
        add_s(add_s(a, ab, v), ac, w)
    };
    // guard against round-off in the region walk with the three edges as well
    let on = |u: [f64; 4], v: [f64; 4]| {
        let e = sub(v, u);
        let l = dot(e, e);
        let t = if l > 0.0 { (dot(sub(p, u), e) / l).clamp(0.0, 1.0) } else { 0.0 };
        len(add_s(u, e, t))
    };
    len(closest).min(on(a, b)).min(on(b, c)).min(on(c, a)) / scale
}

/// NaN anywhere in the depth window?
pub fn depth_has_nan(s: &Session) -> Option<(u32, u32)> {
    for y in 0..s.sc.bh {
        for x in 0..s.sc.bw {
            if s.dep(x, y).is_nan() {
                return Some((x, y));
            }
        }
    }
    None
}

pub fn f32_of(word: u32) -> f32 {
    f32::from_bits(word)
}

#[allow(unused)]
fn _assert_vary<T: Vary>() {}
