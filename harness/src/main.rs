//! rfverif — property-based checks for jdahlstrom/retrofire.
//!
//!   rfverif <Cxx> <quick|thorough>     run one property's check
//!   rfverif --replay <file>            re-run one saved failing case (no proptest)
//!
//! exit 0 = property held on everything explored, 1 = violation (a line
//! `VIOLATION property=<id> replay=<path>` was printed), 2 = inconclusive
//! (harness error, hang, time-out).

use rfverif::common::*;
use rfverif::find;
use serde_json::Value;
use std::time::{Duration, Instant};

fn watchdog(limit: Duration) {
    std::thread::spawn(move || {
        std::thread::sleep(limit);
        eprintln!("INCONCLUSIVE: watchdog expired after {:?}", limit);
        std::process::exit(2);
    });
}

fn replay_file(path: &std::path::Path) -> Result<(String, String, Check), String> {
    let txt = std::fs::read_to_string(path).map_err(|e| format!("cannot read {}: {e}", path.display()))?;
    let v: Value = serde_json::from_str(&txt).map_err(|e| format!("bad JSON in {}: {e}", path.display()))?;
    let prop = v["property"].as_str().ok_or("replay file lacks 'property'")?.to_string();
    let sub = v["subcheck"].as_str().ok_or("replay file lacks 'subcheck'")?.to_string();
    // a case found by a twin build (harness compiled against the libm / mm configuration) is replayed by that build
    let build = v["build"].as_str().unwrap_or("std");
    if build != BUILD_CONFIG && TWINS.iter().any(|t| t.0 == build) && BUILD_CONFIG == "std" {
        let bin = build_twin(build).map_err(|e| format!("twin build {build} failed: {e}"))?;
        let o = std::process::Command::new(&bin).arg("--replay").arg(path).env("RUST_BACKTRACE", "0").output().map_err(|e| format!("cannot run the {build} twin: {e}"))?;
        let out = String::from_utf8_lossy(&o.stdout).to_string();
        return match o.status.code() {
            Some(0) => Ok((prop, sub, Ok(()))),
            Some(1) => {
                let detail = out.lines().find(|l| l.trim_start().starts_with("subcheck=")).unwrap_or("").trim().to_string();
                let sig = detail.split("signature=").nth(1).and_then(|r| r.split_whitespace().next()).unwrap_or("twin-violation").to_string();
                let msg = detail.split(" :: ").nth(1).unwrap_or(&detail).to_string();
                Ok((prop, sub, Err(Fail::new(sig, format!("[{build} build] {msg}")))))
            }
            c => Err(format!("the {build} twin exited with {c:?} on {}", path.display())),
        };
    }
    let m = find(&prop).ok_or(format!("unknown property {prop}"))?;
    let r = match catch(|| (m.replay)(&sub, &v["case"])) {
        Ok(r) => r,
        Err(p) => Err(Fail::new("harness-or-library-panic", format!("unexpected panic: {p}"))),
    };
    Ok((prop, sub, r))
}

fn main() {
    let args: Vec<String> = std::env::args().skip(1).collect();
    install_silent_panic_hook();
    if args.len() == 2 && args[0] == "--replay" {
        let path = std::path::PathBuf::from(&args[1]);
        match replay_file(&path) {
            Ok((prop, sub, Ok(()))) => {
                println!("replay {prop}/{sub}: property holds on this case");
                std::process::exit(0);
            }
            Ok((prop, sub, Err(f))) => {
                let known = Findings::load();
                if known.is_open(&prop, &f.sig) {
                    println!("KNOWN-FINDING: property={prop} {} ({})", f.sig, f.msg);
                    std::process::exit(0);
                }
                println!("VIOLATION property={prop} replay={}", path.display());
                println!("  subcheck={sub} signature={} :: {}", f.sig, f.msg);
                std::process::exit(1);
            }
            Err(e) => {
                eprintln!("HARNESS-ERROR: {e}");
                std::process::exit(2);
            }
        }
    }
    if args.len() == 1 && args[0] == "--prebuild" {
        // ./check --setup: build the per-configuration probe binaries of C20 ahead of time
        for cfg in rfverif::c20::CONFIGS {
            if let Err(e) = rfverif::c20::build(cfg, "release") {
                eprintln!("BUILD-FAILED: fpprobe[{cfg}]\n{e}");
                std::process::exit(2);
            }
        }
        for (cfg, _) in TWINS {
            if let Err(e) = build_twin(cfg) {
                eprintln!("BUILD-FAILED: harness twin [{cfg}]\n{e}");
                std::process::exit(2);
            }
        }
        std::process::exit(0);
    }
    if args.len() != 2 {
        eprintln!("usage: rfverif <Cxx> <quick|thorough> | --replay <file>");
        std::process::exit(2);
    }
    let tier = match args[1].as_str() {
        "quick" => Tier::Quick,
        "thorough" => Tier::Thorough,
        _ => {
            eprintln!("tier must be quick or thorough");
            std::process::exit(2);
        }
    };
    let seed: u64 = std::env::var("VERIF_SEED").ok().and_then(|s| s.trim().parse::<i128>().ok()).map(|v| v as u64).unwrap_or(0);
    let Some(m) = find(&args[0]) else {
        eprintln!("unknown property {}", args[0]);
        std::process::exit(2);
    };
    watchdog(Duration::from_secs(tier.pick(1500, 4 * 3600)));
    let mut cx = Ctx::new(m.id, tier, seed);

    // 1. regression corpus: every committed replay of a defect found so far
    {
        let t0 = Instant::now();
        let dir = verif_root().join("corpus").join("regress").join(m.id);
        let mut obs = Obs::new();
        let mut files: Vec<_> = std::fs::read_dir(&dir).map(|d| d.filter_map(|e| e.ok()).map(|e| e.path()).collect()).unwrap_or_default();
        files.sort();
        for f in files {
            if f.extension().and_then(|e| e.to_str()) != Some("json") {
                continue;
            }
            obs.eval();
            match replay_file(&f) {
                Ok((_, _, Ok(()))) => {
                    obs.class("regress-pass");
                    obs.nontrivial(hash_of(&f));
                }
                Ok((_, sub, Err(fl))) => {
                    if cx.known.is_open(m.id, &fl.sig) {
                        *obs.excluded_known.entry(fl.sig.clone()).or_insert(0) += 1;
                    } else {
                        println!("VIOLATION property={} replay={}", m.id, f.display());
                        println!("  subcheck={sub} (regression corpus) signature={} :: {}", fl.sig, fl.msg);
                        cx.violations.push(Violation { sub, msg: fl.msg, replay: f.clone() });
                    }
                }
                Err(e) => {
                    eprintln!("HARNESS-ERROR: {e}");
                    std::process::exit(2);
                }
            }
        }
        if obs.evals > 0 {
            cx.report("regress-corpus", obs, false, t0.elapsed().as_secs_f64(), "saved replays");
        }
    }

    // 2. the generated checks
    (m.run)(&mut cx);

    // 2b. thorough tier of the "never panics / never corrupts" properties: the same sub-checks again (quick-sized) in a
    //     child process built with debug assertions and overflow checks off (profile `nodebug`), where a wrapped index
    //     or an unchecked cast shows as different behaviour instead of a panic
    const SECOND_BUILD: [&str; 6] = ["C02", "C04", "C11", "C12", "C16", "C19"];
    if tier == Tier::Thorough && SECOND_BUILD.contains(&m.id) && std::env::var_os("RFVERIF_NODEBUG_CHILD").is_none() {
        let t0 = Instant::now();
        let harness = std::path::PathBuf::from(VERIF_DIR);
        let mut obs = Obs::new();
        let built = std::process::Command::new("cargo")
            .args(["build", "--profile", "nodebug", "--manifest-path"])
            .arg(harness.join("Cargo.toml"))
            .env("CARGO_NET_OFFLINE", "true")
            .current_dir(verif_root())
            .output();
        let bin = harness.join("target").join("nodebug").join("rfverif");
        let note = match built {
            Ok(o) if o.status.success() && bin.exists() => {
                match std::process::Command::new(&bin).args([m.id, "quick"]).env("RFVERIF_NODEBUG_CHILD", "1").env("VERIF_SEED", format!("{}", seed as i128)).env("RUST_BACKTRACE", "0").output() {
                    Ok(o) => {
                        let out = String::from_utf8_lossy(&o.stdout).to_string();
                        let code = o.status.code().unwrap_or(2);
                        let ev: Value = std::fs::read_to_string(verif_root().join("evidence").join(format!("{}.json", m.id))).ok().and_then(|s| serde_json::from_str(&s).ok()).unwrap_or(Value::Null);
                        let evals = ev["coverage"]["evaluations"].as_u64().unwrap_or(0);
                        obs.evals_n(evals);
                        obs.nontrivial_enumerated(ev["coverage"]["distinct_nontrivial"].as_u64().unwrap_or(0));
                        cx.extra.insert("nodebug_build".into(), serde_json::json!({"exit_code": code, "evaluations": evals, "wall_s": ev["wall_s"]}));
                        if code == 1 {
                            let lines: Vec<&str> = out.lines().collect();
                            for (i, l) in lines.iter().enumerate() {
                                if let Some(rest) = l.strip_prefix("VIOLATION ") {
                                    let replay = rest.split("replay=").nth(1).unwrap_or("").trim().to_string();
                                    let detail = lines.get(i + 1).map(|s| s.trim().to_string()).unwrap_or_default();
                                    println!("VIOLATION property={} replay={replay}", m.id);
                                    println!("  (build without overflow checks / debug assertions) {detail}");
                                    cx.violations.push(Violation { sub: "nodebug-build".into(), msg: detail, replay: std::path::PathBuf::from(replay) });
                                }
                            }
                            "second build (checks off): VIOLATION".to_string()
                        } else if code == 0 {
                            "second build (debug assertions and overflow checks off): quick-sized sub-checks in a child process".to_string()
                        } else {
                            format!("second build ran but was inconclusive (exit {code})")
                        }
                    }
                    Err(e) => format!("second build could not be started: {e}"),
                }
            }
            Ok(_) => "second build (profile nodebug) failed to build — skipped, not a failure".to_string(),
            Err(e) => format!("second build unavailable: {e}"),
        };
        cx.report("nodebug-build", obs, false, t0.elapsed().as_secs_f64(), &note);
    }

    // 2c. twin builds: the same check (quick-sized) in a harness compiled against the repository's no_std configurations,
    //     where code under cfg(not(feature = "std")) / cfg(feature = "libm"|"mm") is what gets compiled
    if BUILD_CONFIG == "std" && std::env::var_os("RFVERIF_NODEBUG_CHILD").is_none() && std::env::var_os("RFVERIF_TWIN_CHILD").is_none() {
        let todo: Vec<&str> = TWINS.iter().filter(|t| t.1.contains(&m.id)).map(|t| t.0).collect();
        // build one after the other (cargo locks), run side by side
        let mut bins = vec![];
        for cfg in &todo {
            match build_twin(cfg) {
                Ok(b) => bins.push((*cfg, b)),
                Err(e) => {
                    eprintln!("BUILD-FAILED: the harness does not build against /repo's current tree in configuration {cfg} (inconclusive)\n{e}");
                    std::process::exit(2);
                }
            }
        }
        // children write their evidence elsewhere
        let outs: Vec<(&str, f64, std::io::Result<std::process::Output>, std::path::PathBuf)> = std::thread::scope(|sc| {
            let hs: Vec<_> = bins
                .iter()
                .map(|(cfg, bin)| {
                    let evdir = twin_target_dir(cfg).join("evidence");
                    let _ = std::fs::create_dir_all(&evdir);
                    let id = m.id;
                    sc.spawn(move || {
                        let t0 = Instant::now();
                        let o = std::process::Command::new(bin)
                            .args([id, "quick"])
                            .env("RFVERIF_TWIN_CHILD", cfg)
                            .env("RFVERIF_EVIDENCE_DIR", &evdir)
                            .env("VERIF_SEED", format!("{}", seed as i128))
                            .env("RUST_BACKTRACE", "0")
                            .output();
                        (*cfg, t0.elapsed().as_secs_f64(), o, evdir)
                    })
                })
                .collect();
            hs.into_iter().map(|h| h.join().expect("twin thread")).collect()
        });
        for (cfg, secs, o, evdir) in outs {
            let mut obs = Obs::new();
            let name = format!("twin-build-{cfg}");
            let note = match o {
                Ok(o) => {
                    let out = String::from_utf8_lossy(&o.stdout).to_string();
                    let code = o.status.code().unwrap_or(2);
                    let ev: Value = std::fs::read_to_string(evdir.join(format!("{}.json", m.id))).ok().and_then(|s| serde_json::from_str(&s).ok()).unwrap_or(Value::Null);
                    let evals = ev["coverage"]["evaluations"].as_u64().unwrap_or(0);
                    obs.evals_n(evals);
                    obs.nontrivial_enumerated(ev["coverage"]["distinct_nontrivial"].as_u64().unwrap_or(0));
                    cx.extra.insert(format!("twin_build_{cfg}"), serde_json::json!({"exit_code": code, "evaluations": evals, "wall_s": ev["wall_s"]}));
                    match code {
                        0 => format!("the quick-sized check again in a harness built against retrofire-core --no-default-features --features {cfg}"),
                        1 => {
                            let lines: Vec<&str> = out.lines().collect();
                            for (i, l) in lines.iter().enumerate() {
                                if let Some(rest) = l.strip_prefix("VIOLATION ") {
                                    let replay = rest.split("replay=").nth(1).unwrap_or("").trim().to_string();
                                    let detail = lines.get(i + 1).map(|s| s.trim().to_string()).unwrap_or_default();
                                    println!("VIOLATION property={} replay={replay}", m.id);
                                    println!("  (configuration {cfg}) {detail}");
                                    cx.violations.push(Violation { sub: name.clone(), msg: format!("[{cfg}] {detail}"), replay: std::path::PathBuf::from(replay) });
                                }
                            }
                            format!("configuration {cfg}: VIOLATION")
                        }
                        c => {
                            eprintln!("INCONCLUSIVE: the {cfg} twin of {} exited with {c}: {}", m.id, String::from_utf8_lossy(&o.stderr).lines().filter(|l| !l.starts_with('[')).last().unwrap_or(""));
                            std::process::exit(2);
                        }
                    }
                }
                Err(e) => {
                    eprintln!("HARNESS-ERROR: cannot run the {cfg} twin: {e}");
                    std::process::exit(2);
                }
            };
            cx.report(&name, obs, false, secs, &note);
        }
    }

    // 3. open findings: say so, once each
    for (p, sig, what) in cx.known.open.clone() {
        if p == m.id {
            println!("KNOWN-FINDING: property={p} {sig} {what} (cases skipped this run: {})", cx.known_seen.get(&sig).copied().unwrap_or(0));
        }
    }

    cx.write_evidence(m.rule);
    let total: u64 = cx.subs.iter().map(|s| s.obs.evals).sum();
    eprintln!(
        "[{} {}] done: {} evaluations, {} violation(s), {:.1}s",
        m.id,
        tier.name(),
        total,
        cx.violations.len(),
        cx.start.elapsed().as_secs_f64()
    );
    std::process::exit(if cx.violations.is_empty() { 0 } else { 1 });
}
