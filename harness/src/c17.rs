//! C17 — Bezier curves and splines evaluate, differentiate and subdivide correctly.
//!
//! Sub-checks
//!   bezier       one cubic (f32, Vec2, Vec3, Point2, Point3, Color3f control points) at one t:
//!                eval ~ fast_eval ~ f64 Bernstein form, exact end points at and beyond the ends,
//!                bounding box, tangent ~ f64 derivative and ~ centred finite difference of the
//!                library's own eval (exact cubic truncation term removed), NaN/inf never panic
//!   spline       1..8 segments at one t: exact ends, f64 cubic of the selected segment at the local
//!                parameter, pass-through and continuity at joins (k/n, +-1..3 ulp, +-1e-6),
//!                tangent ~ derivative of the segment
//!   joins        indexed generator: every (type, n, k, ulp offset) combination by construction
//!   approximate  recording `halt` closure; the recursion tree is reconstructed from the log by an
//!                independent interpreter with the depth bound as an unknown
//!
//! Oracles are f64 closed forms computed here; nothing of the library is used to predict the
//! library, except where the property itself is a relation between two library functions
//! (eval vs fast_eval, tangent vs difference quotient of eval, approximate vs eval).

use crate::common::fl::*;
use crate::common::*;
use proptest::prelude::*;
use re::math::color::Color3f;
use re::math::{pt2, pt3, rgb, vec2, vec3, Affine, BezierSpline, CubicBezier, Linear, Point2, Point3, Vec2, Vec3};
use serde::{Deserialize, Serialize};
use serde_json::{json, Value};
use std::cell::RefCell;

pub const RULE: &str = "proptest class mixtures: control polygons of f32/Vec2/Vec3/Point2/Point3/Color3f with shapes {general (one magnitude 10^U(-3,3)), \
wide-range (independent magnitude per coordinate), repeated points, all-equal, collinear, offset-cluster (large base + 1e-3 variation), integer, unit-range}; \
t from {uniform(0,1), dyadic, 0, 1, -0, 1+-ulp, subnormal, <0, >1, +-1e30, +-inf, NaN} and for splines additionally {k/n exactly, k/n +-1..3 ulp, k/n +-1e-6}; \
1..8 segments; halting rules {|err|^2 < thr^2, max|err| < thr with thr = 10^U(-6,0)*scale, always, never, every n-th call, 64-bit verdict pattern}. \
joins: every (type, n, k, ulp offset) combination x seeded polygons. \
ends-extreme: 1..4 segments, coordinates from {+-f32::MAX, +-1e38..3.4e38, +-1e20..1e38, small, 0, +-inf, subnormal}, t from {0, -0, 1, <0, >1, 1+ulp, -1e-45, +-1e30, +-inf} (exact-end clauses only). \
Non-trivial = bezier: 0 < t < 1 on a non-constant polygon; spline/joins: t within 2 ulp of an interior join of a non-constant polygon; \
approximate: >= 3 pieces at mixed depths. Distinct by the bit pattern of the case.";

// ---------------------------------------------------------------- tolerances (relative to the per-component scale = max |control coordinate|)

/// eval / fast_eval vs f64 Bernstein, and eval vs fast_eval
const EVAL_REL: f64 = 1e-5;
/// excursion outside the control points' bounding box
const BBOX_REL: f64 = 8e-6;
/// tangent vs f64 derivative
const TAN_REL: f64 = 2.5e-5;
/// tangent vs (difference quotient of the library's eval over 2h = 1/32, truncation term removed)
const FD_REL: f64 = 2.5e-4;
/// spline eval vs f64 cubic of the segment at the local parameter (includes the f32 rounding of t*n)
const SPL_REL: f64 = 5e-5;
/// spline tangent vs derivative of the segment
const SPL_TAN_REL: f64 = 6e-5;
/// logged error vector vs eval(mid) - (eval(a)+eval(b))/2
const ERR_REL: f64 = 1.5e-6;
/// absolute floor (all-zero components)
const ABS: f64 = 1e-30;

/// A `halt` closure called more often than this is treated as non-termination (the documented
/// bound 10 + log2(len) gives at most 2^14 - 1 calls for 8 segments).
const HALT_CALL_CAP: usize = 1 << 17;
/// stack of the thread `approximate` runs on (a runaway recursion must reach HALT_CALL_CAP, not the guard page)
const APPROX_STACK: usize = 512 << 20;
/// deepest bound the interpreter considers: beyond 24 halvings f32 parameters are no longer distinct
const MAX_BOUND: u32 = 24;

// ---------------------------------------------------------------- control point types

trait Pt: Affine<Diff: Linear<Scalar = f32> + Clone> + Clone + Send + Sync + 'static {
    const N: usize;
    fn make(c: [f32; 3]) -> Self;
    fn comps(&self) -> [f32; 3];
    fn dcomps(d: &<Self as Affine>::Diff) -> [f32; 3];
}
impl Pt for f32 {
    const N: usize = 1;
    fn make(c: [f32; 3]) -> Self {
        c[0]
    }
    fn comps(&self) -> [f32; 3] {
        [*self, 0.0, 0.0]
    }
    fn dcomps(d: &f32) -> [f32; 3] {
        [*d, 0.0, 0.0]
    }
}
impl Pt for Vec2 {
    const N: usize = 2;
    fn make(c: [f32; 3]) -> Self {
        vec2(c[0], c[1])
    }
    fn comps(&self) -> [f32; 3] {
        [self.0[0], self.0[1], 0.0]
    }
    fn dcomps(d: &Vec2) -> [f32; 3] {
        [d.0[0], d.0[1], 0.0]
    }
}
impl Pt for Vec3 {
    const N: usize = 3;
    fn make(c: [f32; 3]) -> Self {
        vec3(c[0], c[1], c[2])
    }
    fn comps(&self) -> [f32; 3] {
        self.0
    }
    fn dcomps(d: &Vec3) -> [f32; 3] {
        d.0
    }
}
impl Pt for Point2 {
    const N: usize = 2;
    fn make(c: [f32; 3]) -> Self {
        pt2(c[0], c[1])
    }
    fn comps(&self) -> [f32; 3] {
        [self.0[0], self.0[1], 0.0]
    }
    fn dcomps(d: &Vec2) -> [f32; 3] {
        [d.0[0], d.0[1], 0.0]
    }
}
impl Pt for Point3 {
    const N: usize = 3;
    fn make(c: [f32; 3]) -> Self {
        pt3(c[0], c[1], c[2])
    }
    fn comps(&self) -> [f32; 3] {
        self.0
    }
    fn dcomps(d: &Vec3) -> [f32; 3] {
        d.0
    }
}
impl Pt for Color3f {
    const N: usize = 3;
    fn make(c: [f32; 3]) -> Self {
        rgb(c[0], c[1], c[2])
    }
    fn comps(&self) -> [f32; 3] {
        self.0
    }
    fn dcomps(d: &Color3f) -> [f32; 3] {
        d.0
    }
}

const TYPES: [&str; 6] = ["f32", "Vec2", "Vec3", "Point2", "Point3", "Color3f"];
const TYPE_CLASS: [&str; 6] = ["type:f32", "type:Vec2", "type:Vec3", "type:Point2", "type:Point3", "type:Color3f"];
const SHAPES: [&str; 8] = ["general", "wide-range", "repeated", "all-equal", "collinear", "offset-cluster", "integer", "unit-range"];
const SHAPE_CLASS: [&str; 8] = [
    "shape:general",
    "shape:wide-range",
    "shape:repeated",
    "shape:all-equal",
    "shape:collinear",
    "shape:offset-cluster",
    "shape:integer",
    "shape:unit-range",
];
const SEGS_CLASS: [&str; 9] = ["segs:0", "segs:1", "segs:2", "segs:3", "segs:4", "segs:5", "segs:6", "segs:7", "segs:8"];
const DEPTH_CLASS: [&str; 25] = [
    "max-leaf-depth:0",
    "max-leaf-depth:1",
    "max-leaf-depth:2",
    "max-leaf-depth:3",
    "max-leaf-depth:4",
    "max-leaf-depth:5",
    "max-leaf-depth:6",
    "max-leaf-depth:7",
    "max-leaf-depth:8",
    "max-leaf-depth:9",
    "max-leaf-depth:10",
    "max-leaf-depth:11",
    "max-leaf-depth:12",
    "max-leaf-depth:13",
    "max-leaf-depth:14",
    "max-leaf-depth:15",
    "max-leaf-depth:16",
    "max-leaf-depth:17",
    "max-leaf-depth:18",
    "max-leaf-depth:19",
    "max-leaf-depth:20",
    "max-leaf-depth:21",
    "max-leaf-depth:22",
    "max-leaf-depth:23",
    "max-leaf-depth:24",
];

fn ncomp(ty: &str) -> usize {
    match ty {
        "f32" => 1,
        "Vec2" | "Point2" => 2,
        "Vec3" | "Point3" | "Color3f" => 3,
        _ => 0,
    }
}
fn type_class(ty: &str) -> &'static str {
    TYPES.iter().position(|t| *t == ty).map(|i| TYPE_CLASS[i]).unwrap_or("type:?")
}
fn shape_class(s: &str) -> &'static str {
    SHAPES.iter().position(|t| *t == s).map(|i| SHAPE_CLASS[i]).unwrap_or("shape:?")
}

macro_rules! dispatch {
    ($ty:expr, $f:ident ( $($a:expr),* )) => {
        match $ty {
            "f32" => $f::<f32>($($a),*),
            "Vec2" => $f::<Vec2>($($a),*),
            "Vec3" => $f::<Vec3>($($a),*),
            "Point2" => $f::<Point2>($($a),*),
            "Point3" => $f::<Point3>($($a),*),
            "Color3f" => $f::<Color3f>($($a),*),
            other => Err(Fail::new("bad-case", format!("unknown control point type {other}"))),
        }
    };
}

// ---------------------------------------------------------------- f64 reference

fn bern(p: [f64; 4], t: f64) -> f64 {
    let s = 1.0 - t;
    s * s * s * p[0] + 3.0 * s * s * t * p[1] + 3.0 * s * t * t * p[2] + t * t * t * p[3]
}
fn dbern(p: [f64; 4], t: f64) -> f64 {
    let s = 1.0 - t;
    3.0 * (s * s * (p[1] - p[0]) + 2.0 * s * t * (p[2] - p[1]) + t * t * (p[3] - p[2]))
}
fn ord(x: f32) -> i64 {
    let b = x.to_bits();
    if b & 0x8000_0000 != 0 {
        -((b & 0x7fff_ffff) as i64)
    } else {
        b as i64
    }
}
fn ulps(a: f32, b: f32) -> i64 {
    (ord(a) - ord(b)).abs()
}
fn comp_scale(pts: &[[f32; 3]], k: usize) -> f64 {
    pts.iter().fold(0.0f64, |m, p| m.max((p[k] as f64).abs()))
}
fn is_constant(pts: &[[f32; 3]], n: usize) -> bool {
    pts.iter().all(|p| (0..n).all(|k| p[k] == pts[0][k]))
}

fn t_class(t: f32) -> &'static str {
    if t.is_nan() {
        "t:NaN"
    } else if t.is_infinite() {
        "t:+-inf"
    } else if t < 0.0 {
        "t:<0"
    } else if t == 0.0 {
        "t:==0"
    } else if t == 1.0 {
        "t:==1"
    } else if t > 1.0 {
        "t:>1"
    } else if t < 1e-6 {
        "t:(0,1e-6)"
    } else if t > 1.0 - 1e-6 {
        "t:(1-1e-6,1)"
    } else {
        "t:interior"
    }
}

// ---------------------------------------------------------------- generators

#[derive(Clone, Debug, Serialize, Deserialize)]
pub struct BezCase {
    pub ty: String,
    pub shape: String,
    pub p: [[X; 3]; 4],
    pub t: X,
}

#[derive(Clone, Debug, Serialize, Deserialize)]
pub struct SplCase {
    pub ty: String,
    pub shape: String,
    /// 3n + 1 control points
    pub pts: Vec<[X; 3]>,
    pub t: X,
}

#[derive(Clone, Debug, Serialize, Deserialize, PartialEq)]
pub enum Halt {
    Always,
    Never,
    /// |err|^2 < thr^2 (what the crate's doc example and demo pass)
    LenSqrBelow(X),
    /// max |err_k| < thr
    MaxAbsBelow(X),
    /// true on every n-th call (independent of the error: exercises mixed depths)
    EveryNth(u32),
    /// verdict of call i is bit (i mod 64)
    Bits(u64),
}

impl Halt {
    fn verdict(&self, call: usize, e: &[f32; 3], n: usize) -> bool {
        match self {
            Halt::Always => true,
            Halt::Never => false,
            Halt::LenSqrBelow(thr) => {
                let mut s = 0.0f32;
                for k in 0..n {
                    s += e[k] * e[k];
                }
                s < thr.0 * thr.0
            }
            Halt::MaxAbsBelow(thr) => (0..n).all(|k| e[k].abs() < thr.0),
            Halt::EveryNth(m) => (call + 1) % (*m).max(1) as usize == 0,
            Halt::Bits(b) => (b >> (call % 64)) & 1 == 1,
        }
    }
    fn class(&self) -> &'static str {
        match self {
            Halt::Always => "halt:always",
            Halt::Never => "halt:never",
            Halt::LenSqrBelow(_) => "halt:len_sqr<thr^2",
            Halt::MaxAbsBelow(_) => "halt:max_abs<thr",
            Halt::EveryNth(_) => "halt:every-nth-call",
            Halt::Bits(_) => "halt:bit-pattern",
        }
    }
}

#[derive(Clone, Debug, Serialize, Deserialize)]
pub struct ApxCase {
    pub ty: String,
    pub shape: String,
    pub pts: Vec<[X; 3]>,
    pub halt: Halt,
}

fn coord() -> impl Strategy<Value = f32> {
    prop_oneof![
        8 => -1.0f32..=1.0,
        1 => Just(0.0f32),
        1 => Just(1.0f32),
        1 => Just(-1.0f32),
        1 => (-8i32..=8).prop_map(|i| i as f32 / 8.0),
    ]
}

#[derive(Clone, Debug)]
struct RawPoly {
    tyi: usize,
    segs: usize,
    shape: usize,
    mexp: f32,
    /// 3 * max_segs + 1 raw points
    raw: Vec<[f32; 3]>,
    mask: u32,
    exb: u64,
}

fn raw_poly(min_segs: usize, max_segs: usize) -> impl Strategy<Value = RawPoly> {
    let ty = prop_oneof![3 => Just(0usize), 2 => Just(1usize), 2 => Just(2usize), 2 => Just(3usize), 2 => Just(4usize), 2 => Just(5usize)];
    let shape = prop_oneof![
        8 => Just(0usize),
        4 => Just(1usize),
        2 => Just(2usize),
        1 => Just(3usize),
        2 => Just(4usize),
        2 => Just(5usize),
        2 => Just(6usize),
        2 => Just(7usize),
    ];
    (ty, min_segs..=max_segs, shape, -3.0f32..3.0, proptest::collection::vec(proptest::array::uniform3(coord()), 3 * max_segs + 1), any::<u32>(), any::<u64>())
        .prop_map(|(tyi, segs, shape, mexp, raw, mask, exb)| RawPoly { tyi, segs, shape, mexp, raw, mask, exb })
}

fn build_poly(r: &RawPoly) -> (String, String, Vec<[f32; 3]>) {
    let n = ncomp(TYPES[r.tyi]);
    let len = 3 * r.segs + 1;
    let m = 10f32.powf(r.mexp);
    let raw = &r.raw;
    let mut p: Vec<[f32; 3]> = raw[..len].to_vec();
    match r.shape {
        0 => p.iter_mut().for_each(|q| *q = q.map(|c| c * m)),
        1 => {
            for (i, q) in p.iter_mut().enumerate() {
                for k in 0..3 {
                    let e = (splitmix(r.exb ^ (i * 3 + k) as u64) % 7) as i32 - 3;
                    q[k] *= 10f32.powi(e);
                }
            }
        }
        2 => {
            p.iter_mut().for_each(|q| *q = q.map(|c| c * m));
            for i in 1..len {
                if (r.mask >> (i % 32)) & 1 == 1 {
                    p[i] = p[i - 1];
                }
            }
        }
        3 => {
            let b = raw[0].map(|c| c * m);
            p.iter_mut().for_each(|q| *q = b);
        }
        4 => {
            let base = raw[0].map(|c| c * m);
            let dir = raw[1].map(|c| c * m);
            for (i, q) in p.iter_mut().enumerate() {
                let s = raw[i][0];
                *q = [base[0] + dir[0] * s, base[1] + dir[1] * s, base[2] + dir[2] * s];
            }
        }
        5 => {
            let base = raw[0].map(|c| (0.5 + c.abs() * 0.5).copysign(c) * m);
            for (i, q) in p.iter_mut().enumerate() {
                *q = [base[0] + raw[i][0] * m * 1e-3, base[1] + raw[i][1] * m * 1e-3, base[2] + raw[i][2] * m * 1e-3];
            }
        }
        6 => p.iter_mut().for_each(|q| *q = q.map(|c| (c * 8.0).round())),
        _ => p.iter_mut().for_each(|q| *q = q.map(|c| c.abs())),
    }
    for q in p.iter_mut() {
        for k in n..3 {
            q[k] = 0.0;
        }
    }
    (TYPES[r.tyi].to_string(), SHAPES[r.shape.min(7)].to_string(), p)
}

fn special_t(i: u8, u: f32) -> f32 {
    const L: [f32; 15] = [0.0, 1.0, -0.0, -1.0, 2.0, -1e-9, 1.000_000_1, 0.999_999_94, 1e-45, 1e-8, 1e30, -1e30, f32::INFINITY, f32::NEG_INFINITY, f32::NAN];
    match i % 17 {
        15 => -10.0 * u - 1e-3,
        16 => 1.0 + 10.0 * u + 1e-3,
        j => L[j as usize],
    }
}

pub fn bez_case() -> BoxedStrategy<BezCase> {
    let t = prop_oneof![
        10 => (0.0f32..1.0),
        2 => (0i32..=16).prop_map(|k| k as f32 / 16.0),
        1 => (1i32..=3).prop_map(|j| nudge(1.0, -j)),
        1 => (1u32..=3).prop_map(f32::from_bits),
        6 => (any::<u8>(), 0.0f32..1.0).prop_map(|(i, u)| special_t(i, u)),
    ];
    (raw_poly(1, 1), t)
        .prop_map(|(r, t)| {
            let (ty, shape, p) = build_poly(&r);
            BezCase { ty, shape, p: [xs(p[0]), xs(p[1]), xs(p[2]), xs(p[3])], t: X(t) }
        })
        .boxed()
}

pub fn spl_case() -> BoxedStrategy<SplCase> {
    let kind = prop_oneof![6 => Just(0u8), 3 => Just(1u8), 5 => Just(2u8), 1 => Just(3u8), 3 => Just(4u8)];
    (raw_poly(1, 8), kind, any::<u16>(), -3i32..=3, 0.0f32..1.0, any::<u8>())
        .prop_map(|(r, kind, kraw, j, u, sp)| {
            let (ty, shape, p) = build_poly(&r);
            let n = r.segs;
            let k = pick_index(kraw, n + 1);
            let tk = k as f32 / n as f32;
            let t = match kind {
                0 => u,
                1 => tk,
                2 => nudge(tk, if j == 0 { 1 } else { j }),
                3 => tk + if j < 0 { -1e-6 } else { 1e-6 },
                _ => special_t(sp, u),
            };
            SplCase { ty, shape, pts: p.into_iter().map(xs).collect(), t: X(t) }
        })
        .boxed()
}

pub fn apx_case() -> BoxedStrategy<ApxCase> {
    let hk = prop_oneof![8 => Just(0u8), 3 => Just(1u8), 2 => Just(2u8), 3 => Just(3u8), 1 => Just(4u8), 1 => Just(5u8)];
    (raw_poly(1, 8), hk, -6.0f32..0.0, 2u32..=7, any::<u64>())
        .prop_map(|(r, hk, hexp, nth, bits)| {
            let (ty, shape, p) = build_poly(&r);
            let mut scale = p.iter().flatten().fold(0.0f32, |m, c| m.max(c.abs()));
            if scale == 0.0 {
                scale = 1.0;
            }
            let thr = 10f32.powf(hexp) * scale;
            let halt = match hk {
                0 => Halt::LenSqrBelow(X(thr)),
                1 => Halt::MaxAbsBelow(X(thr)),
                2 => Halt::EveryNth(nth),
                3 => Halt::Bits(bits),
                4 => Halt::Always,
                _ => Halt::Never,
            };
            ApxCase { ty, shape, pts: p.into_iter().map(xs).collect(), halt }
        })
        .boxed()
}

// ---------------------------------------------------------------- bezier

fn check_bez_t<T: Pt>(c: &BezCase, obs: &mut Obs) -> Check {
    let n = T::N;
    let p: [[f32; 3]; 4] = c.p.map(fs);
    let cb = CubicBezier(p.map(T::make));
    let t = c.t.0;
    let (ev, fe, tg) = match catch(|| (cb.eval(t).comps(), cb.fast_eval(t).comps(), T::dcomps(&cb.tangent(t)))) {
        Ok(r) => r,
        Err(e) => fail!("bezier-panic", "CubicBezier<{}> eval/fast_eval/tangent panicked at t={t:?}: {e}", c.ty),
    };
    obs.class(t_class(t));
    obs.class(type_class(&c.ty));
    obs.class(shape_class(&c.shape));
    if t.is_nan() {
        // only "never panics" is stated for NaN
        return Ok(());
    }
    let tc = (t as f64).clamp(0.0, 1.0);
    for k in 0..n {
        let pk = [p[0][k] as f64, p[1][k] as f64, p[2][k] as f64, p[3][k] as f64];
        let scale = comp_scale(&p, k);
        let sdiv = if scale > 0.0 { scale } else { 1.0 };
        let lo = pk.iter().cloned().fold(f64::MAX, f64::min);
        let hi = pk.iter().cloned().fold(f64::MIN, f64::max);
        if t <= 0.0 {
            ensure!(ev[k] == p[0][k], "end-not-exact", "eval({t:?}) component {k} = {:?}, first control point has {:?}", ev[k], p[0][k]);
            ensure!(fe[k] == p[0][k], "end-not-exact", "fast_eval({t:?}) component {k} = {:?}, first control point has {:?}", fe[k], p[0][k]);
        } else if t >= 1.0 {
            ensure!(ev[k] == p[3][k], "end-not-exact", "eval({t:?}) component {k} = {:?}, last control point has {:?}", ev[k], p[3][k]);
            ensure!(fe[k] == p[3][k], "end-not-exact", "fast_eval({t:?}) component {k} = {:?}, last control point has {:?}", fe[k], p[3][k]);
        } else {
            let r = bern(pk, t as f64);
            let tol = EVAL_REL * scale + ABS;
            let e1 = (ev[k] as f64 - r).abs();
            let e2 = (fe[k] as f64 - r).abs();
            let e3 = (ev[k] as f64 - fe[k] as f64).abs();
            obs.max("bezier: |eval - bernstein| / scale", e1 / sdiv);
            obs.max("bezier: |fast_eval - bernstein| / scale", e2 / sdiv);
            obs.max("bezier: |eval - fast_eval| / scale", e3 / sdiv);
            ensure!(e1 <= tol, "eval-vs-bernstein", "eval({t:?}) component {k} = {:?}, Bernstein form gives {r:.9e} (|diff| {e1:.3e} > {tol:.3e}); control values {pk:?}", ev[k]);
            ensure!(e2 <= tol, "fast_eval-vs-bernstein", "fast_eval({t:?}) component {k} = {:?}, Bernstein form gives {r:.9e} (|diff| {e2:.3e} > {tol:.3e}); control values {pk:?}", fe[k]);
            ensure!(e3 <= tol, "eval-vs-fast_eval", "eval({t:?}) = {:?} but fast_eval = {:?} in component {k} (tolerance {tol:.3e})", ev[k], fe[k]);
            let btol = BBOX_REL * scale + ABS;
            for (name, v) in [("eval", ev[k] as f64), ("fast_eval", fe[k] as f64)] {
                let over = (lo - v).max(v - hi).max(0.0);
                obs.max("bezier: bounding-box overshoot / scale", over / sdiv);
                ensure!(over <= btol, "outside-bounding-box", "{name}({t:?}) component {k} = {v:?} lies outside the control values' range [{lo:?}, {hi:?}] by {over:.3e}");
            }
        }
        let d = dbern(pk, tc);
        let et = (tg[k] as f64 - d).abs();
        obs.max("bezier: |tangent - derivative| / scale", et / sdiv);
        ensure!(
            et <= TAN_REL * scale + ABS,
            "tangent-vs-derivative",
            "tangent({t:?}) component {k} = {:?}, derivative of the Bernstein form at {tc} is {d:.9e} (|diff| {et:.3e}); control values {pk:?}",
            tg[k]
        );
    }
    if t > 0.0 && t < 1.0 {
        // tangent == derivative of the library's own curve: for a cubic the centred difference
        // quotient over [m-d, m+d] equals P'(m) + d^2 * (p3 - p0 + 3 (p1 - p2)) exactly
        let h = 1.0f32 / 64.0;
        let tm = (t - h).max(0.0);
        let tp = (t + h).min(1.0);
        let m = ((tm as f64 + tp as f64) * 0.5) as f32;
        let (em, ep, tgm) = match catch(|| (cb.eval(tm).comps(), cb.eval(tp).comps(), T::dcomps(&cb.tangent(m)))) {
            Ok(r) => r,
            Err(e) => fail!("bezier-panic", "eval/tangent panicked near t={t:?}: {e}"),
        };
        let dt = tp as f64 - tm as f64;
        let half = dt * 0.5;
        for k in 0..n {
            let pk = [p[0][k] as f64, p[1][k] as f64, p[2][k] as f64, p[3][k] as f64];
            let scale = comp_scale(&p, k);
            let sdiv = if scale > 0.0 { scale } else { 1.0 };
            let co3 = pk[3] - pk[0] + 3.0 * (pk[1] - pk[2]);
            let fd = (ep[k] as f64 - em[k] as f64) / dt - half * half * co3;
            let e = (tgm[k] as f64 - fd).abs();
            obs.max("bezier: |tangent - finite difference of eval| / scale", e / sdiv);
            ensure!(
                e <= FD_REL * scale + ABS,
                "tangent-vs-finite-difference",
                "tangent({m:?}) component {k} = {:?} but (eval({tp:?}) - eval({tm:?})) / {dt} corrected for the cubic term gives {fd:.9e} (|diff| {e:.3e})",
                tgm[k]
            );
        }
        if !is_constant(&p, n) {
            obs.nontrivial(hash_of(&(&c.ty, &c.p, &c.t)));
            if obs.wants_sample() {
                let cc = c.clone();
                obs.sample(|| json!({"case": cc, "eval": ev[..n].to_vec(), "fast_eval": fe[..n].to_vec(), "tangent": tg[..n].to_vec()}));
            }
        }
    }
    Ok(())
}

pub fn check_bez(c: &BezCase, obs: &mut Obs) -> Check {
    dispatch!(c.ty.as_str(), check_bez_t(c, obs))
}

// ---------------------------------------------------------------- spline evaluation

fn seg_comp(pts: &[[f32; 3]], seg: usize, k: usize) -> [f64; 4] {
    [pts[3 * seg][k] as f64, pts[3 * seg + 1][k] as f64, pts[3 * seg + 2][k] as f64, pts[3 * seg + 3][k] as f64]
}

fn check_spl_t<T: Pt>(c: &SplCase, obs: &mut Obs) -> Check {
    let nc = T::N;
    let pts: Vec<[f32; 3]> = c.pts.iter().map(|p| fs(*p)).collect();
    ensure!(pts.len() >= 4 && pts.len() % 3 == 1 && pts.len() <= 25, "bad-case", "control point count {} is not 3n+1 with 1 <= n <= 8", pts.len());
    let n = (pts.len() - 1) / 3;
    let last = pts.len() - 1;
    let t = c.t.0;
    let tpts: Vec<T> = pts.iter().map(|p| T::make(*p)).collect();
    let s = match catch(|| BezierSpline::new(&tpts)) {
        Ok(s) => s,
        Err(e) => fail!("spline-panic", "BezierSpline::new panicked on {} points: {e}", pts.len()),
    };
    let (ev, tg) = match catch(|| (s.eval(t).comps(), T::dcomps(&s.tangent(t)))) {
        Ok(r) => r,
        Err(e) => fail!("spline-panic", "BezierSpline<{}> ({n} segments) eval/tangent panicked at t={t:?}: {e}", c.ty),
    };
    obs.class(t_class(t));
    obs.class(type_class(&c.ty));
    obs.class(shape_class(&c.shape));
    obs.class(SEGS_CLASS[n]);
    if t.is_nan() {
        return Ok(());
    }
    let scales: [f64; 3] = [comp_scale(&pts, 0), comp_scale(&pts, 1), comp_scale(&pts, 2)];
    let x = t as f64 * n as f64;
    let interior_t = t > 0.0 && t < 1.0;
    if t <= 0.0 {
        for k in 0..nc {
            ensure!(ev[k] == pts[0][k], "end-not-exact", "spline eval({t:?}) component {k} = {:?}, first control point has {:?}", ev[k], pts[0][k]);
        }
    } else if t >= 1.0 {
        for k in 0..nc {
            ensure!(ev[k] == pts[last][k], "end-not-exact", "spline eval({t:?}) component {k} = {:?}, last control point has {:?}", ev[k], pts[last][k]);
        }
    } else {
        let seg = (x.floor() as usize).min(n - 1);
        let u = x - seg as f64;
        for k in 0..nc {
            let r = bern(seg_comp(&pts, seg, k), u);
            let e = (ev[k] as f64 - r).abs();
            let sdiv = if scales[k] > 0.0 { scales[k] } else { 1.0 };
            obs.max("spline: |eval - cubic of the segment| / scale", e / sdiv);
            ensure!(
                e <= SPL_REL * scales[k] + ABS,
                "spline-vs-segment-cubic",
                "{n}-segment spline eval({t:?}) component {k} = {:?}; segment {seg} at local parameter {u:.9} gives {r:.9e} (|diff| {e:.3e})",
                ev[k]
            );
        }
    }
    // joins
    let kj = x.round();
    let mut near_join = false;
    if interior_t && kj >= 0.0 && kj <= n as f64 {
        let kj = kj as usize;
        let tk = kj as f32 / n as f32;
        let d = ulps(t, tk);
        if d <= 3 || (t as f64 - kj as f64 / n as f64).abs() <= 2e-6 {
            obs.class(if d == 0 { "join:exactly k/n" } else if d <= 3 { "join:k/n +-1..3 ulp" } else { "join:k/n +-1e-6" });
            let off = (t as f64 - kj as f64 / n as f64).abs();
            for k in 0..nc {
                let sdiv = if scales[k] > 0.0 { scales[k] } else { 1.0 };
                // |P'| <= 3 * max |difference of adjacent control values| <= 6 * scale per unit of local parameter
                let tol = SPL_REL * scales[k] + off * n as f64 * 6.0 * scales[k] + ABS;
                let e = (ev[k] as f64 - pts[3 * kj][k] as f64).abs();
                obs.max("spline: |eval(~k/n) - P[3k]| / scale", e / sdiv);
                ensure!(
                    e <= tol,
                    "join-not-through-control-point",
                    "{n}-segment spline eval({t:?}) component {k} = {:?}, {off:.2e} from the join {kj}/{n} whose control point has {:?} (|diff| {e:.3e} > {tol:.3e})",
                    ev[k],
                    pts[3 * kj][k]
                );
            }
            if kj >= 1 && kj < n {
                near_join = d <= 2;
                for j in 1..=3 {
                    let ta = nudge(tk, -j);
                    let tb = nudge(tk, j);
                    let (a, b) = match catch(|| (s.eval(ta).comps(), s.eval(tb).comps())) {
                        Ok(r) => r,
                        Err(e) => fail!("spline-panic", "spline eval panicked next to the join {kj}/{n}: {e}"),
                    };
                    let delta = tb as f64 - ta as f64;
                    for k in 0..nc {
                        let bound = delta * n as f64 * 6.0 * scales[k] + SPL_REL * scales[k] + ABS;
                        let e = (a[k] as f64 - b[k] as f64).abs();
                        obs.max("spline: jump across a join / bound", e / bound);
                        ensure!(
                            e <= bound,
                            "discontinuity-at-join",
                            "{n}-segment spline jumps by {e:.3e} in component {k} between t={ta:?} and t={tb:?} ({j} ulp either side of the join {kj}/{n}); bound {bound:.3e}"
                        );
                    }
                }
            }
        }
    }
    // tangent: derivative of the selected segment w.r.t. its local parameter (what the code
    // returns) — or n times that (derivative w.r.t. the spline's own parameter), both readings of
    // "the tangent of self at t" are accepted. On a join either neighbouring segment is accepted.
    let mut cands: Vec<(usize, f64)> = vec![];
    if t <= 0.0 {
        cands.push((0, 0.0));
    } else if t >= 1.0 {
        cands.push((n - 1, 1.0));
    } else {
        let seg = (x.floor() as usize).min(n - 1);
        cands.push((seg, (x - seg as f64).clamp(0.0, 1.0)));
        let kr = x.round();
        if (x - kr).abs() <= 1e-5 && kr >= 1.0 && (kr as usize) < n {
            let kr = kr as usize;
            cands.push((kr - 1, 1.0));
            cands.push((kr, 0.0));
        }
    }
    let mut best = f64::MAX;
    let mut best_desc = String::new();
    let mut ok = false;
    for mult in [1.0, n as f64] {
        for &(seg, u) in &cands {
            let mut worst = 0.0f64;
            let mut all = true;
            for k in 0..nc {
                let d = dbern(seg_comp(&pts, seg, k), u) * mult;
                let e = (tg[k] as f64 - d).abs();
                let sdiv = if scales[k] > 0.0 { scales[k] } else { 1.0 };
                worst = worst.max(e / (sdiv * mult));
                if e > (SPL_TAN_REL * scales[k]) * mult + ABS {
                    all = false;
                }
            }
            if worst < best {
                best = worst;
                best_desc = format!("segment {seg} at local parameter {u:.7}, scaled by {mult}");
            }
            if all && !ok {
                ok = true;
                if n > 1 {
                    obs.class(if mult == 1.0 { "spline-tangent: derivative w.r.t. local parameter" } else { "spline-tangent: derivative w.r.t. global parameter" });
                }
            }
        }
    }
    obs.max("spline: |tangent - derivative of the segment| / scale", best);
    ensure!(
        ok,
        "spline-tangent-vs-derivative",
        "{n}-segment spline tangent({t:?}) = {:?} matches the derivative of no admissible segment; closest: {best_desc}, relative error {best:.3e}",
        &tg[..nc]
    );
    if near_join && !is_constant(&pts, nc) {
        obs.nontrivial(hash_of(&(&c.ty, &c.pts, &c.t)));
        if obs.wants_sample() {
            let cc = c.clone();
            obs.sample(|| json!({"case": cc, "eval": ev[..nc].to_vec(), "tangent": tg[..nc].to_vec()}));
        }
    }
    Ok(())
}

pub fn check_spl(c: &SplCase, obs: &mut Obs) -> Check {
    dispatch!(c.ty.as_str(), check_spl_t(c, obs))
}

/// joins sub-check: index -> (type, n, k, ulp offset) combination + seeded polygon
fn join_combos() -> Vec<(usize, usize, usize, i32)> {
    let mut v = vec![];
    for ty in 0..6 {
        for n in 1..=8usize {
            for k in 0..=n {
                for j in -3..=3 {
                    v.push((ty, n, k, j));
                }
            }
        }
    }
    v
}

fn join_case(combos: &[(usize, usize, usize, i32)], seed: u64, i: u64) -> SplCase {
    let (tyi, n, k, j) = combos[(i % combos.len() as u64) as usize];
    let mut sm = Sm(derive_seed(seed, "C17", "joins", i));
    let shape = match sm.below(10) {
        0..=5 => 0,
        6 => 1,
        7 => 2,
        8 => 5,
        _ => 6,
    };
    let mut raw = vec![[0.0f32; 3]; 3 * n + 1];
    for q in raw.iter_mut() {
        for c in q.iter_mut() {
            *c = sm.range(-1.0, 1.0) as f32;
        }
    }
    let r = RawPoly { tyi, segs: n, shape, mexp: sm.range(-3.0, 3.0) as f32, raw, mask: sm.next() as u32, exb: sm.next() };
    let (ty, shape, p) = build_poly(&r);
    let t = nudge(k as f32 / n as f32, j);
    SplCase { ty, shape, pts: p.into_iter().map(xs).collect(), t: X(t) }
}

// ---------------------------------------------------------------- ends, for control polygons at the limits of f32

/// "Return the first/last control point at and beyond the ends" and "the polyline starts and ends exactly at the
/// curve's endpoints" do not depend on the interior being computable: they must hold for control points whose
/// differences overflow f32 (or that are infinite), where every interior value is inf or NaN.
#[derive(Clone, Debug, Serialize, Deserialize)]
pub struct ExtCase {
    pub ty: String,
    /// 3n+1 points, n in 1..=4
    pub pts: Vec<[X; 3]>,
    pub t: X,
}

fn ext_coord() -> impl Strategy<Value = f32> {
    prop_oneof![
        2 => Just(f32::MAX),
        2 => Just(f32::MIN),
        3 => (1.0f32..3.4).prop_map(|m| m * 1e38),
        3 => (1.0f32..3.4).prop_map(|m| -m * 1e38),
        2 => signed(log_uniform(20.0, 38.0)),
        2 => -1.0f32..1.0,
        1 => Just(0.0f32),
        1 => Just(f32::INFINITY),
        1 => Just(f32::NEG_INFINITY),
        1 => signed(log_uniform(-44.0, -30.0)),
    ]
}

pub fn ext_case() -> BoxedStrategy<ExtCase> {
    let ty = proptest::sample::select(TYPES.to_vec());
    let t = prop_oneof![
        4 => Just(0.0f32),
        2 => Just(-0.0f32),
        4 => Just(1.0f32),
        2 => (0.0f32..10.0).prop_map(|u| -u - 1e-6),
        2 => (0.0f32..10.0).prop_map(|u| 1.0 + u + 1e-6),
        1 => Just(nudge(1.0, 1)),
        1 => Just(-1e-45f32),
        1 => prop_oneof![Just(1e30f32), Just(-1e30f32), Just(f32::INFINITY), Just(f32::NEG_INFINITY)],
        // an interior join k/n (replaced below by the exact f32 quotient for the case's segment count)
        5 => (1u32..=3).prop_map(|k| -100.0 - k as f32),
    ];
    (ty, 1usize..=4, proptest::collection::vec(proptest::array::uniform3(ext_coord()), 13), t)
        .prop_map(|(ty, n, raw, t)| {
            let t = if t <= -100.0 {
                let k = ((-t - 100.0) as usize).min(n.saturating_sub(1));
                if k == 0 { 0.0 } else { k as f32 / n as f32 }
            } else {
                t
            };
            let nc = ncomp(ty);
            let pts = raw[..3 * n + 1]
                .iter()
                .map(|q| {
                    let mut q = *q;
                    for k in nc..3 {
                        q[k] = 0.0;
                    }
                    xs(q)
                })
                .collect();
            ExtCase { ty: ty.to_string(), pts, t: X(t) }
        })
        .boxed()
}

fn check_ext_t<T: Pt>(c: &ExtCase, obs: &mut Obs) -> Check {
    let nc = T::N;
    let pts: Vec<[f32; 3]> = c.pts.iter().map(|p| fs(*p)).collect();
    ensure!(pts.len() >= 4 && pts.len() % 3 == 1 && pts.len() <= 13, "bad-case", "control point count {} is not 3n+1 with 1 <= n <= 4", pts.len());
    ensure!(pts.iter().flatten().all(|c| !c.is_nan()), "bad-case", "NaN control coordinate");
    let t = c.t.0;
    let last = pts.len() - 1;
    let n = last / 3;
    // interior parameters are asserted only at joins the spline hits exactly: t * n, computed in f32 as the library's
    // segment selection does, is an integer k in 1..n, so the local parameter of segment k is exactly 0
    let join = if t > 0.0 && t < 1.0 {
        let x = t * n as f32;
        ensure!(x.fract() == 0.0 && x >= 1.0 && (x as usize) < n, "bad-case", "only parameters at or beyond the ends, or exactly at a join, are asserted here");
        Some(x as usize)
    } else {
        None
    };
    let tpts: Vec<T> = pts.iter().map(|p| T::make(*p)).collect();
    let cb = CubicBezier([tpts[0].clone(), tpts[1].clone(), tpts[2].clone(), tpts[3].clone()]);
    let (ev, fe) = match catch(|| (cb.eval(t).comps(), cb.fast_eval(t).comps())) {
        Ok(r) => r,
        Err(e) => fail!("bezier-panic", "CubicBezier<{}> eval/fast_eval panicked at t={t:?}: {e}", c.ty),
    };
    let sp = match catch(|| BezierSpline::new(&tpts)) {
        Ok(s) => s,
        Err(e) => fail!("spline-panic", "BezierSpline::new panicked on {} points: {e}", pts.len()),
    };
    let sv = match catch(|| sp.eval(t).comps()) {
        Ok(r) => r,
        Err(e) => fail!("spline-panic", "BezierSpline<{}> ({n} segments) eval panicked at t={t:?}: {e}", c.ty),
    };
    let same = |a: f32, b: f32| a == b; // +0 and -0 are the same point
    if let Some(j) = join {
        for k in 0..nc {
            ensure!(
                same(sv[k], pts[3 * j][k]),
                "join-not-exact",
                "spline eval({t:?}) component {k} = {:?}: t * {n} is exactly {j}, so the value is control point {} = {:?} whatever the neighbouring control points are ({:?})",
                sv[k], 3 * j, pts[3 * j][k], &pts[3 * j..(3 * j + 4).min(pts.len())]
            );
        }
        obs.class(type_class(&c.ty));
        obs.class(SEGS_CLASS[n]);
        obs.class("ext:t exactly at an interior join");
        obs.nontrivial(hash_of(&(&c.ty, &c.pts, &c.t)));
        return Ok(());
    }
    let (want_b, want_s, which) = if t <= 0.0 { (pts[0], pts[0], "first") } else { (pts[3], pts[last], "last") };
    for k in 0..nc {
        ensure!(same(ev[k], want_b[k]), "end-not-exact", "eval({t:?}) component {k} = {:?}, the {which} control point has {:?}; control values {:?}", ev[k], want_b[k], &pts[..4]);
        ensure!(same(fe[k], want_b[k]), "end-not-exact", "fast_eval({t:?}) component {k} = {:?}, the {which} control point has {:?}; control values {:?}", fe[k], want_b[k], &pts[..4]);
        ensure!(same(sv[k], want_s[k]), "end-not-exact", "spline eval({t:?}) component {k} = {:?}, the {which} control point has {:?} ({n} segments)", sv[k], want_s[k]);
    }
    // polyline: halt at once (one piece) — its two vertices are the curve's end points
    let out = match catch(|| sp.approximate(|_| true)) {
        Ok(o) => o,
        Err(e) => fail!("approximate-panic", "approximate(|_| true) panicked: {e}"),
    };
    ensure!(out.len() >= 2, "approx-too-short", "approximate() returned {} points", out.len());
    let (a, b) = (out[0].comps(), out[out.len() - 1].comps());
    for k in 0..nc {
        ensure!(same(a[k], pts[0][k]), "approx-endpoint", "approximate(): first vertex component {k} = {:?}, the curve starts at {:?}", a[k], pts[0][k]);
        ensure!(same(b[k], pts[last][k]), "approx-endpoint", "approximate(): last vertex component {k} = {:?}, the curve ends at {:?}", b[k], pts[last][k]);
    }
    obs.class(type_class(&c.ty));
    obs.class(SEGS_CLASS[n]);
    obs.class(if t <= 0.0 { "ext:t at or before the start" } else { "ext:t at or after the end" });
    let overflow = (0..nc).any(|k| (0..last).any(|i| !((pts[i + 1][k] as f64 - pts[i][k] as f64).abs() <= f32::MAX as f64)));
    if overflow {
        obs.class("ext:a control-point difference overflows f32 or is infinite");
        obs.nontrivial(hash_of(&(&c.ty, &c.pts, &c.t)));
    }
    if obs.wants_sample() && overflow {
        let cc = c.clone();
        obs.sample(|| json!({"case": cc}));
    }
    Ok(())
}

pub fn check_ext(c: &ExtCase, obs: &mut Obs) -> Check {
    dispatch!(c.ty.as_str(), check_ext_t(c, obs))
}

// ---------------------------------------------------------------- relative accuracy just after the start point

/// A curve that starts at the origin is evaluated, just after t = 0, to the *relative* accuracy of f32: the value is
/// 3 t p1 + O(t^2) and nothing of magnitude |p_i| is ever added to it (De Casteljau: t (t (..)) products only; power
/// form: a0 = 0). A polygon-scaled tolerance cannot see an evaluator that returns the start point for all tiny t.
#[derive(Clone, Debug, Serialize, Deserialize)]
pub struct StartCase {
    pub ty: String,
    /// p1, p2, p3 (p0 is the origin)
    pub p: [[X; 3]; 3],
    pub t: X,
}

pub fn start_case() -> BoxedStrategy<StartCase> {
    let ty = proptest::sample::select(TYPES.to_vec());
    let mag = prop_oneof![2 => Just(1.0f32), 3 => log_uniform(-3.0, 3.0)];
    let t = prop_oneof![
        6 => log_uniform(-30.0, -3.0),
        2 => log_uniform(-8.5, -6.0),
        1 => prop_oneof![Just(f32::EPSILON), Just(f32::EPSILON / 2.0), Just(nudge(f32::EPSILON, -1)), Just(1e-7f32), Just(6e-8f32), Just(f32::MIN_POSITIVE), Just(1e-38f32)],
    ];
    (ty, proptest::array::uniform3(proptest::array::uniform3(coord())), mag, t)
        .prop_map(|(ty, p, m, t)| {
            let nc = ncomp(ty);
            let p = p.map(|q| {
                let mut q = q.map(|c| c * m);
                for k in nc..3 {
                    q[k] = 0.0;
                }
                xs(q)
            });
            StartCase { ty: ty.to_string(), p, t: X(t) }
        })
        .boxed()
}

fn check_start_t<T: Pt>(c: &StartCase, obs: &mut Obs) -> Check {
    let nc = T::N;
    let t = c.t.0;
    ensure!(t > 0.0 && t < 1e-2, "bad-case", "t must be a small positive parameter");
    let p: [[f32; 3]; 4] = [[0.0; 3], fs(c.p[0]), fs(c.p[1]), fs(c.p[2])];
    let cb = CubicBezier(p.map(T::make));
    let sp = BezierSpline::new(&p.map(T::make));
    let (ev, fe, sv) = match catch(|| (cb.eval(t).comps(), cb.fast_eval(t).comps(), sp.eval(t).comps())) {
        Ok(r) => r,
        Err(e) => fail!("bezier-panic", "eval/fast_eval panicked at t={t:?}: {e}"),
    };
    let scale = p.iter().flatten().fold(0.0f64, |m, v| m.max(v.abs() as f64));
    for k in 0..nc {
        let pk = [0.0, p[1][k] as f64, p[2][k] as f64, p[3][k] as f64];
        let want = bern(pk, t as f64);
        // relative to the value itself, plus the second-order terms' own rounding (t^2 scale), plus the subnormal floor
        let tol = START_REL * (want.abs() + (t as f64) * (t as f64) * scale) + 8.0 * f32::MIN_POSITIVE as f64;
        for (name, got) in [("eval", ev[k]), ("fast_eval", fe[k]), ("spline eval", sv[k])] {
            let e = (got as f64 - want).abs();
            if want.abs() > 1e-30 {
                obs.max("start: |value - bernstein| / (|bernstein| + t^2 scale)  (bound 4e-6; values above 1e-30)", e / (want.abs() + (t as f64) * (t as f64) * scale));
            }
            ensure!(
                e <= tol,
                "start-offset-lost",
                "{name}({t:e}) component {k} = {got:e} on a curve starting at the origin; the Bernstein form gives {want:e} (relative error {:.3e})",
                e / want.abs().max(1e-300)
            );
        }
    }
    obs.class(type_class(&c.ty));
    obs.class(if t < f32::EPSILON { "start:t < f32::EPSILON" } else if t < 1e-5 { "start:t in [EPSILON, 1e-5)" } else { "start:t >= 1e-5" });
    if scale > 0.0 {
        obs.nontrivial(hash_of(&(&c.ty, &c.p, &c.t)));
    }
    Ok(())
}

pub fn check_start(c: &StartCase, obs: &mut Obs) -> Check {
    dispatch!(c.ty.as_str(), check_start_t(c, obs))
}

const START_REL: f64 = 4e-6;

// ---------------------------------------------------------------- approximate

type Log = Vec<([f32; 3], bool)>;

fn run_approx<T: Pt>(pts: &[[f32; 3]], halt: &Halt) -> Result<(Vec<[f32; 3]>, Log), String> {
    let tpts: Vec<T> = pts.iter().map(|p| T::make(*p)).collect();
    let body = || {
        let log: RefCell<Log> = RefCell::new(Vec::new());
        let r = catch(|| {
            let s = BezierSpline::new(&tpts);
            s.approximate(|e| {
                let ec = T::dcomps(e);
                let call = log.borrow().len();
                if call >= HALT_CALL_CAP {
                    panic!("halt-call-cap");
                }
                let v = halt.verdict(call, &ec, T::N);
                log.borrow_mut().push((ec, v));
                v
            })
        });
        r.map(|out| (out.iter().map(|p| p.comps()).collect::<Vec<_>>(), log.into_inner()))
    };
    // a dedicated thread with a large (lazily committed) stack, so that an unbounded recursion
    // reaches HALT_CALL_CAP and is reported instead of overflowing the stack of the process
    for stack in [APPROX_STACK, APPROX_STACK / 4, APPROX_STACK / 16] {
        let r = std::thread::scope(|sc| match std::thread::Builder::new().stack_size(stack).spawn_scoped(sc, &body) {
            Ok(h) => Some(h.join().unwrap_or_else(|_| Err("approximate thread died".into()))),
            Err(_) => None,
        });
        if let Some(r) = r {
            return r;
        }
    }
    eprintln!("HARNESS-ERROR C17/approximate: cannot spawn a thread with a {} MiB stack", APPROX_STACK >> 24);
    std::process::exit(2);
}

#[derive(Clone, Debug)]
struct Node {
    a: f64,
    b: f64,
    depth: u32,
    /// index of the log entry consumed at this node
    log: Option<usize>,
    leaf: bool,
}

/// Pre-order bisection of [0, 1] driven by the logged verdicts, with depth bound `bound`.
/// `consult` = the implementation also calls `halt` on nodes at the bound (and ignores the answer).
/// Returns false if the log or the number of leaves does not fit. With `nodes` = None only the
/// fit is decided (no allocation); otherwise the visited nodes are appended in pre-order.
fn simulate(verdicts: &Log, bound: u32, consult: bool, want_leaves: usize, mut nodes: Option<&mut Vec<Node>>) -> bool {
    let mut stack: Vec<(f64, f64, u32)> = Vec::with_capacity(64);
    stack.push((0.0, 1.0, 0));
    let mut idx = 0usize;
    let mut leaves = 0usize;
    while let Some((a, b, depth)) = stack.pop() {
        let at_bound = depth == bound;
        let mut entry = None;
        if !at_bound || consult {
            if idx >= verdicts.len() {
                return false;
            }
            entry = Some(idx);
            idx += 1;
        }
        let leaf = at_bound || verdicts[entry.unwrap()].1;
        if let Some(n) = nodes.as_deref_mut() {
            n.push(Node { a, b, depth, log: entry, leaf });
        }
        if leaf {
            leaves += 1;
            if leaves > want_leaves {
                return false;
            }
        } else {
            let mid = 0.5 * (a + b);
            stack.push((mid, b, depth + 1));
            stack.push((a, mid, depth + 1));
        }
    }
    idx == verdicts.len() && leaves == want_leaves
}

struct TreeStats {
    pieces: usize,
    min_depth: u32,
    max_depth: u32,
    bound: u32,
    at_bound: usize,
    worst_err: f64,
}

fn verify_tree<T: Pt>(s: &BezierSpline<T>, nodes: &[Node], bound: u32, out: &[[f32; 3]], log: &Log, scales: &[f64; 3]) -> Result<TreeStats, Fail> {
    let nc = T::N;
    let ev = |x: f64| s.eval(x as f32).comps();
    let mut li = 0usize;
    let mut prev = -1.0f64;
    let mut st = TreeStats { pieces: 0, min_depth: u32::MAX, max_depth: 0, bound, at_bound: 0, worst_err: 0.0 };
    for nd in nodes {
        if let Some(i) = nd.log {
            let mid = 0.5 * (nd.a + nd.b);
            let (pa, pb, pm) = (ev(nd.a), ev(nd.b), ev(mid));
            for k in 0..nc {
                let expect = pm[k] as f64 - 0.5 * (pa[k] as f64 + pb[k] as f64);
                let e = (log[i].0[k] as f64 - expect).abs();
                let sdiv = if scales[k] > 0.0 { scales[k] } else { 1.0 };
                st.worst_err = st.worst_err.max(e / sdiv);
                ensure!(
                    e <= ERR_REL * scales[k] + ABS,
                    "halt-argument-not-midpoint-error",
                    "call {i} of halt (piece [{}, {}], depth {}) received {:?} in component {k}, but eval(mid) - (eval(a) + eval(b))/2 = {expect:.9e} (|diff| {e:.3e})",
                    nd.a,
                    nd.b,
                    nd.depth,
                    log[i].0[k]
                );
            }
        }
        if nd.leaf {
            ensure!(nd.a > prev && nd.a == (nd.a as f32) as f64, "parameters-not-increasing-dyadic", "piece start {} after {}", nd.a, prev);
            prev = nd.a;
            let met = nd.log.map_or(false, |i| log[i].1);
            ensure!(met || nd.depth == bound, "piece-neither-accepted-nor-at-bound", "piece [{}, {}] at depth {} was flattened although halt said no and the depth bound is {bound}", nd.a, nd.b, nd.depth);
            let p = ev(nd.a);
            for k in 0..nc {
                ensure!(
                    out[li][k] == p[k],
                    "output-not-curve-point",
                    "output point {li} component {k} = {:?}, but the reconstructed piece {li} starts at t = {} where eval gives {:?}",
                    out[li][k],
                    nd.a,
                    p[k]
                );
            }
            li += 1;
            st.pieces += 1;
            st.min_depth = st.min_depth.min(nd.depth);
            st.max_depth = st.max_depth.max(nd.depth);
            if nd.depth == bound && !met {
                st.at_bound += 1;
            }
        }
    }
    Ok(st)
}

fn check_apx_t<T: Pt>(c: &ApxCase, obs: &mut Obs) -> Check {
    let nc = T::N;
    let pts: Vec<[f32; 3]> = c.pts.iter().map(|p| fs(*p)).collect();
    ensure!(pts.len() >= 4 && pts.len() % 3 == 1 && pts.len() <= 25, "bad-case", "control point count {} is not 3n+1 with 1 <= n <= 8", pts.len());
    let n = (pts.len() - 1) / 3;
    let last = pts.len() - 1;
    let (out, log) = match run_approx::<T>(&pts, &c.halt) {
        Ok(r) => r,
        Err(e) if e.contains("halt-call-cap") => fail!(
            "approximate-does-not-terminate",
            "approximate() on a {n}-segment BezierSpline<{}> called halt more than {HALT_CALL_CAP} times with rule {:?} (the recursion is not bounded)",
            c.ty,
            c.halt
        ),
        Err(e) => fail!("approximate-panic", "approximate() panicked: {e}"),
    };
    obs.class(type_class(&c.ty));
    obs.class(shape_class(&c.shape));
    obs.class(SEGS_CLASS[n]);
    obs.class(c.halt.class());
    obs.class_n("halt-calls-verified", log.len() as u64);
    ensure!(out.len() >= 2, "approx-too-short", "approximate() returned {} points", out.len());
    for k in 0..nc {
        ensure!(out[0][k] == pts[0][k], "approx-first-point", "first output point component {k} = {:?}, first control point has {:?}", out[0][k], pts[0][k]);
        ensure!(
            out[out.len() - 1][k] == pts[last][k],
            "approx-last-point",
            "last output point component {k} = {:?}, last control point has {:?}",
            out[out.len() - 1][k],
            pts[last][k]
        );
    }
    let tpts: Vec<T> = pts.iter().map(|p| T::make(*p)).collect();
    let s = BezierSpline::new(&tpts);
    let scales: [f64; 3] = [comp_scale(&pts, 0), comp_scale(&pts, 1), comp_scale(&pts, 2)];
    let want = out.len() - 1;
    let mut first_fail: Option<Fail> = None;
    let mut stats: Option<TreeStats> = None;
    let mut nodes: Vec<Node> = Vec::new();
    // the anchored bound first: a log that it explains is not attributed to another bound that happens to fit as well
    let anchored = 10 + (c.pts.len() as u32).ilog2();
    'search: for bound in std::iter::once(anchored).chain((0..=MAX_BOUND).filter(|b| *b != anchored)) {
        for consult in [false, true] {
            if simulate(&log, bound, consult, want, None) {
                nodes.clear();
                simulate(&log, bound, consult, want, Some(&mut nodes));
                match verify_tree::<T>(&s, &nodes, bound, &out, &log, &scales) {
                    Ok(st) => {
                        stats = Some(st);
                        break 'search;
                    }
                    Err(f) => {
                        if first_fail.is_none() {
                            first_fail = Some(f);
                        }
                    }
                }
            }
        }
    }
    let st = match stats {
        Some(st) => st,
        None => {
            if let Some(f) = first_fail {
                return Err(f);
            }
            let trues = log.iter().filter(|e| e.1).count();
            fail!(
                "approx-tree-mismatch",
                "no depth bound <= {MAX_BOUND} makes pre-order bisection of [0,1] consume the {} logged halt calls ({trues} accepted) and yield the {} output pieces",
                log.len(),
                want
            );
        }
    };
    obs.max("approximate: |halt argument - midpoint error| / scale", st.worst_err);
    obs.class(DEPTH_CLASS[st.max_depth.min(24) as usize]);
    obs.class(match st.pieces {
        1 => "pieces:1",
        2 => "pieces:2",
        3..=16 => "pieces:3..16",
        17..=256 => "pieces:17..256",
        257..=4095 => "pieces:257..4095",
        _ => "pieces:>=4096",
    });
    if st.at_bound > 0 {
        // the property's anchor names the bound: "recursive bisection with depth bound 10+log2(len)", len = number of
        // control points (floor of the logarithm, as the source computes it)
        let len = c.pts.len() as u32;
        let want = 10 + len.ilog2();
        ensure!(
            st.bound == want,
            "depth-bound-differs-from-10+log2(len)",
            "a piece that did not meet the criterion was flattened at depth {} on a spline of {len} control points; the depth bound is 10 + floor(log2({len})) = {want}",
            st.bound
        );
        obs.class("some piece stopped by the depth bound");
        obs.class(match st.bound {
            12 => "depth-bound-observed:12",
            13 => "depth-bound-observed:13",
            14 => "depth-bound-observed:14",
            _ => "depth-bound-observed:other",
        });
    }
    if st.pieces >= 3 && st.min_depth != st.max_depth {
        obs.class("mixed depths");
        obs.nontrivial(hash_of(&(&c.ty, &c.pts, format!("{:?}", c.halt))));
        if obs.wants_sample() && st.pieces <= 40 {
            let cc = c.clone();
            obs.sample(|| json!({"case": cc, "pieces": st.pieces, "min_depth": st.min_depth, "max_depth": st.max_depth, "halt_calls": log.len()}));
        }
    }
    Ok(())
}

pub fn check_apx(c: &ApxCase, obs: &mut Obs) -> Check {
    dispatch!(c.ty.as_str(), check_apx_t(c, obs))
}

// ---------------------------------------------------------------- driver

pub fn run(cx: &mut Ctx) {
    cx.assume("control coordinates are finite with magnitude in [~1e-9, 1e3]; tolerances are relative to the largest |control coordinate| of the same component (all operations are component-wise)");
    cx.assume("for NaN parameters only 'does not panic' is asserted; +-inf count as beyond the ends");
    cx.assume("spline tangent: the derivative of the selected segment w.r.t. its local parameter or w.r.t. the spline parameter (x n) are both accepted; at a join either neighbouring segment");
    cx.assume("approximate: the tree is reconstructed with the depth bound as an unknown (<= 24), and whenever a piece that did not meet the criterion was flattened the bound found must be 10 + floor(log2(number of control points)) (named in the property's anchor); halt may or may not be consulted at the bound; the halt argument is eval(mid) - midpoint of the chord, as documented");
    cx.extra.insert(
        "tolerances_relative_to_scale".into(),
        json!({"eval": EVAL_REL, "bbox": BBOX_REL, "tangent": TAN_REL, "tangent_vs_finite_difference": FD_REL, "spline_eval": SPL_REL, "spline_tangent": SPL_TAN_REL, "halt_argument": ERR_REL}),
    );
    let n = cx.n(300_000, 20_000_000);
    cx.prop_check("bezier", n, bez_case, |c, obs| check_bez(c, obs));
    let n = cx.n(200_000, 15_000_000);
    cx.prop_check("spline", n, spl_case, |c, obs| check_spl(c, obs));
    let combos = join_combos();
    let reps = cx.n(60, 1500);
    let seed = cx.seed;
    cx.enum_check("joins", combos.len() as u64 * reps, false, |i, obs| {
        let c = join_case(&combos, seed, i);
        match check_spl(&c, obs) {
            Ok(()) => Ok(()),
            Err(f) => Err((c, f)),
        }
    });
    let n = cx.n(8_000, 500_000);
    cx.prop_check("approximate", n, apx_case, |c, obs| check_apx(c, obs));
    cx.assume("ends-extreme: control coordinates up to f32::MAX and +-inf (no NaN): only the exact-end clauses are asserted there (eval/fast_eval/spline eval at t <= 0 and t >= 1, first and last vertex of approximate), since every interior value overflows");
    let n = cx.n(100_000, 4_000_000);
    cx.prop_check("ends-extreme", n, ext_case, |c, obs| check_ext(c, obs));
    cx.assume("start-relative: for a curve whose first control point is the origin, eval / fast_eval / spline eval at 0 < t < 1e-2 agree with the Bernstein form to 4e-6 relative to the value (plus t^2 * scale and the subnormal floor)");
    let n = cx.n(200_000, 6_000_000);
    cx.prop_check("start-relative", n, start_case, |c, obs| check_start(c, obs));
}

pub fn replay(sub: &str, case: &Value) -> Check {
    let mut obs = Obs::new();
    obs.freeze();
    let bad = |e: serde_json::Error| Fail::new("bad-replay", e.to_string());
    match sub {
        "bezier" => check_bez(&serde_json::from_value::<BezCase>(case.clone()).map_err(bad)?, &mut obs),
        "spline" | "joins" => check_spl(&serde_json::from_value::<SplCase>(case.clone()).map_err(bad)?, &mut obs),
        "start-relative" => check_start(&serde_json::from_value::<StartCase>(case.clone()).map_err(bad)?, &mut obs),
        "ends-extreme" => check_ext(&serde_json::from_value::<ExtCase>(case.clone()).map_err(bad)?, &mut obs),
        "approximate" => check_apx(&serde_json::from_value::<ApxCase>(case.clone()).map_err(bad)?, &mut obs),
        _ => Err(Fail::new("bad-replay", format!("unknown subcheck {sub}"))),
    }
}
