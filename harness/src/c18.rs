//! C18 — angles convert, wrap and change coordinates consistently.
//!
//! Sub-checks (all against f64 references computed here, never against the
//! crate's own conversions):
//!   constants        Angle::{ZERO, RIGHT, STRAIGHT, FULL} are 0/90/180/360 degrees
//!   convert          unit constructor x unit getter (all 9 pairs) vs the f64 unit ratio
//!   wrap             range and congruence of Angle::wrap on generated angles/intervals
//!   wrap-lattice     the same predicate on every k/24 turn x unit x named interval
//!   ops              clamp/min/max/+/-/neg/*//% vs the f32 operation on to_rads() (bit-exact)
//!                    and vs the f64 operation in the constructor's unit
//!   trig             sin_cos == (sin, cos) bit for bit, sin^2+cos^2 = 1, sin/cos vs f64
//!   cart-polar       v -> to_polar -> to_cart: r = |v|, az range and convention, inverse
//!   polar-cart       p -> to_cart -> to_polar: documented formula, inverse modulo the period
//!   cart-spherical   v -> to_spherical -> to_cart: r, az/alt range and convention, inverse
//!   spherical-cart   s -> to_cart -> to_spherical: formula fixed by the unit tests, inverse
//!   vec2-lattice / vec3-lattice   the two cart-* predicates on every vector with
//!                    components from a fixed set of signed zeros, tiny, unit and large values

use crate::common::fl::*;
use crate::common::*;
use proptest::prelude::*;
use re::math::{degs, polar, rads, spherical, turns, vec2, vec3, Affine, Angle, Linear, PolarVec, SphericalVec, Vec2, Vec3};
use serde::{Deserialize, Serialize};
use serde_json::{json, Value};
use std::f64::consts::{PI as PI64, TAU as TAU64};

pub const RULE: &str = "proptest class mixtures. Angles are drawn in a unit (rad/deg/turn) as turns x unit size: signed 10^U(-7,3.5) turns, exact k/24 turn for |k|<=2400 \
(also nudged by up to 3 ulp), uniform +-2 turns, +-0, and 10^U(3.5,7) turns. Wrap intervals: lower bound {0, -1/2 turn, uniform +-2 turns, signed 10^U(-2,2) turns}, \
width {1, 1/2 turn, 10^U(-2.8,1.2), 10^U(-5,-2.8), 10^U(1.2,3) turns}; the wrapped angle is free (own unit) or built on the interval: lo, hi, lo+k*width, each +-ulps, just below lo. \
Vectors: components signed 10^U(-3,3), +-0, tiny (1e-30..1e-7), small integers; axis-aligned, diagonal, near-axis, scaled 10^U(-15,15) and extreme (1e+-19..1e+-38) classes. \
Polar/spherical inputs: r in {10^U(-3,3), 1, 0, negative}, azimuth as above, altitude uniform in +-1/4 turn, k/24, near and on the poles, and out of range. \
Lattices enumerate fixed value sets completely. \
Non-trivial = (angle sub-checks) a negative angle of more than one turn, for wrap additionally with an interval not starting at 0; \
(vector sub-checks) a non-zero vector outside the closed first quadrant/octant; distinct by the bit pattern of the case.";

// ------------------------------------------------------------------ tolerances (measured maxima are reported next to them)

/// unit conversions, radius vs length: relative
const TOL_CONV_REL: f64 = 1e-6;
/// wrap congruence: distance of (a - wrapped)/(hi - lo) from an integer, per unit of (|a|+|lo|+|hi|)/(hi-lo) + 1
const TOL_WRAP_CONG: f64 = 2e-6;
/// sin^2 + cos^2 - 1 (property statement)
const TOL_PYTH: f64 = 1e-6;
/// sin, cos vs f64 of the same f32 radians (absolute)
const TOL_TRIG: f64 = 3e-7;
/// azimuth / altitude vs f64 atan2 (radians, modulo a turn)
const TOL_ANGLE: f64 = 3e-6;
/// Cartesian round trips and formula oracles, relative to |v| (or |r|)
const TOL_CART_REL: f64 = 2.5e-6;
/// squared length must stay inside f32's normal range for the length clauses
const MAG_LO: f64 = 1e-15;
const MAG_HI: f64 = 1e15;

// ------------------------------------------------------------------ units

fn per_turn(u: u8) -> f64 {
    match u {
        0 => TAU64,
        1 => 360.0,
        _ => 1.0,
    }
}
fn unit_name(u: u8) -> &'static str {
    match u {
        0 => "rad",
        1 => "deg",
        _ => "turn",
    }
}
fn mk(u: u8, x: f32) -> Angle {
    match u {
        0 => rads(x),
        1 => degs(x),
        _ => turns(x),
    }
}
fn get(u: u8, a: Angle) -> f32 {
    match u {
        0 => a.to_rads(),
        1 => a.to_degs(),
        _ => a.to_turns(),
    }
}

/// signed distance folded into [-pi, pi]
fn angdist(a: f64, b: f64) -> f64 {
    let d = (a - b).rem_euclid(TAU64);
    if d > PI64 {
        (d - TAU64).abs()
    } else {
        d.abs()
    }
}

fn same_bits(a: f32, b: f32) -> bool {
    a.to_bits() == b.to_bits() || (a.is_nan() && b.is_nan())
}
fn same_val(a: f32, b: f32) -> bool {
    a == b || (a.is_nan() && b.is_nan())
}

// ------------------------------------------------------------------ generators

/// an angle as (turns, ulp nudge); converted to a unit by `in_unit`
fn turns_val() -> BoxedStrategy<(f64, i32)> {
    prop_oneof![
        6 => signed(log_uniform(-7.0, 3.5)).prop_map(|t| (t as f64, 0)),
        3 => (-2400i32..=2400).prop_map(|k| (k as f64 / 24.0, 0)),
        1 => ((-2400i32..=2400), -3i32..=3).prop_map(|(k, d)| (k as f64 / 24.0, d)),
        2 => (-2.0f32..=2.0).prop_map(|t| (t as f64, 0)),
        1 => prop_oneof![Just((0.0f64, 0)), Just((-0.0f64, 0))],
        1 => signed(log_uniform(3.5, 7.0)).prop_map(|t| (t as f64, 0)),
    ]
    .boxed()
}

fn in_unit(u: u8, (t, d): (f64, i32)) -> f32 {
    nudge((t * per_turn(u)) as f32, d)
}

fn unit() -> impl Strategy<Value = u8> {
    0u8..3
}

#[derive(Clone, Debug, Hash, Serialize, Deserialize)]
pub struct ConvCase {
    /// 0 = radians, 1 = degrees, 2 = turns
    pub unit: u8,
    pub x: X,
}

fn conv_case() -> BoxedStrategy<ConvCase> {
    // magnitudes up to the end of the f32 range (and down to the subnormals): conversions must not overflow or lose the
    // value while the converted magnitude is itself representable
    let extreme = prop_oneof![
        3 => signed(log_uniform(7.0, 38.5)),
        1 => signed(log_uniform(-44.0, -7.0)),
        1 => prop_oneof![Just(f32::MAX), Just(f32::MIN), Just(f32::MIN_POSITIVE), Just(1e-45f32)],
    ];
    prop_oneof![
        5 => (unit(), turns_val()).prop_map(|(u, t)| ConvCase { unit: u, x: X(in_unit(u, t)) }),
        1 => (unit(), extreme).prop_map(|(u, x)| ConvCase { unit: u, x: X(x) }),
    ]
    .boxed()
}

#[derive(Clone, Debug, Hash, Serialize, Deserialize)]
pub struct WrapCase {
    /// unit of `a`
    pub ua: u8,
    pub a: X,
    /// unit of the interval bounds
    pub ui: u8,
    pub lo: X,
    pub hi: X,
}

fn interval_turns() -> BoxedStrategy<(f64, f64)> {
    let lo = prop_oneof![
        3 => Just(0.0f64),
        2 => Just(-0.5f64),
        3 => (-2.0f32..=2.0).prop_map(|t| t as f64),
        2 => signed(log_uniform(-2.0, 2.0)).prop_map(|t| t as f64),
    ];
    let w = prop_oneof![
        3 => Just(1.0f64),
        1 => Just(0.5f64),
        5 => log_uniform(-2.8, 1.2).prop_map(|t| t as f64),
        1 => log_uniform(-5.0, -2.8).prop_map(|t| t as f64),
        1 => log_uniform(1.2, 3.0).prop_map(|t| t as f64),
    ];
    (lo, w).boxed()
}

fn wrap_case() -> BoxedStrategy<WrapCase> {
    // how `a` is placed: 0 = free, 1.. = constructed on the interval
    let place = prop_oneof![
        7 => Just(0u8),
        1 => Just(1u8), // lo (+- ulps)
        1 => Just(2u8), // hi (+- ulps)
        2 => Just(3u8), // lo + k * width (+- ulps)
        1 => Just(4u8), // just below lo + k * width
    ];
    (unit(), unit(), interval_turns(), turns_val(), place, -50i32..=50, -2i32..=2, log_uniform(-9.0, -5.0))
        .prop_map(|(ua, ui, (lo_t, w_t), a_t, place, k, d, eps)| {
            let pt = per_turn(ui);
            let lo = (lo_t * pt) as f32;
            let mut hi = ((lo_t + w_t) * pt) as f32;
            if !(hi > lo) {
                hi = ulp_up(lo);
            }
            let w = hi - lo;
            let (ua, a) = match place {
                0 => (ua, in_unit(ua, a_t)),
                1 => (ui, nudge(lo, d)),
                2 => (ui, nudge(hi, d)),
                3 => (ui, nudge(lo + k as f32 * w, d)),
                _ => (ui, lo + k as f32 * w - eps * w),
            };
            WrapCase { ua, a: X(a), ui, lo: X(lo), hi: X(hi) }
        })
        .boxed()
}

#[derive(Clone, Debug, Hash, Serialize, Deserialize)]
pub struct OpsCase {
    pub unit: u8,
    pub a: X,
    pub b: X,
    pub c: X,
    /// scalar for * and /
    pub k: X,
}

fn ops_case() -> BoxedStrategy<OpsCase> {
    let k = prop_oneof![
        1 => prop_oneof![Just(0.0f32), Just(-0.0f32), Just(1.0f32), Just(-1.0f32), Just(2.0f32), Just(0.5f32)],
        3 => -10.0f32..=10.0,
        3 => signed(log_uniform(-3.0, 3.0)),
    ];
    (unit(), turns_val(), turns_val(), turns_val(), k, any::<bool>())
        .prop_map(|(u, a, b, c, k, eq)| {
            let a = in_unit(u, a);
            // ties are where min/max/clamp can go wrong: make them common
            let b = if eq { a } else { in_unit(u, b) };
            OpsCase { unit: u, a: X(a), b: X(b), c: X(in_unit(u, c)), k: X(k) }
        })
        .boxed()
}

fn comp() -> BoxedStrategy<f32> {
    prop_oneof![
        8 => signed(log_uniform(-3.0, 3.0)),
        1 => prop_oneof![Just(0.0f32), Just(-0.0f32)],
        1 => signed(prop_oneof![Just(1e-30f32), Just(1e-20f32), Just(f32::MIN_POSITIVE), Just(1e-12f32), Just(1e-7f32)]),
        1 => signed(prop_oneof![Just(1.0f32), Just(2.0f32), Just(0.5f32), Just(3.0f32), Just(1000.0f32)]),
    ]
    .boxed()
}

#[derive(Clone, Debug, Hash, Serialize, Deserialize)]
pub struct V2Case {
    pub v: [X; 2],
}

fn v2_case() -> BoxedStrategy<V2Case> {
    let m = || signed(log_uniform(-3.0, 3.0));
    let z = || prop_oneof![Just(0.0f32), Just(-0.0f32)];
    prop_oneof![
        6 => [comp(), comp()],
        1 => (m(), z(), any::<bool>()).prop_map(|(m, z, s)| if s { [m, z] } else { [z, m] }),
        1 => (m(), any::<bool>()).prop_map(|(m, s)| [m, if s { m } else { -m }]),
        1 => (m(), signed(log_uniform(-9.0, -5.0)), any::<bool>()).prop_map(|(m, e, s)| if s { [m, m * e] } else { [m * e, m] }),
        1 => ([comp(), comp()], log_uniform(-12.0, 12.0)).prop_map(|(v, s)| [v[0] * s, v[1] * s]),
        1 => ([m(), m()], prop_oneof![log_uniform(-35.0, -22.0), log_uniform(22.0, 35.0)]).prop_map(|(v, s)| [v[0] * s, v[1] * s]),
    ]
    .prop_map(|v| V2Case { v: xs(v) })
    .boxed()
}

#[derive(Clone, Debug, Hash, Serialize, Deserialize)]
pub struct V3Case {
    pub v: [X; 3],
}

fn v3_case() -> BoxedStrategy<V3Case> {
    let m = || signed(log_uniform(-3.0, 3.0));
    let z = || prop_oneof![Just(0.0f32), Just(-0.0f32)];
    prop_oneof![
        6 => [comp(), comp(), comp()],
        // on an axis
        1 => (m(), z(), z(), 0u8..3).prop_map(|(m, z1, z2, ax)| match ax { 0 => [m, z1, z2], 1 => [z1, m, z2], _ => [z1, z2, m] }),
        // in a coordinate plane
        1 => (m(), m(), z(), 0u8..3).prop_map(|(a, b, z, ax)| match ax { 0 => [z, a, b], 1 => [a, z, b], _ => [a, b, z] }),
        // diagonal
        1 => (m(), any::<bool>(), any::<bool>()).prop_map(|(m, s, t)| [m, if s { m } else { -m }, if t { m } else { -m }]),
        // next to the poles: x, z tiny relative to y
        1 => (m(), signed(log_uniform(-9.0, -3.0)), signed(log_uniform(-9.0, -3.0))).prop_map(|(y, e, f)| [y * e, y, y * f]),
        1 => ([comp(), comp(), comp()], log_uniform(-12.0, 12.0)).prop_map(|(v, s)| [v[0] * s, v[1] * s, v[2] * s]),
        1 => ([m(), m(), m()], prop_oneof![log_uniform(-35.0, -22.0), log_uniform(22.0, 35.0)]).prop_map(|(v, s)| [v[0] * s, v[1] * s, v[2] * s]),
    ]
    .prop_map(|v| V3Case { v: xs(v) })
    .boxed()
}

fn radius() -> BoxedStrategy<f32> {
    prop_oneof![
        8 => log_uniform(-3.0, 3.0),
        1 => Just(1.0f32),
        1 => prop_oneof![Just(0.0f32), Just(-0.0f32)],
        1 => log_uniform(-3.0, 3.0).prop_map(|r| -r),
    ]
    .boxed()
}

#[derive(Clone, Debug, Hash, Serialize, Deserialize)]
pub struct PolarCase {
    pub r: X,
    /// unit the azimuth is given in
    pub unit: u8,
    pub az: X,
}

fn polar_case() -> BoxedStrategy<PolarCase> {
    (radius(), unit(), turns_val()).prop_map(|(r, u, t)| PolarCase { r: X(r), unit: u, az: X(in_unit(u, t)) }).boxed()
}

#[derive(Clone, Debug, Hash, Serialize, Deserialize)]
pub struct SphCase {
    pub r: X,
    /// unit both angles are given in
    pub unit: u8,
    pub az: X,
    pub alt: X,
}

fn alt_turns() -> BoxedStrategy<(f64, i32)> {
    prop_oneof![
        6 => (-0.25f32..=0.25).prop_map(|t| (t as f64, 0)),
        2 => (-6i32..=6).prop_map(|k| (k as f64 / 24.0, 0)),
        // next to the poles
        2 => (log_uniform(-7.0, -2.0), any::<bool>()).prop_map(|(e, s)| { let t = 0.25 - e as f64; (if s { t } else { -t }, 0) }),
        // on the poles (and a few ulps around them)
        1 => (any::<bool>(), -2i32..=2).prop_map(|(s, d)| (if s { 0.25 } else { -0.25 }, d)),
        // outside [-90, 90] degrees
        1 => turns_val(),
    ]
    .boxed()
}

fn sph_case() -> BoxedStrategy<SphCase> {
    (radius(), unit(), turns_val(), alt_turns())
        .prop_map(|(r, u, az, alt)| SphCase { r: X(r), unit: u, az: X(in_unit(u, az)), alt: X(in_unit(u, alt)) })
        .boxed()
}

// ------------------------------------------------------------------ predicates

fn angle_classes(u: u8, x: f32, obs: &mut Obs) -> bool {
    let t = x as f64 / per_turn(u);
    obs.class(match u {
        0 => "unit:rad",
        1 => "unit:deg",
        _ => "unit:turn",
    });
    obs.class(if t == 0.0 {
        "angle:zero"
    } else if t.abs() < 1.0 {
        "angle:|a|<1 turn"
    } else if t.abs() < 100.0 {
        "angle:1..100 turns"
    } else {
        "angle:>=100 turns"
    });
    if t < 0.0 {
        obs.class("angle:negative");
    }
    let k = t * 24.0;
    if t != 0.0 && (k - k.round()).abs() < 1e-6 * k.abs().max(1.0) {
        obs.class("angle:multiple of 1/24 turn (+-ulps)");
    }
    t < -1.0
}

pub fn check_constants(i: u64, obs: &mut Obs) -> Check {
    let (a, d, name) = match i {
        0 => (Angle::ZERO, 0.0f64, "ZERO"),
        1 => (Angle::RIGHT, 90.0, "RIGHT"),
        2 => (Angle::STRAIGHT, 180.0, "STRAIGHT"),
        _ => (Angle::FULL, 360.0, "FULL"),
    };
    obs.class("constant");
    obs.nontrivial_enumerated(1);
    for u in 0..3u8 {
        let want = d / 360.0 * per_turn(u);
        let got = get(u, a) as f64;
        ensure!((got - want).abs() <= TOL_CONV_REL * want.abs(), "constant-value", "Angle::{name} is {got} {} but is documented as {d} degrees = {want}", unit_name(u));
    }
    Ok(())
}

pub fn check_convert(c: &ConvCase, obs: &mut Obs) -> Check {
    let x = c.x.0;
    ensure!(x.is_finite(), "bad-case", "non-finite input");
    let a = mk(c.unit, x);
    let nt = angle_classes(c.unit, x, obs);
    let t = x as f64 / per_turn(c.unit);
    let fmax = f32::MAX as f64 * (1.0 - 1e-6);
    if (t * TAU64).abs() > fmax {
        obs.excluded("convert: the angle's magnitude in radians (the stored representation) exceeds f32::MAX");
        return Ok(());
    }
    obs.class(if (t * TAU64).abs() > 1e30 {
        "convert:|a| > 1e30 rad"
    } else if (t * TAU64).abs() > 1e8 {
        "convert:|a| in 1e8..1e30 rad"
    } else if x != 0.0 && (t * TAU64).abs() < 1e-30 {
        "convert:|a| < 1e-30 rad"
    } else {
        "convert:|a| ordinary"
    });
    for v in 0..3u8 {
        let want = t * per_turn(v);
        if want.abs() > fmax {
            obs.excluded("convert: the value in the target unit exceeds f32::MAX (overflow to infinity accepted)");
            continue;
        }
        let got = get(v, a) as f64;
        let tol = TOL_CONV_REL * want.abs() + 1e-37;
        if want != 0.0 && want.abs() > 1e-30 {
            obs.max("conversion relative error (tolerance 1e-6)", (got - want).abs() / want.abs());
        }
        ensure!(
            (got - want).abs() <= tol,
            "unit-conversion",
            "{x:?} {} read back in {} is {got:?}, expected {want:?} (relative error {:.3e})",
            unit_name(c.unit),
            unit_name(v),
            (got - want).abs() / want.abs()
        );
        if x == 0.0 {
            ensure!(got == 0.0, "unit-conversion", "zero {} reads back as {got:?} {}", unit_name(c.unit), unit_name(v));
        }
        // the other direction: an angle built from the read-back value is the same angle
        let back = mk(v, got as f32).to_rads() as f64;
        let ar = a.to_rads() as f64;
        ensure!(
            (back - ar).abs() <= 2.0 * TOL_CONV_REL * ar.abs() + 1e-37,
            "unit-conversion",
            "{x:?} {} -> {got:?} {} -> back to {back:?} rad, but the angle is {ar:?} rad",
            unit_name(c.unit),
            unit_name(v)
        );
    }
    if nt {
        obs.nontrivial(hash_of(c));
        obs.sample(|| json!(c));
    }
    Ok(())
}

pub fn check_wrap(c: &WrapCase, obs: &mut Obs) -> Check {
    ensure!(c.a.0.is_finite() && c.lo.0.is_finite() && c.hi.0.is_finite(), "bad-case", "non-finite input");
    let (a, lo, hi) = (mk(c.ua, c.a.0), mk(c.ui, c.lo.0), mk(c.ui, c.hi.0));
    // the oracle works on the magnitudes the code under test sees
    let (a0, l0, h0) = (a.to_rads() as f64, lo.to_rads() as f64, hi.to_rads() as f64);
    if !(h0 > l0) {
        obs.excluded("wrap: interval empty after conversion to radians");
        return Ok(());
    }
    let width = h0 - l0;
    let w = a.wrap(lo, hi).to_rads();
    let neg_multi = angle_classes(c.ua, c.a.0, obs);
    obs.class(if c.lo.0 == 0.0 { "interval:starts at 0" } else if c.lo.0 == -c.hi.0 { "interval:symmetric" } else { "interval:other lower bound" });
    let wt = width / TAU64;
    obs.class(if (wt - 1.0).abs() < 1e-6 {
        "width:1 turn"
    } else if wt < 0.01 {
        "width:<0.01 turn"
    } else if wt <= 16.0 {
        "width:0.01..16 turns"
    } else {
        "width:>16 turns"
    });
    obs.class(if a0 < l0 {
        "a below interval"
    } else if a0 >= h0 {
        "a above interval (or at hi)"
    } else {
        "a inside interval"
    });
    if a0 == l0 || a0 == h0 {
        obs.class("a exactly on a bound");
    }
    ensure!(w.is_finite(), "wrap-not-finite", "wrap({a0:?}, {l0:?}, {h0:?}) [rad] = {w:?}");
    let wf = w as f64;
    if wf == h0 {
        obs.class("result == hi (closed by rounding)");
        // "closed at the upper end only by rounding": the exactly wrapped value must then be within f32 rounding of hi
        // (the roundings of a - lo and of lo + rem are each below an ulp of the largest magnitude involved)
        let exact = l0 + (a0 - l0).rem_euclid(width);
        let slack = 4.0 * (f32::EPSILON as f64) * (a0.abs() + l0.abs() + h0.abs());
        ensure!(
            h0 - exact <= slack,
            "wrap-returns-upper-bound",
            "wrap({a0:?}, {l0:?}, {h0:?}) [rad] returned the upper bound itself although the exactly wrapped angle is {exact:?}, {:.3e} below it (rounding accounts for at most {slack:.3e})",
            h0 - exact
        );
    }
    if wf == l0 {
        obs.class("result == lo");
    }
    if wf > h0 && wf - h0 <= 4.0 * (f32::EPSILON as f64) * l0.abs().max(h0.abs()) {
        // narrow signature: the sum lo + rem_euclid(..) rounded past hi by an ulp or two
        fail!("wrap-exceeds-upper-bound-by-rounding", "wrap({a0:?}, {l0:?}, {h0:?}) [rad] = {wf:?} is above the upper bound {h0:?} (by {:.3e})", wf - h0);
    }
    ensure!(wf >= l0 && wf <= h0, "wrap-out-of-range", "wrap({a0:?}, {l0:?}, {h0:?}) [rad] = {wf:?} is outside [{l0:?}, {h0:?}]");
    let scale = (a0.abs() + l0.abs() + h0.abs()) / width + 1.0;
    let tol = TOL_WRAP_CONG * scale;
    if tol >= 0.25 {
        obs.excluded("wrap congruence: f32 cannot resolve a quarter interval at |a|/width this large (range still asserted)");
    } else {
        let k = (a0 - wf) / width;
        let dist = (k - k.round()).abs();
        obs.max("wrap congruence error / ((|a|+|lo|+|hi|)/width + 1)  (tolerance 2e-6)", dist / scale);
        ensure!(
            dist <= tol,
            "wrap-not-congruent",
            "wrap({a0:?}, {l0:?}, {h0:?}) [rad] = {wf:?}: differs from the input by {k:.6} interval lengths (tolerance {tol:.2e})"
        );
        if k.round() != 0.0 {
            obs.class("wrapped by >= 1 interval length");
        }
    }
    if neg_multi && c.lo.0 != 0.0 {
        obs.nontrivial(hash_of(c));
        obs.sample(|| json!({"case": c, "radians": {"a": a0, "lo": l0, "hi": h0, "wrapped": wf}}));
    }
    Ok(())
}

pub fn check_ops(c: &OpsCase, obs: &mut Obs) -> Check {
    let u = c.unit;
    let [xa, xb, xc, k] = [c.a.0, c.b.0, c.c.0, c.k.0];
    ensure!(xa.is_finite() && xb.is_finite() && xc.is_finite() && k.is_finite(), "bad-case", "non-finite input");
    let (a, b, cc) = (mk(u, xa), mk(u, xb), mk(u, xc));
    let (ra, rb, rc) = (a.to_rads(), b.to_rads(), cc.to_rads());
    let nt = angle_classes(u, xa, obs);
    if xa == xb {
        obs.class("a == b (tie)");
    }
    // ---- exact: the same f32 operation on the radian magnitudes
    macro_rules! exact {
        ($name:literal, $got:expr, $want:expr, $cmp:ident) => {{
            let (g, w): (f32, f32) = (($got).to_rads(), $want);
            ensure!($cmp(g, w), concat!("op-", $name), "{} on {ra:?} rad, {rb:?} rad (c = {rc:?} rad, k = {k:?}) gives {g:?} rad, the f32 operation gives {w:?}", $name);
        }};
    }
    exact!("add", a + b, ra + rb, same_bits);
    exact!("sub", a - b, ra - rb, same_bits);
    exact!("neg", -a, -ra, same_bits);
    exact!("mul", a * k, ra * k, same_bits);
    exact!("div", a / k, ra / k, same_bits);
    exact!("rem", a % b, ra % rb, same_bits);
    exact!("affine-add", Affine::add(&a, &b), ra + rb, same_bits);
    exact!("affine-sub", Affine::sub(&a, &b), ra - rb, same_bits);
    exact!("linear-neg", Linear::neg(&a), -ra, same_bits);
    exact!("linear-mul", Linear::mul(&a, k), ra * k, same_bits);
    exact!("linear-zero", <Angle as Linear>::zero(), 0.0f32, same_bits);
    let mn = if rb < ra { rb } else { ra };
    let mx = if rb > ra { rb } else { ra };
    exact!("min", a.min(b), mn, same_val);
    exact!("max", a.max(b), mx, same_val);
    exact!("min", b.min(a), mn, same_val);
    exact!("max", b.max(a), mx, same_val);
    let (lo, hi) = if rb <= rc { (b, cc) } else { (cc, b) };
    let (rl, rh) = (lo.to_rads(), hi.to_rads());
    let cl = if ra < rl {
        obs.class("clamp: below");
        rl
    } else if ra > rh {
        obs.class("clamp: above");
        rh
    } else {
        obs.class("clamp: inside");
        ra
    };
    exact!("clamp", a.clamp(lo, hi), cl, same_val);
    // ---- in the constructor's unit, against f64
    let (da, db, dc, dk) = (xa as f64, xb as f64, xc as f64, k as f64);
    macro_rules! approx {
        ($name:literal, $got:expr, $want:expr, $scale:expr) => {{
            let (g, w, s): (f64, f64, f64) = (get(u, $got) as f64, $want, $scale);
            if w.is_finite() && s.is_finite() && s < 1e30 {
                if s > 1e-30 {
                    obs.max("operator result in its unit: error / operand scale (tolerance 2e-6)", (g - w).abs() / s);
                }
                ensure!(
                    (g - w).abs() <= 2.0 * TOL_CONV_REL * s + 1e-37,
                    concat!("op-", $name),
                    "{} on {xa:?}, {xb:?} (c = {xc:?}, k = {k:?}) {} gives {g:?}, expected {w:?}",
                    $name,
                    unit_name(u)
                );
            }
        }};
    }
    approx!("add", a + b, da + db, da.abs() + db.abs());
    approx!("sub", a - b, da - db, da.abs() + db.abs());
    approx!("neg", -a, -da, da.abs());
    approx!("mul", a * k, da * dk, (da * dk).abs());
    if k != 0.0 {
        approx!("div", a / k, da / dk, (da / dk).abs());
    }
    approx!("min", a.min(b), da.min(db), da.abs().max(db.abs()));
    approx!("max", a.max(b), da.max(db), da.abs().max(db.abs()));
    let (dl, dh) = (db.min(dc), db.max(dc));
    approx!("clamp", a.clamp(lo, hi), da.clamp(dl, dh), da.abs().max(db.abs()).max(dc.abs()));
    if nt {
        obs.nontrivial(hash_of(c));
        obs.sample(|| json!(c));
    }
    Ok(())
}

pub fn check_trig(c: &ConvCase, obs: &mut Obs) -> Check {
    let x = c.x.0;
    ensure!(x.is_finite(), "bad-case", "non-finite input");
    let a = mk(c.unit, x);
    if !a.to_rads().is_finite() {
        obs.excluded("trig: the angle's magnitude in radians (the stored representation) exceeds f32::MAX");
        return Ok(());
    }
    let nt = angle_classes(c.unit, x, obs);
    let (s, co) = a.sin_cos();
    let (s1, c1) = (a.sin(), a.cos());
    ensure!(same_bits(s, s1) && same_bits(co, c1), "sin_cos-differs", "sin_cos({x:?} {}) = ({s:?}, {co:?}) but (sin, cos) = ({s1:?}, {c1:?})", unit_name(c.unit));
    let (sd, cd) = (s as f64, co as f64);
    let py = (sd * sd + cd * cd - 1.0).abs();
    obs.max("|sin^2+cos^2-1| (tolerance 1e-6)", py);
    ensure!(py <= TOL_PYTH, "sin2-cos2", "sin^2+cos^2 = {} for {x:?} {}", sd * sd + cd * cd, unit_name(c.unit));
    let r = a.to_rads() as f64;
    let e = (sd - r.sin()).abs().max((cd - r.cos()).abs());
    obs.max("sin/cos vs f64 (tolerance 3e-7)", e);
    ensure!(e <= TOL_TRIG, "sin-cos-value", "sin, cos of {r:?} rad = ({s:?}, {co:?}), f64 gives ({:?}, {:?})", r.sin(), r.cos());
    if nt {
        obs.nontrivial(hash_of(c));
        obs.sample(|| json!(c));
    }
    Ok(())
}

fn az_in_range(az: Angle) -> bool {
    let r = az.to_rads();
    r.is_finite() && r.abs() <= core::f32::consts::PI && az.to_degs().abs() <= 180.0
}
fn alt_in_range(alt: Angle) -> bool {
    let r = alt.to_rads();
    r.is_finite() && r.abs() <= core::f32::consts::FRAC_PI_2 && alt.to_degs().abs() <= 90.0
}

fn comp_class(v: &[f32], obs: &mut Obs) {
    if v.iter().any(|c| *c == 0.0) {
        obs.class("vector: a component is +-0");
    }
    if v.iter().filter(|c| **c != 0.0).count() == 1 {
        obs.class("vector: axis-aligned");
    }
    let m = v.iter().fold(0.0f32, |a, b| a.max(b.abs()));
    if v.iter().any(|c| *c != 0.0 && c.abs() < 1e-5 * m) {
        obs.class("vector: a component is tiny relative to the largest");
    }
    obs.class(if m == 0.0 {
        "magnitude: zero"
    } else if (m as f64) < MAG_LO || (m as f64) > MAG_HI {
        "magnitude: extreme (excluded)"
    } else if m < 1e-3 {
        "magnitude: 1e-15..1e-3"
    } else if m <= 1e3 {
        "magnitude: 1e-3..1e3"
    } else {
        "magnitude: 1e3..1e15"
    });
}

pub fn check_v2(c: &V2Case, obs: &mut Obs) -> Check {
    let [x, y] = fs(c.v);
    ensure!(x.is_finite() && y.is_finite(), "bad-case", "non-finite input");
    let v: Vec2 = vec2(x, y);
    let p = v.to_polar();
    let (r, az) = (p.r(), p.az());
    comp_class(&[x, y], obs);
    obs.class(match (x < 0.0, y < 0.0) {
        (false, false) => "quadrant I (x>=0,y>=0)",
        (true, false) => "quadrant II",
        (true, true) => "quadrant III",
        (false, true) => "quadrant IV",
    });
    let pf: PolarVec = v.into();
    ensure!(same_bits(pf.r(), r) && same_bits(pf.az().to_rads(), az.to_rads()), "from-impl-differs", "PolarVec::from({x:?}, {y:?}) differs from to_polar()");
    ensure!(az_in_range(az), "azimuth-out-of-range", "({x:?}, {y:?}).to_polar() has azimuth {:?} rad = {:?} deg, outside [-180, 180]", az.to_rads(), az.to_degs());
    let (xd, yd) = (x as f64, y as f64);
    let m = xd.abs().max(yd.abs());
    if m == 0.0 {
        obs.excluded("zero vector: azimuth undefined (radius 0 and range asserted)");
        ensure!(r == 0.0, "radius-not-length", "zero vector has radius {r:?}");
        return Ok(());
    }
    if m < MAG_LO || m > MAG_HI {
        obs.excluded("squared length leaves f32's normal range (only the angle ranges are asserted)");
        return Ok(());
    }
    let len = xd.hypot(yd);
    obs.max("polar radius relative error (tolerance 1e-6)", (r as f64 - len).abs() / len);
    ensure!((r as f64 - len).abs() <= TOL_CONV_REL * len, "radius-not-length", "({x:?}, {y:?}).to_polar() has r = {r:?}, the length is {len:?}");
    let want = yd.atan2(xd);
    let e = angdist(az.to_rads() as f64, want);
    obs.max("polar azimuth error, rad (tolerance 3e-6)", e);
    ensure!(e <= TOL_ANGLE, "azimuth-convention", "({x:?}, {y:?}).to_polar() has azimuth {:?} rad, the angle from +x towards +y is {want:?}", az.to_rads());
    let b = p.to_cart();
    let bf: Vec2 = p.into();
    ensure!(same_bits(bf.x(), b.x()) && same_bits(bf.y(), b.y()), "from-impl-differs", "Vec2::from(polar) differs from to_cart()");
    let err = (b.x() as f64 - xd).hypot(b.y() as f64 - yd) / len;
    obs.max("to_cart(to_polar(v)) error / |v| (tolerance 2.5e-6)", err);
    ensure!(err <= TOL_CART_REL, "polar-roundtrip", "({x:?}, {y:?}) -> polar ({r:?}, {:?} rad) -> ({:?}, {:?}): off by {err:.3e} of the length", az.to_rads(), b.x(), b.y());
    if x < 0.0 || y < 0.0 {
        obs.nontrivial(hash_of(c));
        obs.sample(|| json!({"v": c.v, "r": r, "az_deg": az.to_degs()}));
    }
    Ok(())
}

pub fn check_v3(c: &V3Case, obs: &mut Obs) -> Check {
    let [x, y, z] = fs(c.v);
    ensure!(x.is_finite() && y.is_finite() && z.is_finite(), "bad-case", "non-finite input");
    let v: Vec3 = vec3(x, y, z);
    let s = v.to_spherical();
    let (r, az, alt) = (s.r(), s.az(), s.alt());
    comp_class(&[x, y, z], obs);
    obs.class(match (x < 0.0, y < 0.0, z < 0.0) {
        (false, false, false) => "octant +++",
        (true, false, false) => "octant -++",
        (false, true, false) => "octant +-+",
        (true, true, false) => "octant --+",
        (false, false, true) => "octant ++-",
        (true, false, true) => "octant -+-",
        (false, true, true) => "octant +--",
        (true, true, true) => "octant ---",
    });
    let sf: SphericalVec = v.into();
    ensure!(
        same_bits(sf.r(), r) && same_bits(sf.az().to_rads(), az.to_rads()) && same_bits(sf.alt().to_rads(), alt.to_rads()),
        "from-impl-differs",
        "SphericalVec::from({x:?}, {y:?}, {z:?}) differs from to_spherical()"
    );
    ensure!(az_in_range(az), "azimuth-out-of-range", "({x:?}, {y:?}, {z:?}).to_spherical() has azimuth {:?} rad = {:?} deg, outside [-180, 180]", az.to_rads(), az.to_degs());
    ensure!(alt_in_range(alt), "altitude-out-of-range", "({x:?}, {y:?}, {z:?}).to_spherical() has altitude {:?} rad = {:?} deg, outside [-90, 90]", alt.to_rads(), alt.to_degs());
    let (xd, yd, zd) = (x as f64, y as f64, z as f64);
    let m = xd.abs().max(yd.abs()).max(zd.abs());
    if m == 0.0 {
        obs.excluded("zero vector: angles undefined (radius 0 and ranges asserted)");
        ensure!(r == 0.0, "radius-not-length", "zero vector has radius {r:?}");
        return Ok(());
    }
    if m < MAG_LO || m > MAG_HI {
        obs.excluded("squared length leaves f32's normal range (only the angle ranges are asserted)");
        return Ok(());
    }
    let len = (xd * xd + yd * yd + zd * zd).sqrt();
    obs.max("spherical radius relative error (tolerance 1e-6)", (r as f64 - len).abs() / len);
    ensure!((r as f64 - len).abs() <= TOL_CONV_REL * len, "radius-not-length", "({x:?}, {y:?}, {z:?}).to_spherical() has r = {r:?}, the length is {len:?}");
    let h = xd.hypot(zd);
    let want_alt = yd.atan2(h);
    let ea = (alt.to_rads() as f64 - want_alt).abs();
    obs.max("spherical altitude error, rad (tolerance 3e-6)", ea);
    ensure!(ea <= TOL_ANGLE, "altitude-convention", "({x:?}, {y:?}, {z:?}).to_spherical() has altitude {:?} rad, the elevation above the xz-plane towards +y is {want_alt:?}", alt.to_rads());
    if xd == 0.0 && zd == 0.0 {
        obs.class("on a pole (azimuth undefined, not compared)");
    } else {
        let want_az = zd.atan2(xd);
        let e = angdist(az.to_rads() as f64, want_az);
        obs.max("spherical azimuth error, rad (tolerance 3e-6)", e);
        ensure!(e <= TOL_ANGLE, "azimuth-convention", "({x:?}, {y:?}, {z:?}).to_spherical() has azimuth {:?} rad, the angle from +x towards +z is {want_az:?}", az.to_rads());
        if h < 1e-3 * len {
            obs.class("within 0.06 deg of a pole");
        }
    }
    let b = s.to_cart();
    let bf: Vec3 = s.into();
    ensure!(same_bits(bf.x(), b.x()) && same_bits(bf.y(), b.y()) && same_bits(bf.z(), b.z()), "from-impl-differs", "Vec3::from(spherical) differs from to_cart()");
    let err = ((b.x() as f64 - xd).powi(2) + (b.y() as f64 - yd).powi(2) + (b.z() as f64 - zd).powi(2)).sqrt() / len;
    obs.max("to_cart(to_spherical(v)) error / |v| (tolerance 2.5e-6)", err);
    ensure!(
        err <= TOL_CART_REL,
        "spherical-roundtrip",
        "({x:?}, {y:?}, {z:?}) -> spherical ({r:?}, {:?} rad, {:?} rad) -> ({:?}, {:?}, {:?}): off by {err:.3e} of the length",
        az.to_rads(),
        alt.to_rads(),
        b.x(),
        b.y(),
        b.z()
    );
    if x < 0.0 || y < 0.0 || z < 0.0 {
        obs.nontrivial(hash_of(c));
        obs.sample(|| json!({"v": c.v, "r": r, "az_deg": az.to_degs(), "alt_deg": alt.to_degs()}));
    }
    Ok(())
}

pub fn check_polar(c: &PolarCase, obs: &mut Obs) -> Check {
    let r = c.r.0;
    ensure!(r.is_finite() && c.az.0.is_finite(), "bad-case", "non-finite input");
    let az = mk(c.unit, c.az.0);
    angle_classes(c.unit, c.az.0, obs);
    let p = polar(r, az);
    ensure!(same_bits(p.r(), r) && same_bits(p.az().to_rads(), az.to_rads()), "polar-accessors", "polar({r:?}, {:?} rad) reads back as ({:?}, {:?} rad)", az.to_rads(), p.r(), p.az().to_rads());
    let v = p.to_cart();
    // every spelling of the conversion is the same function
    let (vf, vi): (Vec2, Vec2) = (Vec2::from(p), p.into());
    ensure!(
        same_bits(vf.x(), v.x()) && same_bits(vf.y(), v.y()) && same_bits(vi.x(), v.x()) && same_bits(vi.y(), v.y()),
        "from-impl-differs",
        "polar({r:?}, {:?} rad): Vec2::from / into give ({:?}, {:?}) / ({:?}, {:?}) but to_cart() gives ({:?}, {:?})",
        az.to_rads(), vf.x(), vf.y(), vi.x(), vi.y(), v.x(), v.y()
    );
    let (rd, ad) = (r as f64, az.to_rads() as f64);
    let want = [rd * ad.cos(), rd * ad.sin()];
    if r == 0.0 {
        obs.class("r = 0");
        ensure!(v.x() == 0.0 && v.y() == 0.0, "to_cart-formula", "polar(0, {ad:?} rad).to_cart() = ({:?}, {:?}), expected the zero vector", v.x(), v.y());
        obs.excluded("r = 0: inverse undefined (zero result asserted)");
        return Ok(());
    }
    let err = (v.x() as f64 - want[0]).hypot(v.y() as f64 - want[1]) / rd.abs();
    obs.max("polar to_cart vs r(cos az, sin az): error / |r| (tolerance 2.5e-6)", err);
    ensure!(err <= TOL_CART_REL, "to_cart-formula", "polar({r:?}, {ad:?} rad).to_cart() = ({:?}, {:?}), r(cos az, sin az) = ({:?}, {:?})", v.x(), v.y(), want[0], want[1]);
    if r < 0.0 {
        obs.class("r < 0");
        obs.excluded("r < 0: outside the inverse clause (formula asserted)");
        return Ok(());
    }
    obs.class("r > 0");
    let q = v.to_polar();
    obs.max("to_polar(to_cart(p)) radius relative error (tolerance 2e-6)", (q.r() as f64 - rd).abs() / rd);
    ensure!((q.r() as f64 - rd).abs() <= 2.0 * TOL_CONV_REL * rd, "polar-inverse", "polar({r:?}, {ad:?} rad) -> ({:?}, {:?}) -> radius {:?}", v.x(), v.y(), q.r());
    let e = angdist(q.az().to_rads() as f64, ad);
    obs.max("to_polar(to_cart(p)) azimuth error modulo a turn, rad (tolerance 3e-6)", e);
    ensure!(e <= TOL_ANGLE, "polar-inverse", "polar({r:?}, {ad:?} rad) -> ({:?}, {:?}) -> azimuth {:?} rad, which is not {ad:?} modulo a turn (off by {e:.3e})", v.x(), v.y(), q.az().to_rads());
    ensure!(az_in_range(q.az()), "azimuth-out-of-range", "azimuth {:?} rad outside [-180, 180] degrees", q.az().to_rads());
    let t = ad.rem_euclid(TAU64);
    if t > PI64 / 2.0 {
        obs.class("direction outside quadrant I");
        obs.nontrivial(hash_of(c));
        obs.sample(|| json!({"case": c, "cart": [v.x(), v.y()]}));
    }
    Ok(())
}

pub fn check_sph(c: &SphCase, obs: &mut Obs) -> Check {
    let r = c.r.0;
    ensure!(r.is_finite() && c.az.0.is_finite() && c.alt.0.is_finite(), "bad-case", "non-finite input");
    let (az, alt) = (mk(c.unit, c.az.0), mk(c.unit, c.alt.0));
    angle_classes(c.unit, c.az.0, obs);
    let s = spherical(r, az, alt);
    ensure!(
        same_bits(s.r(), r) && same_bits(s.az().to_rads(), az.to_rads()) && same_bits(s.alt().to_rads(), alt.to_rads()),
        "spherical-accessors",
        "spherical({r:?}, {:?} rad, {:?} rad) reads back as ({:?}, {:?}, {:?})",
        az.to_rads(),
        alt.to_rads(),
        s.r(),
        s.az().to_rads(),
        s.alt().to_rads()
    );
    let v = s.to_cart();
    // every spelling of the conversion is the same function (altitudes beyond +-90 degrees included)
    let (vf, vi): (Vec3, Vec3) = (Vec3::from(s), s.into());
    ensure!(
        same_bits(vf.x(), v.x()) && same_bits(vf.y(), v.y()) && same_bits(vf.z(), v.z()) && same_bits(vi.x(), v.x()) && same_bits(vi.y(), v.y()) && same_bits(vi.z(), v.z()),
        "from-impl-differs",
        "spherical({r:?}, {:?} rad, {:?} rad): Vec3::from gives ({:?}, {:?}, {:?}) but to_cart() gives ({:?}, {:?}, {:?})",
        az.to_rads(), alt.to_rads(), vf.x(), vf.y(), vf.z(), v.x(), v.y(), v.z()
    );
    let (rd, ad, ld) = (r as f64, az.to_rads() as f64, alt.to_rads() as f64);
    // azimuth 90 deg is +z, altitude 90 deg is +y (unit tests spherical_to_cartesian)
    let want = [rd * ad.cos() * ld.cos(), rd * ld.sin(), rd * ad.sin() * ld.cos()];
    if r == 0.0 {
        obs.class("r = 0");
        ensure!(v.x() == 0.0 && v.y() == 0.0 && v.z() == 0.0, "to_cart-formula", "spherical(0, ..).to_cart() = ({:?}, {:?}, {:?}), expected the zero vector", v.x(), v.y(), v.z());
        obs.excluded("r = 0: inverse undefined (zero result asserted)");
        return Ok(());
    }
    let err = ((v.x() as f64 - want[0]).powi(2) + (v.y() as f64 - want[1]).powi(2) + (v.z() as f64 - want[2]).powi(2)).sqrt() / rd.abs();
    obs.max("spherical to_cart vs r(cos az cos alt, sin alt, sin az cos alt): error / |r| (tolerance 2.5e-6)", err);
    ensure!(
        err <= TOL_CART_REL,
        "to_cart-formula",
        "spherical({r:?}, {ad:?} rad, {ld:?} rad).to_cart() = ({:?}, {:?}, {:?}), expected ({:?}, {:?}, {:?})",
        v.x(),
        v.y(),
        v.z(),
        want[0],
        want[1],
        want[2]
    );
    if r < 0.0 {
        obs.class("r < 0");
        obs.excluded("r < 0: outside the inverse clause (formula asserted)");
        return Ok(());
    }
    obs.class("r > 0");
    let q = v.to_spherical();
    ensure!(az_in_range(q.az()), "azimuth-out-of-range", "azimuth {:?} rad outside [-180, 180] degrees", q.az().to_rads());
    ensure!(alt_in_range(q.alt()), "altitude-out-of-range", "altitude {:?} rad outside [-90, 90] degrees", q.alt().to_rads());
    obs.max("to_spherical(to_cart(s)) radius relative error (tolerance 2e-6)", (q.r() as f64 - rd).abs() / rd);
    ensure!((q.r() as f64 - rd).abs() <= 2.0 * TOL_CONV_REL * rd, "spherical-inverse", "spherical({r:?}, {ad:?}, {ld:?}) -> ({:?}, {:?}, {:?}) -> radius {:?}", v.x(), v.y(), v.z(), q.r());
    let half_pi = core::f32::consts::FRAC_PI_2 as f64;
    if ld.abs() > half_pi {
        obs.class("altitude outside [-90, 90] deg");
        obs.excluded("altitude outside [-90, 90] deg: a different representative comes back (formula, radius and ranges asserted)");
        return Ok(());
    }
    let ea = (q.alt().to_rads() as f64 - ld).abs();
    obs.max("to_spherical(to_cart(s)) altitude error, rad (tolerance 3e-6)", ea);
    ensure!(ea <= TOL_ANGLE, "spherical-inverse", "spherical({r:?}, {ad:?}, {ld:?}) -> ({:?}, {:?}, {:?}) -> altitude {:?} rad", v.x(), v.y(), v.z(), q.alt().to_rads());
    // f32(pi/2) lies beyond the true pole: cos(alt) <= 0 there and the azimuth flips
    if ld.abs() >= half_pi || ld.cos() < 1e-30 {
        obs.class("altitude on a pole");
        obs.excluded("on a pole: azimuth undefined (radius and altitude asserted)");
        return Ok(());
    }
    if ld.cos() < 1e-3 {
        obs.class("altitude within 0.06 deg of a pole");
    }
    let e = angdist(q.az().to_rads() as f64, ad);
    obs.max("to_spherical(to_cart(s)) azimuth error modulo a turn, rad (tolerance 3e-6)", e);
    ensure!(e <= TOL_ANGLE, "spherical-inverse", "spherical({r:?}, {ad:?}, {ld:?}) -> ({:?}, {:?}, {:?}) -> azimuth {:?} rad, which is not {ad:?} modulo a turn (off by {e:.3e})", v.x(), v.y(), v.z(), q.az().to_rads());
    let t = ad.rem_euclid(TAU64);
    if t > PI64 / 2.0 || ld < 0.0 {
        obs.class("direction outside octant +++");
        obs.nontrivial(hash_of(c));
        obs.sample(|| json!({"case": c, "cart": [v.x(), v.y(), v.z()]}));
    }
    Ok(())
}

// ------------------------------------------------------------------ lattices

/// (lo, hi) in turns
const LATTICE_INTERVALS: [(f64, f64); 8] = [(0.0, 1.0), (-0.5, 0.5), (0.0, 0.5), (-1.0, 1.0), (0.25, 1.25), (-0.75, -0.25), (0.0, 1.0 / 24.0), (-3.0, 5.0)];
const LATTICE_K: u64 = 961; // k - 480 in -480..=480, a = k/24 turn

fn wrap_lattice_case(i: u64) -> WrapCase {
    let k = (i % LATTICE_K) as i64 - 480;
    let i = i / LATTICE_K;
    let ua = (i % 3) as u8;
    let i = i / 3;
    let ui = (i % 3) as u8;
    let (l, h) = LATTICE_INTERVALS[(i / 3) as usize];
    WrapCase {
        ua,
        a: X((k as f64 / 24.0 * per_turn(ua)) as f32),
        ui,
        lo: X((l * per_turn(ui)) as f32),
        hi: X((h * per_turn(ui)) as f32),
    }
}

const LATTICE_COMPS: [f32; 18] =
    [0.0, -0.0, 1e-30, -1e-30, 1e-9, -1e-9, 1e-3, -1e-3, 0.5, -0.5, 1.0, -1.0, 3.0, -3.0, 1000.0, -1000.0, 1e7, -1e7];

// ------------------------------------------------------------------ entry points

pub fn run(cx: &mut Ctx) {
    cx.assume("all inputs finite; the wrap interval has positive width after conversion to radians");
    cx.assume("wrap congruence is asserted with tolerance 2e-6 * ((|a|+|lo|+|hi|)/width + 1) interval lengths (f32 rounding of a-lo, hi-lo and lo+rem each contribute ~6e-8 of that scale); where that exceeds a quarter interval only the range clause is asserted (counted)");
    cx.assume("length clauses need x^2+y^2(+z^2) inside f32's normal range: largest component in [1e-15, 1e15]; beyond that only the azimuth/altitude ranges are asserted (counted)");
    cx.assume("inverse clauses hold for r > 0, altitude inside [-90, 90] degrees, modulo a turn of azimuth, and not for r = 0 or on the poles (counted); for r <= 0 or out-of-range altitude the documented to_cart formula is still asserted");
    cx.assume("azimuth is the angle from +x towards +y (2D) / +z (3D), altitude the elevation towards +y, as fixed by the doc comments and unit tests of angle.rs");

    cx.enum_check("constants", 4, true, |i, obs| check_constants(i, obs).map_err(|f| (json!({ "index": i }), f)));
    cx.prop_check("convert", cx.n(250_000, 10_000_000), conv_case, |c, obs| check_convert(c, obs));
    cx.prop_check("wrap", cx.n(800_000, 30_000_000), wrap_case, |c, obs| check_wrap(c, obs));
    let total = LATTICE_K * 9 * LATTICE_INTERVALS.len() as u64;
    cx.enum_check("wrap-lattice", total, true, |i, obs| {
        let c = wrap_lattice_case(i);
        check_wrap(&c, obs).map_err(|f| (c, f))
    });
    cx.prop_check("ops", cx.n(200_000, 8_000_000), ops_case, |c, obs| check_ops(c, obs));
    cx.prop_check("trig", cx.n(200_000, 8_000_000), conv_case, |c, obs| check_trig(c, obs));
    cx.prop_check("cart-polar", cx.n(300_000, 12_000_000), v2_case, |c, obs| check_v2(c, obs));
    cx.prop_check("polar-cart", cx.n(200_000, 8_000_000), polar_case, |c, obs| check_polar(c, obs));
    cx.prop_check("cart-spherical", cx.n(300_000, 12_000_000), v3_case, |c, obs| check_v3(c, obs));
    cx.prop_check("spherical-cart", cx.n(200_000, 8_000_000), sph_case, |c, obs| check_sph(c, obs));
    let n = LATTICE_COMPS.len() as u64;
    cx.enum_check("vec2-lattice", n * n, true, |i, obs| {
        let c = V2Case { v: xs([LATTICE_COMPS[(i % n) as usize], LATTICE_COMPS[(i / n) as usize]]) };
        check_v2(&c, obs).map_err(|f| (c, f))
    });
    cx.enum_check("vec3-lattice", n * n * n, true, |i, obs| {
        let c = V3Case { v: xs([LATTICE_COMPS[(i % n) as usize], LATTICE_COMPS[(i / n % n) as usize], LATTICE_COMPS[(i / n / n) as usize]]) };
        check_v3(&c, obs).map_err(|f| (c, f))
    });
}

pub fn replay(sub: &str, case: &Value) -> Check {
    let mut obs = Obs::new();
    obs.freeze();
    fn de<T: for<'a> Deserialize<'a>>(v: &Value) -> Result<T, Fail> {
        serde_json::from_value(v.clone()).map_err(|e| Fail::new("bad-replay", e.to_string()))
    }
    match sub {
        "constants" => check_constants(case["index"].as_u64().ok_or(Fail::new("bad-replay", "no index"))?, &mut obs),
        "convert" => check_convert(&de::<ConvCase>(case)?, &mut obs),
        "wrap" | "wrap-lattice" => check_wrap(&de::<WrapCase>(case)?, &mut obs),
        "ops" => check_ops(&de::<OpsCase>(case)?, &mut obs),
        "trig" => check_trig(&de::<ConvCase>(case)?, &mut obs),
        "cart-polar" | "vec2-lattice" => check_v2(&de::<V2Case>(case)?, &mut obs),
        "polar-cart" => check_polar(&de::<PolarCase>(case)?, &mut obs),
        "cart-spherical" | "vec3-lattice" => check_v3(&de::<V3Case>(case)?, &mut obs),
        "spherical-cart" => check_sph(&de::<SphCase>(case)?, &mut obs),
        _ => Err(Fail::new("bad-replay", format!("unknown subcheck {sub}"))),
    }
}
