//! C02 — rendering never panics and never writes outside the viewport.
//!
//! View-space triangle soups are pushed through the library's own
//! perspective / orthographic and viewport matrices (Camera::render, or the
//! matrices applied by hand and handed to render()/Batch) with every Context
//! flag combination. Oracle: catch_unwind (no panic), sentinel comparison of
//! every cell outside the viewport rectangle and outside the target window,
//! and no NaN in the depth buffer.

use crate::c01::target_kind;
use crate::common::fl::*;
use crate::common::*;
use crate::rs::*;
use proptest::prelude::*;
use re::math::{orthographic, perspective, pt3};
use serde_json::{json, Value};

pub const RULE: &str = "proptest: 1..6 view-space triangles with coordinates from {0, +-near, +-far, on a side plane, behind the eye, equal to another vertex, sub-pixel offsets, huge (<= 1000 x near), uniform}, \
perspective (focal 0.1..10, near 1e-2..1e2, far/near <= 1000) or orthographic projection built by the library, targets 1x1..64x64 with every viewport sub-rectangle shape, \
all face_cull x depth_sort x depth_test x color_write x depth_write x discard combinations, doors render/Batch/Camera, all target kinds. \
pixel-grid: vertices exactly on the half-pixel lattice of power-of-two viewports under an orthographic unit box (coincident, collinear and general triangles). Non-trivial = writes >= 1 pixel and >= 1 triangle crosses a frustum plane or has a vertex exactly on a pixel centre; distinct by scene bit pattern.";

fn dims() -> BoxedStrategy<u32> {
    prop_oneof![2 => Just(1u32), 1 => Just(2u32), 3 => 3u32..=16, 3 => 8u32..=64].boxed()
}

fn span(n: u32) -> BoxedStrategy<(u32, u32)> {
    prop_oneof![
        2 => Just((0, n)),
        1 => (0..n).prop_map(|l| (l, l + 1)),
        3 => (0..n).prop_flat_map(move |l| (Just(l), l + 1..=n)),
    ]
    .boxed()
}

pub fn cfg_any() -> impl Strategy<Value = Cfg> {
    (0u8..3, 0u8..3, 0u8..4, any::<bool>(), any::<bool>(), any::<bool>()).prop_map(|(face_cull, depth_sort, depth_test, color_write, depth_write, discard)| Cfg {
        face_cull,
        depth_sort,
        depth_test,
        color_write,
        depth_write,
        discard,
    })
}

#[derive(Clone, Debug)]
struct ViewParams {
    ortho: bool,
    focal: f32,
    near: f32,
    far: f32,
    aspect: f32,
}

/// one view-space coordinate triple
fn view_point(p: ViewParams) -> BoxedStrategy<[f32; 3]> {
    let ViewParams { focal, near, far, aspect, ortho } = p;
    let big = 1000.0 * near;
    let z = prop_oneof![
        2 => Just(near),
        2 => Just(far),
        1 => Just(0.0f32),
        1 => Just(-near),
        1 => Just(-far),
        1 => Just(ulp_up(near)),
        1 => Just(ulp_down(near)),
        1 => Just(ulp_up(far)),
        1 => Just(ulp_down(far)),
        16 => near..far,
        2 => (-big)..0.0f32,
        2 => far..(far * 1.5f32).max(far * 1.01),
        1 => Just(big),
        1 => Just(-big),
        1 => (near * 1e-3)..(near * 0.999),
    ];
    let rel = || {
        prop_oneof![
            2 => Just(1.0f32),
            2 => Just(-1.0f32),
            2 => Just(0.0f32),
            8 => -1.5f32..1.5,
            1 => -50.0f32..50.0,
        ]
    };
    (z, rel(), rel(), any::<u8>())
        .prop_map(move |(z, rx, ry, k)| {
            // half-extent of the volume at this depth (perspective) or of the box (orthographic)
            let (hx, hy) = if ortho { (near * 2.0, near * 1.5) } else { (z.abs().max(near * 1e-3) / focal, z.abs().max(near * 1e-3) / (focal * aspect)) };
            let mut x = rx * hx;
            let mut y = ry * hy;
            match k % 16 {
                0 => x = big,
                1 => y = -big,
                2 => x = 0.0,
                3 => y = 0.0,
                _ => {}
            }
            [x.clamp(-big, big), y.clamp(-big, big), z.clamp(-big, big)]
        })
        .boxed()
}

fn soup(p: ViewParams, max_tris: usize) -> BoxedStrategy<Vec<[[f32; 3]; 3]>> {
    let tri = (view_point(p.clone()), view_point(p.clone()), view_point(p.clone()), 0u8..12, -1.0f32..1.0, -1.0f32..1.0).prop_map(move |(a, b, c, k, d0, d1)| {
        let tiny = p.near * 1e-3;
        match k {
            0 => [a, a, b],                                                          // two coincident vertices
            1 => [a, a, a],                                                          // a point
            2 => [a, b, [(a[0] + b[0]) / 2.0, (a[1] + b[1]) / 2.0, (a[2] + b[2]) / 2.0]], // collinear
            3 => [a, [a[0] + d0 * tiny, a[1] + d1 * tiny, a[2]], [a[0] + d1 * tiny, a[1] - d0 * tiny, a[2]]], // sub-pixel
            _ => [a, b, c],
        }
    });
    proptest::collection::vec(tri, 1..=max_tris).boxed()
}

pub fn scene_strategy(max_tris: usize) -> BoxedStrategy<Scene> {
    scene_strategy_dims(max_tris, dims(), dims())
}

/// Targets tens of thousands of pixels long and one or two high (or the transpose): screen coordinates whose ulp is 1/256 px,
/// where a clip-space rounding error of one ulp is a visible fraction of a pixel at the far edge of the viewport.
pub fn long_scene(max_tris: usize) -> BoxedStrategy<Scene> {
    let long = || prop_oneof![2 => 33_000u32..70_000, 1 => Just(65_536u32), 1 => Just(32_768u32), 1 => Just(131_072u32)].boxed();
    let short = || prop_oneof![2 => Just(1u32), 1 => Just(2u32)].boxed();
    prop_oneof![scene_strategy_dims(max_tris, long(), short()), scene_strategy_dims(max_tris, short(), long())].boxed()
}

pub fn scene_strategy_dims(max_tris: usize, dw: BoxedStrategy<u32>, dh: BoxedStrategy<u32>) -> BoxedStrategy<Scene> {
    (dw, dh)
        .prop_flat_map(|(bw, bh)| (Just((bw, bh)), span(bw), span(bh), any::<bool>(), 0.1f32..10.0, (-2.0f32..2.0).prop_map(|e| 10f32.powf(e)), prop_oneof![1 => Just(1000.0f32), 1 => Just(1.001f32), 4 => 1.01f32..1000.0]))
        .prop_flat_map(move |((bw, bh), (l, r), (t, b), ortho, focal, near, ratio)| {
            let far = (near * ratio).max(ulp_up(near));
            let aspect = (r - l) as f32 / (b - t) as f32;
            let p = ViewParams { ortho, focal, near, far, aspect };
            (Just(((bw, bh), [l, t, r, b], p.clone())), soup(p, max_tris), (0u8..3, 0u8..6, 0u8..6, 0u8..8, 0u8..3), target_kind(true), cfg_any(), prop_oneof![6 => Just(0.0f32), 1 => 0.0f32..2.0, 1 => Just(f32::INFINITY)])
        })
        .prop_map(|(((bw, bh), vp, p), tris, (door, fx, fy, sw, am), target, cfg, bg)| {
            let proj = if p.ortho {
                Proj::Orthographic { lbn: xs([-p.near * 2.0, -p.near * 1.5, p.near]), rtf: xs([p.near * 2.0, p.near * 1.5, p.far]) }
            } else {
                Proj::Perspective { focal: X(p.focal), near: X(p.near), far: X(p.far) }
            };
            let attrs = tris.iter().enumerate().map(|(i, _)| xs([i as f32, i as f32 + 0.25, i as f32 + 0.5])).collect();
            if door == 2 {
                Scene { bw, bh, vp, tris: tris.iter().map(|t| t.map(|v| xs([v[0], v[1], v[2], 1.0]))).collect(), attrs, door: Door::Camera, target, proj: Some(proj), bg_depth: X(bg), cfg, shader_mode: 0, shared_verts: false, flip: [false, false], swap_axes: false, attr_mode: 0 }
            } else {
                // the library's own projection matrix applied by hand
                let m = if p.ortho {
                    orthographic(pt3(-p.near * 2.0, -p.near * 1.5, p.near), pt3(p.near * 2.0, p.near * 1.5, p.far))
                } else {
                    perspective(p.focal, p.aspect, p.near..p.far)
                };
                let clip = tris.iter().map(|t| t.map(|v| xs(m.apply(&pt3(v[0], v[1], v[2])).0))).collect();
                Scene { bw, bh, vp, tris: clip, attrs, door: if door == 0 { Door::Render } else { Door::Batch }, target, proj: Some(proj), bg_depth: X(bg), cfg, shader_mode: 0, shared_verts: false, flip: [fx == 0, fy == 0], swap_axes: sw == 0, attr_mode: am }
            }
        })
        .boxed()
}

/// Scenes whose vertices sit exactly on the half-pixel lattice (pixel corners and centres): power-of-two viewports and an
/// orthographic unit box make every screen coordinate exact, so spans that start and end on a pixel centre, coincident
/// edges that round apart by one ulp, and zero-width trapezoids all occur by construction.
pub fn grid_scene(max_tris: usize) -> BoxedStrategy<Scene> {
    let pow2 = || prop_oneof![Just(4u32), Just(8u32), Just(16u32), Just(32u32), Just(64u32)];
    (pow2(), pow2(), 0u8..3, target_kind(true), cfg_any(), (0u8..6, 0u8..6))
        .prop_flat_map(move |(bw, bh, door, target, cfg, (fx, fy))| {
            let v = move || (0..=2 * bw, 0..=2 * bh, 0u8..3).prop_map(move |(i, j, k)| [i as f32 / bw as f32 - 1.0, j as f32 / bh as f32 - 1.0, [1.5f32, 2.0, 2.5][k as usize]]);
            let tri = (v(), v(), v(), 0u8..6).prop_map(|(a, b, c, k)| match k {
                0 => [a, b, b],
                1 => [a, a, b],
                2 => [a, b, [(a[0] + b[0]) / 2.0, (a[1] + b[1]) / 2.0, (a[2] + b[2]) / 2.0]],
                _ => [a, b, c],
            });
            (Just((bw, bh, door, target, cfg, fx, fy)), proptest::collection::vec(tri, 1..=max_tris))
        })
        .prop_map(|((bw, bh, door, target, cfg, fx, fy), tris)| {
            let proj = Proj::Orthographic { lbn: xs([-1.0, -1.0, 1.0]), rtf: xs([1.0, 1.0, 3.0]) };
            let attrs = tris.iter().enumerate().map(|(i, _)| xs([i as f32, i as f32 + 0.25, i as f32 + 0.5])).collect();
            if door == 2 {
                Scene { bw, bh, vp: [0, 0, bw, bh], tris: tris.iter().map(|t| t.map(|v| xs([v[0], v[1], v[2], 1.0]))).collect(), attrs, door: Door::Camera, target, proj: Some(proj), bg_depth: X(0.0), cfg, shader_mode: 0, shared_verts: false, flip: [false, false], swap_axes: false, attr_mode: 0 }
            } else {
                let m = orthographic(pt3(-1.0, -1.0, 1.0), pt3(1.0, 1.0, 3.0));
                let clip = tris.iter().map(|t| t.map(|v| xs(m.apply(&pt3(v[0], v[1], v[2])).0))).collect();
                Scene { bw, bh, vp: [0, 0, bw, bh], tris: clip, attrs, door: if door == 0 { Door::Render } else { Door::Batch }, target, proj: Some(proj), bg_depth: X(0.0), cfg, shader_mode: 0, shared_verts: false, flip: [fx == 0, fy == 0], swap_axes: false, attr_mode: 0 }
            }
        })
        .boxed()
}

/// Many (24..64) triangles in one call whose depths differ by a few ulps, with depth sorting on: chains of nearly
/// equal sort keys, walls cut into strips, coincident layers.
pub fn coplanar_scene() -> BoxedStrategy<Scene> {
    (8u32..=32, 8u32..=32, 0.5f32..2.0, log_uniform(-1.0, 2.0), 24usize..=64, 0u8..3, target_kind(true), cfg_any(), 1u8..3)
        .prop_flat_map(|(bw, bh, focal, near, n, door, target, cfg, sort)| {
            let far = near * 100.0;
            let z0 = near * 2.0;
            let strips = proptest::collection::vec((-1.2f32..1.2, -1.2f32..1.2, 0.05f32..0.6, 0.05f32..0.6, -4i32..=4, -4i32..=4, -4i32..=4), n..=n);
            (Just((bw, bh, focal, near, far, z0, door, target, cfg, sort)), strips, any::<u64>())
        })
        .prop_map(|((bw, bh, focal, near, far, z0, door, target, mut cfg, sort), strips, _)| {
            cfg.depth_sort = sort;
            let aspect = bw as f32 / bh as f32;
            let (hx, hy) = (z0 / focal, z0 / (focal * aspect));
            let tris: Vec<[[f32; 3]; 3]> = strips
                .iter()
                .map(|&(cx, cy, w, h, k0, k1, k2)| [[(cx - w) * hx, (cy - h) * hy, nudge(z0, k0)], [(cx + w) * hx, (cy - h) * hy, nudge(z0, k1)], [cx * hx, (cy + h) * hy, nudge(z0, k2)]])
                .collect();
            let proj = Proj::Perspective { focal: X(focal), near: X(near), far: X(far) };
            let attrs = tris.iter().enumerate().map(|(i, _)| xs([i as f32; 3])).collect();
            if door == 2 {
                Scene { bw, bh, vp: [0, 0, bw, bh], tris: tris.iter().map(|t| t.map(|v| xs([v[0], v[1], v[2], 1.0]))).collect(), attrs, door: Door::Camera, target, proj: Some(proj), bg_depth: X(0.0), cfg, shader_mode: 0, shared_verts: false, flip: [false, false], swap_axes: false, attr_mode: 0 }
            } else {
                let m = perspective(focal, aspect, near..far);
                let clip = tris.iter().map(|t| t.map(|v| xs(m.apply(&pt3(v[0], v[1], v[2])).0))).collect();
                Scene { bw, bh, vp: [0, 0, bw, bh], tris: clip, attrs, door: if door == 0 { Door::Render } else { Door::Batch }, target, proj: Some(proj), bg_depth: X(0.0), cfg, shader_mode: 0, shared_verts: false, flip: [false, false], swap_axes: false, attr_mode: 0 }
            }
        })
        .boxed()
}

pub fn check(sc: &Scene, obs: &mut Obs) -> Check {
    let mut s = Session::new(sc);
    let all: Vec<usize> = (0..sc.tris.len()).collect();
    if let Err(p) = s.draw(&all) {
        fail!("render-panic", "rendering panicked: {p}");
    }
    if let Some((x, y)) = s.padding_changed() {
        fail!("wrote-outside-target-window", "cell ({x},{y}) of the backing buffer, outside the target window, was modified");
    }
    let [l, t, r, b] = sc.vp;
    let mut written = 0u64;
    for y in 0..sc.bh {
        for x in 0..sc.bw {
            let inside = x >= l && x < r && y >= t && y < b;
            let c_changed = s.col(x, y) != s.prior_col(x, y);
            let d = s.dep(x, y);
            let d_changed = d.to_bits() != sc.bg_depth.0.to_bits();
            if !inside {
                ensure!(!c_changed, "wrote-outside-viewport", "colour of pixel ({x},{y}) outside the viewport {:?} was modified", sc.vp);
                ensure!(!d_changed, "wrote-outside-viewport", "depth of pixel ({x},{y}) outside the viewport {:?} was modified", sc.vp);
            } else if c_changed || d_changed {
                written += 1;
            }
            ensure!(!d.is_nan(), "nan-depth", "depth buffer holds NaN at ({x},{y})");
        }
    }
    let mut crossing = false;
    for t in 0..sc.tris.len() {
        let c = clip64(sc, t);
        let codes: Vec<u8> = c.iter().map(|p| plane_dists(*p).iter().enumerate().map(|(i, d)| ((*d > 0.0) as u8) << i).sum()).collect();
        let any = codes[0] | codes[1] | codes[2];
        let all_ = codes[0] & codes[1] & codes[2];
        if any != 0 && all_ == 0 {
            crossing = true;
            for (i, n) in ["crosses:near", "crosses:far", "crosses:left", "crosses:right", "crosses:bottom", "crosses:top"].iter().enumerate() {
                if any >> i & 1 == 1 && all_ >> i & 1 == 0 {
                    obs.class(n);
                }
            }
        }
        if c.iter().any(|p| p[3] <= 0.0) {
            obs.class("has-vertex-behind-or-on-eye-plane");
        }
    }
    obs.class(match sc.door {
        Door::Render => "door:render",
        Door::Batch => "door:batch",
        Door::Camera => "door:camera",
    });
    obs.class(match sc.proj {
        Some(Proj::Orthographic { .. }) => "proj:orthographic",
        _ => "proj:perspective",
    });
    obs.class(["cull:none", "cull:back", "cull:front"][sc.cfg.face_cull as usize % 3]);
    obs.class(["test:none", "test:less", "test:equal", "test:greater"][sc.cfg.depth_test as usize % 4]);
    obs.class(["sort:none", "sort:front-to-back", "sort:back-to-front"][sc.cfg.depth_sort as usize % 3]);
    if sc.cfg.discard {
        obs.class("shader:discarding");
    }
    if sc.bw == 1 || sc.bh == 1 {
        obs.class("target:1-pixel-wide-or-high");
    }
    if written > 0 {
        obs.class("writes>=1-pixel");
    }
    // pixel-grid scenes: a vertex exactly on a pixel centre
    let on_centre = sc.door != Door::Camera && (0..sc.tris.len()).any(|t| {
        clip64(sc, t).iter().any(|p| {
            let s = to_screen(sc, *p);
            p[3] > 0.0 && (s[0] - s[0].floor() - 0.5).abs() < 1e-12 && (s[1] - s[1].floor() - 0.5).abs() < 1e-12
        })
    });
    if on_centre {
        obs.class("has-vertex-exactly-on-a-pixel-centre");
    }
    if sc.tris.len() > 20 {
        obs.class("more-than-20-triangles-in-one-call");
    }
    if written > 0 && (crossing || on_centre || sc.tris.len() > 20) {
        obs.nontrivial(hash_of(&(&sc.tris, sc.vp, sc.bw, sc.bh, sc.cfg.face_cull, sc.cfg.depth_test)));
        if obs.wants_sample() {
            let cc = sc.clone();
            obs.sample(|| json!({"scene": cc, "pixels_written": written}));
        }
    }
    Ok(())
}

// ------------------------------------------------------------------ rasteriser output into every Target implementation

/// Screen-space triangles (C04's class mixture: slivers, near-flat halves, sub-pixel, coincident...) are scan-converted by
/// tri_fill and each scanline handed straight to the three Target implementations a user can render into. Thin slivers
/// make the independently stepped left and right edges cross by an ulp, so the rasteriser emits spans whose end lies
/// before their start; every target must treat them as empty (target.rs: x1 = max(x0, end)), not index with them.
/// Oracle: no panic; the colour-only target and the Framebuf (depth test passing everywhere) paint the same pixels;
/// Throughput.i equals the span length.
pub fn check_spans(c: &crate::c04::TriCase, obs: &mut Obs) -> Check {
    use re::geom::vertex;
    use re::math::color::rgba;
    use re::render::raster::{tri_fill, Frag};
    use re::render::{Context, Framebuf, Target};
    use re::util::buf::{AsMutSlice2, Buf2};
    let v = c.pts();
    let maxx = v.iter().map(|p| p[0]).fold(0.0f32, f32::max);
    let maxy = v.iter().map(|p| p[1]).fold(0.0f32, f32::max);
    if maxx > 600.0 || maxy > 600.0 {
        // (a 4096 x 4096 buffer per case and target costs more than it tells)
        obs.class("skipped: triangle beyond 600 px");
        return Ok(());
    }
    ensure!( v.iter().flatten().all(|c| c.is_finite() && *c > -0.5), "bad-case", "generator produced an out-of-domain triangle {v:?}");
    // tri_fill knows nothing about the buffer: give it one that holds every pixel centre the triangle can cover
    let (w, h) = (maxx.ceil() as u32 + 2, maxy.ceil() as u32 + 2);
    // (the depth test compares reciprocals; it is switched off so that both kinds of target accept every fragment)
    let ctx = Context { depth_test: None, ..Context::default() };
    let fs = |_: Frag<()>| Some(rgba(0x11, 0x22, 0x33, 0x44));
    let verts = v.map(|p| vertex(pt3(p[0], p[1], 0.5), ()));
    let mut reversed = 0u32;
    let mut spans = 0u64;
    let mut run = |which: u8| -> Result<(Vec<u32>, u64), String> {
        catch(|| {
            let mut col = Buf2::<u32>::new((w + 1, h + 1));
            let mut dep = Buf2::<f32>::new_with((w + 1, h + 1), |_, _| f32::INFINITY);
            let mut total = 0u64;
            {
                let mut feed = |t: &mut dyn FnMut(re::render::raster::Scanline<()>) -> re::render::stats::Throughput| {
                    tri_fill(verts, |sl| {
                        let len = sl.xs.end.saturating_sub(sl.xs.start);
                        if which == 0 {
                            spans += 1;
                            if sl.xs.end < sl.xs.start {
                                reversed += 1;
                            }
                        }
                        let io = t(sl);
                        if io.i != len {
                            panic!("Throughput.i = {} for a span of length {len}", io.i);
                        }
                        total += io.o as u64;
                    });
                };
                match which {
                    0 => feed(&mut |sl| col.rasterize(sl, &fs, &ctx)),
                    1 => {
                        let mut whole = col.as_mut_slice2();
                        let mut win = whole.slice_mut((0..w, 0..h));
                        feed(&mut |sl| win.rasterize(sl, &fs, &ctx))
                    }
                    _ => {
                        let mut fb = Framebuf { color_buf: &mut col, depth_buf: &mut dep };
                        feed(&mut |sl| fb.rasterize(sl, &fs, &ctx))
                    }
                }
            }
            (col.data().to_vec(), total)
        })
    };
    let names = ["Buf2<u32>", "MutSlice2<u32>", "Framebuf"];
    let mut outs = vec![];
    for k in 0..3u8 {
        match run(k) {
            Ok(o) => outs.push(o),
            Err(p) => fail!("render-panic", "Target::rasterize on {} panicked on a scanline emitted by tri_fill: {p}", names[k as usize]),
        }
    }
    for k in 1..3 {
        if outs[k] != outs[0] {
            let at = outs[0].0.iter().zip(&outs[k].0).position(|(a, b)| a != b);
            fail!("targets-disagree", "{} and {} painted different pixels for the same scanlines (first difference at linear index {at:?} of a {}-wide buffer; fragments written {} vs {})", names[0], names[k], w + 1, outs[0].1, outs[k].1);
        }
    }
    // nothing in the guard column / row
    let stride = (w + 1) as usize;
    for (i, &px) in outs[0].0.iter().enumerate() {
        if px != 0 && (i % stride >= w as usize || i / stride >= h as usize) {
            fail!("writes-outside", "pixel ({}, {}) beyond the triangle's bounding box was written", i % stride, i / stride);
        }
    }
    obs.class(crate::c04::shape_class(&c.shape));
    obs.class(if reversed > 0 { "tri_fill emitted a reversed span (end < start)" } else { "no reversed span" });
    if outs[0].1 > 0 && spans > 0 {
        obs.nontrivial(hash_of(&c.v));
    }
    if obs.wants_sample() && reversed > 0 {
        let cc = c.clone();
        obs.sample(|| json!({"case": cc, "reversed_spans": reversed, "fragments": outs[0].1}));
    }
    Ok(())
}

/// Thin, steep slivers whose sharp tip sits on (or a few ulps off) a pixel centre: the two long edges nearly coincide, so
/// their independently stepped positions cross near the tip, and on the tip's own row they straddle the centre.
pub fn steep_sliver() -> BoxedStrategy<crate::c04::TriCase> {
    (6i32..60, 0i32..24, -3i32..=3, 0i32..=4, -0.4f32..0.4, 4.0f32..30.0, 0.3f32..0.95, 1i32..=8, any::<bool>(), any::<bool>(), any::<u8>())
        .prop_map(|(kx, ky, ix, iy, slope, len, t, k, neg, top, p)| {
            // tip: bottom tips a hair below a row of centres (so that row is still scanned), top tips a hair above
            let (ty, dir) = if top { (nudge(ky as f32 + 0.5, -iy), 1.0f32) } else { (nudge(ky as f32 + 30.5, iy), -1.0f32) };
            let c = [nudge(kx as f32 + 0.5, ix), ty];
            let a = [c[0] + slope * len, c[1] + dir * len];
            let off = if k == 8 { 0.0 } else { 10f32.powi(-k) * if neg { -1.0 } else { 1.0 } };
            let b = [c[0] + slope * len * t + off, c[1] + dir * len * t];
            const P: [[usize; 3]; 6] = [[0, 1, 2], [0, 2, 1], [1, 0, 2], [1, 2, 0], [2, 0, 1], [2, 1, 0]];
            let q = P[(p % 6) as usize];
            let v = [a, b, c].map(|p| [p[0].max(0.0), p[1].max(0.0)]);
            crate::c04::TriCase { shape: "sliver".into(), v: [v[q[0]], v[q[1]], v[q[2]]].map(|p| [X(p[0]), X(p[1])]) }
        })
        .boxed()
}

pub fn run(cx: &mut Ctx) {
    cx.assume("numeric domain of the property: far/near <= 1000, |view coordinate| <= 1000 x near, focal ratio 0.1..10, near 1e-2..1e2");
    let n = cx.n(500_000, 10_000_000);
    let mt = cx.tier.pick(6, 8);
    cx.prop_check("soups", n, move || scene_strategy(mt), |c, obs| check(c, obs));
    let n = cx.n(300_000, 5_000_000);
    cx.prop_check("pixel-grid", n, move || grid_scene(4), |c, obs| check(c, obs));
    let n = cx.n(20_000, 400_000);
    cx.prop_check("many-near-coplanar", n, coplanar_scene, |c, obs| check(c, obs));
    let n = cx.n(3_000, 100_000);
    cx.prop_check("long-viewports", n, move || long_scene(3), |c, obs| check(c, obs));
    let n = cx.n(100_000, 3_000_000);
    cx.prop_check("spans-direct", n, crate::c04::tri_case, |c, obs| check_spans(c, obs));
    let n = cx.n(150_000, 4_000_000);
    cx.prop_check("spans-direct-steep-slivers", n, steep_sliver, |c, obs| check_spans(c, obs));
}

pub fn replay(sub: &str, case: &Value) -> Check {
    let mut obs = Obs::new();
    obs.freeze();
    if sub.starts_with("spans-direct") {
        let c: crate::c04::TriCase = serde_json::from_value(case.clone()).map_err(|e| Fail::new("bad-replay", e.to_string()))?;
        return check_spans(&c, &mut obs);
    }
    let sc: Scene = serde_json::from_value(case.clone()).map_err(|e| Fail::new("bad-replay", e.to_string()))?;
    check(&sc, &mut obs)
}
