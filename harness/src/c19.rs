//! C19 — PRNG has full period; distributions stay in range for every state.
//!
//! Generator core. The step map of `Xorshift64::next_bits` is read off the real
//! code as a 64x64 matrix T over GF(2) (the state is a public field, so the 64
//! unit states can be set directly). Linearity is verified on generated pairs;
//! then exact bit-matrix arithmetic proves T^(2^64-1) = I and
//! T^((2^64-1)/p) != I for every prime factor p of 2^64-1: the order of T is
//! exactly 2^64-1, which for a linear map is equivalent to "bijection on the
//! non-zero states forming one cycle" (and "never reaches zero" follows).
//! An independently written inverse step is checked against the real step and
//! is then used to *construct* states whose next output has chosen bits.
//!
//! Distributions. `Uniform<f32>` consumes `next_bits() >> 41`, i.e. bits 41..=63
//! of the next output (read from the code and confirmed by a bit-flip probe):
//! all 2^23 mantissas are enumerated against a family of ranges. Bernoulli edge
//! probabilities likewise. `Uniform<i32>` consumes the low 32 bits: chosen by
//! construction. Two or three consecutive outputs are chosen at once by solving
//! the GF(2) linear system given by rows of T, T^2, T^3 (places points on/near
//! the unit circle and sphere, and exactly at the origin).

use crate::common::fl::*;
use crate::common::*;
use proptest::prelude::*;
use rayon::prelude::*;
use re::math::rand::*;
use re::math::{pt2, pt3, vec2, vec3, Point2, Point3, Vec2, Vec2i, Vec3, Vec3i};
use serde::{Deserialize, Serialize};
use serde_json::{json, Value};
use std::sync::Mutex;
use std::time::Instant;

pub const RULE: &str = "generator: 64x64 GF(2) step matrix read off next_bits on the unit states; linearity on generated pairs (random, sparse, dense, shifted, equal); \
exact order certificate T^(2^64-1)=I, T^((2^64-1)/p)!=I for p in {3,5,17,257,641,65537,6700417}; independent inverse step vs real step; equal seeds. \
uniform-f32: every one of the 2^23 mantissas (state built with the inverse step so that the next output's bits 41..63 equal the mantissa) x a family of ranges \
(fixed: unit, symmetric, offset, tiny, negative, subnormal, huge; plus seed-derived ranges per class). Non-trivial = (mantissa, range) pair where unit*(hi-lo)+lo is not exactly \
representable (the f32 computation rounds); each pair is visited once. bernoulli: all 2^23 mantissas x edge probabilities. edge-outputs: ~600 output words structured in all 64 bits (runs of ones from either end, single bits, complements, top-k ones over random low bits) x every edge probability / fixed range. uniform-i32: generated ranges with representable width x chosen low-32-bit patterns \
(0, -1, MIN, MAX, multiples of the width +-1, random); non-trivial = distinct (range, bits). unit-shapes: random states and states built (GF(2) solve) so that the first 2-3 draws are a chosen point \
(on/near the unit circle or sphere, axes, corners, next to the inscribed-box corners, near the origin); rejection-runs: states from which 4..22 candidates in a row are rejected (GF(2) solution space of 'all components >= 0.5 in magnitude', filtered); non-trivial = distinct state. composite: array/vector/point/tuple distributions vs sequential component sampling from a cloned generator; non-trivial = distinct case with >= 2 components.";

// ================================================================== GF(2) machinery

const N_ORDER: u64 = u64::MAX; // 2^64 - 1
const PRIMES: [u64; 7] = [3, 5, 17, 257, 641, 65537, 6700417];

/// 64x64 matrix over GF(2); `c[i]` is the image of the unit vector `1 << i`.
#[derive(Clone, PartialEq, Eq)]
struct M64 {
    c: [u64; 64],
}

impl M64 {
    fn identity() -> M64 {
        let mut c = [0u64; 64];
        for i in 0..64 {
            c[i] = 1u64 << i;
        }
        M64 { c }
    }
    fn from_fn(f: impl Fn(u64) -> u64) -> M64 {
        let mut c = [0u64; 64];
        for i in 0..64 {
            c[i] = f(1u64 << i);
        }
        M64 { c }
    }
    #[inline]
    fn apply(&self, mut x: u64) -> u64 {
        let mut r = 0u64;
        while x != 0 {
            r ^= self.c[x.trailing_zeros() as usize];
            x &= x - 1;
        }
        r
    }
    /// self * b (first b, then self)
    fn mul(&self, b: &M64) -> M64 {
        let mut c = [0u64; 64];
        for i in 0..64 {
            c[i] = self.apply(b.c[i]);
        }
        M64 { c }
    }
    fn pow(&self, mut e: u64) -> M64 {
        let mut base = self.clone();
        let mut acc = M64::identity();
        while e != 0 {
            if e & 1 == 1 {
                acc = acc.mul(&base);
            }
            e >>= 1;
            if e != 0 {
                base = base.mul(&base);
            }
        }
        acc
    }
    /// row j as a mask over the input bits: bit i set iff output bit j depends on input bit i
    fn rows(&self) -> [u64; 64] {
        let mut r = [0u64; 64];
        for i in 0..64 {
            let mut col = self.c[i];
            while col != 0 {
                let j = col.trailing_zeros() as usize;
                r[j] |= 1u64 << i;
                col &= col - 1;
            }
        }
        r
    }
    /// a non-zero vector of the kernel, if the matrix is singular
    fn kernel_vector(&self) -> Option<u64> {
        let rows = self.rows();
        let sys = LinSys::build(&rows);
        if sys.free_cols.is_empty() {
            None
        } else {
            // homogeneous system, one free variable set
            sys.solve(0, 1)
        }
    }
    fn hex(&self) -> Vec<String> {
        self.c.iter().map(|v| format!("{v:016x}")).collect()
    }
}

#[inline]
fn parity128(x: u128) -> bool {
    x.count_ones() & 1 == 1
}

/// Reduced row-echelon form of up to 128 linear constraints `row_k . s = b_k` over GF(2) in 64 unknowns.
struct LinSys {
    /// per pivot row: (mask over unknowns, combination of original constraints, pivot column)
    piv: Vec<(u64, u128, u32)>,
    /// combinations of original constraints that reduce to the zero row (consistency conditions)
    deps: Vec<u128>,
    free_cols: Vec<u32>,
}

impl LinSys {
    fn build(rows: &[u64]) -> LinSys {
        assert!(rows.len() <= 128);
        let mut piv: Vec<(u64, u128, u32)> = vec![];
        let mut deps = vec![];
        for (k, &row) in rows.iter().enumerate() {
            let mut m = row;
            let mut combo = 1u128 << k;
            for &(pm, pc, col) in &piv {
                if m >> col & 1 == 1 {
                    m ^= pm;
                    combo ^= pc;
                }
            }
            if m == 0 {
                deps.push(combo);
                continue;
            }
            let col = m.trailing_zeros();
            for p in piv.iter_mut() {
                if p.0 >> col & 1 == 1 {
                    p.0 ^= m;
                    p.1 ^= combo;
                }
            }
            piv.push((m, combo, col));
        }
        let mut used = 0u64;
        for p in &piv {
            used |= 1u64 << p.2;
        }
        let free_cols = (0..64).filter(|c| used >> c & 1 == 0).collect();
        LinSys { piv, deps, free_cols }
    }
    fn full_rank(&self) -> bool {
        self.deps.is_empty()
    }
    /// A solution with the free unknowns taken from the low bits of `free`; None if `rhs` is inconsistent.
    fn solve(&self, rhs: u128, free: u64) -> Option<u64> {
        for &d in &self.deps {
            if parity128(d & rhs) {
                return None;
            }
        }
        let mut s = 0u64;
        for (t, &c) in self.free_cols.iter().enumerate() {
            if free >> t & 1 == 1 {
                s |= 1u64 << c;
            }
        }
        let sf = s;
        for &(m, combo, col) in &self.piv {
            let v = parity128(combo & rhs) ^ ((m & sf).count_ones() & 1 == 1);
            if v {
                s |= 1u64 << col;
            }
        }
        Some(s)
    }
}

// ================================================================== the code under test, and the harness's own model

#[inline]
fn real_step(s: u64) -> u64 {
    let mut g = Xorshift64(s);
    g.next_bits()
}

/// Inverse of Marsaglia's xorshift64 step with the triple (13, 7, 17) that the crate documents
/// (its doc examples pin `from_seed(123)` -> 133101616827, ...). Written independently of the crate:
/// the three xor-shifts are undone in reverse order.
#[inline]
fn inv_step(y: u64) -> u64 {
    // (I + A)^-1 = (I + A)(I + A^2)(I + A^4)... for nilpotent A (a shift), so each xor-shift is undone by
    // repeating it with doubled shift distances until the distance reaches 64.
    let mut x = y;
    // undo  x ^= x << 17
    x ^= x << 17;
    x ^= x << 34;
    // undo  x ^= x >> 7
    x ^= x >> 7;
    x ^= x >> 14;
    x ^= x >> 28;
    x ^= x >> 56;
    // undo  x ^= x << 13
    x ^= x << 13;
    x ^= x << 26;
    x ^= x << 52;
    x
}

/// State whose next output (= next state) is `y`.
#[inline]
fn state_before(y: u64) -> u64 {
    inv_step(y)
}

const F32_BITS_EXPECTED: u64 = 0xFFFF_FE00_0000_0000; // next_bits() >> 41
const I32_BITS_EXPECTED: u64 = 0x0000_0000_FFFF_FFFF; // next_bits() as i32

// ================================================================== generator core

#[derive(Clone, Debug, Serialize, Deserialize)]
struct GenCase {
    kind: String,
    #[serde(default)]
    a: u64,
    #[serde(default)]
    b: u64,
    #[serde(default)]
    len: u64,
    #[serde(default)]
    note: String,
}

fn structured_state(sm: &mut Sm) -> (u64, &'static str) {
    match sm.below(10) {
        0 => (1u64 << sm.below(64), "unit"),
        1 => ((1u64 << sm.below(64)) | (1u64 << sm.below(64)) | (1u64 << sm.below(64)), "sparse<=3"),
        2 => (!((1u64 << sm.below(64)) | (1u64 << sm.below(64))), "dense"),
        3 => (sm.next() >> 32, "low-half"),
        4 => (sm.next() << 32, "high-half"),
        5 => {
            let k = sm.below(63) + 1;
            let run = (1u64 << k) - 1;
            (run << sm.below(64 - k + 1), "run-of-ones")
        }
        6 => (sm.next() & sm.next() & sm.next(), "thin-random"),
        _ => (sm.next(), "random"),
    }
}

fn nonzero(s: u64) -> u64 {
    if s == 0 {
        0x9E3779B97F4A7C15
    } else {
        s
    }
}

struct GenInfo {
    linear: bool,
    inverse_ok: bool,
    t: M64,
}

/// The certificate proper; also used by replay. Err = order is not 2^64-1 (or the map is singular).
fn certificate(t: &M64, obs: &mut Obs) -> Result<(), (GenCase, Fail)> {
    // the factorisation itself
    let prod: u128 = PRIMES.iter().map(|&p| p as u128).product();
    assert_eq!(prod, N_ORDER as u128, "2^64-1 = 3*5*17*257*641*65537*6700417");
    if let Some(k) = t.kernel_vector() {
        let out = real_step(k);
        let case = GenCase { kind: "steps-to-zero".into(), a: k, b: 0, len: 0, note: "kernel vector of the step matrix".into() };
        if out == 0 && k != 0 {
            return Err((case, Fail::new("nonzero-state-steps-to-zero", format!("state {k:#018x} is non-zero but next_bits() returns 0 and leaves the all-zero state"))));
        }
        return Err((case, Fail::new("step-not-bijective", format!("the step matrix is singular (kernel vector {k:#018x}, real step gives {out:#018x})"))));
    }
    obs.evals_n(1);
    let id = M64::identity();
    let full = t.pow(N_ORDER);
    obs.evals_n(1);
    if full != id {
        let i = (0..64).find(|&i| full.c[i] != 1u64 << i).unwrap();
        let case = GenCase { kind: "order".into(), a: 1u64 << i, b: full.c[i], len: 0, note: "T^(2^64-1) != I".into() };
        return Err((
            case,
            Fail::new(
                "period-not-2^64-1",
                format!(
                    "the step map is linear over GF(2) but T^(2^64-1) != I: state {:#018x} is at {:#018x} after 2^64-1 steps, so it does not lie on a cycle of length 2^64-1",
                    1u64 << i,
                    full.c[i]
                ),
            ),
        ));
    }
    obs.class("T^(2^64-1)=I");
    for p in PRIMES {
        let q = t.pow(N_ORDER / p);
        obs.evals_n(1);
        if q == id {
            let case = GenCase { kind: "order".into(), a: 1, b: p, len: N_ORDER / p, note: format!("T^((2^64-1)/{p}) = I") };
            return Err((
                case,
                Fail::new("period-not-2^64-1", format!("T^((2^64-1)/{p}) = I: every state returns to itself after {} steps, the non-zero states split into several shorter cycles", N_ORDER / p)),
            ));
        }
        obs.class("T^((2^64-1)/p)!=I");
    }
    Ok(())
}

/// Brent's cycle detection on the real step from `x0`, at most `limit` steps. Returns (mu, lambda).
fn brent(x0: u64, limit: u64) -> Option<(u64, u64)> {
    let mut power = 1u64;
    let mut lam = 1u64;
    let mut tortoise = x0;
    let mut hare = real_step(x0);
    let mut steps = 1u64;
    while tortoise != hare {
        if power == lam {
            tortoise = hare;
            power *= 2;
            lam = 0;
        }
        hare = real_step(hare);
        lam += 1;
        steps += 1;
        if steps > limit {
            return None;
        }
    }
    let mut t = x0;
    let mut h = x0;
    for _ in 0..lam {
        h = real_step(h);
    }
    let mut mu = 0u64;
    while t != h {
        t = real_step(t);
        h = real_step(h);
        mu += 1;
    }
    Some((mu, lam))
}

fn nth(x0: u64, n: u64) -> u64 {
    let mut x = x0;
    for _ in 0..n {
        x = real_step(x);
    }
    x
}

fn check_gen_case(c: &GenCase) -> Check {
    match c.kind.as_str() {
        "steps-to-zero" => {
            ensure!(c.a == 0 || real_step(c.a) != 0, "nonzero-state-steps-to-zero", "state {:#018x} is non-zero but next_bits() returns 0", c.a);
            Ok(())
        }
        "collision" => {
            ensure!(c.a == c.b || real_step(c.a) != real_step(c.b), "step-not-bijective", "distinct states {:#018x} and {:#018x} both step to {:#018x}", c.a, c.b, real_step(c.a));
            Ok(())
        }
        "short-cycle" => {
            ensure!(c.len <= 1 << 34, "bad-replay", "cycle too long to replay");
            ensure!(nth(c.a, c.len) != c.a, "period-not-2^64-1", "state {:#018x} returns to itself after only {} steps", c.a, c.len);
            Ok(())
        }
        "order" => {
            // recompute everything from the real code
            let t = M64::from_fn(real_step);
            let mut o = Obs::new();
            o.freeze();
            certificate(&t, &mut o).map_err(|(_, f)| f)
        }
        "seeding" => check_seed(c.a, &mut {
            let mut o = Obs::new();
            o.freeze();
            o
        }),
        "inverse" => check_inverse(c.a, &mut {
            let mut o = Obs::new();
            o.freeze();
            o
        }),
        k => Err(Fail::new("bad-replay", format!("unknown generator case kind {k}"))),
    }
}

fn check_inverse(s: u64, obs: &mut Obs) -> Check {
    let mut g = Xorshift64(s);
    let out = g.next_bits();
    ensure!(out == g.0, "output-is-not-new-state", "next_bits() on state {s:#018x} returned {out:#018x} but left state {:#018x}", g.0);
    ensure!(s == 0 || out != 0, "nonzero-state-steps-to-zero", "state {s:#018x} is non-zero but next_bits() returns 0");
    let back = inv_step(out);
    ensure!(
        back == s,
        "step-differs-from-documented-xorshift-13-7-17",
        "next_bits() maps {s:#018x} to {out:#018x}, which the inverse of the documented xorshift (13,7,17) step maps back to {back:#018x}"
    );
    // and the other way round, with s read as a target output
    let pre = inv_step(s);
    let fwd = real_step(pre);
    ensure!(
        fwd == s,
        "step-differs-from-documented-xorshift-13-7-17",
        "the predecessor of {s:#018x} under the documented xorshift (13,7,17) is {pre:#018x}, but next_bits() maps it to {fwd:#018x}"
    );
    obs.class_n("round-trips", 2);
    Ok(())
}

fn check_seed(seed: u64, obs: &mut Obs) -> Check {
    if seed == 0 {
        let r = catch(|| Xorshift64::from_seed(0));
        ensure!(r.is_err(), "zero-seed-accepted", "from_seed(0) did not panic (documented: panics if seed equals 0)");
        obs.class("seed=0 panics");
        return Ok(());
    }
    let mut a = Xorshift64::from_seed(seed);
    let mut b = Xorshift64::from_seed(seed);
    ensure!(a.0 == seed, "seed-not-state", "from_seed({seed}) has state {}", a.0);
    let d = (Uniform(-3.0f32..5.0), (Uniform(-7i32..9), Bernoulli(0.5)));
    for k in 0..16 {
        let (x, y) = (a.next_bits(), b.next_bits());
        ensure!(x == y, "equal-seeds-differ", "two generators from seed {seed} differ at output {k}: {x} vs {y}");
        ensure!(x != 0, "nonzero-state-steps-to-zero", "generator from seed {seed} produced 0 at output {k}");
    }
    for k in 0..4 {
        let (x, y) = (d.sample(&mut a), d.sample(&mut b));
        ensure!(x.0.to_bits() == y.0.to_bits() && x.1 == y.1, "equal-seeds-differ", "two generators from seed {seed} give different samples at draw {k}: {x:?} vs {y:?}");
    }
    ensure!(a.0 == b.0, "equal-seeds-differ", "states differ after equal histories from seed {seed}");
    obs.class("equal-seed sequences (16 outputs + 4 samples)");
    Ok(())
}

fn run_generator(cx: &mut Ctx) -> GenInfo {
    let seed = cx.seed;
    // ---- (ii-a) read the matrix off the real code
    let t = M64::from_fn(real_step);
    let zero_fixed = real_step(0) == 0;

    // ---- (i) linearity on generated pairs. A failure here is NOT a violation (the property does not
    //          say the map is linear); it only makes the algebraic certificate unavailable.
    let witness: Mutex<Option<(u64, u64, u64)>> = Mutex::new(None);
    let n = cx.n(400_000, 10_000_000);
    {
        let t = t.clone();
        let witness = &witness;
        cx.enum_check::<GenCase, _>("linearity", n, false, move |idx, obs| {
            let mut sm = Sm(derive_seed(seed, "C19", "linearity", idx));
            let (a, ca) = structured_state(&mut sm);
            let (b, _) = match sm.below(8) {
                0 => (a, "equal"),
                1 => (a << 1, "shifted"),
                2 => (!a, "complement"),
                _ => structured_state(&mut sm),
            };
            obs.class(ca);
            let (fa, fb, fab) = (real_step(a), real_step(b), real_step(a ^ b));
            if fab != fa ^ fb || t.apply(a) != fa {
                obs.class("NONLINEAR");
                let mut w = witness.lock().unwrap();
                if w.map_or(true, |(i, _, _)| idx < i) {
                    *w = Some((idx, a, b));
                }
            } else if a != b && a != 0 && b != 0 {
                obs.nontrivial(hash_of(&(a, b)));
            }
            if obs.wants_sample() && idx % 1009 == 7 {
                obs.sample(|| json!({"a": format!("{a:#018x}"), "b": format!("{b:#018x}"), "step(a^b)": format!("{fab:#018x}")}));
            }
            Ok(())
        });
    }
    let nonlinear = cx.subs.last().map(|s| s.obs.classes.get("NONLINEAR").copied().unwrap_or(0)).unwrap_or(0);
    let linear = nonlinear == 0 && zero_fixed;
    cx.extra.insert("step_matrix_columns".into(), json!(t.hex()));
    cx.extra.insert("step_linear_on_generated_pairs".into(), json!(linear));

    // ---- (ii-b) the order certificate, or the fallback search
    let t0 = Instant::now();
    let mut obs = Obs::new();
    obs.sample_cap = 4;
    if linear {
        match certificate(&t, &mut obs) {
            Ok(()) => {
                obs.nontrivial_enumerated(8);
                obs.sample(|| json!({"order": "2^64-1", "primes": PRIMES, "T column 0": format!("{:#018x}", t.c[0])}));
            }
            Err((case, f)) => {
                obs.freeze();
                cx.violation("order-certificate", &case, &f);
            }
        }
        cx.assume("the order certificate presumes the step map is GF(2)-linear on all states; linearity is verified on the generated pairs only (the code is three shift-xor assignments)");
        cx.report("order-certificate", obs, true, t0.elapsed().as_secs_f64(), "exact GF(2) matrix powers");
    } else {
        let (_, a, b) = witness.lock().unwrap().unwrap_or((0, 0, 0));
        eprintln!(
            "[C19] step map is not GF(2)-linear (step(0)={:#x}; witness a={a:#018x} b={b:#018x}): algebraic certificate unavailable, searching for a concrete counterexample",
            real_step(0)
        );
        let limit = cx.n(1 << 26, 1u64 << 32);
        let mut found: Option<(GenCase, Fail)> = None;
        // a non-zero state stepping to zero
        let mut sm = Sm(derive_seed(seed, "C19", "fallback", 0));
        for _ in 0..cx.n(1 << 20, 1 << 26) {
            let (s, _) = structured_state(&mut sm);
            obs.eval();
            if s != 0 && real_step(s) == 0 {
                found = Some((
                    GenCase { kind: "steps-to-zero".into(), a: s, b: 0, len: 0, note: String::new() },
                    Fail::new("nonzero-state-steps-to-zero", format!("state {s:#018x} is non-zero but next_bits() returns 0")),
                ));
                break;
            }
        }
        if found.is_none() {
            let starts = [1u64, Xorshift64::DEFAULT_SEED, 123, nonzero(sm.next()), nonzero(sm.next())];
            let res: Vec<(u64, Option<(u64, u64)>)> = starts.par_iter().map(|&s| (s, brent(s, limit))).collect();
            for (s, r) in res {
                obs.evals_n(1);
                if let Some((mu, lam)) = r {
                    if mu > 0 {
                        let a = nth(s, mu - 1);
                        let b = nth(s, mu + lam - 1);
                        found = Some((
                            GenCase { kind: "collision".into(), a, b, len: 0, note: format!("from start {s}: tail {mu}, cycle {lam}") },
                            Fail::new("step-not-bijective", format!("distinct states {a:#018x} and {b:#018x} both step to {:#018x}", real_step(a))),
                        ));
                    } else {
                        found = Some((
                            GenCase { kind: "short-cycle".into(), a: s, b: 0, len: lam, note: String::new() },
                            Fail::new("period-not-2^64-1", format!("state {s:#018x} returns to itself after only {lam} steps")),
                        ));
                    }
                    break;
                }
            }
        }
        match found {
            Some((case, f)) => {
                cx.violation("generator-counterexample", &case, &f);
                cx.report("generator-counterexample", obs, false, t0.elapsed().as_secs_f64(), "fallback search (map not linear)");
            }
            None => {
                cx.report("generator-counterexample", obs, false, t0.elapsed().as_secs_f64(), "fallback search (map not linear): nothing found");
                cx.extra.insert("period_clause".into(), json!("INCONCLUSIVE: step map not linear and no concrete counterexample found within the budget"));
                eprintln!("INCONCLUSIVE: C19 period clause — the step map is not GF(2)-linear and no concrete counterexample was found within the budget");
                cx.write_evidence(RULE);
                std::process::exit(2);
            }
        }
    }

    // ---- (iii) the independent inverse against the real step
    let before = cx.violations.len();
    let n = cx.n(400_000, 10_000_000);
    cx.enum_check("inverse-step", n, false, move |idx, obs| {
        let mut sm = Sm(derive_seed(seed, "C19", "inverse-step", idx));
        let (s, cl) = if idx < 64 { (1u64 << idx, "unit") } else { structured_state(&mut sm) };
        let s = nonzero(s);
        obs.class(cl);
        obs.nontrivial(s);
        if obs.wants_sample() && idx % 4099 == 100 {
            obs.sample(|| json!({"state": format!("{s:#018x}"), "next": format!("{:#018x}", real_step(s))}));
        }
        check_inverse(s, obs).map_err(|f| (GenCase { kind: "inverse".into(), a: s, b: 0, len: 0, note: String::new() }, f))
    });
    let mut inverse_ok = cx.violations.len() == before;
    if linear && inverse_ok {
        // exact: (matrix of the harness inverse) * T = I, so the inverse is right on all 2^64 states
        let ti = M64::from_fn(inv_step);
        inverse_ok = ti.mul(&t) == M64::identity() && t.mul(&ti) == M64::identity();
        cx.extra.insert("inverse_matrix_times_T_is_identity".into(), json!(inverse_ok));
    }

    // ---- (iv) seeding
    let n = cx.n(20_000, 1_000_000);
    cx.enum_check("seeding", n, false, move |idx, obs| {
        let mut sm = Sm(derive_seed(seed, "C19", "seeding", idx));
        let s = match idx {
            0 => 0,
            1 => 1,
            2 => u64::MAX,
            3 => Xorshift64::DEFAULT_SEED,
            4 => 123,
            5 => 1u64 << 63,
            _ => nonzero(structured_state(&mut sm).0),
        };
        if s != 0 {
            obs.nontrivial(s);
        }
        if idx == 3 {
            // Default is documented to be from_seed(DEFAULT_SEED)
            let d = Xorshift64::default();
            if d.0 != Xorshift64::DEFAULT_SEED {
                return Err((GenCase { kind: "seeding".into(), a: s, b: d.0, len: 0, note: "default".into() }, Fail::new("default-seed", format!("default() has state {}", d.0))));
            }
        }
        check_seed(s, obs).map_err(|f| (GenCase { kind: "seeding".into(), a: s, b: 0, len: 0, note: String::new() }, f))
    });
    GenInfo { linear, inverse_ok, t }
}

// ================================================================== which output bits the scalar distributions consume

fn probe_consumed_bits(cx: &mut Ctx, inverse_ok: bool) -> (u64, u64) {
    let t0 = Instant::now();
    let mut obs = Obs::new();
    let mut sm = Sm(derive_seed(cx.seed, "C19", "consumed-bits", 0));
    let (mut df, mut di) = (0u64, 0u64);
    let (mut always_f, mut always_i) = (u64::MAX, u64::MAX);
    let k = 2000;
    for _ in 0..k {
        let y = nonzero(sm.next());
        let base_f = sample_f32_raw(0.0, 1.0, state_before(y));
        let base_f2 = sample_f32_raw(-3.0, 5.0, state_before(y));
        let base_i = sample_i32_raw(0, i32::MAX, state_before(y));
        for b in 0..64 {
            let y2 = y ^ (1u64 << b);
            if y2 == 0 {
                continue;
            }
            obs.eval();
            let s2 = state_before(y2);
            let ch_f = sample_f32_raw(0.0, 1.0, s2) != base_f || sample_f32_raw(-3.0, 5.0, s2) != base_f2;
            let ch_i = sample_i32_raw(0, i32::MAX, s2) != base_i;
            if ch_f {
                df |= 1 << b;
            } else {
                always_f &= !(1 << b);
            }
            if ch_i {
                di |= 1 << b;
            } else {
                always_i &= !(1 << b);
            }
        }
    }
    obs.class_n("bit-flips", 64 * k);
    cx.extra.insert(
        "consumed_output_bits".into(),
        json!({
            "uniform_f32 (any flip changed the sample)": format!("{df:#018x}"),
            "uniform_f32 (every flip changed the sample)": format!("{:#018x}", always_f & df),
            "uniform_i32": format!("{di:#018x}"),
            "uniform_i32 (every flip)": format!("{:#018x}", always_i & di),
            "expected_from_code": {"f32": format!("{F32_BITS_EXPECTED:#018x}"), "i32": format!("{I32_BITS_EXPECTED:#018x}")},
            "states_built_with_verified_inverse": inverse_ok,
        }),
    );
    if df != F32_BITS_EXPECTED || di != I32_BITS_EXPECTED {
        eprintln!("[C19] NOTE: consumed output bits differ from the code reading (f32 {df:#018x}, i32 {di:#018x})");
    }
    obs.nontrivial_enumerated(128);
    cx.report("consumed-bits-probe", obs, false, t0.elapsed().as_secs_f64(), "harness calibration, asserts nothing");
    (df, di)
}

fn sample_f32_raw(lo: f32, hi: f32, state: u64) -> u32 {
    let mut g = Xorshift64(state);
    Uniform(lo..hi).sample(&mut g).to_bits()
}
fn sample_i32_raw(lo: i32, hi: i32, state: u64) -> i32 {
    let mut g = Xorshift64(state);
    catch(|| Uniform(lo..hi).sample(&mut g)).unwrap_or(i32::MIN)
}

// ================================================================== Uniform<f32>: all mantissas x range family

#[derive(Clone, Debug, Serialize, Deserialize)]
struct FloatCase {
    lo: X,
    hi: X,
    /// bits 41..=63 of the next output
    mantissa: u32,
    state: u64,
    #[serde(default)]
    class: String,
}

fn valid_range(lo: f32, hi: f32) -> bool {
    lo.is_finite() && hi.is_finite() && lo < hi && (hi - lo).is_finite()
}

fn fixed_ranges() -> Vec<(f32, f32, &'static str)> {
    let e = f32::EPSILON;
    let sub = f32::from_bits(1);
    vec![
        (0.0, 1.0, "unit"),
        (-1.0, 1.0, "symmetric"),
        (1.0, 2.0, "unit"),
        (0.0, 3.0, "zero-based"),
        (-1.23, 4.56, "crate-test-range"),
        (100.0, 101.0, "offset"),
        (-101.0, -100.0, "negative"),
        (1.0e6, 1.0e6 + 1.0, "offset"),
        (-1.0e6 - 1.0, -1.0e6, "negative"),
        (255.0, 256.0, "offset"),
        (0.999, 1.0, "tiny-width"),
        (1.0, 1.0 + e, "tiny-width"),
        (1.0, 1.0 + 3.0 * e, "tiny-width"),
        (100.0, nudge(100.0, 1), "tiny-width"),
        (-1.0, nudge(-1.0, 1), "tiny-width"),
        (-1.0, 0.0, "negative"),
        (-0.0, 1.0, "zero-based"),
        (0.1, 0.3, "ordinary"),
        (-100.0, 100.0, "symmetric"),
        (16777216.0, 16777218.0, "tiny-width"),
        (0.0, f32::MIN_POSITIVE, "subnormal"),
        (0.0, sub, "subnormal"),
        (f32::from_bits(5), f32::from_bits(12), "subnormal"),
        (-1.0e-40, 1.0e-40, "subnormal"),
        (-1.0e-40, 0.0, "subnormal"),
        (-sub, 0.0, "subnormal"),
        (-f32::from_bits(3), 0.0, "subnormal"),
        (-f32::MIN_POSITIVE, 0.0, "subnormal"),
        (-sub, -0.0, "subnormal"),
        (-f32::from_bits(7), sub, "subnormal"),
        (-1.0e-30, 0.0, "zero-based"),
        (1.0e30, 2.0e30, "huge"),
        (-1.0e38, 1.0e38, "huge"),
        (0.0, f32::MAX, "huge"),
        (-f32::MAX, 0.0, "huge"),
    ]
}

fn generated_range(sm: &mut Sm) -> (f32, f32, &'static str) {
    loop {
        let sign = if sm.below(2) == 0 { 1.0f32 } else { -1.0 };
        let r = match sm.below(8) {
            7 => {
                // zero-based with a subnormal or tiny magnitude (the bound is +0, -0 or the magnitude itself)
                let a = if sm.below(2) == 0 { f32::from_bits(1 + sm.below(1 << 23) as u32) } else { 10f64.powf(sm.range(-44.0, -30.0)) as f32 };
                let a = if a > 0.0 { a } else { f32::from_bits(1) };
                match sm.below(3) {
                    0 => (0.0, a, "subnormal"),
                    1 => (-a, 0.0, "subnormal"),
                    _ => (-a, -0.0, "subnormal"),
                }
            }
            0 => {
                // offset far from zero, moderate width
                let lo = sign * 10f64.powf(sm.range(0.0, 7.0)) as f32;
                let w = 10f64.powf(sm.range(-3.0, 1.0)) as f32;
                (lo, lo + w, "offset")
            }
            1 => {
                // a few ulps wide anywhere
                let lo = sign * 10f64.powf(sm.range(-6.0, 9.0)) as f32;
                (lo, nudge(lo, 1 + sm.below(16) as i32), "tiny-width")
            }
            2 => {
                let a = 10f64.powf(sm.range(-3.0, 6.0)) as f32;
                (-a, a, "symmetric")
            }
            3 => {
                let a = 10f64.powf(sm.range(-3.0, 6.0)) as f32;
                if sign > 0.0 {
                    (0.0, a, "zero-based")
                } else {
                    (-a, 0.0, "zero-based")
                }
            }
            4 => {
                // integer-valued endpoints (typical user ranges)
                let lo = sm.below(2001) as f32 - 1000.0;
                (lo, lo + 1.0 + sm.below(50) as f32, "integer-endpoints")
            }
            5 => {
                let a = sign * 10f64.powf(sm.range(-30.0, 37.0)) as f32;
                let b = (if sm.below(2) == 0 { 1.0 } else { -1.0 }) * 10f64.powf(sm.range(-30.0, 37.0)) as f32;
                (a.min(b), a.max(b), "wide-log")
            }
            _ => {
                // ordinary decimal endpoints
                let lo = sm.range(-10.0, 10.0) as f32;
                (lo, lo + sm.range(0.01, 10.0) as f32, "ordinary")
            }
        };
        if valid_range(r.0, r.1) {
            return r;
        }
    }
}

fn float_family(seed: u64, total: usize) -> Vec<(f32, f32, &'static str)> {
    let mut v = fixed_ranges();
    let mut sm = Sm(derive_seed(seed, "C19", "float-family", 0));
    while v.len() < total {
        v.push(generated_range(&mut sm));
    }
    v
}

/// two_sum: s = fl(a+b), e = exact error
fn two_sum(a: f64, b: f64) -> (f64, f64) {
    let s = a + b;
    let bb = s - a;
    (s, (a - (s - bb)) + (b - bb))
}

fn check_float(c: &FloatCase) -> Result<f32, Fail> {
    let (lo, hi) = (c.lo.0, c.hi.0);
    ensure!(valid_range(lo, hi), "bad-case", "not a valid half-open float range: {lo:?}..{hi:?}");
    let mut g = Xorshift64(c.state);
    let r = Uniform(lo..hi).sample(&mut g);
    ensure!(!r.is_nan(), "f32-sample-nan", "Uniform({lo:?}..{hi:?}) returned NaN for state {:#018x} (mantissa {:#08x})", c.state, c.mantissa);
    ensure!(
        r < hi,
        "f32-sample-reaches-upper-bound",
        "Uniform({lo:?}..{hi:?}).sample on state {:#018x} (next output bits 41..63 = {:#08x}) returned {r:?}, not below the excluded upper bound {hi:?}",
        c.state,
        c.mantissa
    );
    ensure!(
        r >= lo,
        "f32-sample-below-lower-bound",
        "Uniform({lo:?}..{hi:?}).sample on state {:#018x} (mantissa {:#08x}) returned {r:?} < {lo:?}",
        c.state,
        c.mantissa
    );
    Ok(r)
}

const CHUNK: u64 = 4096;

/// Where the enumerated "mantissa" goes in the next output word: the bits the float sample was found to
/// consume (bits 41..=63 on the real code). If the probe found some other set of at most 24 bits (the code
/// changed), all patterns of *that* set are enumerated instead.
#[derive(Clone, Copy)]
struct Deposit {
    mask: u64,
    nbits: u32,
    /// Some(shift) when the mask is one contiguous run
    shift: Option<u32>,
}

impl Deposit {
    fn new(probed: u64) -> Deposit {
        let mask = if probed != 0 && probed.count_ones() <= 24 && probed.count_ones() >= 12 { probed } else { F32_BITS_EXPECTED };
        let nbits = mask.count_ones();
        let tz = mask.trailing_zeros();
        let contiguous = (mask >> tz).wrapping_add(1).is_power_of_two();
        Deposit { mask, nbits, shift: contiguous.then_some(tz) }
    }
    #[inline]
    fn put(&self, m: u64, filler: u64) -> u64 {
        let dep = match self.shift {
            Some(s) => m << s,
            None => {
                let (mut out, mut mm, mut mask) = (0u64, m, self.mask);
                while mask != 0 {
                    let b = mask.trailing_zeros();
                    out |= (mm & 1) << b;
                    mm >>= 1;
                    mask &= mask - 1;
                }
                out
            }
        };
        let y = dep | (filler & !self.mask);
        if y == 0 {
            // the all-zero word is not a state: set some bit that is not consumed
            (!self.mask) & (!self.mask).wrapping_neg()
        } else {
            y
        }
    }
    #[inline]
    fn get(&self, y: u64) -> u64 {
        match self.shift {
            Some(s) => (y & self.mask) >> s,
            None => {
                let (mut out, mut k, mut mask) = (0u64, 0, self.mask);
                while mask != 0 {
                    let b = mask.trailing_zeros();
                    out |= (y >> b & 1) << k;
                    k += 1;
                    mask &= mask - 1;
                }
                out
            }
        }
    }
    fn patterns(&self) -> u64 {
        1u64 << self.nbits
    }
}

fn run_uniform_f32(cx: &mut Ctx, exhaustive: bool, dep: Deposit) {
    let seed = cx.seed;
    let chunks_per_range = dep.patterns() / CHUNK;
    let n_pat = dep.patterns();
    let fam = float_family(seed, cx.n(96, 2048) as usize);
    cx.extra.insert(
        "float_range_family".into(),
        json!(fam.iter().map(|(lo, hi, c)| json!({"lo": jf(*lo), "hi": jf(*hi), "class": c})).collect::<Vec<_>>()),
    );
    let total = fam.len() as u64 * chunks_per_range;
    let fam_ref = &fam;
    cx.enum_check("uniform-f32", total, exhaustive, move |idx, obs| {
        let (ri, ch) = ((idx / chunks_per_range) as usize, idx % chunks_per_range);
        let (lo, hi, class) = fam_ref[ri];
        let w64 = (hi - lo) as f64;
        let lo64 = lo as f64;
        let (mut rounds, mut at_lo, mut as_built, mut top) = (0u64, 0u64, 0u64, 0u64);
        let mut max_pos = 0.0f64;
        let mut low = Sm(derive_seed(seed, "C19", "uniform-f32", idx));
        for m in ch * CHUNK..(ch + 1) * CHUNK {
            let state = state_before(dep.put(m, low.next()));
            let c = FloatCase { lo: X(lo), hi: X(hi), mantissa: m as u32, state, class: String::new() };
            // what the real generator hands out for this state (coverage accounting only)
            if dep.get(real_step(state)) == m {
                as_built += 1;
            }
            let r = match check_float(&c) {
                Ok(r) => r,
                Err(f) => return Err((FloatCase { class: class.to_string(), ..c }, f)),
            };
            // non-trivial: the exact value unit*(hi-lo)+lo is not the returned float (the computation rounded)
            let unit = (m & 0x7f_ffff) as f64 / 8388608.0;
            let (s, e) = two_sum(unit * w64, lo64);
            if e != 0.0 || s != r as f64 {
                rounds += 1;
            }
            if r == lo {
                at_lo += 1;
            }
            if m >= n_pat - 64 {
                top += 1;
            }
            let d = r as f64 - lo64;
            if d > max_pos {
                max_pos = d;
            }
        }
        let max_pos = max_pos / (hi as f64 - lo64);
        obs.evals_n(CHUNK - 1);
        obs.nontrivial_enumerated(rounds);
        obs.class_n(class, CHUNK);
        obs.class_n("pairs where the f32 computation rounds", rounds);
        obs.class_n("result == lo", at_lo);
        obs.class_n("top-64 mantissas", top);
        obs.class_n("next output's mantissa is the constructed one", as_built);
        obs.max("uniform-f32 relative position (r-lo)/(hi-lo); must stay < 1", max_pos);
        if ch == chunks_per_range - 1 && obs.wants_sample() {
            let m = n_pat - 1;
            let state = state_before(dep.put(m, 12345));
            let r = f32::from_bits(sample_f32_raw(lo, hi, state));
            obs.sample(|| json!({"lo": jf(lo), "hi": jf(hi), "class": class, "mantissa": format!("{m:#x}"), "state": format!("{state:#018x}"), "sample": jf(r)}));
        }
        Ok(())
    });
    if let Some(s) = cx.subs.last() {
        let built = s.obs.classes.get("next output's mantissa is the constructed one").copied().unwrap_or(0);
        if cx.violations.is_empty() && built != s.obs.evals {
            eprintln!("[C19] NOTE: only {built} of {} constructed states produced the intended mantissa", s.obs.evals);
        }
    }
}

// ================================================================== Bernoulli

#[derive(Clone, Debug, Serialize, Deserialize)]
struct BernCase {
    p: X,
    mantissa: u32,
    state: u64,
}

fn bern_family(thorough: bool) -> Vec<f32> {
    let mut v = vec![
        0.0,
        -0.0,
        -f32::from_bits(1),
        -f32::MIN_POSITIVE,
        -1.0e-10,
        -0.5,
        -1.0,
        -f32::MAX,
        f32::NEG_INFINITY,
        1.0,
        1.0 + f32::EPSILON,
        1.5,
        2.0,
        1.0e10,
        f32::MAX,
        f32::INFINITY,
    ];
    if thorough {
        for k in 1..=24 {
            v.push(-(2f32.powi(-k)));
            v.push(1.0 + 2f32.powi(-k + 1));
        }
    }
    v
}

fn check_bern(c: &BernCase) -> Check {
    let p = c.p.0;
    let mut g = Xorshift64(c.state);
    let r = Bernoulli(p).sample(&mut g);
    if p <= 0.0 {
        ensure!(!r, "bernoulli-p<=0-true", "Bernoulli({p:?}) returned true on state {:#018x} (mantissa {:#08x})", c.state, c.mantissa);
    } else if p >= 1.0 {
        ensure!(r, "bernoulli-p>=1-false", "Bernoulli({p:?}) returned false on state {:#018x} (mantissa {:#08x})", c.state, c.mantissa);
    }
    Ok(())
}

fn run_bernoulli(cx: &mut Ctx, exhaustive: bool, dep: Deposit) {
    let seed = cx.seed;
    let chunks_per_range = dep.patterns() / CHUNK;
    let fam = bern_family(cx.tier == Tier::Thorough);
    let total = fam.len() as u64 * chunks_per_range;
    let fam_ref = &fam;
    cx.enum_check("bernoulli", total, exhaustive, move |idx, obs| {
        let (pi, ch) = ((idx / chunks_per_range) as usize, idx % chunks_per_range);
        let p = fam_ref[pi];
        let mut low = Sm(derive_seed(seed, "C19", "bernoulli", idx));
        for m in ch * CHUNK..(ch + 1) * CHUNK {
            let c = BernCase { p: X(p), mantissa: m as u32, state: state_before(dep.put(m, low.next())) };
            if let Err(f) = check_bern(&c) {
                return Err((c, f));
            }
        }
        obs.evals_n(CHUNK - 1);
        obs.nontrivial_enumerated(CHUNK);
        obs.class_n(if p <= 0.0 { "p<=0" } else { "p>=1" }, CHUNK);
        if ch == 0 {
            obs.class("includes mantissa 0 (unit sample exactly 0.0)");
            if obs.wants_sample() {
                obs.sample(|| json!({"p": jf(p), "mantissa": 0, "expected": p >= 1.0}));
            }
        }
        Ok(())
    });
}

// ================================================================== structured output words

/// Output words with structure in *all* 64 bits (not only in the 23 bits the float sample was found to consume):
/// runs of ones from either end, single bits and their complements, alternating patterns, and runs of ones at the top
/// over random low bits. A sample that compares some prefix of the word against a threshold meets its extremes here.
fn edge_words(seed: u64) -> Vec<u64> {
    let mut v = vec![u64::MAX, 0xAAAA_AAAA_AAAA_AAAA, 0x5555_5555_5555_5555, 0xFFFF_FFFF_0000_0000, 0x0000_0000_FFFF_FFFF, 0x8000_0000_0000_0001];
    for k in 1..64u32 {
        v.push(u64::MAX << k); // top 64-k bits set
        v.push(u64::MAX >> k); // low 64-k bits set
        v.push(1u64 << k);
        v.push(!(1u64 << k));
    }
    v.push(1);
    v.push(!1);
    let mut sm = Sm(derive_seed(seed, "C19", "edge-words", 0));
    for k in [9u32, 23, 24, 31, 32, 33, 40, 41, 52, 53, 63] {
        for _ in 0..8 {
            let r = sm.next();
            v.push((u64::MAX << (64 - k)) | (r >> k)); // top k ones, random below
            v.push(r >> k | 0); // top k zeros, random below
            v.push((r << k) | (u64::MAX >> (64 - k))); // low k ones
        }
    }
    v.retain(|y| *y != 0);
    v.sort_unstable();
    v.dedup();
    v
}

fn run_edge_outputs(cx: &mut Ctx) {
    let words = edge_words(cx.seed);
    let bern = bern_family(true);
    let fam = fixed_ranges();
    let n = words.len() as u64;
    let (wr, br, fr) = (&words, &bern, &fam);
    cx.enum_check("bernoulli-edge-outputs", n, false, move |i, obs| {
        let y = wr[i as usize];
        let state = state_before(y);
        for &p in br.iter() {
            let c = BernCase { p: X(p), mantissa: ((y >> 41) & 0x7f_ffff) as u32, state };
            if let Err(f) = check_bern(&c) {
                return Err((c, f));
            }
        }
        obs.evals_n(br.len() as u64 - 1);
        obs.nontrivial_enumerated(br.len() as u64);
        obs.class(if y >> 32 == 0xffff_ffff { "next output: top 32 bits all ones" } else if y >> 41 == 0x7f_ffff { "next output: top 23 bits all ones" } else { "next output: other structured word" });
        Ok(())
    });
    cx.enum_check("uniform-f32-edge-outputs", n, false, move |i, obs| {
        let y = wr[i as usize];
        let state = state_before(y);
        for &(lo, hi, class) in fr.iter() {
            let c = FloatCase { lo: X(lo), hi: X(hi), mantissa: ((y >> 41) & 0x7f_ffff) as u32, state, class: class.to_string() };
            if let Err(f) = check_float(&c) {
                return Err((c, f));
            }
        }
        obs.evals_n(fr.len() as u64 - 1);
        obs.nontrivial_enumerated(fr.len() as u64);
        Ok(())
    });
}

// ================================================================== Uniform<i32>

#[derive(Clone, Debug, Serialize, Deserialize)]
struct IntCase {
    lo: i32,
    hi: i32,
    /// low 32 bits of the next output (what `next_bits() as i32` yields)
    bits: i32,
    /// high 32 bits of the next output (not consumed)
    high: u32,
}

impl IntCase {
    fn state(&self) -> u64 {
        let mut y = (self.high as u64) << 32 | self.bits as u32 as u64;
        if y == 0 {
            y = 1 << 32;
        }
        state_before(y)
    }
}

fn int_range() -> BoxedStrategy<(i32, i32)> {
    let width = prop_oneof![
        2 => Just(1i32),
        1 => Just(2i32),
        1 => Just(3i32),
        3 => 1i32..=100,
        2 => (0u32..=30).prop_map(|k| 1i32 << k),
        1 => (2u32..=30).prop_map(|k| (1i32 << k) - 1),
        1 => (2u32..=30).prop_map(|k| (1i32 << k) + 1),
        2 => (1i32 << 30)..=i32::MAX,
        2 => Just(i32::MAX),
        3 => 1i32..=i32::MAX,
    ];
    (width, 0u8..8, any::<u32>())
        .prop_map(|(w, how, r)| {
            // lo in [MIN, MAX - w] so that hi = lo + w fits
            let max_lo = i32::MAX as i64 - w as i64;
            let span = (max_lo - i32::MIN as i64 + 1) as u64;
            let lo: i64 = match how {
                0 => i32::MIN as i64,
                1 => max_lo,
                2 => 0i64.min(max_lo),
                3 => (-(w as i64) / 2).max(i32::MIN as i64),
                4 => (-(w as i64)).max(i32::MIN as i64),
                _ => i32::MIN as i64 + ((r as u64 * span) >> 32) as i64,
            };
            (lo as i32, (lo + w as i64) as i32)
        })
        .boxed()
}

fn int_case() -> BoxedStrategy<IntCase> {
    let unrep = (any::<i32>(), any::<i32>()).prop_map(|(a, b)| {
        // width NOT representable: hi - lo > i32::MAX
        let lo = i32::MIN + (a & 0x3fff_ffff);
        let hi = i32::MAX - (b & 0x3fff_ffff);
        (lo, hi)
    });
    let range = prop_oneof![24 => int_range(), 1 => unrep];
    (range, 0u8..12, any::<i32>(), -1i32..=1, any::<u32>())
        .prop_map(|((lo, hi), how, r, d, high)| {
            let w = hi as i64 - lo as i64;
            let bits: i64 = match how {
                0 => 0,
                1 => -1,
                2 => i32::MIN as i64,
                3 => i32::MAX as i64,
                4 => 1,
                5 | 6 | 7 => {
                    // a multiple of the width, +-1
                    let q = if w > 0 { (r as i64) / w } else { 0 };
                    (q * w + d as i64).clamp(i32::MIN as i64, i32::MAX as i64)
                }
                _ => r as i64,
            };
            IntCase { lo, hi, bits: bits as i32, high }
        })
        .boxed()
}

fn check_int(c: &IntCase, obs: &mut Obs) -> Check {
    ensure!(c.lo < c.hi, "bad-case", "empty integer range");
    let w = c.hi as i64 - c.lo as i64;
    let state = c.state();
    let mut g = Xorshift64(state);
    let consumed = {
        let mut h = Xorshift64(state);
        h.next_bits() as i32
    };
    if w > i32::MAX as i64 {
        // outside the property's domain ("whenever the range width is representable"): run, assert nothing
        obs.excluded("i32 range width hi-lo > i32::MAX is not representable (asserted nothing)");
        let _ = catch(|| Uniform(c.lo..c.hi).sample(&mut g));
        return Ok(());
    }
    let r = match catch(|| Uniform(c.lo..c.hi).sample(&mut g)) {
        Ok(r) => r,
        Err(p) => fail!("i32-sample-panics", "Uniform({}..{}).sample panicked on state {state:#018x} (low bits {consumed}): {p}", c.lo, c.hi),
    };
    ensure!(
        c.lo <= r && r < c.hi,
        "i32-sample-out-of-range",
        "Uniform({}..{}).sample on state {state:#018x} (next_bits() as i32 = {consumed}) returned {r}",
        c.lo,
        c.hi
    );
    obs.class(match w {
        1 => "width 1",
        2..=100 => "width 2..100",
        0x7fff_ffff => "width i32::MAX",
        _ if w >= 1 << 30 => "width >= 2^30",
        _ => "width 101..2^30",
    });
    obs.class(if consumed == c.bits { "low bits as constructed" } else { "low bits NOT as constructed" });
    obs.class(match consumed {
        0 => "bits 0",
        -1 => "bits -1",
        i32::MIN => "bits MIN",
        i32::MAX => "bits MAX",
        b if b < 0 => "bits negative",
        _ => "bits positive",
    });
    if c.lo == i32::MIN || c.hi == i32::MAX {
        obs.class("range touches i32::MIN or i32::MAX");
    }
    if r == c.lo {
        obs.class("result == lo");
    }
    if r == c.hi - 1 {
        obs.class("result == hi-1");
    }
    obs.nontrivial(hash_of(&(c.lo, c.hi, c.bits)));
    if obs.wants_sample() && w > 1 {
        let cc = c.clone();
        obs.sample(|| json!({"case": cc, "state": format!("{state:#018x}"), "sample": r}));
    }
    Ok(())
}

// ================================================================== unit disk / ball / circle / sphere

#[derive(Clone, Debug, Serialize, Deserialize)]
struct ShapeCase {
    /// "disk" | "disk-pt" | "ball" | "ball-pt" | "circle" | "sphere"
    kind: String,
    state: u64,
    #[serde(default)]
    how: String,
}

const KINDS: [&str; 6] = ["disk", "circle", "ball", "sphere", "disk-pt", "ball-pt"];

/// component value Uniform(-1..1) yields for mantissa m: exactly m/2^22 - 1
fn comp_of(m: u64) -> f64 {
    m as f64 / 4194304.0 - 1.0
}
fn mant_of(x: f64) -> u64 {
    (((x + 1.0) * 4194304.0).round() as i64).clamp(0, (1 << 23) - 1) as u64
}

struct Builders {
    /// chooses the top 23 bits of outputs 1 and 2
    two: Option<LinSys>,
    /// chooses the top 21 bits of outputs 1, 2 and 3
    three: Option<LinSys>,
    /// all 69 top bits of outputs 1..3 (generally over-determined)
    three_full: LinSys,
}

fn builders(t: &M64) -> Builders {
    let t2 = t.mul(t);
    let t3 = t2.mul(t);
    let (r1, r2, r3) = (t.rows(), t2.rows(), t3.rows());
    let mut two_rows = vec![];
    for r in [&r1, &r2] {
        for j in 41..64 {
            two_rows.push(r[j]);
        }
    }
    let mut three_rows = vec![];
    for r in [&r1, &r2, &r3] {
        for j in 43..64 {
            three_rows.push(r[j]);
        }
    }
    let mut full_rows = vec![];
    for r in [&r1, &r2, &r3] {
        for j in 41..64 {
            full_rows.push(r[j]);
        }
    }
    let two = LinSys::build(&two_rows);
    let three = LinSys::build(&three_rows);
    Builders { two: two.full_rank().then_some(two), three: three.full_rank().then_some(three), three_full: LinSys::build(&full_rows) }
}

impl Builders {
    fn state2(&self, m1: u64, m2: u64, free: u64) -> Option<u64> {
        let rhs = (m1 as u128) | (m2 as u128) << 23;
        let sys = self.two.as_ref()?;
        sys.solve(rhs, free).filter(|&s| s != 0).or_else(|| sys.solve(rhs, !free).filter(|&s| s != 0))
    }
    /// m's are 23-bit mantissas; their low 2 bits are left to the solver
    fn state3(&self, m1: u64, m2: u64, m3: u64, free: u64) -> Option<u64> {
        let rhs = (m1 >> 2) as u128 | ((m2 >> 2) as u128) << 21 | ((m3 >> 2) as u128) << 42;
        // (the all-zero state solves "all chosen bits zero" with the free unknown clear: flip it then)
        let sys = self.three.as_ref()?;
        sys.solve(rhs, free).filter(|&s| s != 0).or_else(|| sys.solve(rhs, !free).filter(|&s| s != 0))
    }
    fn state3_exact(&self, m1: u64, m2: u64, m3: u64, free: u64) -> Option<u64> {
        let rhs = m1 as u128 | (m2 as u128) << 23 | (m3 as u128) << 46;
        self.three_full.solve(rhs, free).filter(|&s| s != 0)
    }
}

fn len_sqr64(v: &[f32]) -> f64 {
    v.iter().map(|&c| c as f64 * c as f64).sum()
}

/// First raw draw (before rejection/normalisation) the distribution will see, from the harness model of
/// the float sample: component i = mantissa(output i)/2^22 - 1.
fn first_raw(state: u64, dim: usize) -> Vec<f64> {
    let mut s = state;
    (0..dim)
        .map(|_| {
            s = real_step(s);
            comp_of(s >> 41)
        })
        .collect()
}

const INSIDE_TOL: f64 = 1e-6; // the code accepts on the f32-rounded |v|^2 <= 1; exact |v|^2 may exceed 1 by a few f32 ulps
const UNIT_TOL: f64 = 2e-6; // measured 1.4e-7 with std and libm (the mm backend, whose recip_sqrt is good to 2e-3 only, is C20's subject)

fn check_shape(c: &ShapeCase, obs: &mut Obs) -> Check {
    let mut g = Xorshift64(c.state);
    let dim = if c.kind == "disk" || c.kind == "disk-pt" || c.kind == "circle" { 2 } else { 3 };
    let raw = first_raw(c.state, dim);
    let raw_l2: f64 = raw.iter().map(|x| x * x).sum();
    let kind = c.kind.as_str();
    let res: Result<Vec<f32>, String> = catch(|| match kind {
        "disk" => VectorsOnUnitDisk.sample(&mut g).0.to_vec(),
        "disk-pt" => PointsOnUnitDisk.sample(&mut g).0.to_vec(),
        "ball" => VectorsInUnitBall.sample(&mut g).0.to_vec(),
        "ball-pt" => PointsInUnitBall.sample(&mut g).0.to_vec(),
        "circle" => UnitCircle.sample(&mut g).0.to_vec(),
        "sphere" => UnitSphere.sample(&mut g).0.to_vec(),
        _ => vec![],
    });
    ensure!(kind != "" && KINDS.contains(&kind), "bad-case", "unknown kind {kind}");
    let normalised = kind == "circle" || kind == "sphere";
    let v = match res {
        Ok(v) => v,
        Err(p) => {
            if normalised && raw_l2 == 0.0 {
                fail!("unit-vector-from-zero-draw", "{kind}: state {:#018x} makes the raw draw exactly the zero vector; sample() panicked instead of returning a unit vector: {p}", c.state);
            }
            fail!("shape-sample-panics", "{kind}: sample() panicked on state {:#018x}: {p}", c.state)
        }
    };
    let l2 = len_sqr64(&v);
    if normalised {
        if raw_l2 == 0.0 && !(l2.sqrt() - 1.0).abs().le(&UNIT_TOL) {
            fail!("unit-vector-from-zero-draw", "{kind}: state {:#018x} makes the raw draw exactly the zero vector; sample() returned {v:?} (length {}), not a unit vector", c.state, l2.sqrt());
        }
        let err = (l2.sqrt() - 1.0).abs();
        ensure!(err <= UNIT_TOL, "not-unit-length", "{kind}: sample {v:?} on state {:#018x} has length {} (|len-1| = {err:.3e} > {UNIT_TOL})", c.state, l2.sqrt());
        obs.max("circle/sphere | |v| - 1 |  (tolerance 2e-6)", err);
        if raw_l2 > 1.0 {
            obs.class("raw draw outside the unit ball (corner region), normalised");
        }
        if raw_l2 < 1e-9 {
            obs.class(if raw_l2 == 0.0 { "raw draw exactly zero" } else { "raw draw within 3e-5 of the origin" });
        }
    } else {
        ensure!(l2.is_finite() && l2 <= 1.0 + INSIDE_TOL, "outside-unit-ball", "{kind}: sample {v:?} on state {:#018x} has |v|^2 = {l2} > 1", c.state);
        obs.max("disk/ball exact |v|^2 - 1 when positive (tolerance 1e-6)", l2 - 1.0);
        // the point variants must be the vector variants re-typed
        if kind.ends_with("-pt") {
            let mut h = Xorshift64(c.state);
            let w = if dim == 2 { VectorsOnUnitDisk.sample(&mut h).0.to_vec() } else { VectorsInUnitBall.sample(&mut h).0.to_vec() };
            ensure!(w == v && h.0 == g.0, "point-variant-differs", "{kind}: point sample {v:?} differs from the vector sample {w:?} on state {:#018x}", c.state);
        }
        if raw_l2 > 1.0 {
            obs.class("first draw rejected");
        }
        if (raw_l2 - 1.0).abs() < 1e-5 {
            obs.class(if raw_l2 > 1.0 {
                "first draw just outside (|v|^2-1 < 1e-5)"
            } else if raw_l2 == 1.0 {
                "first draw exactly on the boundary"
            } else {
                "first draw just inside"
            });
        }
        if (l2 - 1.0).abs() < 1e-5 {
            obs.class("returned sample within 1e-5 of the boundary");
        }
    }
    obs.class(match kind {
        "disk" => "disk",
        "disk-pt" => "disk-pt",
        "ball" => "ball",
        "ball-pt" => "ball-pt",
        "circle" => "circle",
        _ => "sphere",
    });
    obs.nontrivial(hash_of(&(c.state, kind)));
    if obs.wants_sample() {
        let cc = c.clone();
        obs.sample(|| json!({"case": cc, "first_raw_draw": raw, "sample": v}));
    }
    Ok(())
}

/// index -> case for the unit-shapes generator
fn shape_case(seed: u64, idx: u64, b: &Builders) -> (ShapeCase, &'static str) {
    let mut sm = Sm(derive_seed(seed, "C19", "unit-shapes", idx));
    let kind = KINDS[(idx % 6) as usize];
    let dim = if kind.starts_with("disk") || kind == "circle" { 2 } else { 3 };
    let free = sm.next();
    let random = |sm: &mut Sm| nonzero(sm.next());
    let max = (1u64 << 23) - 1;
    let (state, how): (u64, &'static str) = match sm.below(12) {
        0 | 1 | 2 => {
            // a direction, radius within a few grid steps of 1
            let r = 1.0 + (sm.below(17) as f64 - 8.0) / 4194304.0;
            let m: Vec<u64> = if dim == 2 {
                let th = sm.range(0.0, std::f64::consts::TAU);
                vec![mant_of(r * th.cos()), mant_of(r * th.sin())]
            } else {
                let z = sm.range(-1.0, 1.0);
                let th = sm.range(0.0, std::f64::consts::TAU);
                let q = (1.0 - z * z).sqrt();
                vec![mant_of(r * q * th.cos()), mant_of(r * q * th.sin()), mant_of(r * z)]
            };
            let s = if dim == 2 { b.state2(m[0], m[1], free) } else { b.state3(m[0], m[1], m[2], free) };
            (s.unwrap_or_else(|| random(&mut sm)), if s.is_some() { "built: near the unit circle/sphere" } else { "random (builder unavailable)" })
        }
        3 => {
            // on an axis: (-1, 0[, 0]) is exactly on the boundary; (1-2^-22, 0) just inside
            let zero = 1u64 << 22;
            let end = if sm.below(2) == 0 { 0 } else { max };
            let mut m = vec![zero; dim];
            m[sm.below(dim as u64) as usize] = end;
            let s = if dim == 2 { b.state2(m[0], m[1], free) } else { b.state3(m[0], m[1], m[2], free) };
            (s.unwrap_or_else(|| random(&mut sm)), if s.is_some() { "built: axis end point" } else { "random (builder unavailable)" })
        }
        4 => {
            // corners of the square/cube (rejected by disk/ball, normalised by circle/sphere)
            let m: Vec<u64> = (0..dim).map(|_| if sm.below(2) == 0 { 0 } else { max }).collect();
            let s = if dim == 2 { b.state2(m[0], m[1], free) } else { b.state3(m[0], m[1], m[2], free) };
            (s.unwrap_or_else(|| random(&mut sm)), if s.is_some() { "built: corner" } else { "random (builder unavailable)" })
        }
        5 => {
            // a few grid steps from the origin (tiny vectors to normalise), never exactly zero here
            let zero = 1i64 << 22;
            let mut m: Vec<u64> = (0..dim).map(|_| (zero + sm.below(9) as i64 - 4) as u64).collect();
            if dim == 3 {
                // the 3-output builder fixes mantissa bits 2..22 only: keep the offsets multiples of 4 or let them float
                for v in m.iter_mut() {
                    *v = (*v & !3) | 0;
                }
            }
            if m.iter().all(|&v| v == zero as u64) {
                m[0] += 4;
            }
            let s = if dim == 2 { b.state2(m[0], m[1], free) } else { b.state3(m[0], m[1], m[2], free) };
            (s.unwrap_or_else(|| random(&mut sm)), if s.is_some() { "built: near the origin" } else { "random (builder unavailable)" })
        }
        6 => {
            // next to a corner of the inscribed square/cube (all components +-1/sqrt(dim), each off by up to 3e-4 relative):
            // the raw draw is just inside or just outside the unit ball in the direction where a box-shaped shortcut
            // ("all components below 0.5774") and the ball disagree most
            let h = 1.0 / (dim as f64).sqrt();
            let m: Vec<u64> = (0..dim).map(|_| {
                let sgn = if sm.below(2) == 0 { 1.0 } else { -1.0 };
                mant_of(sgn * h * (1.0 + sm.range(-3e-4, 3e-4)))
            }).collect();
            let s = if dim == 2 { b.state2(m[0], m[1], free) } else { b.state3(m[0], m[1], m[2], free) };
            (s.unwrap_or_else(|| random(&mut sm)), if s.is_some() { "built: next to an inscribed-box corner" } else { "random (builder unavailable)" })
        }
        _ => (random(&mut sm), "random"),
    };
    (ShapeCase { kind: kind.to_string(), state, how: how.to_string() }, how)
}

/// States from which the rejection samplers must reject many candidates in a row. A candidate whose components all have
/// |c| >= 0.5 is outside the disk with probability 0.64 (ball: 0.9); "|c| >= 0.5" is the linear condition bit63 == bit62
/// on the output word, so the states with that condition on the first dim*n outputs form a GF(2) solution space, which
/// is sampled and filtered (with the harness's own model of the draw) for runs of at least n rejections.
fn rejection_run_states(t: &M64, dim: usize, n: usize, want: usize, tries: u64, sm: &mut Sm) -> Vec<(u64, usize)> {
    let outputs = dim * n;
    if outputs > 64 {
        return vec![];
    }
    let mut rows = vec![];
    let mut tp = t.clone();
    for _ in 0..outputs {
        let r = tp.rows();
        rows.push(r[63] ^ r[62]);
        tp = tp.mul(t);
    }
    let sys = LinSys::build(&rows);
    let nfree = sys.free_cols.len() as u32;
    let total = if nfree >= 63 { u64::MAX } else { 1u64 << nfree };
    let mut found = vec![];
    let mut i = 0u64;
    while i < tries.min(total) && found.len() < want {
        let free = if total <= tries { i } else { sm.next() };
        i += 1;
        let Some(s) = sys.solve(0, free) else { continue };
        if s == 0 {
            continue;
        }
        // count the leading rejections with the harness's model of the draw
        let mut st = s;
        let mut run = 0usize;
        loop {
            let mut l2 = 0.0f64;
            for _ in 0..dim {
                st = real_step(st);
                let c = comp_of(st >> 41);
                l2 += c * c;
            }
            if l2 > 1.0 + 1e-5 && run < 200 {
                run += 1;
            } else {
                break;
            }
        }
        if run >= n {
            found.push((s, run));
        }
    }
    found
}

fn run_rejection_runs(cx: &mut Ctx, info: &GenInfo) {
    if !info.linear {
        return;
    }
    let t0 = Instant::now();
    let mut obs = Obs::new();
    obs.sample_cap = 4;
    let mut sm = Sm(derive_seed(cx.seed, "C19", "rejection-runs", 0));
    let tries = cx.n(400_000, 6_000_000);
    let mut first: Option<(ShapeCase, Fail)> = None;
    let mut longest = [0usize; 2];
    for (di, (dim, kinds, lens)) in [(2usize, ["disk", "disk-pt"], vec![4usize, 8, 12, 16, 17, 18, 20, 22]), (3usize, ["ball", "ball-pt"], vec![4usize, 8, 12, 16, 17, 18, 20, 21])].into_iter().enumerate() {
        for n in lens {
            let states = rejection_run_states(&info.t, dim, n, 24, tries, &mut sm);
            let key: &'static str = Box::leak(format!("{}: states with >= {n} leading rejections found", kinds[0]).into_boxed_str());
            obs.class_n(key, states.len() as u64);
            for (s, run) in states {
                longest[di] = longest[di].max(run);
                for kind in kinds {
                    obs.eval();
                    let c = ShapeCase { kind: kind.to_string(), state: s, how: format!("built: {run} candidates rejected in a row") };
                    if let Err(f) = check_shape(&c, &mut obs) {
                        if first.is_none() {
                            first = Some((c, f));
                        }
                    } else if obs.wants_sample() && run >= 16 {
                        obs.sample(|| json!({"kind": kind, "state": format!("{s:#018x}"), "leading_rejections": run}));
                    }
                }
            }
        }
    }
    // two rejected candidates in a row that are bit-for-bit the same point (outputs 3, 4 repeat the mantissas of outputs
    // 1, 2: 46 linear conditions): a sampler that treats a repeated candidate as a stuck generator must still reject it
    {
        let t = &info.t;
        let (t2, t3) = (t.mul(t), t.mul(t).mul(t));
        let t4 = t3.mul(t);
        let (r1, r2, r3, r4) = (t.rows(), t2.rows(), t3.rows(), t4.rows());
        let mut rows = vec![];
        for j in 41..64 {
            rows.push(r1[j] ^ r3[j]);
        }
        for j in 41..64 {
            rows.push(r2[j] ^ r4[j]);
        }
        let sys = LinSys::build(&rows);
        let mut found = 0u64;
        for i in 0..cx.n(20_000, 262_144) {
            let free = if sys.free_cols.len() <= 18 && cx.tier == Tier::Thorough { i } else { sm.next() };
            let Some(s) = sys.solve(0, free) else { continue };
            if s == 0 {
                continue;
            }
            let raw = first_raw(s, 2);
            if raw[0] * raw[0] + raw[1] * raw[1] <= 1.0 + 1e-5 {
                continue;
            }
            found += 1;
            for kind in ["disk", "disk-pt"] {
                obs.eval();
                let c = ShapeCase { kind: kind.to_string(), state: s, how: "built: the first rejected candidate is drawn twice in a row".into() };
                if let Err(f) = check_shape(&c, &mut obs) {
                    if first.is_none() {
                        first = Some((c, f));
                    }
                }
            }
            if found >= 2000 {
                break;
            }
        }
        obs.class_n("disk: states whose first two candidates are the same rejected point", found);
    }
    obs.max("longest run of rejected candidates exercised (disk)", longest[0] as f64);
    obs.max("longest run of rejected candidates exercised (ball)", longest[1] as f64);
    if let Some((c, f)) = first {
        cx.violation("rejection-runs", &c, &f);
    }
    cx.report("rejection-runs", obs, false, t0.elapsed().as_secs_f64(), "states built by GF(2) solve + filtering: many candidates rejected in a row");
}

fn run_shapes(cx: &mut Ctx, info: &GenInfo) {
    let seed = cx.seed;
    let b = if info.linear { builders(&info.t) } else { Builders { two: None, three: None, three_full: LinSys::build(&[]) } };
    let n = cx.n(1_200_000, 30_000_000);
    let bref = &b;
    cx.enum_check("unit-shapes", n, false, move |idx, obs| {
        let (c, how) = shape_case(seed, idx, bref);
        obs.class(how);
        check_shape(&c, obs).map_err(|f| (c, f))
    });

    // ---- raw draw exactly the zero vector: the states are constructed, never met by chance (p = 2^-46 per circle sample)
    let t0 = Instant::now();
    let mut obs = Obs::new();
    obs.sample_cap = 4;
    let zero = 1u64 << 22;
    let mut first: Option<(ShapeCase, Fail)> = None;
    let mut note = serde_json::Map::new();
    let known = cx.known.clone();
    if info.linear {
        let mut sm = Sm(derive_seed(seed, "C19", "unit-zero-draw", 0));
        let k = cx.n(4096, 262_144);
        let mut circle_states = 0u64;
        for i in 0..k {
            // thorough: all 2^18 solutions; quick: a sample of them
            let free = if k == 262_144 { i } else { sm.next() };
            if let Some(s) = b.state2(zero, zero, free) {
                circle_states += 1;
                obs.eval();
                let c = ShapeCase { kind: "circle".into(), state: s, how: "built: raw draw exactly zero".into() };
                if let Err(f) = check_shape(&c, &mut obs) {
                    obs.class("circle: zero raw draw FAILS");
                    if let Some(f) = Ctx::filter_known(&known, "C19", &mut obs, f) {
                        if first.is_none() {
                            first = Some((c, f));
                        }
                    }
                }
            }
        }
        note.insert("circle_states_with_zero_raw_draw_tested".into(), json!(circle_states));
        note.insert("circle_states_with_zero_raw_draw_exist".into(), json!(if b.two.is_some() { "2^18 (46 independent GF(2) constraints on 64 state bits)" } else { "builder unavailable" }));
        match b.state3_exact(zero, zero, zero, 0) {
            Some(s) => {
                obs.eval();
                note.insert("sphere_state_with_zero_raw_draw".into(), json!(format!("{s:#018x}")));
                let c = ShapeCase { kind: "sphere".into(), state: s, how: "built: raw draw exactly zero".into() };
                if let Err(f) = check_shape(&c, &mut obs) {
                    if let Some(f) = Ctx::filter_known(&known, "C19", &mut obs, f) {
                        if first.is_none() {
                            first = Some((c, f));
                        }
                    }
                }
            }
            None => {
                note.insert(
                    "sphere_state_with_zero_raw_draw".into(),
                    json!("none exists: the 69 GF(2) constraints (three consecutive mantissas = 0x400000) are inconsistent, so UnitSphere never normalises a zero vector"),
                );
                obs.class("sphere: zero raw draw impossible (proved by elimination)");
            }
        }
    } else {
        note.insert("skipped".into(), json!("step map not linear; states cannot be constructed"));
    }
    cx.extra.insert("unit_zero_draw".into(), Value::Object(note));
    if let Some((c, f)) = first {
        obs.freeze();
        cx.violation("unit-zero-draw", &c, &f);
    }
    cx.report("unit-zero-draw", obs, false, t0.elapsed().as_secs_f64(), "states built by GF(2) solve");
}

// ================================================================== composite distributions vs sequential sampling

/// A distribution together with its component-wise sequential reference.
trait Seq: Distrib {
    /// sample by drawing every scalar component in order from `g`, flattening to bit patterns
    fn seq(&self, g: &mut Xorshift64, out: &mut Vec<u64>);
    fn flat(s: &Self::Sample, out: &mut Vec<u64>);
}

impl Seq for Uniform<i32> {
    fn seq(&self, g: &mut Xorshift64, out: &mut Vec<u64>) {
        out.push(self.sample(g) as u32 as u64)
    }
    fn flat(s: &i32, out: &mut Vec<u64>) {
        out.push(*s as u32 as u64)
    }
}
impl Seq for Uniform<f32> {
    fn seq(&self, g: &mut Xorshift64, out: &mut Vec<u64>) {
        out.push(self.sample(g).to_bits() as u64)
    }
    fn flat(s: &f32, out: &mut Vec<u64>) {
        out.push(s.to_bits() as u64)
    }
}
impl Seq for Bernoulli {
    fn seq(&self, g: &mut Xorshift64, out: &mut Vec<u64>) {
        out.push(self.sample(g) as u64)
    }
    fn flat(s: &bool, out: &mut Vec<u64>) {
        out.push(*s as u64)
    }
}
impl<T: Copy, const N: usize> Seq for Uniform<[T; N]>
where
    Uniform<T>: Seq<Sample = T>,
{
    fn seq(&self, g: &mut Xorshift64, out: &mut Vec<u64>) {
        for i in 0..N {
            Uniform(self.0.start[i]..self.0.end[i]).seq(g, out);
        }
    }
    fn flat(s: &[T; N], out: &mut Vec<u64>) {
        for c in s {
            <Uniform<T> as Seq>::flat(c, out);
        }
    }
}
macro_rules! seq_wrapped {
    ($ty:ty, $sc:ty, $n:literal) => {
        impl Seq for Uniform<$ty> {
            fn seq(&self, g: &mut Xorshift64, out: &mut Vec<u64>) {
                for i in 0..$n {
                    Uniform(self.0.start.0[i]..self.0.end.0[i]).seq(g, out);
                }
            }
            fn flat(s: &$ty, out: &mut Vec<u64>) {
                <Uniform<[$sc; $n]> as Seq>::flat(&s.0, out);
            }
        }
    };
}
seq_wrapped!(Vec2, f32, 2);
seq_wrapped!(Vec3, f32, 3);
seq_wrapped!(Vec2i, i32, 2);
seq_wrapped!(Vec3i, i32, 3);
seq_wrapped!(Point2, f32, 2);
seq_wrapped!(Point3, f32, 3);
macro_rules! seq_atomic_vec {
    ($d:ty) => {
        impl Seq for $d {
            fn seq(&self, g: &mut Xorshift64, out: &mut Vec<u64>) {
                let s = self.sample(g);
                Self::flat(&s, out)
            }
            fn flat(s: &Self::Sample, out: &mut Vec<u64>) {
                for c in s.0 {
                    out.push(c.to_bits() as u64);
                }
            }
        }
    };
}
seq_atomic_vec!(VectorsOnUnitDisk);
seq_atomic_vec!(VectorsInUnitBall);
seq_atomic_vec!(PointsInUnitBall);
seq_atomic_vec!(UnitSphere);
impl<D: Seq, E: Seq> Seq for (D, E) {
    fn seq(&self, g: &mut Xorshift64, out: &mut Vec<u64>) {
        self.0.seq(g, out);
        self.1.seq(g, out);
    }
    fn flat(s: &(D::Sample, E::Sample), out: &mut Vec<u64>) {
        D::flat(&s.0, out);
        E::flat(&s.1, out);
    }
}

#[derive(Clone, Debug, Serialize, Deserialize)]
struct CompCase {
    kind: String,
    /// integer component ranges [lo, hi)
    ir: [[i32; 2]; 4],
    /// float component ranges [lo, hi)
    fr: [[X; 2]; 4],
    p: X,
    state: u64,
}

const COMP_KINDS: [&str; 24] = [
    "[i32;0]",
    "[i32;1]",
    "[i32;2]",
    "[i32;3]",
    "[i32;4]",
    "[f32;0]",
    "[f32;1]",
    "[f32;2]",
    "[f32;3]",
    "[f32;4]",
    "Vec2",
    "Vec3",
    "Vec2i",
    "Vec3i",
    "Point2",
    "Point3",
    "[[i32;2];2]",
    "(Bernoulli,Uniform<i32>)",
    "(Uniform<f32>,Uniform<[i32;2]>)",
    "((Uniform<i32>,Bernoulli),Uniform<Vec3>)",
    "(VectorsOnUnitDisk,Uniform<f32>)",
    "(UnitSphere,PointsInUnitBall)",
    "(Uniform<Vec2>,(Uniform<Point3>,Bernoulli))",
    "(Uniform<Vec2i>,VectorsInUnitBall)",
];

fn comp_case() -> BoxedStrategy<CompCase> {
    let ir = (int_range(), any::<bool>()).prop_map(|((lo, hi), small)| if small { [lo % 1000, lo % 1000 + 1 + (hi as i64 - lo as i64).min(20) as i32] } else { [lo, hi] });
    let fr = prop_oneof![
        4 => (-1000.0f32..1000.0, 1e-3f32..100.0).prop_map(|(lo, w)| [lo, lo + w]),
        1 => Just([0.0f32, 1.0]),
        1 => Just([-1.0f32, 1.0]),
        1 => Just([100.0f32, 101.0]),
        1 => (-1e6f32..1e6, 1i32..8).prop_map(|(lo, k)| [lo, nudge(lo, k)]),
    ]
    .prop_filter("valid range", |r| valid_range(r[0], r[1]));
    let state = prop_oneof![
        6 => any::<u64>().prop_map(nonzero),
        1 => (0u32..64).prop_map(|k| 1u64 << k),
        1 => Just(Xorshift64::DEFAULT_SEED),
    ];
    (0usize..COMP_KINDS.len(), proptest::array::uniform4(ir), proptest::array::uniform4(fr), -0.5f32..1.5, state)
        .prop_map(|(k, ir, fr, p, state)| CompCase { kind: COMP_KINDS[k].to_string(), ir, fr: fr.map(xs), p: X(p), state })
        .boxed()
}

fn compare<D: Seq>(d: D, state: u64, label: &str) -> Result<usize, Fail> {
    let mut g1 = Xorshift64(state);
    let mut g2 = Xorshift64(state);
    let whole = match catch(|| d.sample(&mut g1)) {
        Ok(s) => s,
        Err(p) => fail!("composite-sample-panics", "{label}: sample() panicked on state {state:#018x}: {p}"),
    };
    let mut a = vec![];
    D::flat(&whole, &mut a);
    let mut b = vec![];
    if let Err(p) = catch(|| d.seq(&mut g2, &mut b)) {
        fail!("composite-sample-panics", "{label}: component-wise sampling panicked on state {state:#018x}: {p}");
    }
    ensure!(
        a == b,
        "composite-differs-from-sequential",
        "{label} on state {state:#018x}: composite sample (component bit patterns) {a:x?} != components drawn one after another from a clone of the generator {b:x?}"
    );
    ensure!(
        g1.0 == g2.0,
        "composite-leaves-different-state",
        "{label} on state {state:#018x}: generator state afterwards {:#018x} != {:#018x} after sequential component sampling",
        g1.0,
        g2.0
    );
    Ok(a.len())
}

fn check_comp(c: &CompCase, obs: &mut Obs) -> Check {
    for r in &c.ir {
        ensure!(r[0] < r[1] && r[1] as i64 - r[0] as i64 <= i32::MAX as i64, "bad-case", "integer range {r:?} not representable");
    }
    for r in &c.fr {
        ensure!(valid_range(r[0].0, r[1].0), "bad-case", "float range {r:?} invalid");
    }
    let il = |n: usize| -> Vec<i32> { (0..n).map(|i| c.ir[i][0]).collect() };
    let ih = |n: usize| -> Vec<i32> { (0..n).map(|i| c.ir[i][1]).collect() };
    let fl = |n: usize| -> Vec<f32> { (0..n).map(|i| c.fr[i][0].0).collect() };
    let fh = |n: usize| -> Vec<f32> { (0..n).map(|i| c.fr[i][1].0).collect() };
    fn arr<T: Copy + Default, const N: usize>(v: Vec<T>) -> [T; N] {
        let mut a = [T::default(); N];
        a.copy_from_slice(&v[..N]);
        a
    }
    let s = c.state;
    let k = c.kind.as_str();
    let ui = |i: usize| Uniform(c.ir[i][0]..c.ir[i][1]);
    let uf = |i: usize| Uniform(c.fr[i][0].0..c.fr[i][1].0);
    let bern = Bernoulli(c.p.0);
    let n = match k {
        "[i32;0]" => compare(Uniform(arr::<i32, 0>(il(0))..arr(ih(0))), s, k)?,
        "[i32;1]" => compare(Uniform(arr::<i32, 1>(il(1))..arr(ih(1))), s, k)?,
        "[i32;2]" => compare(Uniform(arr::<i32, 2>(il(2))..arr(ih(2))), s, k)?,
        "[i32;3]" => compare(Uniform(arr::<i32, 3>(il(3))..arr(ih(3))), s, k)?,
        "[i32;4]" => compare(Uniform(arr::<i32, 4>(il(4))..arr(ih(4))), s, k)?,
        "[f32;0]" => compare(Uniform(arr::<f32, 0>(fl(0))..arr(fh(0))), s, k)?,
        "[f32;1]" => compare(Uniform(arr::<f32, 1>(fl(1))..arr(fh(1))), s, k)?,
        "[f32;2]" => compare(Uniform(arr::<f32, 2>(fl(2))..arr(fh(2))), s, k)?,
        "[f32;3]" => compare(Uniform(arr::<f32, 3>(fl(3))..arr(fh(3))), s, k)?,
        "[f32;4]" => compare(Uniform(arr::<f32, 4>(fl(4))..arr(fh(4))), s, k)?,
        "Vec2" => compare(Uniform::<Vec2>(vec2(fl(2)[0], fl(2)[1])..vec2(fh(2)[0], fh(2)[1])), s, k)?,
        "Vec3" => compare(Uniform::<Vec3>(vec3(fl(3)[0], fl(3)[1], fl(3)[2])..vec3(fh(3)[0], fh(3)[1], fh(3)[2])), s, k)?,
        "Vec2i" => compare(Uniform::<Vec2i>(vec2(il(2)[0], il(2)[1])..vec2(ih(2)[0], ih(2)[1])), s, k)?,
        "Vec3i" => compare(Uniform::<Vec3i>(vec3(il(3)[0], il(3)[1], il(3)[2])..vec3(ih(3)[0], ih(3)[1], ih(3)[2])), s, k)?,
        "Point2" => compare(Uniform::<Point2>(pt2(fl(2)[0], fl(2)[1])..pt2(fh(2)[0], fh(2)[1])), s, k)?,
        "Point3" => compare(Uniform::<Point3>(pt3(fl(3)[0], fl(3)[1], fl(3)[2])..pt3(fh(3)[0], fh(3)[1], fh(3)[2])), s, k)?,
        "[[i32;2];2]" => compare(Uniform([[il(4)[0], il(4)[1]], [il(4)[2], il(4)[3]]]..[[ih(4)[0], ih(4)[1]], [ih(4)[2], ih(4)[3]]]), s, k)?,
        "(Bernoulli,Uniform<i32>)" => compare((bern, ui(0)), s, k)?,
        "(Uniform<f32>,Uniform<[i32;2]>)" => compare((uf(0), Uniform(arr::<i32, 2>(il(2))..arr(ih(2)))), s, k)?,
        "((Uniform<i32>,Bernoulli),Uniform<Vec3>)" => compare(((ui(3), bern), Uniform::<Vec3>(vec3(fl(3)[0], fl(3)[1], fl(3)[2])..vec3(fh(3)[0], fh(3)[1], fh(3)[2]))), s, k)?,
        "(VectorsOnUnitDisk,Uniform<f32>)" => compare((VectorsOnUnitDisk, uf(1)), s, k)?,
        "(UnitSphere,PointsInUnitBall)" => compare((UnitSphere, PointsInUnitBall), s, k)?,
        "(Uniform<Vec2>,(Uniform<Point3>,Bernoulli))" => compare(
            (Uniform::<Vec2>(vec2(fl(4)[3], fl(4)[0])..vec2(fh(4)[3], fh(4)[0])), (Uniform::<Point3>(pt3(fl(3)[0], fl(3)[1], fl(3)[2])..pt3(fh(3)[0], fh(3)[1], fh(3)[2])), bern)),
            s,
            k,
        )?,
        "(Uniform<Vec2i>,VectorsInUnitBall)" => compare((Uniform::<Vec2i>(vec2(il(2)[0], il(2)[1])..vec2(ih(2)[0], ih(2)[1])), VectorsInUnitBall), s, k)?,
        _ => fail!("bad-case", "unknown composite kind {k}"),
    };
    obs.class(COMP_KINDS.iter().find(|&&x| x == k).copied().unwrap_or("?"));
    if n >= 2 {
        obs.nontrivial(hash_of(&(k, &c.ir, &c.fr, c.p, c.state)));
        if obs.wants_sample() {
            let cc = c.clone();
            obs.sample(|| json!({"case": cc, "scalar_components": n}));
        }
    }
    Ok(())
}

// ================================================================== run / replay

// ================================================================== Distrib::samples as an Iterator

/// `samples(rng)` is an iterator of successive `sample(rng)` calls: however it is advanced (`next`, `nth`, `skip`,
/// `step_by`, `take`), the i-th item equals the i-th sequential sample from an equally seeded generator, and afterwards
/// the generator has advanced by exactly the number of samples consumed.
#[derive(Clone, Debug, Serialize, Deserialize)]
struct IterCase {
    state: u64,
    /// 0 Uniform<f32>(-3..5), 1 Uniform<i32>(-7..9), 2 Bernoulli(0.4), 3 UnitCircle, 4 (Uniform<i32>, Bernoulli)
    dist: u8,
    /// 0 skip(k) then take(m), 1 step_by(k+1) then take(m), 2 repeated nth(k), 3 take(m) only
    mode: u8,
    k: u8,
    m: u8,
}

fn iter_case() -> BoxedStrategy<IterCase> {
    (any::<u64>().prop_map(nonzero), 0u8..5, 0u8..4, 0u8..6, 1u8..8).prop_map(|(state, dist, mode, k, m)| IterCase { state, dist, mode, k, m }).boxed()
}

fn iter_collect<D: Distrib>(d: &D, c: &IterCase, show: impl Fn(&D::Sample) -> String) -> Result<(), Fail> {
    let (k, m) = (c.k as usize, c.m as usize);
    // sequential reference: enough samples for every mode
    let need = match c.mode {
        0 => k + m,
        1 => (m - 1) * (k + 1) + 1,
        2 => m * (k + 1),
        _ => m,
    };
    let mut g0 = Xorshift64(c.state);
    let seq: Vec<String> = (0..need).map(|_| show(&d.sample(&mut g0))).collect();
    let mut g1 = Xorshift64(c.state);
    let got: Vec<String> = match catch(|| match c.mode {
        0 => d.samples(&mut g1).skip(k).take(m).map(|x| show(&x)).collect::<Vec<_>>(),
        1 => d.samples(&mut g1).step_by(k + 1).take(m).map(|x| show(&x)).collect(),
        2 => {
            let mut it = d.samples(&mut g1);
            (0..m).map(|_| show(&it.nth(k).expect("samples() is infinite"))).collect()
        }
        _ => d.samples(&mut g1).take(m).map(|x| show(&x)).collect(),
    }) {
        Ok(v) => v,
        Err(p) => return Err(Fail::new("samples-iterator-panics", format!("samples() panicked on state {:#018x}: {p}", c.state))),
    };
    let want: Vec<String> = match c.mode {
        0 => seq[k..k + m].to_vec(),
        1 => seq.iter().step_by(k + 1).take(m).cloned().collect(),
        2 => seq.iter().skip(k).step_by(k + 1).take(m).cloned().collect(),
        _ => seq[..m].to_vec(),
    };
    let how = ["skip(k).take(m)", "step_by(k+1).take(m)", "repeated nth(k)", "take(m)"][c.mode as usize];
    if got != want {
        return Err(Fail::new("samples-iterator-differs-from-sequential", format!("state {:#018x}, {how} with k = {k}, m = {m}: the iterator yields {got:?}, sequential sampling gives {want:?}", c.state)));
    }
    // the generator advanced by exactly the samples consumed (step_by/skip may not over-consume beyond the last item)
    if g1.0 != g0.0 {
        return Err(Fail::new("samples-iterator-consumes-differently", format!("state {:#018x}, {how} with k = {k}, m = {m}: generator state afterwards {:#018x}, after {need} sequential samples {:#018x}", c.state, g1.0, g0.0)));
    }
    Ok(())
}

fn check_iter(c: &IterCase, obs: &mut Obs) -> Check {
    ensure!(c.state != 0 && c.m >= 1 && c.mode < 4, "bad-case", "parameters");
    match c.dist {
        0 => iter_collect(&Uniform(-3.0f32..5.0), c, |x| format!("{:08x}", x.to_bits()))?,
        1 => iter_collect(&Uniform(-7i32..9), c, |x| x.to_string())?,
        2 => iter_collect(&Bernoulli(0.4), c, |x| x.to_string())?,
        3 => iter_collect(&UnitCircle, c, |v| format!("{:08x},{:08x}", v.0[0].to_bits(), v.0[1].to_bits()))?,
        _ => iter_collect(&(Uniform(-7i32..9), Bernoulli(0.5)), c, |x| format!("{:?}", x))?,
    }
    obs.class(["iter:skip+take", "iter:step_by+take", "iter:nth", "iter:take"][c.mode as usize]);
    obs.nontrivial(hash_of(&(c.state, c.dist, c.mode, c.k, c.m)));
    Ok(())
}

pub fn run(cx: &mut Ctx) {
    cx.assume("float ranges have lo < hi, both finite, and a finite f32 width hi-lo (an overflowing width is outside the family the property names)");
    cx.assume("integer ranges have 1 <= hi-lo <= i32::MAX ('whenever the range width is representable'); wider ones are run without any assertion and counted as excluded");
    cx.assume("disk/ball: 'inside' is asserted on the exact |v|^2 with 1e-6 slack (the code accepts on the f32-rounded |v|^2 <= 1, the documented closed ball); circle/sphere: | |v| - 1 | <= 2e-6");
    cx.assume("'exhaustive' for uniform-f32/bernoulli means: every bit pattern the float sample consumes (2^23 mantissas), for each range / probability of the listed family; the family itself is a sample of all ranges");
    cx.assume("the step's agreement with the xorshift (13,7,17) inverse is asserted because the crate's doc examples pin the output sequence (from_seed(123) -> 133101616827, ...)");
    let info = run_generator(cx);
    let (df, di) = probe_consumed_bits(cx, info.inverse_ok);
    let dep = Deposit::new(if info.inverse_ok { df } else { 0 });
    // exhaustive over the bit patterns a float sample can consume, provided the states really are built as intended
    let exhaustive = info.inverse_ok && dep.mask == df;
    if dep.mask != F32_BITS_EXPECTED {
        cx.extra.insert("mantissa_enumeration_over_probed_bits".into(), json!(format!("{:#018x}", dep.mask)));
    }
    run_uniform_f32(cx, exhaustive, dep);
    run_bernoulli(cx, exhaustive, dep);
    if info.inverse_ok {
        run_edge_outputs(cx);
    }
    let _ = di;
    let n = cx.n(1_000_000, 40_000_000);
    cx.prop_check("uniform-i32", n, int_case, |c, obs| check_int(c, obs));
    if !info.linear && !cx.violations.is_empty() {
        // a generator that is not a bijection can get stuck (e.g. on a fixed point), and the rejection-sampled
        // distributions then never return: the generator violation is already reported, stop here
        cx.extra.insert("skipped".into(), json!("unit-shapes and composite: generator core violated (rejection sampling may not terminate)"));
        return;
    }
    run_shapes(cx, &info);
    run_rejection_runs(cx, &info);
    let n = cx.n(300_000, 10_000_000);
    cx.prop_check("composite", n, comp_case, |c, obs| check_comp(c, obs));
    let n = cx.n(200_000, 5_000_000);
    cx.prop_check("samples-iterator", n, iter_case, |c, obs| check_iter(c, obs));
}

pub fn replay(sub: &str, case: &Value) -> Check {
    let mut obs = Obs::new();
    obs.freeze();
    fn de<T: serde::de::DeserializeOwned>(v: &Value) -> Result<T, Fail> {
        serde_json::from_value(v.clone()).map_err(|e| Fail::new("bad-replay", e.to_string()))
    }
    match sub {
        "order-certificate" | "generator-counterexample" | "inverse-step" | "seeding" | "linearity" => check_gen_case(&de::<GenCase>(case)?),
        "uniform-f32" | "uniform-f32-edge-outputs" => check_float(&de::<FloatCase>(case)?).map(|_| ()),
        "bernoulli" | "bernoulli-edge-outputs" => check_bern(&de::<BernCase>(case)?),
        "uniform-i32" => check_int(&de::<IntCase>(case)?, &mut obs),
        "unit-shapes" | "unit-zero-draw" | "rejection-runs" => check_shape(&de::<ShapeCase>(case)?, &mut obs),
        "composite" => check_comp(&de::<CompCase>(case)?, &mut obs),
        "samples-iterator" => check_iter(&de::<IterCase>(case)?, &mut obs),
        _ => Err(Fail::new("bad-replay", format!("unknown subcheck {sub}"))),
    }
}

