//! C12 — texture samplers address the right texel and never go out of bounds.
//!
//! Every texel of a test texture encodes (region id, x, y). Borrowed textures
//! are windows onto a larger atlas whose other texels carry a poison id, so a
//! read outside the region is recognisable even if it does not panic.
//!
//! Oracle (f64 / exact integers, independent of `math::float`):
//!   repeat : texel (floor(u) mod w, floor(v) mod h)   when both |u|,|v| < 2^31
//!   clamp  : texel (floor(clamp(u,0,w-1)), floor(clamp(v,0,h-1)))  for every non-NaN coordinate
//!   once   : the same texel as both, only called for 0 <= u < w, 0 <= v < h
//!   sample(tc) == sample_abs(uv(w*tc.u, h*tc.v)) (same f32 product), and the
//!   oracle above applied to that product.
//! No call on SamplerRepeatPot / SamplerClamp may panic for any f32 pair, and
//! no sampler may return a texel that is not part of the texture's region.

use crate::common::fl::*;
use crate::common::*;
use proptest::prelude::*;
use re::render::tex::{uv, SamplerClamp, SamplerOnce, SamplerRepeatPot, Texture};
use re::util::buf::{AsSlice2, Buf2, Slice2};
use serde::{Deserialize, Serialize};
use serde_json::{json, Value};

pub const RULE: &str = "textures whose texels encode (region id, x, y): owned Buf2 or a Slice2 window (atlas.slice, slice of a slice, or Slice2::new over raw data with \
surplus) onto a poisoned atlas; sizes 2^a x 2^b (a,b<=6, all three samplers) or any 1..17 x 1..17 (clamp and once). Coordinates per axis from a class mixture \
(exact integers in +-4*size, k+-1e-6, k+-ulp, k+-0.5, uniform, +-2^23..2^31 boundary values, beyond 2^31, +-0, subnormals, +-inf, NaN, arbitrary bit patterns), \
handed to sample_abs or, divided by the size, to sample. Sub-checks: proptest mixture (samplers), in-range mixture for SamplerOnce (once-in-range), a fixed battery of \
special values on every texture shape (special-values), owned textures with a side of 2^24, 2^25, 2^26, 2^24+1, 2^24+3 or 2^25+2 texels and coordinates around the far end, \
multiples of the size and the float extremes (huge), every integer in +-2^12 (thorough +-2^20) with +-1 ulp on each axis and the diagonal (integer-ulp-sweep). \
Non-trivial = at least one effective coordinate outside [0,size) or exactly integral; distinct by (texture spec, coordinate bits, entry point).";

const REGION: u32 = 0x7E57;
const POISON: u32 = 0xDEAD;
const TWO31: f32 = 2147483648.0;

#[inline]
fn enc(id: u32, x: u32, y: u32) -> u32 {
    (id << 16) | ((x & 0xff) << 8) | (y & 0xff)
}

fn fmt_texel(t: u32) -> String {
    let (id, x, y) = (t >> 16, (t >> 8) & 0xff, t & 0xff);
    if id == REGION {
        format!("texel ({x},{y})")
    } else if id == POISON {
        format!("POISON texel at atlas position ({x},{y}) (outside the texture's region)")
    } else {
        format!("unrecognised value 0x{t:08x}")
    }
}

// ------------------------------------------------------------------ cases

#[derive(Copy, Clone, Debug, PartialEq, Eq, Hash, Serialize, Deserialize)]
pub enum Storage {
    /// `Texture::from(Buf2)`
    Owned,
    /// `Texture::from(atlas.slice(rect))`
    Slice,
    /// `Texture::from(atlas.slice(inner border).slice(rect))`
    Nested,
    /// `Texture::from(Slice2::new(dims, stride, &data[off..off+len]))` with `surplus` extra elements after the last row
    Raw,
}

#[derive(Clone, Debug, PartialEq, Eq, Hash, Serialize, Deserialize)]
pub struct TexSpec {
    pub w: u32,
    pub h: u32,
    pub storage: Storage,
    /// atlas texels left, above, right, below the region (borrowed storage only)
    pub margin: [u32; 4],
    pub surplus: u32,
}

impl TexSpec {
    fn pot(&self) -> bool {
        self.w.is_power_of_two() && self.h.is_power_of_two()
    }
}

#[derive(Clone, Debug, Serialize, Deserialize)]
pub struct SampleCase {
    pub tex: TexSpec,
    /// the coordinate exactly as handed to the sampler
    pub u: X,
    pub v: X,
    /// false: `sample_abs(tc)`; true: `sample(tc)` (relative coordinates)
    pub relative: bool,
}

// ------------------------------------------------------------------ textures

enum Tex<'a> {
    Owned(Texture<Buf2<u32>>),
    Borrowed(Texture<Slice2<'a, u32>>),
}

/// Builds the texture described by `spec` (the atlas lives for the duration of `f`).
fn with_texture<R>(spec: &TexSpec, f: impl FnOnce(&Tex<'_>) -> R) -> R {
    let (w, h) = (spec.w, spec.h);
    let [l, t, r, b] = spec.margin;
    let atlas_data = |aw: u32, ah: u32, x0: u32, y0: u32, extra: u32| -> Vec<u32> {
        let mut d = Vec::with_capacity((aw * ah + extra) as usize);
        for y in 0..ah {
            for x in 0..aw {
                d.push(if x >= x0 && x < x0 + w && y >= y0 && y < y0 + h { enc(REGION, x - x0, y - y0) } else { enc(POISON, x, y) });
            }
        }
        for i in 0..extra {
            d.push(enc(POISON, 0xF0 + (i & 0xf), 0xFF));
        }
        d
    };
    match spec.storage {
        Storage::Owned => {
            let buf = Buf2::new_from((w, h), atlas_data(w, h, 0, 0, 0));
            f(&Tex::Owned(Texture::from(buf)))
        }
        Storage::Slice => {
            let (aw, ah) = (l + w + r, t + h + b);
            let atlas = Buf2::new_from((aw, ah), atlas_data(aw, ah, l, t, 0));
            let s = atlas.slice((l..l + w, t..t + h));
            f(&Tex::Borrowed(Texture::from(s)))
        }
        Storage::Nested => {
            let (aw, ah) = (l + w + r + 2, t + h + b + 2);
            let atlas = Buf2::new_from((aw, ah), atlas_data(aw, ah, l + 1, t + 1, 0));
            let outer = atlas.slice((1..aw - 1, 1..ah - 1));
            let inner = outer.slice((l..l + w, t..t + h));
            f(&Tex::Borrowed(Texture::from(inner)))
        }
        Storage::Raw => {
            let (aw, ah) = (l + w + r, t + h + b);
            let data = atlas_data(aw, ah, l, t, spec.surplus);
            let off = (t * aw + l) as usize;
            let len = ((h - 1) * aw + w + spec.surplus) as usize;
            let s = Slice2::new((w, h), aw, &data[off..off + len]);
            f(&Tex::Borrowed(Texture::from(s)))
        }
    }
}

// ------------------------------------------------------------------ oracle

/// floor(p) mod n, defined for finite |p| < 2^31
fn repeat_axis(p: f32, n: u32) -> Option<u32> {
    if p.is_finite() && p.abs() < TWO31 {
        Some(((p as f64).floor() as i64).rem_euclid(n as i64) as u32)
    } else {
        None
    }
}

/// floor(clamp(p, 0, n-1)), defined for every non-NaN p (infinities clamp to the edges)
fn clamp_axis(p: f32, n: u32) -> Option<u32> {
    if p.is_nan() {
        None
    } else {
        Some((p as f64).clamp(0.0, (n - 1) as f64).floor() as u32)
    }
}

// ------------------------------------------------------------------ coordinate classes (measured on the effective absolute coordinate)

const CLASS_NAMES: [&str; 19] = [
    "coord:NaN",
    "coord:+inf",
    "coord:-inf",
    "coord:+0",
    "coord:-0",
    "coord:subnormal",
    "coord:finite beyond 2^31",
    "coord:exactly +-2^31",
    "coord:2^23 <= |c| < 2^31",
    "coord:integer < 0",
    "coord:integer in (0,size)",
    "coord:integer == size",
    "coord:integer > size",
    "coord:integer +- tiny (<= 2e-6 or 4 ulp)",
    "coord:k + 0.5",
    "coord:other < 0",
    "coord:other in (0,size)",
    "coord:other > size",
    "coord:just below 0 or just below size (<= 2e-6 or 4 ulp)",
];

fn class_of(p: f32, n: u32) -> usize {
    if p.is_nan() {
        return 0;
    }
    if p == f32::INFINITY {
        return 1;
    }
    if p == f32::NEG_INFINITY {
        return 2;
    }
    if p == 0.0 {
        return if p.is_sign_positive() { 3 } else { 4 };
    }
    let a = p.abs();
    if a < f32::MIN_POSITIVE {
        return 5;
    }
    if a > TWO31 {
        return 6;
    }
    if a == TWO31 {
        return 7;
    }
    if a >= 8388608.0 {
        return 8;
    }
    let nf = n as f32;
    let fl = p.floor();
    if fl == p {
        return if p < 0.0 {
            9
        } else if p < nf {
            10
        } else if p == nf {
            11
        } else {
            12
        };
    }
    let d = (p - p.round()).abs();
    if d <= 2e-6f32.max(4.0 * a * f32::EPSILON) {
        // just below 0 or just below size: the places where truncation and an off-by-one clamp differ from floor
        let r = p.round();
        if p < r && (r == 0.0 || r == nf) {
            return 18;
        }
        return 13;
    }
    if p - fl == 0.5 {
        return 14;
    }
    if p < 0.0 {
        15
    } else if p < nf {
        16
    } else {
        17
    }
}

/// RULE: outside [0,size) (NaN counts as outside) or exactly integral
fn axis_nontrivial(p: f32, n: u32) -> bool {
    !(p >= 0.0 && p < n as f32) || p.floor() == p
}

/// Cheap per-thread tallies, flushed into `Obs` (keeps BTreeMap look-ups out of the enumerators' inner loops).
#[derive(Default)]
struct Tally {
    classes: [u64; 19],
    calls: u64,
    rep_exact: u64,
    rep_excl: u64,
    rep_na: u64,
    clamp_exact: u64,
    clamp_excl: u64,
    once_checked: u64,
    once_skipped: u64,
    rel: u64,
    abs: u64,
    nontrivial: u64,
    max_domain_mag: f64,
}

impl Tally {
    fn flush(self, obs: &mut Obs) {
        for (i, n) in self.classes.iter().enumerate() {
            obs.class_n(CLASS_NAMES[i], *n);
        }
        obs.class_n("sampler-calls", self.calls);
        obs.class_n("repeat:texel compared with floor-mod oracle", self.rep_exact);
        obs.class_n("repeat:n/a (texture not a power of two)", self.rep_na);
        obs.class_n("clamp:texel compared with clamp oracle", self.clamp_exact);
        obs.class_n("once:called in range and compared", self.once_checked);
        obs.class_n("once:not called (coordinate outside the documented range)", self.once_skipped);
        obs.class_n("entry:sample (relative)", self.rel);
        obs.class_n("entry:sample_abs", self.abs);
        if self.rep_excl > 0 && !obs.frozen() {
            *obs.excluded_domain.entry("repeat: a coordinate is non-finite or |c| >= 2^31 (only no-panic and in-region asserted)").or_insert(0) += self.rep_excl;
        }
        if self.clamp_excl > 0 && !obs.frozen() {
            *obs.excluded_domain.entry("clamp: a coordinate is NaN (only no-panic and in-region asserted)").or_insert(0) += self.clamp_excl;
        }
        obs.max("largest |coordinate| at which repeat matched floor-mod exactly (bound 2^31 = 2147483648)", self.max_domain_mag);
    }
}

// ------------------------------------------------------------------ the predicate

fn in_region(t: u32, w: u32, h: u32) -> bool {
    t >> 16 == REGION && ((t >> 8) & 0xff) < w && (t & 0xff) < h
}

/// All assertions for one (texture, coordinate, entry point). Returns whether the case is non-trivial.
fn check_on<D: AsSlice2<u32>>(tex: &Texture<D>, spec: &TexSpec, u: f32, v: f32, relative: bool, tl: &mut Tally) -> Result<bool, Fail> {
    let (w, h) = (spec.w, spec.h);
    let (wf, hf) = (w as f32, h as f32);
    // effective absolute coordinate: the same f32 product the library documents for `sample`
    let (pu, pv) = if relative { (wf * u, hf * v) } else { (u, v) };
    let tc = uv(u, v);
    let ptc = uv(pu, pv);
    let what = |s: &str| {
        if relative {
            format!("{s}::sample(uv({u:?}, {v:?})) [= absolute ({pu:?}, {pv:?})] on a {w}x{h} {:?} texture", spec.storage)
        } else {
            format!("{s}::sample_abs(uv({u:?}, {v:?})) on a {w}x{h} {:?} texture", spec.storage)
        }
    };
    tl.classes[class_of(pu, w)] += 1;
    tl.classes[class_of(pv, h)] += 1;
    if relative {
        tl.rel += 1;
    } else {
        tl.abs += 1;
    }

    // ---- repeat (power-of-two textures only)
    if spec.pot() {
        let s = match catch(|| SamplerRepeatPot::new(tex)) {
            Ok(s) => s,
            Err(p) => fail!("repeat-new-panic", "SamplerRepeatPot::new panicked on a {w}x{h} (power-of-two) texture: {p}"),
        };
        tl.calls += 1;
        let got = match catch(|| if relative { s.sample(tex, tc) } else { s.sample_abs(tex, tc) }) {
            Ok(t) => t,
            Err(p) => fail!("repeat-panic", "{} panicked: {p}", what("SamplerRepeatPot")),
        };
        ensure!(in_region(got, w, h), "repeat-out-of-region", "{} returned {}", what("SamplerRepeatPot"), fmt_texel(got));
        match (repeat_axis(pu, w), repeat_axis(pv, h)) {
            (Some(x), Some(y)) => {
                tl.rep_exact += 1;
                tl.max_domain_mag = tl.max_domain_mag.max(pu.abs() as f64).max(pv.abs() as f64);
                ensure!(
                    got == enc(REGION, x, y),
                    "repeat-wrong-texel",
                    "{} returned {} but (floor(u) mod {w}, floor(v) mod {h}) = ({x},{y})",
                    what("SamplerRepeatPot"),
                    fmt_texel(got)
                );
            }
            _ => tl.rep_excl += 1,
        }
        if relative {
            tl.calls += 1;
            let via = match catch(|| s.sample_abs(tex, ptc)) {
                Ok(t) => t,
                Err(p) => fail!("repeat-panic", "SamplerRepeatPot::sample_abs(uv({pu:?}, {pv:?})) panicked on a {w}x{h} {:?} texture: {p}", spec.storage),
            };
            ensure!(
                via == got,
                "repeat-relative-mismatch",
                "{} returned {} but sample_abs at the scaled coordinate ({pu:?}, {pv:?}) returned {}",
                what("SamplerRepeatPot"),
                fmt_texel(got),
                fmt_texel(via)
            );
        }
    } else {
        tl.rep_na += 1;
    }

    // ---- clamp
    {
        let s = SamplerClamp;
        tl.calls += 1;
        let got = match catch(|| if relative { s.sample(tex, tc) } else { s.sample_abs(tex, tc) }) {
            Ok(t) => t,
            Err(p) => fail!("clamp-panic", "{} panicked: {p}", what("SamplerClamp")),
        };
        ensure!(in_region(got, w, h), "clamp-out-of-region", "{} returned {}", what("SamplerClamp"), fmt_texel(got));
        match (clamp_axis(pu, w), clamp_axis(pv, h)) {
            (Some(x), Some(y)) => {
                tl.clamp_exact += 1;
                ensure!(
                    got == enc(REGION, x, y),
                    "clamp-wrong-texel",
                    "{} returned {} but the coordinate clamped to the texture is texel ({x},{y})",
                    what("SamplerClamp"),
                    fmt_texel(got)
                );
            }
            _ => tl.clamp_excl += 1,
        }
        if relative {
            tl.calls += 1;
            let via = match catch(|| s.sample_abs(tex, ptc)) {
                Ok(t) => t,
                Err(p) => fail!("clamp-panic", "SamplerClamp::sample_abs(uv({pu:?}, {pv:?})) panicked on a {w}x{h} {:?} texture: {p}", spec.storage),
            };
            ensure!(
                via == got,
                "clamp-relative-mismatch",
                "{} returned {} but sample_abs at the scaled coordinate ({pu:?}, {pv:?}) returned {}",
                what("SamplerClamp"),
                fmt_texel(got),
                fmt_texel(via)
            );
        }
    }

    // ---- once: documented as unchecked, so only inside its documented range
    let in_range = if relative { u >= 0.0 && u < 1.0 && v >= 0.0 && v < 1.0 } else { true } && pu >= 0.0 && pu < wf && pv >= 0.0 && pv < hf;
    if in_range {
        let s = SamplerOnce;
        tl.calls += 1;
        tl.once_checked += 1;
        let got = match catch(|| if relative { s.sample(tex, tc) } else { s.sample_abs(tex, tc) }) {
            Ok(t) => t,
            Err(p) => fail!("once-panic-in-range", "{} panicked although the coordinate is in range: {p}", what("SamplerOnce")),
        };
        let (x, y) = ((pu as f64).floor() as u32, (pv as f64).floor() as u32);
        ensure!(
            got == enc(REGION, x, y),
            "once-wrong-texel",
            "{} returned {} but the in-range coordinate addresses texel ({x},{y}) (which the repeating and clamping samplers return)",
            what("SamplerOnce"),
            fmt_texel(got)
        );
        if relative {
            tl.calls += 1;
            let via = match catch(|| s.sample_abs(tex, ptc)) {
                Ok(t) => t,
                Err(p) => fail!("once-panic-in-range", "SamplerOnce::sample_abs(uv({pu:?}, {pv:?})) panicked in range on a {w}x{h} {:?} texture: {p}", spec.storage),
            };
            ensure!(via == got, "once-relative-mismatch", "{} returned {} but sample_abs at the scaled coordinate returned {}", what("SamplerOnce"), fmt_texel(got), fmt_texel(via));
        }
    } else {
        tl.once_skipped += 1;
    }
    let nt = axis_nontrivial(pu, w) || axis_nontrivial(pv, h);
    if nt {
        tl.nontrivial += 1;
    }
    Ok(nt)
}

fn check_tex(t: &Tex<'_>, spec: &TexSpec, u: f32, v: f32, relative: bool, tl: &mut Tally) -> Result<bool, Fail> {
    match t {
        Tex::Owned(t) => check_on(t, spec, u, v, relative, tl),
        Tex::Borrowed(t) => check_on(t, spec, u, v, relative, tl),
    }
}

fn valid_spec(s: &TexSpec) -> Check {
    ensure!(s.w >= 1 && s.h >= 1 && s.w <= 64 && s.h <= 64, "bad-case", "texture size {}x{} outside 1..=64", s.w, s.h);
    ensure!(s.margin.iter().all(|m| *m <= 8) && s.surplus <= 64, "bad-case", "margins/surplus too large");
    Ok(())
}

/// The plain predicate on one case (used by the proptest sub-checks and by replay).
pub fn check_case(c: &SampleCase, obs: &mut Obs) -> Check {
    valid_spec(&c.tex)?;
    let mut tl = Tally::default();
    let r = match catch(|| with_texture(&c.tex, |t| check_tex(t, &c.tex, c.u.0, c.v.0, c.relative, &mut tl))) {
        Ok(r) => r,
        Err(p) => fail!("texture-construction-panic", "building a legal {}x{} {:?} texture (margins {:?}) panicked: {p}", c.tex.w, c.tex.h, c.tex.storage, c.tex.margin),
    };
    let nt = r?;
    obs.class(match c.tex.storage {
        Storage::Owned => "texture:owned Buf2",
        Storage::Slice => "texture:atlas.slice",
        Storage::Nested => "texture:slice of slice",
        Storage::Raw => "texture:Slice2::new over raw data",
    });
    obs.class(if c.tex.pot() { "texture:power-of-two" } else { "texture:non-power-of-two" });
    if c.tex.w == 1 || c.tex.h == 1 {
        obs.class("texture:one-texel-wide-or-high");
    }
    if nt {
        obs.nontrivial(hash_of(&(&c.tex, c.u.0.to_bits(), c.v.0.to_bits(), c.relative)));
        if obs.wants_sample() {
            let cc = c.clone();
            obs.sample(|| json!(cc));
        }
    }
    tl.flush(obs);
    Ok(())
}

// ------------------------------------------------------------------ generators

/// Coordinate recipe: every random ingredient is drawn independently of the texture size and combined
/// constructively (no rejection), so proptest shrinks each ingredient on its own.
#[derive(Clone, Copy, Debug)]
struct Recipe {
    cls: u8,
    /// selects the integer k (signed so that it shrinks towards k = 0)
    a: i16,
    d: i8,
    bits: u32,
    e: u8,
    t: f32,
}

fn recipe(weights: &'static [(u32, u8)]) -> impl Strategy<Value = Recipe> {
    let total: u32 = weights.iter().map(|w| w.0).sum();
    (0..total, any::<i16>(), -3i8..=3, any::<u32>(), any::<u8>(), 0.0f32..1.0).prop_map(move |(sel, a, d, bits, e, t)| {
        let mut acc = 0;
        let mut cls = weights[0].1;
        for (wt, c) in weights {
            acc += wt;
            if sel < acc {
                cls = *c;
                break;
            }
        }
        Recipe { cls, a, d, bits, e, t }
    })
}

/// (weight, class) — the general mixture of DESIGN §4 C12
const MIX_ALL: &[(u32, u8)] = &[(4, 0), (3, 1), (4, 2), (2, 3), (4, 4), (2, 5), (3, 6), (2, 7), (1, 8), (1, 9), (1, 10), (1, 11), (2, 12), (3, 13)];

fn below(x: f32) -> f32 {
    ulp_down(x)
}

/// Builds an absolute coordinate for an axis of size `n` from a recipe.
fn mk_coord(r: Recipe, n: u32) -> f32 {
    let nf = n as f32;
    let k = r.a as i64 * (4 * n as i64 + 1) / 32768; // in [-4n, 4n], 0 when a = 0
    let kf = k as f32;
    let neg = r.bits & 1 == 1;
    let sgn = if neg { -1.0f32 } else { 1.0 };
    match r.cls {
        0 => kf,
        1 => kf + if r.d < 0 { -1e-6 } else { 1e-6 },
        2 => nudge(kf, r.d as i32),
        3 => kf + if r.d < 0 { -0.5 } else { 0.5 },
        4 => (r.t * 8.0 - 4.0) * nf,
        5 => (r.t * nf).min(below(nf)),
        6 => {
            // +-2^23 .. +-2^31 boundary values: the power itself, a few ulps around it, or a small integer offset
            let p = 2f64.powi(23 + (r.e % 9) as i32);
            let base = if r.bits & 2 != 0 { (p + k as f64) as f32 } else { p as f32 };
            sgn * nudge(base, r.d as i32)
        }
        7 => {
            if r.bits & 4 != 0 {
                sgn * nudge(f32::MAX, -(r.d.unsigned_abs() as i32))
            } else {
                sgn * nudge(2f32.powi(32 + (r.e % 96) as i32), r.d as i32)
            }
        }
        8 => sgn * 0.0,
        9 => {
            if r.bits & 6 == 6 {
                sgn * f32::MIN_POSITIVE
            } else {
                sgn * f32::from_bits(1 + (r.bits >> 3) % 0x7f_ffff)
            }
        }
        10 => sgn * f32::INFINITY,
        11 => f32::from_bits(0x7f80_0001 + (r.bits >> 1) % 0x7f_ffff | if neg { 0x8000_0000 } else { 0 }),
        12 => f32::from_bits(r.bits),
        _ => {
            // large but inside the repeat sampler's domain: 2^12 .. 2^31
            let m = 2f64.powi(12 + (r.e % 19) as i32) * (1.0 + r.t as f64);
            let m = if r.bits & 2 != 0 { m.floor() } else { m };
            let m = (m as f32).min(below(TWO31));
            sgn * m
        }
    }
}

/// in-range mixture (SamplerOnce): every value is in [0, n) by construction
fn mk_coord_in_range(r: Recipe, n: u32) -> f32 {
    let nf = n as f32;
    let k = ((r.a.unsigned_abs() as u64 * n as u64) >> 15).min(n as u64 - 1) as f32; // 0..n-1
    let v = match r.cls % 9 {
        0 => k,
        1 => k + 0.5,
        2 => k + 1e-6,
        3 => nudge(k + 1.0, -(1 + (r.d.unsigned_abs() as i32) % 3)),
        4 => nudge(k, r.d.unsigned_abs() as i32),
        5 => {
            if r.bits & 1 == 1 {
                -0.0
            } else {
                0.0
            }
        }
        6 => {
            if r.bits & 2 != 0 {
                f32::MIN_POSITIVE
            } else {
                f32::from_bits(1 + (r.bits >> 3) % 0x7f_ffff)
            }
        }
        7 => below(nf),
        _ => r.t * nf,
    };
    if v == 0.0 {
        v
    } else {
        v.clamp(0.0, below(nf))
    }
}

const MIX_IN: &[(u32, u8)] = &[(3, 0), (2, 1), (2, 2), (3, 3), (2, 4), (1, 5), (1, 6), (1, 7), (4, 8)];

fn tex_spec() -> impl Strategy<Value = TexSpec> {
    let dims = prop_oneof![
        3 => (0u32..=6, 0u32..=6).prop_map(|(a, b)| (1u32 << a, 1u32 << b)),
        2 => (1u32..=17, 1u32..=17),
    ];
    let storage = prop_oneof![
        3 => Just(Storage::Owned),
        3 => Just(Storage::Slice),
        1 => Just(Storage::Nested),
        2 => Just(Storage::Raw),
    ];
    (dims, storage, [0u32..=3, 0u32..=3, 0u32..=3, 0u32..=3], 0u32..=5).prop_map(|((w, h), storage, margin, surplus)| {
        if storage == Storage::Owned {
            TexSpec { w, h, storage, margin: [0; 4], surplus: 0 }
        } else {
            TexSpec { w, h, storage, margin, surplus: if storage == Storage::Raw { surplus } else { 0 } }
        }
    })
}

/// entry mode: 0 = absolute, 1 = relative obtained by dividing an absolute coordinate by the size,
/// 2 = relative drawn directly (the mixture applied to a unit-sized axis)
fn finish(tex: TexSpec, ru: Recipe, rv: Recipe, mode: u8, in_range: bool) -> SampleCase {
    let mk = |r: Recipe, n: u32| if in_range { mk_coord_in_range(r, n) } else { mk_coord(r, n) };
    let one_below = below(1.0);
    let (u, v, relative) = match mode {
        0 => (mk(ru, tex.w), mk(rv, tex.h), false),
        1 => {
            let (mut u, mut v) = (mk(ru, tex.w) / tex.w as f32, mk(rv, tex.h) / tex.h as f32);
            if in_range {
                u = u.min(one_below);
                v = v.min(one_below);
            }
            (u, v, true)
        }
        _ => (mk(ru, 1), mk(rv, 1), true),
    };
    SampleCase { tex, u: X(u), v: X(v), relative }
}

fn mode() -> impl Strategy<Value = u8> {
    prop_oneof![3 => Just(0u8), 2 => Just(1u8), 1 => Just(2u8)]
}

pub fn sample_case() -> BoxedStrategy<SampleCase> {
    (tex_spec(), recipe(MIX_ALL), recipe(MIX_ALL), mode()).prop_map(|(tex, ru, rv, m)| finish(tex, ru, rv, m, false)).boxed()
}

pub fn once_case() -> BoxedStrategy<SampleCase> {
    (tex_spec(), recipe(MIX_IN), recipe(MIX_IN), mode()).prop_map(|(tex, ru, rv, m)| finish(tex, ru, rv, m, true)).boxed()
}

// ------------------------------------------------------------------ enumerated sub-checks

/// every texture shape of the design: 2^a x 2^b (a,b <= 6) and every 1..17 x 1..17
fn all_shapes() -> Vec<(u32, u32)> {
    let mut v = vec![];
    for a in 0..=6 {
        for b in 0..=6 {
            v.push((1u32 << a, 1u32 << b));
        }
    }
    for w in 1..=17u32 {
        for h in 1..=17u32 {
            if !(w.is_power_of_two() && h.is_power_of_two()) {
                v.push((w, h));
            }
        }
    }
    v
}

/// Texture spec for an enumerator: `layout` picks the margins (distinct layouts give distinct margins) and surplus.
fn spec_for(shape: (u32, u32), storage_idx: u64, layout: u64, salt: u64) -> TexSpec {
    let storage = [Storage::Owned, Storage::Slice, Storage::Nested, Storage::Raw][(storage_idx % 4) as usize];
    let m = (splitmix(salt) % 256 + layout * 37) % 256; // 37 is coprime to 256: layouts 0..255 are distinct
    let mut margin = [(m & 3) as u32, ((m >> 2) & 3) as u32, ((m >> 4) & 3) as u32, ((m >> 6) & 3) as u32];
    let mut surplus = ((splitmix(salt ^ 0x55) + layout) % 6) as u32;
    if storage == Storage::Owned {
        margin = [0; 4];
    }
    if storage != Storage::Raw {
        surplus = 0;
    }
    TexSpec { w: shape.0, h: shape.1, storage, margin, surplus }
}

/// special values for an axis of size n (deduplicated by bit pattern)
fn battery(n: u32) -> Vec<f32> {
    let s = n as i64;
    let mut v: Vec<f32> = vec![];
    for k in [-2 * s, -s - 1, -s, -s + 1, -1, 0, 1, s - 1, s, s + 1, 2 * s - 1, 2 * s, 4 * s] {
        let kf = k as f32;
        v.extend([kf, ulp_up(kf), ulp_down(kf), kf + 0.5, kf - 0.5, kf + 1e-6, kf - 1e-6]);
    }
    v.extend([0.0, -0.0, f32::from_bits(1), -f32::from_bits(1), f32::from_bits(0x7f_ffff), -f32::from_bits(0x7f_ffff), f32::MIN_POSITIVE, -f32::MIN_POSITIVE]);
    for e in [23, 24, 30, 31, 32, 33, 63, 64, 127] {
        let p = 2f32.powi(e);
        for x in [p, ulp_up(p), ulp_down(p)] {
            v.push(x);
            v.push(-x);
        }
    }
    v.extend([f32::MAX, f32::MIN, 8388607.5, -8388607.5, 16777215.0, -16777215.0, 1e9, -1e9, -3e9, 3e9]);
    v.extend([f32::INFINITY, f32::NEG_INFINITY]);
    v.extend([f32::NAN, -f32::NAN, f32::from_bits(0x7f80_0001), f32::from_bits(0xffff_ffff)]);
    let mut seen = std::collections::BTreeSet::new();
    v.retain(|x| seen.insert(x.to_bits()));
    v
}

/// the short list used on the other axis
fn partner(n: u32) -> Vec<f32> {
    let nf = n as f32;
    let mut v = vec![0.5, -0.5, nf - 0.5, nf, -1.0, 1e9, TWO31, -TWO31, ulp_down(TWO31), -3e9, f32::INFINITY, f32::NEG_INFINITY, f32::NAN];
    let mut seen = std::collections::BTreeSet::new();
    v.retain(|x: &f32| seen.insert(x.to_bits()));
    v
}

fn sweep_textures(thorough: bool) -> Vec<(u32, u32)> {
    let mut v = vec![(1, 1), (2, 4), (8, 8), (64, 32), (1, 64), (3, 5), (17, 1), (7, 7)];
    if thorough {
        v.extend([(2, 2), (4, 1), (16, 64), (64, 64), (32, 2), (5, 3), (1, 17), (17, 17), (9, 16), (13, 2), (6, 10), (12, 12)]);
    }
    v
}

/// Runs `body` over a list of (u, v, relative) on one texture; converts any failure into (case, fail).
fn run_on_texture(spec: &TexSpec, obs: &mut Obs, body: impl FnOnce(&mut dyn FnMut(f32, f32, bool) -> Check) -> Check) -> Result<(), (SampleCase, Fail)> {
    let mut tl = Tally::default();
    let mut n = 0u64;
    let mut failing: Option<(f32, f32, bool)> = None;
    let want_sample = obs.wants_sample();
    let mut sample: Option<(f32, f32, bool)> = None;
    // each (coordinate bits, entry point) is evaluated once per texture, so the enumerated
    // non-trivial count is a count of distinct cases (membership only: iteration order is never used)
    let mut visited: std::collections::HashSet<(u32, u32, bool)> = std::collections::HashSet::with_capacity(2048);
    let r = catch(|| {
        with_texture(spec, |t| {
            let mut one = |u: f32, v: f32, rel: bool| -> Check {
                if !visited.insert((u.to_bits(), v.to_bits(), rel)) {
                    return Ok(());
                }
                n += 1;
                match check_tex(t, spec, u, v, rel, &mut tl) {
                    Ok(nt) => {
                        if want_sample && nt && sample.is_none() && n % 977 == 1 {
                            sample = Some((u, v, rel));
                        }
                        Ok(())
                    }
                    Err(f) => {
                        failing = Some((u, v, rel));
                        Err(f)
                    }
                }
            };
            body(&mut one)
        })
    });
    let mk = |(u, v, rel): (f32, f32, bool)| SampleCase { tex: spec.clone(), u: X(u), v: X(v), relative: rel };
    match r {
        Ok(Ok(())) => {
            obs.evals_n(n.saturating_sub(1));
            obs.nontrivial_enumerated(tl.nontrivial);
            obs.class_n(
                match spec.storage {
                    Storage::Owned => "texture:owned Buf2",
                    Storage::Slice => "texture:atlas.slice",
                    Storage::Nested => "texture:slice of slice",
                    Storage::Raw => "texture:Slice2::new over raw data",
                },
                n,
            );
            obs.class_n(if spec.pot() { "texture:power-of-two" } else { "texture:non-power-of-two" }, n);
            if let Some(s) = sample {
                let c = mk(s);
                obs.sample(|| json!(c));
            }
            tl.flush(obs);
            Ok(())
        }
        Ok(Err(f)) => Err((mk(failing.unwrap_or((0.0, 0.0, false))), f)),
        Err(p) => Err((
            mk((0.0, 0.0, false)),
            Fail::new("texture-construction-panic", format!("building or sampling a legal {}x{} {:?} texture panicked outside a sampler call: {p}", spec.w, spec.h, spec.storage)),
        )),
    }
}

fn special_values(cx: &mut Ctx) {
    let shapes = all_shapes();
    // per shape: the owned texture, then `layouts` x 3 borrowed kinds (quick 1 layout, thorough 8 distinct margin layouts)
    let layouts = cx.n(1, 8);
    let per_shape = 1 + 3 * layouts;
    let total = shapes.len() as u64 * per_shape;
    let seed = cx.seed;
    cx.enum_check("special-values", total, false, move |idx, obs| {
        let (si, slot) = (idx / per_shape, idx % per_shape);
        let shape = shapes[si as usize];
        let spec = if slot == 0 { spec_for(shape, 0, 0, 0) } else { spec_for(shape, 1 + (slot - 1) % 3, (slot - 1) / 3, seed ^ si.wrapping_mul(0x9E37_79B9)) };
        let (bu, bv) = (battery(spec.w), battery(spec.h));
        let (pu, pv) = (partner(spec.w), partner(spec.h));
        let (wf, hf) = (spec.w as f32, spec.h as f32);
        let bits = |l: &[f32]| l.iter().map(|x| x.to_bits()).collect::<std::collections::BTreeSet<u32>>();
        let (sbu, sbv, spu, spv) = (bits(&bu), bits(&bv), bits(&pu), bits(&pv));
        let in_first = |u: f32, v: f32| sbu.contains(&u.to_bits()) && spv.contains(&v.to_bits());
        let in_second = |u: f32, v: f32| spu.contains(&u.to_bits()) && sbv.contains(&v.to_bits());
        run_on_texture(&spec, obs, |one| {
            // every pair is visited once (the three blocks overlap in a few pairs, which are skipped)
            for &u in &bu {
                for &v in &pv {
                    one(u, v, false)?;
                    one(u / wf, v / hf, true)?;
                }
            }
            for &v in &bv {
                for &u in &pu {
                    if !in_first(u, v) {
                        one(u, v, false)?;
                        one(u / wf, v / hf, true)?;
                    }
                }
            }
            // both axes special at once (diagonal of the two batteries)
            for (i, &u) in bu.iter().enumerate() {
                let v = bv[i % bv.len()];
                if !in_first(u, v) && !in_second(u, v) {
                    one(u, v, false)?;
                    one(u / wf, v / hf, true)?;
                }
            }
            Ok(())
        })
    });
}

const SWEEP_CHUNK: i64 = 64;

fn integer_ulp_sweep(cx: &mut Ctx) {
    let thorough = cx.tier == Tier::Thorough;
    let shapes = sweep_textures(thorough);
    let kmax: i64 = if thorough { 1 << 20 } else { 1 << 12 };
    let chunks = ((2 * kmax + 1) + SWEEP_CHUNK - 1) / SWEEP_CHUNK;
    let per_shape = 2 * chunks as u64; // two storage kinds per shape
    let total = shapes.len() as u64 * per_shape;
    let seed = cx.seed;
    cx.enum_check("integer-ulp-sweep", total, false, move |idx, obs| {
        let si = idx / per_shape;
        let r = idx % per_shape;
        let (st, chunk) = (r / chunks as u64, (r % chunks as u64) as i64);
        let shape = shapes[si as usize];
        // storage: owned, and one borrowed kind that depends on the shape index
        let storage_idx = if st == 0 { 0 } else { 1 + si % 3 };
        let spec = spec_for(shape, storage_idx, 0, seed ^ si.wrapping_mul(0xA24B_AED4));
        let (wf, hf) = (spec.w as f32, spec.h as f32);
        let lo = -kmax + chunk * SWEEP_CHUNK;
        let hi = (lo + SWEEP_CHUNK - 1).min(kmax);
        let (fu, fv) = (0.5f32.min(wf - 0.5), hf - 0.5);
        run_on_texture(&spec, obs, |one| {
            for k in lo..=hi {
                let kf = k as f32;
                for c in [ulp_down(kf), kf, ulp_up(kf)] {
                    one(c, fv, false)?;
                    one(fu, c, false)?;
                    one(c, c, false)?;
                    one(c / wf, fv / hf, true)?;
                    one(fu / wf, c / hf, true)?;
                    one(c / wf, c / hf, true)?;
                }
            }
            Ok(())
        })
    });
}

// ------------------------------------------------------------------ huge textures (sizes at and above 2^24, where f32 arithmetic on the size stops being exact)

/// (width, height) of the huge test textures; one axis is 1 or 2 so that they stay affordable (u8 texels).
const HUGE: &[(u32, u32)] = &[
    (1 << 24, 1),
    (1 << 25, 1),
    (1, 1 << 25),
    (1 << 26, 1),
    (2, 1 << 24),
    ((1 << 24) + 1, 1),
    (1, (1 << 24) + 3),
    ((1 << 25) + 2, 1),
];

#[inline]
fn huge_texel(x: u32, y: u32) -> u8 {
    ((x.wrapping_mul(0x9E37_79B1) ^ y.wrapping_mul(0x85EB_CA6B)) >> 24) as u8
}

fn huge_textures() -> &'static Vec<Texture<Buf2<u8>>> {
    static T: std::sync::OnceLock<Vec<Texture<Buf2<u8>>>> = std::sync::OnceLock::new();
    T.get_or_init(|| {
        HUGE.iter()
            .map(|&(w, h)| {
                let mut d = Vec::with_capacity(w as usize * h as usize);
                for y in 0..h {
                    for x in 0..w {
                        d.push(huge_texel(x, y));
                    }
                }
                Texture::from(Buf2::new_from((w, h), d))
            })
            .collect()
    })
}

#[derive(Clone, Debug, Serialize, Deserialize)]
pub struct HugeCase {
    /// index into HUGE
    pub tex: u8,
    pub u: X,
    pub v: X,
    pub relative: bool,
}

fn huge_coord(n: u32) -> BoxedStrategy<f32> {
    let nf = n as f64;
    if n <= 2 {
        return prop_oneof![3 => Just(0.0f32), 2 => Just(0.5f32), 1 => Just(1.0f32), 1 => Just(1.5f32), 1 => -4.0f32..4.0, 1 => Just(-0.0f32)].boxed();
    }
    prop_oneof![
        4 => (0.0f64..1.0).prop_map(move |t| (t * nf) as f32),
        3 => (-40i64..=40).prop_map(move |k| (nf + k as f64) as f32),
        2 => ((-3i64..=3), (-40i64..=40)).prop_map(move |(m, k)| (m as f64 * nf + k as f64) as f32),
        2 => (-1.0f64..3.0).prop_map(move |t| (t * nf) as f32),
        2 => (-64i64..=64).prop_map(|k| k as f32 * 0.5),
        1 => ((0u32..24), any::<bool>()).prop_map(|(e, s)| { let m = (1u64 << (e + 8)) as f32; if s { -m } else { m } }),
        1 => prop_oneof![Just(f32::INFINITY), Just(f32::NEG_INFINITY), Just(f32::NAN), Just(f32::MAX), Just(f32::MIN), Just(2147483648.0f32), Just(-2147483648.0f32), Just(2147483520.0f32), Just(4294967296.0f32)],
        1 => any::<u32>().prop_map(f32::from_bits),
    ]
    .boxed()
}

fn huge_case() -> BoxedStrategy<HugeCase> {
    (0..HUGE.len(), any::<bool>())
        .prop_flat_map(|(i, relative)| {
            let (w, h) = HUGE[i];
            (Just(i), huge_coord(w), huge_coord(h), Just(relative))
        })
        .prop_map(|(i, u, v, relative)| {
            let (w, h) = HUGE[i];
            // relative coordinates: divide by the size so that the product lands near the intended absolute value
            let (u, v) = if relative { (u / w as f32, v / h as f32) } else { (u, v) };
            HugeCase { tex: i as u8, u: X(u), v: X(v), relative }
        })
        .boxed()
}

/// floor(c) mod n for finite |c| < 2^31 (exact integers)
fn huge_repeat(c: f32, n: u32) -> Option<u32> {
    (c.is_finite() && c.abs() < TWO31).then(|| (c as f64).floor().rem_euclid(n as f64) as u32)
}

fn huge_clamp(c: f32, n: u32) -> Option<u32> {
    (!c.is_nan()).then(|| (c as f64).floor().clamp(0.0, (n - 1) as f64) as u32)
}

pub fn check_huge(c: &HugeCase, obs: &mut Obs) -> Check {
    ensure!((c.tex as usize) < HUGE.len(), "bad-case", "texture index out of range");
    let (w, h) = HUGE[c.tex as usize];
    let tex = &huge_textures()[c.tex as usize];
    let (u, v, relative) = (c.u.0, c.v.0, c.relative);
    let (wf, hf) = (w as f32, h as f32);
    let (pu, pv) = if relative { (wf * u, hf * v) } else { (u, v) };
    let tc = uv(u, v);
    let what = |s: &str| {
        if relative {
            format!("{s}::sample(uv({u:?}, {v:?})) [= absolute ({pu:?}, {pv:?})] on an owned {w}x{h} texture")
        } else {
            format!("{s}::sample_abs(uv({u:?}, {v:?})) on an owned {w}x{h} texture")
        }
    };
    let pot = w.is_power_of_two() && h.is_power_of_two();
    obs.class(if pot { "huge:power-of-two" } else { "huge:size not representable in f32" });
    obs.class(if w.max(h) > 1 << 24 { "huge:long side > 2^24" } else { "huge:long side = 2^24" });
    let long = if w >= h { pu } else { pv };
    let n = w.max(h);
    obs.class(if long.is_nan() {
        "huge-coord:NaN"
    } else if long < 0.0 {
        "huge-coord:negative"
    } else if (long as f64) < n as f64 - 64.0 {
        "huge-coord:inside"
    } else if (long as f64) < n as f64 {
        "huge-coord:last 64 texels"
    } else if (long as f64) < n as f64 + 64.0 {
        "huge-coord:first 64 past the end"
    } else {
        "huge-coord:beyond"
    });
    if pot {
        let s = match catch(|| SamplerRepeatPot::new(tex)) {
            Ok(s) => s,
            Err(p) => fail!("repeat-new-panic", "SamplerRepeatPot::new panicked on a {w}x{h} (power-of-two) texture: {p}"),
        };
        let got = match catch(|| if relative { s.sample(tex, tc) } else { s.sample_abs(tex, tc) }) {
            Ok(t) => t,
            Err(p) => fail!("repeat-panic", "{} panicked: {p}", what("SamplerRepeatPot")),
        };
        if let (Some(x), Some(y)) = (huge_repeat(pu, w), huge_repeat(pv, h)) {
            ensure!(got == huge_texel(x, y), "repeat-wrong-texel", "{} returned value {got} but (floor(u) mod {w}, floor(v) mod {h}) = ({x},{y}) holds {}", what("SamplerRepeatPot"), huge_texel(x, y));
        }
    }
    {
        let s = SamplerClamp;
        let got = match catch(|| if relative { s.sample(tex, tc) } else { s.sample_abs(tex, tc) }) {
            Ok(t) => t,
            Err(p) => fail!("clamp-panic", "{} panicked: {p}", what("SamplerClamp")),
        };
        if let (Some(x), Some(y)) = (huge_clamp(pu, w), huge_clamp(pv, h)) {
            ensure!(got == huge_texel(x, y), "clamp-wrong-texel", "{} returned value {got} but the coordinate clamped to the texture is texel ({x},{y}) holding {}", what("SamplerClamp"), huge_texel(x, y));
        }
    }
    let in_range = if relative { u >= 0.0 && u < 1.0 && v >= 0.0 && v < 1.0 } else { true } && pu >= 0.0 && (pu as f64) < w as f64 && pv >= 0.0 && (pv as f64) < h as f64;
    if in_range {
        let s = SamplerOnce;
        let got = match catch(|| if relative { s.sample(tex, tc) } else { s.sample_abs(tex, tc) }) {
            Ok(t) => t,
            Err(p) => fail!("once-panic-in-range", "{} panicked although the coordinate is in range: {p}", what("SamplerOnce")),
        };
        let (x, y) = ((pu as f64).floor() as u32, (pv as f64).floor() as u32);
        ensure!(got == huge_texel(x, y), "once-wrong-texel", "{} returned value {got} but the in-range coordinate addresses texel ({x},{y}) holding {}", what("SamplerOnce"), huge_texel(x, y));
        obs.class("huge:once checked");
    }
    if !(long >= 0.0 && (long as f64) < n as f64 - 64.0) {
        obs.nontrivial(hash_of(&(c.tex, c.u.0.to_bits(), c.v.0.to_bits(), c.relative)));
    }
    if obs.wants_sample() {
        obs.sample(|| json!({"texture": [w, h], "u": format!("{u:?}"), "v": format!("{v:?}"), "relative": relative}));
    }
    Ok(())
}

// ------------------------------------------------------------------ entry points

pub fn run(cx: &mut Ctx) {
    cx.assume("textures are non-empty (w,h >= 1); SamplerRepeatPot is only built for power-of-two sizes (its documented precondition)");
    cx.assume("repeat: the exact floor-mod texel is asserted when both coordinates are finite and below 2^31 in magnitude (the bound in the property statement, DESIGN D-g); otherwise only 'no panic' and 'returns a texel of the region'");
    cx.assume("clamp: the clamped texel is asserted for every non-NaN coordinate (infinities clamp to the edges); for NaN only 'no panic' and 'returns a texel of the region'");
    cx.assume("SamplerOnce is documented as unchecked: it is called only for 0 <= u < w, 0 <= v < h (relative: 0 <= tc < 1), where it must agree with the other two samplers");
    cx.assume("relative entry points: the oracle is applied to the f32 product size*tc (the scaling the docs describe), and sample(tc) must equal sample_abs(uv(w*tc.u, h*tc.v)) for every coordinate");
    let n = cx.n(1_600_000, 16_000_000);
    cx.prop_check("samplers", n, sample_case, |c, obs| check_case(c, obs));
    let n = cx.n(400_000, 4_000_000);
    cx.prop_check("once-in-range", n, once_case, |c, obs| check_case(c, obs));
    special_values(cx);
    integer_ulp_sweep(cx);
    cx.assume("huge textures (a side of 2^24 .. 2^26+): owned, u8 texels holding a hash of their position (a wrong texel is missed with probability 1/256 per sample); for sizes that f32 cannot represent the relative entry points are compared against the f32 product with the size rounded to f32, as the library documents");
    let n = cx.n(300_000, 6_000_000);
    cx.prop_check("huge", n, huge_case, |c, obs| check_huge(c, obs));
    let calls: u64 = cx.subs.iter().map(|s| s.obs.classes.get("sampler-calls").copied().unwrap_or(0)).sum();
    cx.extra.insert("sampler_calls".into(), json!(calls));
}

pub fn replay(sub: &str, case: &Value) -> Check {
    let mut obs = Obs::new();
    obs.freeze();
    match sub {
        "samplers" | "once-in-range" | "special-values" | "integer-ulp-sweep" => {
            let c: SampleCase = serde_json::from_value(case.clone()).map_err(|e| Fail::new("bad-replay", e.to_string()))?;
            check_case(&c, &mut obs)
        }
        "huge" => {
            let c: HugeCase = serde_json::from_value(case.clone()).map_err(|e| Fail::new("bad-replay", e.to_string()))?;
            check_huge(&c, &mut obs)
        }
        _ => Err(Fail::new("bad-replay", format!("unknown subcheck {sub}"))),
    }
}
