//! C15 — generated solids are closed, consistently wound and carry unit normals.
//!
//! Every solid generator of `retrofire-geom` is run over an exhaustive sweep of
//! its count parameters (and a few radii); the returned `Mesh<Normal3>` is
//! converted to f64 and judged by plain mesh-validity predicates that know
//! nothing about the generators' index arithmetic:
//!
//! * indices in range, all numbers finite;
//! * vertex normals of length 1 +- 2e-4 (measured on the unchanged tree: 3.2e-5);
//! * for every non-degenerate face, (b-a)x(c-a) . n_v > 0 for the normal n_v of
//!   each of its three vertices;
//! * (b-a)x(c-a) . outward_reference > 0 for every non-degenerate face, where the
//!   outward reference comes from the *model* of the solid (centroid minus an
//!   interior point for the convex solids, the sum of the vertices' offsets
//!   from the major circle for the torus, radial / +-y for a raw lathe);
//! * closed solids: after merging coincident vertices every directed edge
//!   occurs exactly once and so does its reverse, V - E + F = 2 (0 for the
//!   torus), and the enclosed signed volume is positive;
//!   open surfaces: no directed edge occurs twice;
//! * vertices on the intended surface (radius, extents, regular azimuth steps).

use crate::common::fl::*;
use crate::common::*;
use proptest::prelude::*;
use re::geom::{vertex, Mesh, Normal3};
use re::math::{pt2, pt3, turns, vec2};
use re_geom::solids as sol;
use serde::{Deserialize, Serialize};
use serde_json::{json, Value};
use std::f64::consts::PI;

pub const RULE: &str = "exhaustive sweeps: Sphere sectors 3..N x segments 2..N x 5 radii; Torus major 3..N x minor 3..N x 5 radius pairs; \
Cylinder sectors 3..N x segments 1..N x capped/uncapped x 5 radii; Cone likewise x 7 (base, apex) radius pairs incl. apex 0 and base 0; \
Capsule sectors 3..N x cap segments 1..N x body segments (all of 1..N quick, the ladder 1,2,3,5,9,24,48,96 thorough) x 3 radii; N = 24 quick, 96 thorough; \
the 4 parameterless Platonic solids + Box::cube over 6 sides + Box::default; proptest: Box over random non-degenerate extents, raw Lathe over random \
y-monotone profiles (2..8 points, ends optionally on the axis), sectors 3..N, capped/uncapped, full / shifted-full / partial azimuth ranges; \
wide-range: the five parametric solids with sectors from {3..24, 25..128, 255/256/257/511/512/513/1024, 129..1100}, few segments, radius log-uniform in 1e-9..1e9 (sphere, torus) or 1e-3..1e3 (fixed-height solids). \
Every parameter tuple is one case. Non-trivial = a count above the generator's minimum, or a capped / partial-azimuth variant; \
Platonic solids and boxes have no smaller variant and all count. Enumerated cases are distinct by construction, generated ones by hash.";

// ------------------------------------------------------------------ cases

#[derive(Clone, Debug, Serialize, Deserialize, Hash)]
pub enum Solid {
    Tetrahedron,
    Octahedron,
    Dodecahedron,
    Icosahedron,
    Cube { side: X },
    DefaultBox,
    Box { lbn: [X; 3], rtf: [X; 3] },
    Sphere { sectors: u32, segments: u32, radius: X },
    Torus { major_sectors: u32, minor_sectors: u32, major_radius: X, minor_radius: X },
    Cylinder { sectors: u32, segments: u32, capped: bool, radius: X },
    Cone { sectors: u32, segments: u32, capped: bool, base_radius: X, apex_radius: X },
    Capsule { sectors: u32, body_segments: u32, cap_segments: u32, radius: X },
    /// raw lathe: profile points (x, y, nx, ny), azimuth range in turns
    Lathe { pts: Vec<[X; 4]>, sectors: u32, capped: bool, az_start: X, az_end: X },
}

impl Solid {
    fn kind_name(&self) -> &'static str {
        match self {
            Solid::Tetrahedron => "tetrahedron",
            Solid::Octahedron => "octahedron",
            Solid::Dodecahedron => "dodecahedron",
            Solid::Icosahedron => "icosahedron",
            Solid::Cube { .. } => "cube",
            Solid::DefaultBox => "box-default",
            Solid::Box { .. } => "box",
            Solid::Sphere { .. } => "sphere",
            Solid::Torus { .. } => "torus",
            Solid::Cylinder { .. } => "cylinder",
            Solid::Cone { .. } => "cone",
            Solid::Capsule { .. } => "capsule",
            Solid::Lathe { .. } => "lathe",
        }
    }
}

// ------------------------------------------------------------------ f64 vector helpers

type V3 = [f64; 3];

fn sub(a: V3, b: V3) -> V3 {
    [a[0] - b[0], a[1] - b[1], a[2] - b[2]]
}
fn add(a: V3, b: V3) -> V3 {
    [a[0] + b[0], a[1] + b[1], a[2] + b[2]]
}
fn dot(a: V3, b: V3) -> f64 {
    a[0] * b[0] + a[1] * b[1] + a[2] * b[2]
}
fn cross(a: V3, b: V3) -> V3 {
    [a[1] * b[2] - a[2] * b[1], a[2] * b[0] - a[0] * b[2], a[0] * b[1] - a[1] * b[0]]
}
fn len(a: V3) -> f64 {
    dot(a, a).sqrt()
}
fn rho(p: V3) -> f64 {
    (p[0] * p[0] + p[2] * p[2]).sqrt()
}
fn chord(r: f64, n: f64) -> f64 {
    2.0 * r * (PI / n).sin()
}

/// The mesh as the check sees it.
struct M {
    pos: Vec<V3>,
    nrm: Vec<V3>,
    faces: Vec<[usize; 3]>,
}

fn extract(m: &Mesh<Normal3>) -> M {
    M {
        pos: m.verts.iter().map(|v| v.pos.0.map(|c| c as f64)).collect(),
        nrm: m.verts.iter().map(|v| v.attrib.0.map(|c| c as f64)).collect(),
        faces: m.faces.iter().map(|t| t.0).collect(),
    }
}

// ------------------------------------------------------------------ building (the code under test)

fn build(s: &Solid) -> Result<Mesh<Normal3>, String> {
    let s = s.clone();
    catch(move || match s {
        Solid::Tetrahedron => sol::Tetrahedron.build(),
        Solid::Octahedron => sol::Octahedron.build(),
        Solid::Dodecahedron => sol::Dodecahedron.build(),
        Solid::Icosahedron => sol::Icosahedron.build(),
        Solid::Cube { side } => sol::Box::cube(side.0).build(),
        Solid::DefaultBox => sol::Box::default().build(),
        Solid::Box { lbn, rtf } => sol::Box {
            left_bot_near: pt3(lbn[0].0, lbn[1].0, lbn[2].0),
            right_top_far: pt3(rtf[0].0, rtf[1].0, rtf[2].0),
        }
        .build(),
        Solid::Sphere { sectors, segments, radius } => sol::Sphere { sectors, segments, radius: radius.0 }.build(),
        Solid::Torus { major_sectors, minor_sectors, major_radius, minor_radius } => {
            sol::Torus { major_radius: major_radius.0, minor_radius: minor_radius.0, major_sectors, minor_sectors }.build()
        }
        Solid::Cylinder { sectors, segments, capped, radius } => sol::Cylinder { sectors, segments, capped, radius: radius.0 }.build(),
        Solid::Cone { sectors, segments, capped, base_radius, apex_radius } => {
            sol::Cone { sectors, segments, capped, base_radius: base_radius.0, apex_radius: apex_radius.0 }.build()
        }
        Solid::Capsule { sectors, body_segments, cap_segments, radius } => {
            sol::Capsule { sectors, body_segments, cap_segments, radius: radius.0 }.build()
        }
        Solid::Lathe { pts, sectors, capped, az_start, az_end } => {
            let points = pts.iter().map(|p| vertex(pt2(p[0].0, p[1].0), vec2(p[2].0, p[3].0)));
            let mut l = sol::Lathe::new(points, sectors).capped(capped);
            l.az_range = turns(az_start.0)..turns(az_end.0);
            l.build()
        }
    })
}

// ------------------------------------------------------------------ the model of each solid

#[derive(Clone, Debug)]
enum Outward {
    /// convex (star-shaped about `centre`): outward = face centroid - centre
    Convex { centre: V3 },
    /// ring torus about the y axis with this major radius
    Torus { major: f64 },
    /// surface of revolution of a y-increasing profile: radial for the side, -y / +y for flat faces at the two ends
    Lathe { y0: f64, y1: f64 },
}

struct Spec {
    closed: bool,
    euler: i64,
    /// bounding radius about the origin (magnitude of the coordinates: sets the f32 noise floor)
    scale: f64,
    /// shortest edge the ideal mesh has between two distinct vertices
    min_feature: f64,
    outward: Outward,
    /// centre used for the signed volume
    centre: V3,
}

const PHI: f64 = 1.618_033_988_749_895;

fn lathe_profile(pts: &[[X; 4]]) -> Vec<[f64; 2]> {
    pts.iter().map(|p| [p[0].0 as f64, p[1].0 as f64]).collect()
}

fn spec(s: &Solid) -> Result<Spec, Fail> {
    let o = [0.0; 3];
    let convex = |scale: f64, min_feature: f64, closed: bool| Spec { closed, euler: 2, scale, min_feature, outward: Outward::Convex { centre: o }, centre: o };
    Ok(match s {
        Solid::Tetrahedron => convex(1.0, (8.0f64 / 3.0).sqrt(), true),
        Solid::Octahedron => convex(1.0, 2f64.sqrt(), true),
        Solid::Dodecahedron => convex(1.0, 2.0 / PHI / 3f64.sqrt(), true),
        Solid::Icosahedron => convex(1.0, 2.0 / (1.0 + PHI * PHI).sqrt(), true),
        Solid::Cube { side } => {
            let a = side.0 as f64;
            ensure!(a > 0.0, "bad-case", "cube side {a}");
            convex(a * 3f64.sqrt() / 2.0, a, true)
        }
        Solid::DefaultBox => convex(3f64.sqrt() / 2.0, 1.0, true),
        Solid::Box { lbn, rtf } => {
            let l = lbn.map(|x| x.0 as f64);
            let r = rtf.map(|x| x.0 as f64);
            ensure!((0..3).all(|i| l[i] < r[i]), "bad-case", "box extents not ordered {l:?} {r:?}");
            let centre = [(l[0] + r[0]) / 2.0, (l[1] + r[1]) / 2.0, (l[2] + r[2]) / 2.0];
            let scale = len([l[0].abs().max(r[0].abs()), l[1].abs().max(r[1].abs()), l[2].abs().max(r[2].abs())]);
            let mf = (0..3).map(|i| r[i] - l[i]).fold(f64::MAX, f64::min);
            Spec { closed: true, euler: 2, scale, min_feature: mf, outward: Outward::Convex { centre }, centre }
        }
        Solid::Sphere { sectors, segments, radius } => {
            let (r, secs, segs) = (radius.0 as f64, *sectors as f64, *segments as f64);
            ensure!(r > 0.0 && *sectors >= 3 && *segments >= 2, "bad-case", "sphere parameters");
            let meridian = 2.0 * r * (PI / (2.0 * segs)).sin();
            let ring = chord(r * (PI / segs).sin(), secs);
            convex(r, meridian.min(ring), true)
        }
        Solid::Torus { major_sectors, minor_sectors, major_radius, minor_radius } => {
            let (big, small) = (major_radius.0 as f64, minor_radius.0 as f64);
            ensure!(small > 0.0 && big > small && *major_sectors >= 3 && *minor_sectors >= 3, "bad-case", "torus parameters");
            let mf = chord(small, *minor_sectors as f64).min(chord(big - small, *major_sectors as f64));
            Spec { closed: true, euler: 0, scale: big + small, min_feature: mf, outward: Outward::Torus { major: big }, centre: o }
        }
        Solid::Cylinder { sectors, segments, capped, radius } => {
            let r = radius.0 as f64;
            ensure!(r > 0.0 && *sectors >= 3 && *segments >= 1, "bad-case", "cylinder parameters");
            let mf = (2.0 / *segments as f64).min(chord(r, *sectors as f64));
            convex((r * r + 1.0).sqrt(), mf, *capped)
        }
        Solid::Cone { sectors, segments, capped, base_radius, apex_radius } => {
            let (rb, ra) = (base_radius.0 as f64, apex_radius.0 as f64);
            ensure!(rb >= 0.0 && ra >= 0.0 && rb.max(ra) > 0.0 && *sectors >= 3 && *segments >= 1, "bad-case", "cone parameters");
            let segs = *segments as f64;
            let slant = (4.0 + (rb - ra) * (rb - ra)).sqrt() / segs;
            let rmin = if rb.min(ra) > 0.0 { rb.min(ra) } else { rb.max(ra) / segs };
            convex((rb.max(ra).powi(2) + 1.0).sqrt(), slant.min(chord(rmin, *sectors as f64)), *capped)
        }
        Solid::Capsule { sectors, body_segments, cap_segments, radius } => {
            let r = radius.0 as f64;
            ensure!(r > 0.0 && *sectors >= 3 && *body_segments >= 1 && *cap_segments >= 1, "bad-case", "capsule parameters");
            let cap = *cap_segments as f64;
            let meridian = 2.0 * r * (PI / (4.0 * cap)).sin();
            let ring = chord(r * (PI / (2.0 * cap)).sin(), *sectors as f64);
            convex(1.0 + r, meridian.min(ring).min(2.0 / *body_segments as f64), true)
        }
        Solid::Lathe { pts, sectors, capped, az_start, az_end } => {
            let p = lathe_profile(pts);
            let n = p.len();
            ensure!(n >= 2 && *sectors >= 3, "bad-case", "lathe needs >= 2 points and >= 3 sectors");
            let span = az_end.0 as f64 - az_start.0 as f64;
            ensure!(span > 0.0 && span <= 1.0, "bad-case", "lathe azimuth span {span} turns");
            for i in 0..n {
                ensure!(p[i][0] > 0.0 || (p[i][0] == 0.0 && (i == 0 || i == n - 1)), "bad-case", "profile x must be > 0 (0 allowed at the ends)");
                ensure!(i == 0 || p[i][1] > p[i - 1][1] || p[i] == p[i - 1], "bad-case", "profile y must increase strictly (a point may be repeated: a hard crease)");
            }
            let mut mf = f64::MAX;
            let mut scale = 0f64;
            for i in 0..n {
                scale = scale.max((p[i][0].powi(2) + p[i][1].powi(2)).sqrt());
                if i > 0 && p[i] != p[i - 1] {
                    mf = mf.min(((p[i][0] - p[i - 1][0]).powi(2) + (p[i][1] - p[i - 1][1]).powi(2)).sqrt());
                }
                if p[i][0] > 0.0 {
                    mf = mf.min(2.0 * p[i][0] * (PI * span / *sectors as f64).sin());
                    if span < 1.0 {
                        // the gap left between the two ends of an almost-full ring
                        mf = mf.min(2.0 * p[i][0] * (PI * (1.0 - span)).sin());
                    }
                }
            }
            let full = az_end.0 - az_start.0 == 1.0;
            let closed = full && (*capped || p[0][0] == 0.0) && (*capped || p[n - 1][0] == 0.0);
            let (y0, y1) = (p[0][1], p[n - 1][1]);
            Spec { closed, euler: 2, scale, min_feature: mf, outward: Outward::Lathe { y0, y1 }, centre: [0.0, (y0 + y1) / 2.0, 0.0] }
        }
    })
}

// ------------------------------------------------------------------ merging coincident vertices

struct Merged {
    /// compact cluster id per vertex
    id: Vec<usize>,
    clusters: usize,
    /// largest distance between two vertices that were merged directly
    max_merged: f64,
    /// smallest distance seen between two vertices of different clusters (inf if none within the search window)
    min_unmerged: f64,
}

fn merge(pos: &[V3], tol: f64) -> Merged {
    let n = pos.len();
    // sweep along a generic direction so that axis-aligned coincidences do not pile up
    let d = [0.537_731, 0.619_383, 0.572_069];
    let dl = len(d);
    let key: Vec<f64> = pos.iter().map(|p| dot(*p, d) / dl).collect();
    let mut order: Vec<usize> = (0..n).collect();
    order.sort_by(|&a, &b| key[a].partial_cmp(&key[b]).unwrap().then(a.cmp(&b)));
    let mut parent: Vec<usize> = (0..n).collect();
    fn find(p: &mut [usize], mut i: usize) -> usize {
        while p[i] != i {
            p[i] = p[p[i]];
            i = p[i];
        }
        i
    }
    let window = 8.0 * tol;
    let mut max_merged = 0f64;
    let mut near: Vec<(usize, usize, f64)> = vec![];
    for (oi, &i) in order.iter().enumerate() {
        for &j in &order[oi + 1..] {
            if key[j] - key[i] > window {
                break;
            }
            let dist = len(sub(pos[i], pos[j]));
            if dist <= tol {
                max_merged = max_merged.max(dist);
                let (a, b) = (find(&mut parent, i), find(&mut parent, j));
                if a != b {
                    parent[a.max(b)] = a.min(b);
                }
            } else if dist <= window {
                near.push((i, j, dist));
            }
        }
    }
    let mut min_unmerged = f64::INFINITY;
    for (i, j, dist) in near {
        if find(&mut parent, i) != find(&mut parent, j) {
            min_unmerged = min_unmerged.min(dist);
        }
    }
    let mut compact = vec![usize::MAX; n];
    let mut id = vec![0usize; n];
    let mut clusters = 0;
    for i in 0..n {
        let r = find(&mut parent, i);
        if compact[r] == usize::MAX {
            compact[r] = clusters;
            clusters += 1;
        }
        id[i] = compact[r];
    }
    Merged { id, clusters, max_merged, min_unmerged }
}

// ------------------------------------------------------------------ surface predicates

/// every off-axis vertex sits at an azimuth start + k*step (k = 0..=secs) under one of the two
/// possible sign conventions for "azimuth", and every step k is used.
fn check_azimuths(m: &M, secs: u32, start_turns: f64, span_turns: f64, scale_xz: f64, obs: &mut Obs) -> Check {
    let step = span_turns / secs as f64;
    let full = span_turns == 1.0;
    let n = secs as usize;
    let mut ok = [true, true];
    let mut worst = [0f64, 0f64];
    let mut seen = [vec![false; n + 1], vec![false; n + 1]];
    let mut bad: [Option<(usize, f64)>; 2] = [None, None];
    let mut used = 0u64;
    for (vi, p) in m.pos.iter().enumerate() {
        if rho(*p) <= 1e-4 * scale_xz {
            continue; // on (or numerically on) the axis: no azimuth
        }
        used += 1;
        let az = p[2].atan2(p[0]) / (2.0 * PI); // turns
        for (ci, sign) in [1.0f64, -1.0].into_iter().enumerate() {
            // position within the range, in steps: 0 <= t < 1/step
            let t = (sign * az - start_turns).rem_euclid(1.0) / step;
            // nearest lattice position k in 0..=secs, or "just before the start" (step 0 approached from below)
            let kk = t.round().min(secs as f64);
            let (mut k, mut e) = (kk as usize, (t - kk).abs());
            if 1.0 / step - t < e {
                k = 0;
                e = 1.0 / step - t;
            }
            worst[ci] = worst[ci].max(e);
            if e > 0.01 {
                ok[ci] = false;
                bad[ci].get_or_insert((vi, az));
            } else {
                seen[ci][k] = true;
                if full && (k == 0 || k == n) {
                    seen[ci][0] = true;
                    seen[ci][n] = true;
                }
            }
        }
    }
    if used == 0 {
        return Ok(());
    }
    let ci = if ok[0] { 0 } else { 1 };
    if !ok[ci] {
        let (vi, az) = bad[0].unwrap();
        fail!("azimuth-off-lattice", "vertex {vi} at {:?} has azimuth {az:.6} turns, which is not start + k*span/sectors under either sign convention (start {start_turns}, span {span_turns} turns, sectors {secs})", m.pos[vi]);
    }
    obs.max("azimuth error (fraction of one sector step; bound 0.01)", worst[ci]);
    if let Some(k) = seen[ci].iter().position(|s| !s) {
        fail!("azimuth-missing", "no vertex at azimuth step {k} of {secs} (start {start_turns}, span {span_turns} turns)");
    }
    Ok(())
}

fn tol_surface(feature: f64, scale: f64) -> f64 {
    2e-4 * feature + 5e-5 * scale
}

fn note_surface(obs: &mut Obs, err: f64, tol: f64) {
    obs.max("surface error / tolerance", err / tol);
}

macro_rules! per_kind {
    ($s:expr, $what:literal) => {
        match $s {
            Solid::Tetrahedron | Solid::Octahedron | Solid::Dodecahedron | Solid::Icosahedron => concat!($what, " [platonic]"),
            Solid::Cube { .. } | Solid::DefaultBox | Solid::Box { .. } => concat!($what, " [box]"),
            Solid::Sphere { .. } => concat!($what, " [sphere]"),
            Solid::Torus { .. } => concat!($what, " [torus]"),
            Solid::Cylinder { .. } => concat!($what, " [cylinder]"),
            Solid::Cone { .. } => concat!($what, " [cone]"),
            Solid::Capsule { .. } => concat!($what, " [capsule]"),
            Solid::Lathe { .. } => concat!($what, " [lathe]"),
        }
    };
}

fn has_vertex(m: &M, f: impl Fn(V3) -> bool) -> bool {
    m.pos.iter().any(|p| f(*p))
}

fn check_surface(s: &Solid, sp: &Spec, m: &M, mg: &Merged, obs: &mut Obs) -> Check {
    let scale = sp.scale;
    match s {
        Solid::Tetrahedron | Solid::Octahedron | Solid::Dodecahedron | Solid::Icosahedron => {
            let mut expect: Vec<V3> = vec![];
            match s {
                Solid::Tetrahedron => {
                    // a regular tetrahedron, apex up (the doc comment's 4th vertex has a typo: -sqrt(8/9) for -sqrt(2/9))
                    let (a, b, c) = ((8.0f64 / 9.0).sqrt(), (2.0f64 / 9.0).sqrt(), (2.0f64 / 3.0).sqrt());
                    expect = vec![[0.0, 1.0, 0.0], [a, -1.0 / 3.0, 0.0], [-b, -1.0 / 3.0, c], [-b, -1.0 / 3.0, -c]];
                }
                Solid::Octahedron => {
                    for i in 0..3 {
                        for sg in [-1.0, 1.0] {
                            let mut v = [0.0; 3];
                            v[i] = sg;
                            expect.push(v);
                        }
                    }
                }
                Solid::Dodecahedron => {
                    for a in [-1.0, 1.0] {
                        for b in [-1.0, 1.0] {
                            for c in [-1.0, 1.0] {
                                expect.push([a, b, c]);
                            }
                            expect.push([a * PHI, b / PHI, 0.0]);
                            expect.push([0.0, a * PHI, b / PHI]);
                            expect.push([a / PHI, 0.0, b * PHI]);
                        }
                    }
                }
                _ => {
                    for a in [-1.0, 1.0] {
                        for b in [-1.0, 1.0] {
                            expect.push([a, 0.0, b * PHI]);
                            expect.push([a * PHI, b, 0.0]);
                            expect.push([0.0, a * PHI, b]);
                        }
                    }
                }
            }
            // equidistant from the origin
            let radius = m.pos.iter().map(|p| len(*p)).sum::<f64>() / m.pos.len() as f64;
            for (i, p) in m.pos.iter().enumerate() {
                let e = (len(*p) - radius).abs();
                note_surface(obs, e, 1e-3 * radius);
                ensure!(e <= 1e-3 * radius, "vertex-off-surface", "{}: vertex {i} {:?} is at distance {} from the origin, the others at {radius}", s.kind_name(), p, len(*p));
            }
            // the documented coordinates, up to one common scale factor and a relabelling of the axes (the doc
            // comments are loose about both: see the assumptions recorded by run())
            let el = len(expect[0]);
            ensure!(mg.clusters == expect.len(), "vertex-off-surface", "{}: {} distinct vertices, expected {}", s.kind_name(), mg.clusters, expect.len());
            const PERMS: [[usize; 3]; 6] = [[0, 1, 2], [1, 2, 0], [2, 0, 1], [2, 1, 0], [0, 2, 1], [1, 0, 2]];
            let mut best: Option<(usize, f64)> = None;
            for (pi, pm) in PERMS.iter().enumerate() {
                let want: Vec<V3> = expect.iter().map(|e| [e[pm[0]] / el * radius, e[pm[1]] / el * radius, e[pm[2]] / el * radius]).collect();
                let mut worst = 0f64;
                for q in &want {
                    worst = worst.max(m.pos.iter().map(|p| len(sub(*p, *q))).fold(f64::MAX, f64::min));
                }
                for p in &m.pos {
                    worst = worst.max(want.iter().map(|q| len(sub(*p, *q))).fold(f64::MAX, f64::min));
                }
                if best.map_or(true, |b| worst < b.1) {
                    best = Some((pi, worst));
                }
            }
            let (pi, worst) = best.unwrap();
            note_surface(obs, worst, 1e-3 * radius);
            ensure!(
                worst <= 1e-3 * radius,
                "vertex-off-surface",
                "{}: the vertices are not the documented regular solid (scaled by {:.6}) under any relabelling of the axes; best match leaves a vertex {worst:.3e} away",
                s.kind_name(),
                radius / el
            );
            obs.class(if pi == 0 { "platonic:vertices as documented (up to scale)" } else { "platonic:vertices = documented set with axes relabelled (up to scale)" });
            obs.max(
                match s {
                    Solid::Tetrahedron => "circumradius tetrahedron (documented 1)",
                    Solid::Octahedron => "circumradius octahedron (documented 1)",
                    Solid::Dodecahedron => "circumradius dodecahedron (documented coordinates have sqrt 3; built normalised)",
                    _ => "circumradius icosahedron (documented coordinates have 1.902; built normalised)",
                },
                radius,
            );
            if matches!(s, Solid::Tetrahedron | Solid::Octahedron) {
                ensure!((radius - 1.0).abs() <= 1e-3, "vertex-off-surface", "{}: circumradius {radius}, documented coordinates have 1", s.kind_name());
            }
        }
        Solid::Cube { .. } | Solid::DefaultBox | Solid::Box { .. } => {
            let (l, r) = match s {
                Solid::Cube { side } => ([-0.5 * side.0 as f64; 3], [0.5 * side.0 as f64; 3]),
                Solid::DefaultBox => ([-0.5; 3], [0.5; 3]),
                Solid::Box { lbn, rtf } => (lbn.map(|x| x.0 as f64), rtf.map(|x| x.0 as f64)),
                _ => unreachable!(),
            };
            let tol = 2e-6 * scale;
            let mut corners = [false; 8];
            for (i, p) in m.pos.iter().enumerate() {
                let mut code = 0;
                for a in 0..3 {
                    let (dl, dr) = ((p[a] - l[a]).abs(), (p[a] - r[a]).abs());
                    note_surface(obs, dl.min(dr), tol);
                    ensure!(dl.min(dr) <= tol, "vertex-off-surface", "box vertex {i} {:?}: coordinate {a} is neither {} nor {}", p, l[a], r[a]);
                    if dr < dl {
                        code |= 1 << a;
                    }
                }
                corners[code] = true;
            }
            ensure!(corners.iter().all(|c| *c), "vertex-off-surface", "box: not all 8 corners of {l:?}..{r:?} occur as vertices");
        }
        Solid::Sphere { sectors, radius, .. } => {
            let r = radius.0 as f64;
            let tol = tol_surface(r, scale);
            for (i, p) in m.pos.iter().enumerate() {
                let e = (len(*p) - r).abs();
                note_surface(obs, e, tol);
                ensure!(e <= tol, "vertex-off-surface", "sphere vertex {i} {:?} is at distance {} from the centre, radius {r}", p, len(*p));
            }
            ensure!(has_vertex(m, |p| p[1] <= -r + tol) && has_vertex(m, |p| p[1] >= r - tol), "extent-missing", "sphere: no vertex at one of the poles y = +-{r}");
            check_azimuths(m, *sectors, 0.0, 1.0, r, obs)?;
        }
        Solid::Torus { major_sectors, major_radius, minor_radius, .. } => {
            let (big, small) = (major_radius.0 as f64, minor_radius.0 as f64);
            let tol = tol_surface(small, scale);
            for (i, p) in m.pos.iter().enumerate() {
                let d = ((rho(*p) - big).powi(2) + p[1] * p[1]).sqrt();
                note_surface(obs, (d - small).abs(), tol);
                ensure!((d - small).abs() <= tol, "vertex-off-surface", "torus vertex {i} {:?} is {d} from the major circle (radius {big}), minor radius {small}", p);
            }
            ensure!(
                has_vertex(m, |p| rho(p) >= big + small - tol) && has_vertex(m, |p| rho(p) <= big - small + tol + small * (1.0 - (PI / 3.0).cos())),
                "extent-missing",
                "torus: the outer equator (rho = {}) is not reached",
                big + small
            );
            check_azimuths(m, *major_sectors, 0.0, 1.0, big + small, obs)?;
        }
        Solid::Cylinder { .. } | Solid::Cone { .. } => {
            let (rb, ra, secs) = match s {
                Solid::Cylinder { radius, sectors, .. } => (radius.0 as f64, radius.0 as f64, *sectors),
                Solid::Cone { base_radius, apex_radius, sectors, .. } => (base_radius.0 as f64, apex_radius.0 as f64, *sectors),
                _ => unreachable!(),
            };
            let tol = tol_surface(rb.max(ra), rb.max(ra));
            let ytol = 1e-4;
            for (i, p) in m.pos.iter().enumerate() {
                ensure!(p[1] >= -1.0 - ytol && p[1] <= 1.0 + ytol, "vertex-off-surface", "cone/cylinder vertex {i} {:?} outside the height range [-1, 1]", p);
                let want = rb + (ra - rb) * (p[1] + 1.0) / 2.0;
                let e = (rho(*p) - want).abs();
                note_surface(obs, e, tol);
                ensure!(e <= tol, "vertex-off-surface", "cone/cylinder vertex {i} {:?} has radius {} at height {}, expected {want}", p, rho(*p), p[1]);
            }
            ensure!(
                has_vertex(m, |p| p[1] <= -1.0 + ytol && (rho(p) - rb).abs() <= tol) && has_vertex(m, |p| p[1] >= 1.0 - ytol && (rho(p) - ra).abs() <= tol),
                "extent-missing",
                "cone/cylinder: base ring (y=-1, r={rb}) or apex ring (y=1, r={ra}) missing"
            );
            check_azimuths(m, secs, 0.0, 1.0, rb.max(ra), obs)?;
        }
        Solid::Capsule { sectors, radius, .. } => {
            let r = radius.0 as f64;
            let tol = tol_surface(r, scale);
            for (i, p) in m.pos.iter().enumerate() {
                let yc = p[1].clamp(-1.0, 1.0);
                let d = (rho(*p).powi(2) + (p[1] - yc).powi(2)).sqrt();
                note_surface(obs, (d - r).abs(), tol);
                ensure!((d - r).abs() <= tol, "vertex-off-surface", "capsule vertex {i} {:?} is {d} from the axis segment, radius {r}", p);
            }
            ensure!(
                has_vertex(m, |p| p[1] <= -1.0 - r + tol) && has_vertex(m, |p| p[1] >= 1.0 + r - tol),
                "extent-missing",
                "capsule: no vertex at one of the poles y = +-(1 + {r})"
            );
            check_azimuths(m, *sectors, 0.0, 1.0, r, obs)?;
        }
        Solid::Lathe { pts, sectors, az_start, az_end, .. } => {
            let prof = lathe_profile(pts);
            let xmax = prof.iter().map(|p| p[0]).fold(0.0, f64::max);
            // every vertex is a profile point swung about the y axis
            let mut seen = vec![false; prof.len()];
            for (i, p) in m.pos.iter().enumerate() {
                let (mut best, mut bj) = (f64::MAX, 0);
                for (j, q) in prof.iter().enumerate() {
                    let e = ((rho(*p) - q[0]).powi(2) + (p[1] - q[1]).powi(2)).sqrt();
                    if e < best {
                        best = e;
                        bj = j;
                    }
                }
                let tol = tol_surface(prof[bj][0], xmax);
                note_surface(obs, best, tol);
                ensure!(best <= tol, "vertex-off-surface", "lathe vertex {i} {:?} (rho {}, y {}) is not on the revolved profile; nearest profile point {:?} is {best:.3e} away", p, rho(*p), p[1], prof[bj]);
                // repeated profile points (hard creases) are the same place: a vertex there answers for all copies
                for (j, q) in prof.iter().enumerate() {
                    if *q == prof[bj] {
                        seen[j] = true;
                    }
                }
            }
            if let Some(j) = seen.iter().position(|s| !s) {
                fail!("extent-missing", "lathe: no vertex generated for profile point {j} {:?}", prof[j]);
            }
            let span = az_end.0 as f64 - az_start.0 as f64;
            check_azimuths(m, *sectors, az_start.0 as f64, span, xmax, obs)?;
        }
    }
    Ok(())
}

// ------------------------------------------------------------------ the predicate

fn outward_ref(o: &Outward, a: V3, b: V3, c: V3, scale: f64) -> V3 {
    let cen = [(a[0] + b[0] + c[0]) / 3.0, (a[1] + b[1] + c[1]) / 3.0, (a[2] + b[2] + c[2]) / 3.0];
    match o {
        Outward::Convex { centre } => sub(cen, *centre),
        Outward::Torus { major } => {
            let off = |p: V3| {
                let r = rho(p);
                sub(p, [p[0] / r * major, 0.0, p[2] / r * major])
            };
            add(add(off(a), off(b)), off(c))
        }
        Outward::Lathe { y0, y1 } => {
            let ytol = 1e-6 * scale;
            let flat = (a[1] - b[1]).abs() <= ytol && (b[1] - c[1]).abs() <= ytol;
            if flat && (a[1] - y0).abs() <= ytol {
                [0.0, -1.0, 0.0]
            } else if flat && (a[1] - y1).abs() <= ytol {
                [0.0, 1.0, 0.0]
            } else {
                [a[0] + b[0] + c[0], 0.0, a[2] + b[2] + c[2]]
            }
        }
    }
}

/// boundary classes of the parameter space, for the evidence histogram
fn note_classes(s: &Solid, obs: &mut Obs) {
    let (sectors, at_min_segments, capped, radius) = match s {
        Solid::Sphere { sectors, segments, radius } => (*sectors, *segments == 2, None, radius.0),
        Solid::Torus { major_sectors, minor_sectors, major_radius, .. } => (*major_sectors, *minor_sectors == 3, None, major_radius.0),
        Solid::Cylinder { sectors, segments, capped, radius } => (*sectors, *segments == 1, Some(*capped), radius.0),
        Solid::Cone { sectors, segments, capped, base_radius, apex_radius } => {
            obs.class(if apex_radius.0 == 0.0 {
                "cone:apex radius 0"
            } else if base_radius.0 == 0.0 {
                "cone:base radius 0 (inverted)"
            } else if apex_radius.0 > base_radius.0 {
                "cone:frustum widening upwards"
            } else {
                "cone:frustum narrowing upwards"
            });
            (*sectors, *segments == 1, Some(*capped), base_radius.0.max(apex_radius.0))
        }
        Solid::Capsule { sectors, body_segments, cap_segments, radius } => {
            if *body_segments == 1 {
                obs.class("capsule:body segments 1 (no interior body ring)");
            }
            (*sectors, *cap_segments == 1, None, radius.0)
        }
        _ => return,
    };
    if sectors == 3 {
        obs.class("sectors:3 (minimum)");
    } else if sectors <= 24 {
        obs.class("sectors:4..24");
    } else {
        obs.class("sectors:25..96");
    }
    if at_min_segments {
        obs.class("segments:at the generator's minimum");
    }
    match capped {
        Some(true) => obs.class("capped"),
        Some(false) => obs.class("uncapped"),
        None => {}
    }
    if radius <= 0.01 {
        obs.class("radius:0.01");
    } else if radius >= 100.0 {
        obs.class("radius:100");
    }
}

pub fn check_solid(s: &Solid, obs: &mut Obs) -> Check {
    let sp = spec(s)?;
    let kind = s.kind_name();
    note_classes(s, obs);
    let mesh = match build(s) {
        Ok(m) => m,
        Err(p) => fail!("build-panic", "{kind}: build() panicked on valid parameters: {p}"),
    };
    let m = extract(&mesh);
    ensure!(!m.pos.is_empty() && !m.faces.is_empty(), "empty-mesh", "{kind}: {} vertices, {} faces", m.pos.len(), m.faces.len());
    // ---- indices
    for (fi, f) in m.faces.iter().enumerate() {
        ensure!(f.iter().all(|&i| i < m.pos.len()), "index-out-of-range", "{kind}: face {fi} {:?} refers past the {} vertices", f, m.pos.len());
    }
    // ---- finite, unit normals
    for i in 0..m.pos.len() {
        ensure!(m.pos[i].iter().chain(m.nrm[i].iter()).all(|c| c.is_finite()), "non-finite", "{kind}: vertex {i} pos {:?} normal {:?}", m.pos[i], m.nrm[i]);
        let l = len(m.nrm[i]);
        obs.max("| |normal| - 1 | (bound 2e-4)", (l - 1.0).abs());
        ensure!((l - 1.0).abs() <= 2e-4, "normal-not-unit", "{kind}: vertex {i} at {:?} has normal {:?} of length {l:.6}", m.pos[i], m.nrm[i]);
    }
    // ---- merge coincident vertices
    let tol = (1e-4 * sp.scale).min(0.2 * sp.min_feature);
    let mg = merge(&m.pos, tol);
    obs.max("merged-pair distance / merge tolerance", mg.max_merged / tol);
    if mg.min_unmerged.is_finite() {
        obs.max(per_kind!(s, "merge tolerance / nearest unmerged pair distance"), tol / mg.min_unmerged);
    }
    // ---- faces: normal agreement and winding
    let flat_shaded = matches!(s, Solid::Tetrahedron | Solid::Octahedron | Solid::Dodecahedron | Solid::Icosahedron | Solid::Cube { .. } | Solid::DefaultBox | Solid::Box { .. });
    let (mut outward, mut inward) = (0u64, 0u64);
    let mut first_in: Option<usize> = None;
    let mut first_out: Option<usize> = None;
    let mut kept: Vec<[usize; 3]> = Vec::with_capacity(m.faces.len());
    let (mut degenerate, mut sliver) = (0u64, 0u64);
    let mut volume6 = 0f64;
    for (fi, f) in m.faces.iter().enumerate() {
        let ids = [mg.id[f[0]], mg.id[f[1]], mg.id[f[2]]];
        if ids[0] == ids[1] || ids[1] == ids[2] || ids[0] == ids[2] {
            degenerate += 1;
            continue;
        }
        kept.push(ids);
        let [a, b, c] = [m.pos[f[0]], m.pos[f[1]], m.pos[f[2]]];
        volume6 += dot(sub(a, sp.centre), cross(sub(b, sp.centre), sub(c, sp.centre)));
        let n = cross(sub(b, a), sub(c, a));
        let longest = len(sub(b, a)).max(len(sub(c, b))).max(len(sub(a, c)));
        if len(n) / longest <= tol {
            // three distinct vertices but (nearly) collinear: no geometric normal to compare with
            sliver += 1;
            continue;
        }
        for &vi in f {
            let cosang = dot(n, m.nrm[vi]) / (len(n) * len(m.nrm[vi]));
            obs.max(per_kind!(s, "angle face normal / vertex normal, degrees (bound 90)"), cosang.clamp(-1.0, 1.0).acos().to_degrees());
            ensure!(
                cosang > 0.0,
                "normal-opposes-face",
                "{kind}: face {fi} {:?} has geometric normal (b-a)x(c-a) = {:?} but its vertex {vi} carries normal {:?} (cos {cosang:.4})",
                f,
                n,
                m.nrm[vi]
            );
        }
        if flat_shaded {
            // extension (see run()): a solid built with one private set of vertices per flat face carries that face's normal
            for &vi in f {
                let ang = (dot(n, m.nrm[vi]) / (len(n) * len(m.nrm[vi]))).clamp(-1.0, 1.0).acos().to_degrees();
                // observed, not asserted: the statement only requires the normal to lie on the face's side
                obs.max("flat-shaded vertex normal vs face normal (degrees; observation only)", ang);
                if ang > 1.0 {
                    obs.class("flat-shaded normal > 1 degree off its face normal (observation only)");
                }

            }
        }
        let out = outward_ref(&sp.outward, a, b, c, sp.scale);
        let cosang = dot(n, out) / (len(n) * len(out));
        obs.max(per_kind!(s, "angle face normal / outward reference, degrees (bound 90)"), cosang.clamp(-1.0, 1.0).acos().to_degrees());
        if cosang > 0.0 {
            outward += 1;
            first_out.get_or_insert(fi);
        } else {
            inward += 1;
            first_in.get_or_insert(fi);
        }
    }
    ensure!(outward + inward > 0, "empty-mesh", "{kind}: no non-degenerate face");
    if inward > 0 && outward > 0 {
        let (fi, fo) = (first_in.unwrap(), first_out.unwrap());
        let minority = if inward <= outward { fi } else { fo };
        fail!(
            "winding-mixed",
            "{kind}: {outward} faces are wound counter-clockwise seen from outside and {inward} clockwise; e.g. face {minority} {:?} = {:?}",
            m.faces[minority],
            m.faces[minority].map(|i| m.pos[i])
        );
    }
    ensure!(inward == 0, "winding-inward", "{kind}: all {inward} faces have (b-a)x(c-a) pointing into the solid (the crate's culling convention and every other solid have it pointing out)");
    obs.class_n("faces:checked", outward);
    obs.class_n("faces:degenerate-after-merge", degenerate);
    obs.class_n(per_kind!(s, "faces:collinear-skipped"), sliver);
    // ---- edges
    let mut edges: Vec<u64> = Vec::with_capacity(kept.len() * 3);
    for f in &kept {
        for k in 0..3 {
            edges.push(((f[k] as u64) << 32) | f[(k + 1) % 3] as u64);
        }
    }
    edges.sort_unstable();
    let describe = |e: u64| {
        let (a, b) = ((e >> 32) as usize, (e & 0xffff_ffff) as usize);
        let pa = (0..m.pos.len()).find(|&i| mg.id[i] == a).map(|i| m.pos[i]);
        let pb = (0..m.pos.len()).find(|&i| mg.id[i] == b).map(|i| m.pos[i]);
        format!("{:?} -> {:?}", pa.unwrap_or([f64::NAN; 3]), pb.unwrap_or([f64::NAN; 3]))
    };
    for w in edges.windows(2) {
        ensure!(
            w[0] != w[1],
            "edge-direction-repeated",
            "{kind}: two faces traverse the edge {} in the same direction (inconsistent winding or overlapping faces)",
            describe(w[0])
        );
    }
    if sp.closed {
        for &e in &edges {
            let rev = (e << 32) | (e >> 32);
            ensure!(edges.binary_search(&rev).is_ok(), "not-watertight", "{kind}: edge {} has no face on its other side (hole or unmatched seam)", describe(e));
        }
        let mut used: Vec<usize> = kept.iter().flatten().copied().collect();
        used.sort_unstable();
        used.dedup();
        let (v, e, f) = (used.len() as i64, edges.len() as i64 / 2, kept.len() as i64);
        ensure!(v - e + f == sp.euler, "euler-characteristic", "{kind}: V - E + F = {v} - {e} + {f} = {}, expected {}", v - e + f, sp.euler);
        ensure!(volume6 > 0.0, "winding-inward", "{kind}: the closed surface encloses a signed volume of {} (<= 0: wound inside out)", volume6 / 6.0);
        obs.class("closed:watertight+euler");
    } else {
        obs.class("open:oriented-manifold-only");
    }
    // ---- vertices on the intended surface
    let before = obs.maxima.get("surface error / tolerance").copied();
    obs.maxima.remove("surface error / tolerance");
    let r = check_surface(s, &sp, &m, &mg, obs);
    if let Some(v) = obs.maxima.remove("surface error / tolerance") {
        obs.max(per_kind!(s, "surface error / tolerance (bound 1)"), v);
    }
    let _ = before;
    r?;
    obs.class_n("vertices", m.pos.len() as u64);
    Ok(())
}

// ------------------------------------------------------------------ enumerations

const RADII: [f32; 5] = [0.01, 0.5, 1.0, 3.0, 100.0];
/// (major, minor): the tube must stay resolvable in f32 next to the major radius (minor/major >= 0.02)
const TORUS_RADII: [(f32, f32); 5] = [(1.0, 0.5), (3.0, 1.0), (0.5, 0.01), (100.0, 3.0), (1.0, 0.9)];
/// (base, apex)
const CONE_RADII: [(f32, f32); 7] = [(1.0, 0.0), (0.01, 0.0), (100.0, 0.0), (1.0, 0.5), (0.5, 3.0), (0.0, 1.0), (3.0, 0.01)];
const CAPSULE_RADII: [f32; 3] = [0.01, 1.0, 100.0];
const CUBE_SIDES: [f32; 6] = [0.01, 0.5, 1.0, 2.0, 3.0, 100.0];
/// body-segment ladder of the thorough capsule sweep
const BODY_LADDER: [u32; 8] = [1, 2, 3, 5, 9, 24, 48, 96];

fn sample_some(obs: &mut Obs, idx: u64, s: &Solid) {
    if obs.wants_sample() && splitmix(idx) % 97 == 0 {
        let c = s.clone();
        obs.sample(|| json!(c));
    }
}

fn run_enum(cx: &mut Ctx, name: &str, total: u64, decode: impl Fn(u64) -> (Solid, bool) + Sync) {
    cx.enum_check(name, total, true, move |idx, obs| {
        let (s, nontrivial) = decode(idx);
        sample_some(obs, idx, &s);
        match check_solid(&s, obs) {
            Ok(()) => {
                if nontrivial {
                    obs.nontrivial_enumerated(1);
                }
                Ok(())
            }
            Err(f) => Err((s, f)),
        }
    });
}

// ------------------------------------------------------------------ generated cases

fn box_case() -> BoxedStrategy<Solid> {
    let centre = prop_oneof![2 => Just(0.0f32), 1 => Just(-7.5f32), 5 => -100.0f32..100.0];
    let half = prop_oneof![1 => Just(0.5f32), 1 => Just(1.0f32), 6 => log_uniform(-2.0, 2.0)];
    (proptest::array::uniform3(centre), proptest::array::uniform3(half), any::<bool>())
        .prop_map(|(c, h, cube)| {
            let h = if cube { [h[0]; 3] } else { h };
            let l = [c[0] - h[0], c[1] - h[1], c[2] - h[2]];
            let r = [c[0] + h[0], c[1] + h[1], c[2] + h[2]];
            Solid::Box { lbn: xs(l), rtf: xs(r) }
        })
        .boxed()
}

/// Raw-lathe cases: a profile whose y increases strictly and whose segments make 15..165 degrees with the +x
/// axis, x >= 0.05 s (exactly 0 allowed at either end), normals = bisector of the adjacent segments' right-hand
/// perpendiculars (dy, -dx), tilted by up to +-10 degrees and scaled to an arbitrary non-zero length.
fn lathe_case(max_sectors: u32) -> BoxedStrategy<Solid> {
    let seg = (0.05f32..1.0, -1.0f32..1.0, -10.0f32..10.0);
    let az = prop_oneof![
        3 => Just((0.0f32, 1.0f32)),
        2 => (-1.0f32..1.0).prop_map(|s| ((s * 64.0).round() / 64.0, (s * 64.0).round() / 64.0 + 1.0)),
        2 => ((-1.0f32..1.0), prop_oneof![Just(0.25f32), Just(0.5), Just(0.75)]).prop_map(|(s, w)| (s, s + w)),
        3 => ((-1.0f32..1.0), 0.05f32..0.999).prop_map(|(s, w)| (s, s + w)),
        // partial ranges with a "round" end point: ending exactly at one turn (or 0, or 2 turns) without starting at
        // the matching round value, starting exactly at 0 / 1
        2 => (prop_oneof![Just(1.0f32), Just(0.0f32), Just(2.0f32), Just(-1.0f32), Just(0.5f32)], prop_oneof![Just(0.25f32), Just(0.5f32), Just(0.75f32), Just(0.125f32), 0.05f32..0.95]).prop_map(|(e, w)| (e - w, e)),
        1 => (prop_oneof![Just(0.0f32), Just(1.0f32), Just(-1.0f32)], prop_oneof![Just(0.25f32), Just(0.5f32), Just(0.75f32), 0.05f32..0.95]).prop_map(|(st, w)| (st, st + w)),
    ];
    let nlen = prop_oneof![3 => Just(1.0f32), 1 => Just(0.1f32), 1 => Just(10.0f32), 2 => 0.2f32..5.0];
    (
        (2usize..=8, proptest::collection::vec(seg, 8), 0.05f32..3.0, prop_oneof![Just(0.01f32), Just(1.0), Just(1.0), Just(100.0)]),
        (prop_oneof![Just(-1.0f32), Just(0.0), -3.0f32..3.0], any::<bool>(), any::<bool>(), 3..=max_sectors, any::<bool>()),
        (az, nlen, proptest::bits::u8::ANY),
    )
        .prop_map(|((n, segs, x0, s), (y0, axis0, axis1, sectors, capped), (az, nlen, lowsec))| {
            // small sector counts are where index arithmetic breaks: give them extra weight
            let sectors = if lowsec & 3 == 0 { 3 + (sectors - 3) % 4 } else { sectors };
            // two points that are both on the axis would be a line, not a surface
            let axis1 = axis1 && !(n == 2 && axis0);
            let mut p: Vec<[f32; 2]> = vec![[if axis0 { 0.0 } else { x0 * s }, y0 * s]];
            for i in 1..n {
                let (dy, dxr, _) = segs[i];
                let prev = p[i - 1];
                let mut dy = dy * s;
                let mut x = (prev[0] + dxr * 3.5 * dy).max(0.05 * s);
                if i == n - 1 && axis1 {
                    x = 0.0;
                }
                // keep the segment at least 15 degrees off the horizontal
                let need = (x - prev[0]).abs() / 3.5;
                if dy < need {
                    dy = need * 1.01;
                }
                p.push([x, prev[1] + dy]);
            }
            // a point must not coincide with its predecessor after rounding
            for i in 1..n {
                if p[i][1] <= p[i - 1][1] {
                    p[i][1] = ulp_up(p[i - 1][1]);
                }
            }
            let perp = |a: [f32; 2], b: [f32; 2]| {
                let (dx, dy) = ((b[0] - a[0]) as f64, (b[1] - a[1]) as f64);
                let l = (dx * dx + dy * dy).sqrt();
                [dy / l, -dx / l]
            };
            // a hard crease: an interior point given twice, the first copy with the normal of the segment before it, the
            // second with that of the segment after it (how a profile gets a sharp edge; the repeated point makes a ring of
            // zero-area faces)
            let crease = if n >= 3 && lowsec & 0x30 == 0x10 { Some(1 + (lowsec as usize >> 6) % (n - 2)) } else { None };
            let mut pts: Vec<[X; 4]> = (0..n)
                .map(|i| {
                    let mut nn = [0.0f64; 2];
                    if i > 0 {
                        let q = perp(p[i - 1], p[i]);
                        nn = [nn[0] + q[0], nn[1] + q[1]];
                    }
                    if i + 1 < n {
                        let q = perp(p[i], p[i + 1]);
                        nn = [nn[0] + q[0], nn[1] + q[1]];
                    }
                    let l = (nn[0] * nn[0] + nn[1] * nn[1]).sqrt();
                    let t = (segs[i].2 as f64).to_radians();
                    let (c, sn) = (t.cos(), t.sin());
                    let k = nlen as f64 / l;
                    let rot = [(nn[0] * c - nn[1] * sn) * k, (nn[0] * sn + nn[1] * c) * k];
                    xs([p[i][0], p[i][1], rot[0] as f32, rot[1] as f32])
                })
                .collect();
            if let Some(ci) = crease {
                let side = |a: [f32; 2], b: [f32; 2]| {
                    let q = perp(a, b);
                    [X(q[0] as f32 * nlen), X(q[1] as f32 * nlen)]
                };
                let (n0, n1) = (side(p[ci - 1], p[ci]), side(p[ci], p[ci + 1]));
                let pos = [pts[ci][0], pts[ci][1]];
                pts[ci] = [pos[0], pos[1], n0[0], n0[1]];
                pts.insert(ci + 1, [pos[0], pos[1], n1[0], n1[1]]);
            }
            Solid::Lathe { pts, sectors, capped, az_start: X(az.0), az_end: X(az.1) }
        })
        .boxed()
}

/// Parametric solids far from the enumerated lattice: dense sector counts (up to 1100, with weight on 255/256/257 and
/// 511/512/513) and radii over 18 orders of magnitude (sphere, torus: everything scales with the radius) or 6 orders
/// (solids of fixed height 2).
fn wide_case() -> BoxedStrategy<Solid> {
    let sectors = prop_oneof![
        2 => 3u32..=24,
        2 => 25u32..=128,
        2 => proptest::sample::select(vec![255u32, 256, 257, 511, 512, 513, 1024]),
        1 => 129u32..=1100,
    ];
    let seg = |lo: u32| prop_oneof![3 => lo..=lo + 1, 2 => lo..=8];
    // radii a hair off 1 (where "already unit length" shortcuts would bite), and the wide ranges
    let near_one = (log_uniform(-5.0, -2.5), any::<bool>()).prop_map(|(d, up)| if up { 1.0 + d } else { 1.0 - d });
    let rad_free = prop_oneof![1 => Just(1.0f32), 5 => log_uniform(-9.0, 9.0), 1 => log_uniform(-7.0, -5.0), 2 => near_one.clone()];
    let rad_h = prop_oneof![1 => Just(1.0f32), 4 => log_uniform(-3.0, 3.0), 2 => near_one];
    prop_oneof![
        3 => (sectors.clone(), seg(2), rad_free.clone()).prop_map(|(sectors, segments, r)| Solid::Sphere { sectors, segments, radius: X(r) }),
        3 => (sectors.clone(), prop_oneof![3 => 3u32..=5, 1 => 3u32..=40], rad_free, 0.03f32..0.95)
            .prop_map(|(major_sectors, minor_sectors, big, q)| Solid::Torus { major_sectors, minor_sectors, major_radius: X(big), minor_radius: X(big * q) }),
        2 => (sectors.clone(), seg(1), any::<bool>(), rad_h.clone()).prop_map(|(sectors, segments, capped, r)| Solid::Cylinder { sectors, segments, capped, radius: X(r) }),
        2 => (sectors.clone(), seg(1), any::<bool>(), rad_h.clone(), prop_oneof![2 => Just(0.0f32), 3 => 0.01f32..2.0], any::<bool>()).prop_map(
            |(sectors, segments, capped, r, q, flip)| {
                let (b, a) = if flip { (r * q, r) } else { (r, r * q) };
                Solid::Cone { sectors, segments, capped, base_radius: X(b), apex_radius: X(a) }
            }
        ),
        2 => (sectors, seg(1), seg(1), rad_h).prop_map(|(sectors, body_segments, cap_segments, r)| Solid::Capsule { sectors, body_segments, cap_segments, radius: X(r) }),
    ]
    .boxed()
}

fn check_wide(s: &Solid, obs: &mut Obs) -> Check {
    let (secs, r) = match s {
        Solid::Sphere { sectors, radius, .. } => (*sectors, radius.0),
        Solid::Torus { major_sectors, major_radius, .. } => (*major_sectors, major_radius.0),
        Solid::Cylinder { sectors, radius, .. } => (*sectors, radius.0),
        Solid::Cone { sectors, base_radius, apex_radius, .. } => (*sectors, base_radius.0.max(apex_radius.0)),
        Solid::Capsule { sectors, radius, .. } => (*sectors, radius.0),
        _ => fail!("bad-case", "not a parametric solid"),
    };
    obs.class(match secs {
        0..=24 => "wide:sectors 3..24",
        25..=128 => "wide:sectors 25..128",
        129..=255 => "wide:sectors 129..255",
        _ => "wide:sectors >= 256",
    });
    obs.class(if r < 1e-4 {
        "wide:radius < 1e-4"
    } else if r < 1e-2 {
        "wide:radius 1e-4..1e-2"
    } else if r <= 1e2 {
        "wide:radius 1e-2..1e2"
    } else if r <= 1e4 {
        "wide:radius 1e2..1e4"
    } else {
        "wide:radius > 1e4"
    });
    // the rings are built by repeated rotation: the seam closes to about 1e-8 * sectors * scale (measured). Merging uses
    // one global tolerance (a fifth of the shortest ideal edge), so a solid whose smallest ring is finer than the seam
    // drift of its largest one cannot be judged by it: outside this check's domain (counted)
    let sp = spec(s)?;
    if 0.2 * sp.min_feature < 1e-7 * secs as f64 * sp.scale {
        obs.excluded("wide-range: shortest ideal edge below 5e-7 * sectors * scale (global merge tolerance cannot separate it from the seam drift of the largest ring)");
        return Ok(());
    }
    check_solid(s, obs)?;
    if secs > 24 || !(1e-2..=1e2).contains(&r) {
        obs.nontrivial(hash_of(s));
    }
    Ok(())
}

fn check_generated(s: &Solid, obs: &mut Obs) -> Check {
    // the generator's own guarantees, re-derived: outside them the case is not asserted
    if let Solid::Lathe { pts, sectors, capped, az_start, az_end } = s {
        let p = lathe_profile(pts);
        for i in 0..p.len() {
            for j in [i.wrapping_sub(1), i + 1] {
                if j < p.len() {
                    let (a, b) = if j < i { (p[j], p[i]) } else { (p[i], p[j]) };
                    if a == b {
                        continue; // the repeated point of a hard crease: its copies answer for one side each
                    }
                    let (dx, dy) = (b[0] - a[0], b[1] - a[1]);
                    let l = (dx * dx + dy * dy).sqrt();
                    let n = [pts[i][2].0 as f64, pts[i][3].0 as f64];
                    let cosang = (n[0] * dy - n[1] * dx) / (l * (n[0] * n[0] + n[1] * n[1]).sqrt());
                    if !(cosang > 0.03) {
                        obs.excluded("lathe profile normal not on the right-hand side of an adjacent segment (generator guarantee lost to rounding)");
                        return Ok(());
                    }
                }
            }
        }
        let span = az_end.0 - az_start.0;
        obs.class(if span == 1.0 && az_start.0 == 0.0 {
            "lathe:az full 0..1"
        } else if span == 1.0 {
            "lathe:az full, shifted"
        } else if span >= 0.5 {
            "lathe:az partial >= half turn"
        } else {
            "lathe:az partial < half turn"
        });
        obs.class(if *capped { "lathe:capped" } else { "lathe:uncapped" });
        obs.class(match (p[0][0] == 0.0, p[p.len() - 1][0] == 0.0) {
            (true, true) => "lathe:both ends on axis",
            (true, false) | (false, true) => "lathe:one end on axis",
            _ => "lathe:ends off axis",
        });
        obs.class(match *sectors {
            3 => "lathe:sectors 3",
            4..=6 => "lathe:sectors 4..6",
            7..=24 => "lathe:sectors 7..24",
            _ => "lathe:sectors 25..96",
        });
        if p.windows(2).any(|w| w[0] == w[1]) {
            obs.class("lathe:profile with a repeated point (hard crease)");
        }
        obs.class(match p.len() {
            2 => "lathe:2 points",
            3..=4 => "lathe:3..4 points",
            _ => "lathe:5..8 points",
        });
    }
    check_solid(s, obs)?;
    obs.nontrivial(hash_of(s));
    if obs.wants_sample() {
        let c = s.clone();
        obs.sample(|| json!(c));
    }
    Ok(())
}

// ------------------------------------------------------------------ driver

pub fn run(cx: &mut Ctx) {
    let n = cx.n(24, 96) as u32;
    cx.assume("generator preconditions respected: sectors >= 3 (Lathe::new asserts it), cone/cylinder segments >= 1 and capsule body/cap segments >= 1 (asserted by build), sphere segments >= 2 (one segment is two poles and no surface), torus minor sectors >= 3 and major radius > minor radius > 0 (ring torus), radii > 0 (cone: >= 0, not both 0), box left/bottom/near < right/top/far");
    cx.assume("'outside' is the side (b-a)x(c-a) points to: the crate's back-face culling keeps exactly those faces (DESIGN section 5), so a solid wound the other way round is reported (winding-inward) even if it is self-consistent");
    cx.assume("a face is non-degenerate when its three vertices stay distinct after merging and its smallest altitude exceeds the merge tolerance min(1e-4*scale, 0.2*shortest ideal edge); DESIGN's 'area > 1e-6*scale^2' would skip the (well-conditioned) small faces at a thin cone's tip");
    cx.assume("raw Lathe: profiles have strictly increasing y, x > 0 (0 allowed at the ends), supplied normals within 85 degrees of the right-hand perpendicular (dy,-dx) of both adjacent segments (the convention Cone/Sphere/Capsule/Torus use), 0 < azimuth span <= 1 turn; watertightness is asserted only for an exact full turn with both ends capped or on the axis");
    cx.assume("observation beyond the statement (never a violation): the Platonic solids and boxes give every flat face private vertices, and the angle between those normals and the face normal is recorded (measured 1e-6 degrees); grounded in the doc comments 'the normals are exactly the vertices of the <dual>, normalized' of Dodecahedron/Icosahedron. Without it a wrong sign in one component of an octahedron normal stays within 90 degrees of the face normal and passes the statement's same-side test");
    cx.assume("Platonic coordinates are compared up to one common scale factor: Dodecahedron/Icosahedron are built normalised to circumradius 1 while their doc comments list unnormalised coordinates; the Tetrahedron doc comment's 4th vertex (-sqrt(8/9), ..) is read as the regular tetrahedron's (-sqrt(2/9), ..)");
    cx.extra.insert(
        "sweep_bounds".into(),
        json!({"sectors": [3, n], "segments": {"sphere": [2, n], "torus_minor": [3, n], "cylinder": [1, n], "cone": [1, n], "capsule_cap": [1, n],
            "capsule_body": if cx.tier == Tier::Quick { json!([1, n]) } else { json!(BODY_LADDER) }},
            "radii": RADII, "torus_radii": TORUS_RADII, "cone_radii(base,apex)": CONE_RADII, "capsule_radii": CAPSULE_RADII, "cube_sides": CUBE_SIDES}),
    );

    // Platonic solids, cubes
    let np = 5 + CUBE_SIDES.len() as u64;
    run_enum(cx, "platonic", np, |i| {
        let s = match i {
            0 => Solid::Tetrahedron,
            1 => Solid::Octahedron,
            2 => Solid::Dodecahedron,
            3 => Solid::Icosahedron,
            4 => Solid::DefaultBox,
            k => Solid::Cube { side: X(CUBE_SIDES[k as usize - 5]) },
        };
        (s, true)
    });

    let secs = (n - 2) as u64; // 3..=n
    // sphere
    {
        let segs = (n - 1) as u64; // 2..=n
        run_enum(cx, "sphere", secs * segs * RADII.len() as u64, move |i| {
            let (r, i) = (i % RADII.len() as u64, i / RADII.len() as u64);
            let (sg, sc) = (2 + (i % segs) as u32, 3 + (i / segs) as u32);
            (Solid::Sphere { sectors: sc, segments: sg, radius: X(RADII[r as usize]) }, sc > 3 || sg > 2)
        });
    }
    // torus
    {
        let nr = TORUS_RADII.len() as u64;
        run_enum(cx, "torus", secs * secs * nr, move |i| {
            let (r, i) = (i % nr, i / nr);
            let (mi, ma) = (3 + (i % secs) as u32, 3 + (i / secs) as u32);
            let (big, small) = TORUS_RADII[r as usize];
            (Solid::Torus { major_sectors: ma, minor_sectors: mi, major_radius: X(big), minor_radius: X(small) }, ma > 3 || mi > 3)
        });
    }
    // cylinder
    {
        let segs = n as u64; // 1..=n
        let nr = RADII.len() as u64;
        run_enum(cx, "cylinder", secs * segs * 2 * nr, move |i| {
            let (r, i) = (i % nr, i / nr);
            let (capped, i) = (i % 2 == 1, i / 2);
            let (sg, sc) = (1 + (i % segs) as u32, 3 + (i / segs) as u32);
            (Solid::Cylinder { sectors: sc, segments: sg, capped, radius: X(RADII[r as usize]) }, capped || sc > 3 || sg > 1)
        });
    }
    // cone / frustum
    {
        let segs = n as u64;
        let nr = CONE_RADII.len() as u64;
        run_enum(cx, "cone", secs * segs * 2 * nr, move |i| {
            let (r, i) = (i % nr, i / nr);
            let (capped, i) = (i % 2 == 1, i / 2);
            let (sg, sc) = (1 + (i % segs) as u32, 3 + (i / segs) as u32);
            let (rb, ra) = CONE_RADII[r as usize];
            (Solid::Cone { sectors: sc, segments: sg, capped, base_radius: X(rb), apex_radius: X(ra) }, capped || sc > 3 || sg > 1)
        });
    }
    // capsule
    {
        let quick = cx.tier == Tier::Quick;
        let caps = n as u64;
        let bodies = if quick { n as u64 } else { BODY_LADDER.len() as u64 };
        let nr = CAPSULE_RADII.len() as u64;
        run_enum(cx, "capsule", secs * caps * bodies * nr, move |i| {
            let (r, i) = (i % nr, i / nr);
            let (b, i) = (i % bodies, i / bodies);
            let body = if quick { 1 + b as u32 } else { BODY_LADDER[b as usize] };
            let (cap, sc) = (1 + (i % caps) as u32, 3 + (i / caps) as u32);
            (Solid::Capsule { sectors: sc, body_segments: body, cap_segments: cap, radius: X(CAPSULE_RADII[r as usize]) }, sc > 3 || body > 1 || cap > 1)
        });
    }
    // boxes
    let nb = cx.n(20_000, 600_000);
    cx.prop_check("box", nb, box_case, |c, obs| check_generated(c, obs));
    // raw lathe
    let nl = cx.n(12_000, 300_000);
    cx.prop_check("lathe", nl, move || lathe_case(n), |c, obs| check_generated(c, obs));
    // parametric solids away from the enumerated lattice
    let nw = cx.n(6_000, 150_000);
    cx.prop_check("wide-range", nw, wide_case, |c, obs| check_wide(c, obs));
}

pub fn replay(sub: &str, case: &Value) -> Check {
    let mut obs = Obs::new();
    obs.freeze();
    match sub {
        "platonic" | "sphere" | "torus" | "cylinder" | "cone" | "capsule" | "box" | "lathe" | "wide-range" => {
            let c: Solid = serde_json::from_value(case.clone()).map_err(|e| Fail::new("bad-replay", e.to_string()))?;
            check_solid(&c, &mut obs)
        }
        _ => Err(Fail::new("bad-replay", format!("unknown subcheck {sub}"))),
    }
}
