//! C16 — colour conversions are mutually inverse, total and in range.
//!
//! Sub-checks
//!   rgb8-sweep        all 2^24 `Color3<Rgb>`: to_hsl total, grays -> s = 0 and l = gray level, round trip within
//!                     8 levels per channel, library HSL read back through the f64 reference, RGBA->HSLA keeps alpha
//!   hsl8-sweep        all 2^24 `Color3<Hsl>`: to_rgb total (debug assertion on channel range live), result within
//!                     8 levels of the f64 reference (catches a wrapped channel in a build without assertions),
//!                     HSLA->RGBA keeps alpha
//!   f32-rgb-grid      (k/64)^3 lattice of float RGB; f32-rgb-random: class mixture (grays, saturated, pure hues, …)
//!   f32-hsl-grid      (k/64)^3 lattice of float HSL plus hue sextant boundaries/midpoints +- {0..3 ulp, 1e-6, 1e-4}
//!                     x special s, l;  f32-hsl-random: class mixture
//!   pack-words        RGBA words: byte order of to_rgb_u32 / to_rgba_u32 / to_argb_u32, to_rgb drops, to_rgba sets 0xFF
//!                     (quick: 2^24 strided words + all single-non-zero-byte words; thorough: all 2^32)
//!   f32-to-u8         to_color3 / to_color4 (3- and 4-channel) clamp then truncate; float to_rgba / to_rgb set/drop alpha
//!   u8-add-saturates  Affine::add on 8-bit colours saturates at 0 and 255; sub gives the signed difference
//!
//! The oracles are independent of the code under test: an f64 textbook HSL<->RGB pair written in a different
//! formulation from the library's (the "k-offset" form for HSL->RGB, the two-branch saturation for RGB->HSL),
//! shifts for the packing, i64 arithmetic for the saturating add.

use crate::common::fl::*;
use crate::common::*;
use proptest::prelude::*;
use re::math::color::{hsl, hsla, rgb, rgba, Color3, Color3f, Color4, Color4f, Hsl, Rgb, Rgba};
use re::math::{Affine, Vector};
use serde::{Deserialize, Serialize};
use serde_json::{json, Value};

pub const RULE: &str = "exhaustive: all 2^24 8-bit RGB triples (to_hsl, round trip, gray rule) and all 2^24 8-bit HSL triples (to_rgb total, vs f64 reference); \
float RGB and HSL on the 65^3 lattice k/64, on every hue sextant boundary and midpoint k/12 +- {0..3 ulp, 1e-6, 1e-4} x special s,l, and from a proptest class mixture \
(grays, min=0, max=1, pure hues, two equal channels, near-grays, s=1, s=0, extreme l, tiny/subnormal, 1-ulp values); RGBA words (strided 2^24 + single-byte words quick, all 2^32 thorough); \
float->u8 on [-1,2] + thresholds k/255 +- ulps + NaN/inf; u8 colour + i32 difference over all channel values x (-300..300 and extremes). \
Non-trivial = a colour strictly inside a hue sextant with 0 < s and 0 < l < 1 (RGB input: three distinct channels; HSL input: 6h not an integer, s > 0, 0 < l < 1); \
enumerated spaces count each such colour once, generated cases are distinct by bit pattern.";

/// 8-bit tolerance of the property, in levels (8/255 per channel)
const TOL8: i32 = 8;
/// float round-trip tolerance of the property
const TOL_RT: f64 = 1e-4;
/// float agreement with the f64 reference (DESIGN C16-O)
const TOL_REF: f64 = 4e-6;
/// slack on "in range" for float results (DESIGN C16-O)
const TOL_RANGE: f64 = 1e-6;

// ------------------------------------------------------------------ f64 reference

/// Textbook HSL -> RGB in the "k-offset" formulation: f(n) = l - a*max(-1, min(k-3, 9-k, 1)),
/// k = (n + 12h) mod 12, a = s*min(l, 1-l); (r, g, b) = (f(0), f(8), f(4)). h, s, l in [0, 1].
pub fn ref_hsl_to_rgb(h: f64, s: f64, l: f64) -> [f64; 3] {
    let a = s * l.min(1.0 - l);
    let f = |n: f64| {
        let k = (n + h * 12.0).rem_euclid(12.0);
        l - a * (k - 3.0).min(9.0 - k).min(1.0).max(-1.0)
    };
    [f(0.0), f(8.0), f(4.0)]
}

/// Textbook RGB -> HSL (two-branch saturation); hue in [0, 1), 0 for grays.
pub fn ref_rgb_to_hsl(r: f64, g: f64, b: f64) -> [f64; 3] {
    let max = r.max(g).max(b);
    let min = r.min(g).min(b);
    let d = max - min;
    let l = (max + min) / 2.0;
    if d == 0.0 {
        return [0.0, 0.0, l];
    }
    let s = if max + min <= 1.0 { d / (max + min) } else { d / (2.0 - max - min) };
    let h6 = if max == r {
        let t = (g - b) / d;
        if t < 0.0 {
            t + 6.0
        } else {
            t
        }
    } else if max == g {
        (b - r) / d + 2.0
    } else {
        (r - g) / d + 4.0
    };
    [h6 / 6.0, s, l]
}

fn circ(a: f64, b: f64) -> f64 {
    let d = (a - b).abs() % 1.0;
    d.min(1.0 - d)
}

fn max3(a: [f64; 3]) -> f64 {
    a[0].max(a[1]).max(a[2])
}

// ------------------------------------------------------------------ 8-bit sweeps

#[derive(Clone, Debug, Serialize, Deserialize, Hash)]
pub struct U8Case {
    /// (r, g, b) or (h, s, l)
    pub v: [u8; 3],
    /// alpha used for the 4-channel variant
    pub a: u8,
}

/// cheap per-block accumulator (flushed into Obs once per 256 colours)
#[derive(Default)]
struct Acc8 {
    max_rt: i32,
    max_ref: f64,
    gray: u64,
    boundary: u64,
    interior: [u64; 6],
    extreme_l: u64,
    exact_rt: u64,
}

fn check_rgb8(c: &U8Case, acc: &mut Acc8) -> Check {
    let [r, g, b] = c.v;
    let col: Color3<Rgb> = rgb(r, g, b);
    let h = match catch(|| col.to_hsl()) {
        Ok(h) => h,
        Err(p) => fail!("rgb8-to-hsl-panic", "rgb({r},{g},{b}).to_hsl() panicked: {p}"),
    };
    let [hh, ss, ll] = h.0;
    if r == g && g == b {
        acc.gray += 1;
        ensure!(ss == 0 && ll == r, "gray8-saturation-lightness", "gray({r}).to_hsl() = hsl({hh},{ss},{ll}); a gray must have s = 0 and l = {r}");
    }
    // the library's HSL, read as (h/256 turn, s/255, l/255), put through the f64 reference HSL->RGB
    let rf = ref_hsl_to_rgb(hh as f64 / 256.0, ss as f64 / 255.0, ll as f64 / 255.0);
    let e_ref = max3([0, 1, 2].map(|k| (rf[k] * 255.0 - c.v[k] as f64).abs()));
    acc.max_ref = acc.max_ref.max(e_ref);
    // bound: 2 x 8 levels, which is what "round trip within 8" and "to_rgb within 8 of the reference" (hsl8-sweep)
    // imply together for to_hsl alone; the measured worst case (6.8, the 1/256-turn hue resolution) is reported
    ensure!(
        e_ref <= 2.0 * TOL8 as f64,
        "rgb8-to-hsl-vs-reference",
        "rgb({r},{g},{b}).to_hsl() = hsl({hh},{ss},{ll}), which the f64 reference maps to ({:.1},{:.1},{:.1}): {:.2} levels away (> 16)",
        rf[0] * 255.0,
        rf[1] * 255.0,
        rf[2] * 255.0,
        e_ref
    );
    let back = match catch(|| h.to_rgb()) {
        Ok(x) => x,
        Err(p) => fail!("hsl8-to-rgb-panic", "hsl({hh},{ss},{ll}).to_rgb() (from rgb({r},{g},{b}).to_hsl()) panicked: {p}"),
    };
    let e = (0..3).map(|k| (back.0[k] as i32 - c.v[k] as i32).abs()).max().unwrap();
    acc.max_rt = acc.max_rt.max(e);
    if e == 0 {
        acc.exact_rt += 1;
    }
    ensure!(e <= TOL8, "rgb8-roundtrip", "rgb({r},{g},{b}) -> hsl({hh},{ss},{ll}) -> rgb{:?}: off by {e} levels (> {TOL8})", back.0);
    // 4-channel variant: same colour channels, alpha untouched
    let q = match catch(|| rgba(r, g, b, c.a).to_hsla()) {
        Ok(x) => x,
        Err(p) => fail!("rgba8-to-hsla-panic", "rgba({r},{g},{b},{}).to_hsla() panicked: {p}", c.a),
    };
    ensure!(q.0 == [hh, ss, ll, c.a], "rgba8-to-hsla", "rgba({r},{g},{b},{}).to_hsla() = {:?}, expected [{hh},{ss},{ll},{}]", c.a, q.0, c.a);
    // classes
    let (mx, mn) = (r.max(g).max(b), r.min(g).min(b));
    if !(r == g && g == b) {
        if r == g || g == b || r == b {
            acc.boundary += 1;
        } else {
            let rh = ref_rgb_to_hsl(r as f64, g as f64, b as f64)[0];
            acc.interior[((rh * 6.0) as usize).min(5)] += 1;
        }
    }
    if mx == 0 || mn == 255 {
        acc.extreme_l += 1;
    }
    Ok(())
}

fn check_hsl8(c: &U8Case, acc: &mut Acc8) -> Check {
    let [h, s, l] = c.v;
    let col: Color3<Hsl> = hsl(h, s, l);
    let out = match catch(|| col.to_rgb()) {
        Ok(x) => x,
        Err(p) => fail!("hsl8-to-rgb-panic", "hsl({h},{s},{l}).to_rgb() panicked: {p}"),
    };
    // in range: u8 by type; a channel that left [0,255] before the cast (wrapped when assertions are off)
    // is far from the reference
    let rf = ref_hsl_to_rgb(h as f64 / 256.0, s as f64 / 255.0, l as f64 / 255.0);
    let e_ref = max3([0, 1, 2].map(|k| (rf[k] * 255.0 - out.0[k] as f64).abs()));
    acc.max_ref = acc.max_ref.max(e_ref);
    ensure!(
        e_ref <= TOL8 as f64,
        "hsl8-to-rgb-vs-reference",
        "hsl({h},{s},{l}).to_rgb() = rgb{:?} but the f64 reference gives ({:.1},{:.1},{:.1}): {:.2} levels away (> {TOL8})",
        out.0,
        rf[0] * 255.0,
        rf[1] * 255.0,
        rf[2] * 255.0,
        e_ref
    );
    let q = match catch(|| hsla(h, s, l, c.a).to_rgba()) {
        Ok(x) => x,
        Err(p) => fail!("hsla8-to-rgba-panic", "hsla({h},{s},{l},{}).to_rgba() panicked: {p}", c.a),
    };
    let [r, g, b] = out.0;
    ensure!(q.0 == [r, g, b, c.a], "hsla8-to-rgba", "hsla({h},{s},{l},{}).to_rgba() = {:?}, expected [{r},{g},{b},{}]", c.a, q.0, c.a);
    if s == 0 {
        acc.gray += 1;
    }
    if l == 0 || l == 255 {
        acc.extreme_l += 1;
    }
    let h6 = h as u32 * 6;
    if h6 % 256 == 0 {
        acc.boundary += 1;
    } else if s > 0 && l > 0 && l < 255 {
        acc.interior[(h6 / 256) as usize] += 1;
    }
    Ok(())
}

const SEXT: [&str; 6] = ["interior:sextant0", "interior:sextant1", "interior:sextant2", "interior:sextant3", "interior:sextant4", "interior:sextant5"];

fn sweep8(cx: &mut Ctx, name: &'static str, is_rgb: bool) {
    // one index = one (first, second) byte pair; the third byte is looped inside so that the
    // statistics cost one map update per 256 colours
    cx.enum_check(name, 1 << 16, true, move |idx, obs| {
        let mut acc = Acc8::default();
        let mut res = Ok(());
        for lo in 0..256u64 {
            let a = (splitmix(idx << 8 | lo) & 0xFF) as u8;
            let case = U8Case { v: [(idx >> 8) as u8, (idx & 0xFF) as u8, lo as u8], a };
            let r = if is_rgb { check_rgb8(&case, &mut acc) } else { check_hsl8(&case, &mut acc) };
            if let Err(f) = r {
                res = Err((case, f));
                break;
            }
            if lo == 77 && idx % 9973 == 4242 && obs.wants_sample() {
                obs.sample(|| json!(case));
            }
        }
        obs.evals_n(255);
        let nt: u64 = acc.interior.iter().sum();
        obs.nontrivial_enumerated(nt);
        for k in 0..6 {
            obs.class_n(SEXT[k], acc.interior[k]);
        }
        obs.class_n(if is_rgb { "gray" } else { "s=0" }, acc.gray);
        obs.class_n(if is_rgb { "two-channels-equal(sextant boundary)" } else { "hue on a sextant boundary (h=0,128)" }, acc.boundary);
        obs.class_n(if is_rgb { "black-or-white" } else { "l=0 or l=255" }, acc.extreme_l);
        if is_rgb {
            obs.class_n("round-trip exact", acc.exact_rt);
            obs.max("8-bit round-trip error, levels (tolerance 8)", acc.max_rt as f64);
            obs.max("8-bit to_hsl through f64 reference, levels (tolerance 16)", acc.max_ref);
        } else {
            obs.max("8-bit to_rgb vs f64 reference, levels (tolerance 8)", acc.max_ref);
        }
        res
    });
}

// ------------------------------------------------------------------ float conversions

#[derive(Clone, Debug, Serialize, Deserialize)]
pub struct F3Case {
    /// generator class
    pub class: String,
    /// (r, g, b) or (h, s, l), every component in [0, 1]
    pub v: [X; 3],
    /// alpha used for the 4-channel variant
    pub a: X,
}

fn static_class(s: &str) -> &'static str {
    const K: [&str; 16] = [
        "rgb:independent",
        "rgb:gray",
        "rgb:min=0",
        "rgb:max=1",
        "rgb:pure-hue",
        "rgb:two-equal",
        "rgb:near-gray",
        "hsl:independent",
        "hsl:s=1",
        "hsl:s=0",
        "hsl:uniform-s-l",
        "hsl:extreme-l",
        "grid:k/64",
        "grid:hue-boundary",
        "rgb:8-bit-levels",
        "hsl:8-bit-levels",
    ];
    K.iter().find(|k| **k == s).copied().unwrap_or("other")
}

fn in_unit(v: [f32; 3]) -> bool {
    v.iter().all(|c| (0.0..=1.0).contains(c))
}

pub fn check_rgbf(c: &F3Case, obs: &mut Obs) -> Check {
    let v = fs(c.v);
    let [r, g, b] = v;
    ensure!(in_unit(v), "bad-case", "RGB input {v:?} not in [0,1]^3");
    let col: Color3f<Rgb> = rgb(r, g, b);
    let h = match catch(|| col.to_hsl()) {
        Ok(h) => h.0,
        Err(p) => fail!("f32-to-hsl-panic", "rgb({r:?},{g:?},{b:?}).to_hsl() panicked on an in-range colour: {p}"),
    };
    for (k, ch) in h.iter().enumerate() {
        let x = *ch as f64;
        ensure!(
            x.is_finite() && x >= -TOL_RANGE && x <= 1.0 + TOL_RANGE,
            "f32-hsl-out-of-range",
            "rgb({r:?},{g:?},{b:?}).to_hsl() = hsl{h:?}: channel {k} is not in [0,1]"
        );
        if x.is_finite() {
            obs.max("float to_hsl channel excess over [0,1] (slack 1e-6)", (x - 1.0).max(-x).max(0.0));
        }
    }
    let is_gray = r == g && g == b;
    if is_gray {
        ensure!(
            (h[1] as f64).abs() <= TOL_RANGE && (h[2] as f64 - r as f64).abs() <= TOL_RANGE,
            "gray-saturation-lightness",
            "gray({r:?}).to_hsl() = hsl{h:?}; a gray must have s = 0 and l = {r:?}"
        );
    }
    // against the f64 reference: lightness directly; saturation and hue weighted by the factor with which
    // they enter the colour (they are ill-conditioned on their own near black/white/gray)
    let rf = ref_rgb_to_hsl(r as f64, g as f64, b as f64);
    let w = 1.0 - (2.0 * rf[2] - 1.0).abs();
    let chroma = rf[1] * w;
    let el = (h[2] as f64 - rf[2]).abs();
    let es = (h[1] as f64 - rf[1]).abs() * w;
    let eh = circ(h[0] as f64, rf[0]) * 6.0 * chroma;
    obs.max("float to_hsl vs f64 reference: l error (tolerance 4e-6)", el);
    obs.max("float to_hsl vs f64 reference: s error x (1-|2l-1|) (tolerance 4e-6)", es);
    obs.max("float to_hsl vs f64 reference: hue error x 6 x chroma (tolerance 4e-6)", eh);
    ensure!(el <= TOL_REF, "f32-to-hsl-vs-reference", "rgb({r:?},{g:?},{b:?}).to_hsl() = hsl{h:?}: lightness differs from the reference {:.8}", rf[2]);
    ensure!(es <= TOL_REF, "f32-to-hsl-vs-reference", "rgb({r:?},{g:?},{b:?}).to_hsl() = hsl{h:?}: saturation differs from the reference {:.8}", rf[1]);
    ensure!(eh <= TOL_REF, "f32-to-hsl-vs-reference", "rgb({r:?},{g:?},{b:?}).to_hsl() = hsl{h:?}: hue differs from the reference {:.8}", rf[0]);
    // the library's HSL through the reference HSL->RGB must give the colour back (to_hsl alone, no cancellation)
    let via = ref_hsl_to_rgb(h[0] as f64, h[1] as f64, h[2] as f64);
    let ev = max3([0, 1, 2].map(|k| (via[k] - v[k] as f64).abs()));
    obs.max("float to_hsl then f64 reference to_rgb: error (tolerance 4e-6)", ev);
    ensure!(
        ev <= TOL_REF,
        "f32-to-hsl-vs-reference",
        "rgb({r:?},{g:?},{b:?}).to_hsl() = hsl{h:?}, which the f64 reference maps back to {via:?} ({ev:.2e} away)"
    );
    // the library round trip
    let back = match catch(|| hsl(h[0], h[1], h[2]).to_rgb()) {
        Ok(x) => x.0,
        Err(p) => fail!("f32-to-rgb-panic", "hsl{h:?}.to_rgb() (from rgb({r:?},{g:?},{b:?}).to_hsl()) panicked: {p}"),
    };
    let e = max3([0, 1, 2].map(|k| (back[k] as f64 - v[k] as f64).abs()));
    ensure!(e.is_finite() && e <= TOL_RT, "f32-roundtrip", "rgb({r:?},{g:?},{b:?}) -> hsl{h:?} -> rgb{back:?}: off by {e:.3e} (> 1e-4)");
    obs.max("float round-trip error (tolerance 1e-4)", e);
    // 4-channel variant
    let a = c.a.0;
    let q = match catch(|| rgba(r, g, b, a).to_hsla()) {
        Ok(x) => x.0,
        Err(p) => fail!("f32-to-hsl-panic", "rgba({r:?},{g:?},{b:?},{a:?}).to_hsla() panicked: {p}"),
    };
    ensure!(
        q.map(f32::to_bits) == [h[0], h[1], h[2], a].map(f32::to_bits),
        "rgbaf-to-hsla",
        "rgba({r:?},{g:?},{b:?},{a:?}).to_hsla() = {q:?}, expected the 3-channel result {h:?} with alpha {a:?}"
    );
    // classes
    obs.class(static_class(&c.class));
    if is_gray {
        obs.class("gray");
    } else if r == g || g == b || r == b {
        obs.class("two-channels-equal(sextant boundary)");
    } else {
        obs.class(SEXT[((rf[0] * 6.0) as usize).min(5)]);
        obs.nontrivial(hash_f32s(&v));
        if obs.wants_sample() {
            let cc = c.clone();
            obs.sample(|| json!({"rgb": cc, "hsl": h.map(jf), "round_trip_error": e}));
        }
    }
    if r.min(g).min(b) == 0.0 && !is_gray {
        obs.class("fully-saturated(min=0)");
    }
    Ok(())
}

pub fn check_hslf(c: &F3Case, obs: &mut Obs) -> Check {
    let v = fs(c.v);
    let [h, s, l] = v;
    ensure!(in_unit(v), "bad-case", "HSL input {v:?} not in [0,1]^3");
    let col: Color3f<Hsl> = hsl(h, s, l);
    let out = match catch(|| col.to_rgb()) {
        Ok(x) => x.0,
        Err(p) => fail!("f32-to-rgb-panic", "hsl({h:?},{s:?},{l:?}).to_rgb() panicked on an in-range colour: {p}"),
    };
    for (k, ch) in out.iter().enumerate() {
        let x = *ch as f64;
        ensure!(
            x.is_finite() && x >= -TOL_RANGE && x <= 1.0 + TOL_RANGE,
            "f32-rgb-out-of-range",
            "hsl({h:?},{s:?},{l:?}).to_rgb() = rgb{out:?}: channel {k} is not in [0,1]"
        );
        obs.max("float to_rgb channel excess over [0,1] (slack 1e-6)", (x - 1.0).max(-x).max(0.0));
    }
    let rf = ref_hsl_to_rgb(h as f64, s as f64, l as f64);
    let e = max3([0, 1, 2].map(|k| (out[k] as f64 - rf[k]).abs()));
    ensure!(
        e <= TOL_REF,
        "f32-to-rgb-vs-reference",
        "hsl({h:?},{s:?},{l:?}).to_rgb() = rgb{out:?} but the f64 reference gives ({:.6},{:.6},{:.6}): {e:.3e} away",
        rf[0],
        rf[1],
        rf[2]
    );
    obs.max("float to_rgb vs f64 reference (tolerance 4e-6)", e);
    // hue 1 is hue 0
    let at = |hh: f32| catch(|| hsl(hh, s, l).to_rgb().0);
    match (at(0.0), at(1.0)) {
        (Ok(r0), Ok(r1)) => {
            let e01 = max3([0, 1, 2].map(|k| (r0[k] as f64 - r1[k] as f64).abs()));
            obs.max("hue 1 vs hue 0 difference (tolerance 1e-6)", if e01.is_nan() { f64::INFINITY } else { e01 });
            ensure!(e01 <= TOL_RANGE, "hue1-ne-hue0", "hsl(1,{s:?},{l:?}).to_rgb() = {r1:?} but hsl(0,{s:?},{l:?}).to_rgb() = {r0:?}");
        }
        (Err(p), _) => fail!("f32-to-rgb-panic", "hsl(0.0,{s:?},{l:?}).to_rgb() panicked on an in-range colour: {p}"),
        (_, Err(p)) => fail!("f32-to-rgb-panic", "hsl(1.0,{s:?},{l:?}).to_rgb() panicked on an in-range colour: {p}"),
    }
    // 4-channel variant
    let a = c.a.0;
    let q = match catch(|| hsla(h, s, l, a).to_rgba()) {
        Ok(x) => x.0,
        Err(p) => fail!("f32-to-rgb-panic", "hsla({h:?},{s:?},{l:?},{a:?}).to_rgba() panicked: {p}"),
    };
    ensure!(
        q.map(f32::to_bits) == [out[0], out[1], out[2], a].map(f32::to_bits),
        "hslaf-to-rgba",
        "hsla({h:?},{s:?},{l:?},{a:?}).to_rgba() = {q:?}, expected the 3-channel result {out:?} with alpha {a:?}"
    );
    // classes
    obs.class(static_class(&c.class));
    let h6 = h as f64 * 6.0;
    let on_boundary = h6.fract() == 0.0;
    let sext = (h6 as usize) % 6;
    if s == 0.0 {
        obs.class("s=0");
    }
    if s == 1.0 {
        obs.class("s=1");
    }
    if l == 0.0 || l == 1.0 {
        obs.class("l=0 or l=1");
    }
    if on_boundary {
        obs.class("hue exactly on a sextant boundary");
    } else {
        let f = h6.fract();
        if f < 1e-5 || f > 1.0 - 1e-5 {
            obs.class("hue within 1e-5 of a sextant boundary");
        }
        obs.class(if f < 0.5 { "hue in first half of its sextant" } else { "hue in second half of its sextant" });
        if s > 0.0 && l > 0.0 && l < 1.0 {
            obs.class(SEXT[sext]);
            obs.nontrivial(hash_f32s(&v));
            if obs.wants_sample() {
                let cc = c.clone();
                obs.sample(|| json!({"hsl": cc, "rgb": out.map(jf), "error_vs_reference": e}));
            }
        }
    }
    Ok(())
}

fn unit_val() -> BoxedStrategy<f32> {
    prop_oneof![
        2 => Just(0.0f32),
        2 => Just(1.0f32),
        1 => Just(0.5f32),
        6 => 0.0f32..=1.0,
        2 => (0u32..=255).prop_map(|k| k as f32 / 255.0),
        1 => (0u32..=64).prop_map(|k| k as f32 / 64.0),
        // tiny values down to subnormals and zero
        1 => (1.0f32..46.0).prop_map(|e| 10f32.powf(-e)),
        1 => prop_oneof![
            Just(f32::from_bits(1)),
            Just(f32::MIN_POSITIVE),
            Just(f32::EPSILON),
            Just(f32::EPSILON / 2.0),
            Just(f32::EPSILON / 4.0),
            Just(f32::EPSILON * 0.375),
            Just(f32::EPSILON / 8.0),
        ],
        // just below 1
        1 => (1.0f32..8.0).prop_map(|e| (1.0 - 10f32.powf(-e)).clamp(0.0, 1.0)),
        1 => (0i32..=3).prop_map(|k| nudge(1.0, -k)),
        1 => (-3i32..=3).prop_map(|k| nudge(0.5, k)),
    ]
    .boxed()
}

fn place(k: usize, special: f32, a: f32, b: f32) -> [f32; 3] {
    match k % 3 {
        0 => [special, a, b],
        1 => [a, special, b],
        _ => [a, b, special],
    }
}

fn perm6(v: [f32; 3], k: usize) -> [f32; 3] {
    const P: [[usize; 3]; 6] = [[0, 1, 2], [0, 2, 1], [1, 0, 2], [1, 2, 0], [2, 0, 1], [2, 1, 0]];
    let p = P[k % 6];
    [v[p[0]], v[p[1]], v[p[2]]]
}

pub fn rgb_case() -> BoxedStrategy<F3Case> {
    let u = unit_val;
    let delta = || (3.0f32..8.0, any::<bool>()).prop_map(|(e, n)| if n { -10f32.powf(-e) } else { 10f32.powf(-e) });
    let body = prop_oneof![
        5 => [u(), u(), u()].prop_map(|v| ("rgb:independent", v)),
        2 => u().prop_map(|v| ("rgb:gray", [v, v, v])),
        3 => (u(), u(), 0usize..3).prop_map(|(a, b, k)| ("rgb:min=0", place(k, 0.0, a, b))),
        2 => (u(), u(), 0usize..3).prop_map(|(a, b, k)| ("rgb:max=1", place(k, 1.0, a, b))),
        1 => (u(), 0usize..6).prop_map(|(m, k)| ("rgb:pure-hue", perm6([1.0, m, 0.0], k))),
        2 => (u(), u(), 0usize..3).prop_map(|(a, b, k)| ("rgb:two-equal", place(k, b, a, a))),
        1 => (u(), delta(), delta(), 0usize..6).prop_map(|(v, d1, d2, k)| ("rgb:near-gray", perm6([v, (v + d1).clamp(0.0, 1.0), (v + d2).clamp(0.0, 1.0)], k))),
        1 => [0u32..=255, 0u32..=255, 0u32..=255].prop_map(|v| ("rgb:8-bit-levels", v.map(|k| k as f32 / 255.0))),
    ];
    (body, u()).prop_map(|((class, v), a)| F3Case { class: class.to_string(), v: xs(v), a: X(a) }).boxed()
}

fn hue_val() -> BoxedStrategy<f32> {
    prop_oneof![
        1 => Just(0.0f32),
        1 => Just(1.0f32),
        6 => 0.0f32..=1.0,
        // sextant boundaries k/6 and a few ulps around them
        3 => (0u32..=6, -3i32..=3).prop_map(|(k, n)| nudge(k as f32 / 6.0, n).clamp(0.0, 1.0)),
        1 => (0u32..=6, prop_oneof![Just(1e-6f32), Just(-1e-6f32), Just(1e-4f32), Just(-1e-4f32)]).prop_map(|(k, d)| (k as f32 / 6.0 + d).clamp(0.0, 1.0)),
        // sextant midpoints
        2 => (0u32..6, -2i32..=2).prop_map(|(k, n)| nudge((2 * k + 1) as f32 / 12.0, n)),
        1 => (0u32..=255).prop_map(|k| k as f32 / 256.0),
        1 => (1.0f32..46.0).prop_map(|e| 10f32.powf(-e)),
    ]
    .boxed()
}

pub fn hsl_case() -> BoxedStrategy<F3Case> {
    let u = unit_val;
    let body = prop_oneof![
        5 => (hue_val(), u(), u()).prop_map(|(h, s, l)| ("hsl:independent", [h, s, l])),
        3 => (hue_val(), u()).prop_map(|(h, l)| ("hsl:s=1", [h, 1.0, l])),
        1 => (hue_val(), u()).prop_map(|(h, l)| ("hsl:s=0", [h, 0.0, l])),
        3 => (hue_val(), 0.0f32..=1.0, 0.0f32..=1.0).prop_map(|(h, s, l)| ("hsl:uniform-s-l", [h, s, l])),
        1 => (hue_val(), u(), prop_oneof![Just(0.0f32), Just(1.0f32), (1.0f32..46.0).prop_map(|e| 10f32.powf(-e)), (0i32..=3).prop_map(|k| nudge(1.0, -k))])
            .prop_map(|(h, s, l)| ("hsl:extreme-l", [h, s, l])),
        1 => [0u32..=255, 0u32..=255, 0u32..=255].prop_map(|v| ("hsl:8-bit-levels", [v[0] as f32 / 256.0, v[1] as f32 / 255.0, v[2] as f32 / 255.0])),
    ];
    (body, u()).prop_map(|((class, v), a)| F3Case { class: class.to_string(), v: xs(v), a: X(a) }).boxed()
}

/// hue values on and around every sextant boundary (k/6) and sextant midpoint ((2k+1)/12)
fn hue_boundary_values() -> Vec<f32> {
    let mut v: Vec<f32> = vec![];
    for k in 0..=12u32 {
        for base in [(k as f64 / 12.0) as f32, k as f32 / 12.0, (k as f32 / 2.0) / 6.0] {
            for n in -3..=3 {
                v.push(nudge(base, n));
            }
            for d in [-1e-6f32, 1e-6, -1e-4, 1e-4] {
                v.push(base + d);
            }
        }
    }
    let mut v: Vec<f32> = v.into_iter().filter(|h| (0.0..=1.0).contains(h)).collect();
    v.sort_by(|a, b| a.partial_cmp(b).unwrap());
    v.dedup_by(|a, b| a.to_bits() == b.to_bits());
    v
}

const SPECIAL_S: [f32; 11] = [0.0, 1.0e-45, f32::EPSILON, 0.1, 0.25, 0.3, 0.5, 0.9, 0.99999994, 1.0, 0.7];
const SPECIAL_L: [f32; 18] = [
    0.0,
    1.0e-45,
    f32::MIN_POSITIVE,
    1.4901161e-8,  // 2^-26
    4.4703484e-8,  // 1.5 * 2^-25
    5.9604645e-8,  // 2^-24
    f32::EPSILON,
    0.1,
    0.21,
    0.25,
    0.3,
    0.5,
    0.7,
    0.75,
    0.9,
    0.99999994,
    1.0,
    0.499999,
];

fn grid_case(idx: u64) -> [f32; 3] {
    let (i, j, k) = (idx / (65 * 65), (idx / 65) % 65, idx % 65);
    [i as f32 / 64.0, j as f32 / 64.0, k as f32 / 64.0]
}

// ------------------------------------------------------------------ packing

#[derive(Clone, Debug, Serialize, Deserialize, Hash)]
pub struct WordCase {
    /// 0xRRGGBBAA
    pub w: u32,
}

pub fn check_word(c: &WordCase) -> Check {
    let w = c.w;
    let (r, g, b, a) = ((w >> 24) as u8, (w >> 16) as u8, (w >> 8) as u8, w as u8);
    let c4: Color4<Rgba> = rgba(r, g, b, a);
    let c3: Color3<Rgb> = rgb(r, g, b);
    let (r32, g32, b32, a32) = (r as u32, g as u32, b as u32, a as u32);
    let e_rgba = r32 << 24 | g32 << 16 | b32 << 8 | a32;
    let e_argb = a32 << 24 | r32 << 16 | g32 << 8 | b32;
    let e_rgb = r32 << 16 | g32 << 8 | b32;
    let got = catch(|| (c4.to_rgba_u32(), c4.to_argb_u32(), c3.to_rgb_u32(), c4.to_rgb().0, c3.to_rgba().0));
    let (p_rgba, p_argb, p_rgb, dropped, opaque) = match got {
        Ok(x) => x,
        Err(p) => fail!("pack-panic", "packing rgba({r},{g},{b},{a}) panicked: {p}"),
    };
    ensure!(p_rgba == e_rgba, "pack-rgba-u32", "rgba({r:#04x},{g:#04x},{b:#04x},{a:#04x}).to_rgba_u32() = {p_rgba:#010x}, documented 0xRRGGBBAA = {e_rgba:#010x}");
    ensure!(p_argb == e_argb, "pack-argb-u32", "rgba({r:#04x},{g:#04x},{b:#04x},{a:#04x}).to_argb_u32() = {p_argb:#010x}, documented 0xAARRGGBB = {e_argb:#010x}");
    ensure!(p_rgb == e_rgb, "pack-rgb-u32", "rgb({r:#04x},{g:#04x},{b:#04x}).to_rgb_u32() = {p_rgb:#010x}, documented 0x00RRGGBB = {e_rgb:#010x}");
    ensure!(dropped == [r, g, b], "rgba-to-rgb", "rgba({r},{g},{b},{a}).to_rgb() = {dropped:?}, expected [{r},{g},{b}]");
    ensure!(opaque == [r, g, b, 0xFF], "rgb-to-rgba", "rgb({r},{g},{b}).to_rgba() = {opaque:?}, expected [{r},{g},{b},255]");
    Ok(())
}

fn distinct_bytes(w: u32) -> bool {
    let b = w.to_be_bytes();
    b[0] != b[1] && b[0] != b[2] && b[0] != b[3] && b[1] != b[2] && b[1] != b[3] && b[2] != b[3]
}

// ------------------------------------------------------------------ float -> u8

#[derive(Clone, Debug, Serialize, Deserialize)]
pub struct ToU8Case {
    /// r, g, b, a — any f32 (NaN, infinities, out-of-range values included)
    pub v: [X; 4],
}

/// acceptable results of the documented `(c.clamp(0.0, 1.0) * 255.0) as u8`: truncation of a product
/// that carries one f32 rounding (relative 2^-24)
fn u8_range(c: f32) -> (u8, u8) {
    if c.is_nan() {
        return (0, 0); // NaN.clamp is NaN, `NaN as u8` is 0
    }
    let p = (c as f64).clamp(0.0, 1.0) * 255.0;
    let lo = (p * (1.0 - 1.2e-7)).floor();
    let hi = (p * (1.0 + 1.2e-7)).floor().min(255.0);
    (lo as u8, hi as u8)
}

pub fn check_to_u8(c: &ToU8Case, obs: &mut Obs) -> Check {
    let v = fs(c.v);
    let [r, g, b, a] = v;
    let c3: Color3f<Rgb> = rgb(r, g, b);
    let c4: Color4f<Rgba> = rgba(r, g, b, a);
    let got = catch(|| (c3.to_color3().0, c3.to_color4().0, c4.to_color3().0, c4.to_color4().0, c3.to_rgba().0, c4.to_rgb().0));
    let (a33, a34, a43, a44, set, dropped) = match got {
        Ok(x) => x,
        Err(p) => fail!("to-u8-panic", "float->u8 conversion of {v:?} panicked: {p}"),
    };
    let ok = |c: f32, got: u8| {
        let (lo, hi) = u8_range(c);
        lo <= got && got <= hi
    };
    for k in 0..3 {
        for (name, got) in [("Color3f::to_color3", a33[k]), ("Color3f::to_color4", a34[k]), ("Color4f::to_color3", a43[k]), ("Color4f::to_color4", a44[k])] {
            ensure!(
                ok(v[k], got),
                "to-u8-clamp-truncate",
                "{name} of {v:?}: channel {k} = {got}, expected (c.clamp(0,1)*255) as u8 = {:?}",
                u8_range(v[k])
            );
        }
    }
    ensure!(a34[3] == 0xFF, "to-color4-alpha", "Color3f{:?}.to_color4() has alpha {} (expected 0xFF)", [r, g, b], a34[3]);
    ensure!(ok(a, a44[3]), "to-u8-clamp-truncate", "Color4f::to_color4 of {v:?}: alpha = {}, expected {:?}", a44[3], u8_range(a));
    ensure!(
        set.map(f32::to_bits) == [r, g, b, 1.0].map(f32::to_bits),
        "rgbf-to-rgba",
        "Color3f{:?}.to_rgba() = {set:?}: channels must be kept and alpha set to 1.0",
        [r, g, b]
    );
    ensure!(dropped.map(f32::to_bits) == [r, g, b].map(f32::to_bits), "rgbaf-to-rgb", "Color4f{v:?}.to_rgb() = {dropped:?}: channels must be kept, alpha dropped");
    // classes
    let mut nt = false;
    for c in v {
        if c.is_nan() {
            obs.class("channel NaN");
        } else if c < 0.0 {
            obs.class("channel < 0 (clamps to 0)");
            nt = true;
        } else if c > 1.0 {
            obs.class("channel > 1 (clamps to 255)");
            nt = true;
        } else {
            let p = c as f64 * 255.0;
            if (p - p.round()).abs() < 1e-4 {
                obs.class("channel within 1e-4 of a level threshold");
            } else {
                obs.class("channel inside a level");
            }
        }
    }
    if nt {
        obs.nontrivial(hash_f32s(&v));
        if obs.wants_sample() {
            let cc = c.clone();
            obs.sample(|| json!({"in": cc, "to_color4": a44}));
        }
    }
    Ok(())
}

fn chan_val() -> BoxedStrategy<f32> {
    prop_oneof![
        4 => -1.0f32..=2.0,
        3 => 0.0f32..=1.0,
        3 => (0u32..=255, -2i32..=2).prop_map(|(k, n)| nudge(k as f32 / 255.0, n)),
        1 => Just(0.0f32),
        1 => Just(-0.0f32),
        1 => Just(1.0f32),
        1 => Just(f32::NAN),
        1 => prop_oneof![Just(f32::INFINITY), Just(f32::NEG_INFINITY), Just(f32::MAX), Just(f32::MIN), Just(256.0f32), Just(257.0 / 255.0), Just(-1.0 / 255.0)],
        1 => (1.0f32..46.0, any::<bool>()).prop_map(|(e, n)| if n { -10f32.powf(-e) } else { 10f32.powf(-e) }),
        1 => (0.0f32..38.0, any::<bool>()).prop_map(|(e, n)| if n { -10f32.powf(e) } else { 10f32.powf(e) }),
    ]
    .boxed()
}

// ------------------------------------------------------------------ saturating add

#[derive(Clone, Debug, Serialize, Deserialize, Hash)]
pub struct AddCase {
    pub c: [u8; 4],
    pub d: [i32; 4],
    /// second colour, for sub and the add-difference identity
    pub o: [u8; 4],
}

fn add_diffs() -> Vec<i32> {
    let mut v: Vec<i32> = (-300..=300).collect();
    // extremes for which the exact sum still fits an i32 (|diff| <= i32::MAX - 255), see cx.assume
    v.extend([-1000, 1000, -65535, 65536, -(1 << 30), 1 << 30, i32::MIN, i32::MIN + 1, i32::MAX - 255, i32::MAX - 256]);
    v
}

pub fn check_add(c: &AddCase, obs: &mut Obs) -> Check {
    let exp: [u8; 4] = std::array::from_fn(|i| (c.c[i] as i64 + c.d[i] as i64).clamp(0, 255) as u8);
    let [c0, c1, c2, c3] = c.c;
    let [d0, d1, d2, d3] = c.d;
    let [o0, o1, o2, o3] = c.o;
    let got = catch(|| {
        let s3 = rgb(c0, c1, c2).add(&Vector::new([d0, d1, d2])).0;
        let h3 = hsl(c0, c1, c2).add(&Vector::new([d0, d1, d2])).0;
        let s4 = rgba(c0, c1, c2, c3).add(&Vector::new([d0, d1, d2, d3])).0;
        let diff4 = rgba(o0, o1, o2, o3).sub(&rgba(c0, c1, c2, c3));
        let back4 = rgba(c0, c1, c2, c3).add(&diff4).0;
        let diff3 = rgb(o0, o1, o2).sub(&rgb(c0, c1, c2)).0;
        (s3, h3, s4, diff4.0, back4, diff3)
    });
    let (s3, h3, s4, diff4, back4, diff3) = match got {
        Ok(x) => x,
        Err(p) => fail!("u8-add-panic", "{:?} + {:?} panicked: {p}", c.c, c.d),
    };
    ensure!(s3 == exp[..3], "u8-add-saturates", "rgb{:?}.add({:?}) = {s3:?}, expected saturated {:?}", &c.c[..3], &c.d[..3], &exp[..3]);
    ensure!(h3 == exp[..3], "u8-add-saturates", "hsl{:?}.add({:?}) = {h3:?}, expected saturated {:?}", &c.c[..3], &c.d[..3], &exp[..3]);
    ensure!(s4 == exp, "u8-add-saturates", "rgba{:?}.add({:?}) = {s4:?}, expected saturated {exp:?}", c.c, c.d);
    let ed: [i32; 4] = std::array::from_fn(|i| c.o[i] as i32 - c.c[i] as i32);
    ensure!(diff4 == ed && diff3 == ed[..3], "u8-sub-difference", "rgba{:?}.sub(rgba{:?}) = {diff4:?}, expected {ed:?}", c.o, c.c);
    ensure!(back4 == c.o, "u8-add-difference", "rgba{:?} + (rgba{:?} - rgba{:?}) = {back4:?}, expected the second colour", c.c, c.o, c.c);
    let mut clamps = false;
    for i in 0..4 {
        let s = c.c[i] as i64 + c.d[i] as i64;
        if s < 0 {
            obs.class("channel saturates at 0");
            clamps = true;
        } else if s > 255 {
            obs.class("channel saturates at 255");
            clamps = true;
        } else {
            obs.class("channel sum in range");
        }
        if s <= -256 || s >= 512 {
            obs.class("channel sum beyond one wrap (|.| >= 256 out)");
        }
    }
    if clamps {
        obs.nontrivial_enumerated(1);
    }
    Ok(())
}

// ------------------------------------------------------------------ driver

pub fn run(cx: &mut Ctx) {
    cx.assume("8-bit HSL is read as (h/256 of a turn, s/255, l/255) when compared with the f64 reference; the reading with l/256 differs by < 1 level and the tolerance (8 levels, the property's 8-bit tolerance) covers both");
    cx.assume("8-bit HSL->RGB->HSL is not required (DESIGN C16-O); 8-bit results are 'in range' by type, so range violations are detected as a debug-assertion panic or as > 8 levels from the reference");
    cx.assume("float: in-range means every channel in [0,1] incl. subnormals; results are in range within 1e-6; hue and saturation are compared with the reference weighted by chroma / (1-|2l-1|), the factor with which they enter the colour");
    cx.assume("u8 + i32 difference: differences with |d| <= i32::MAX-255 (the exact sum fits an i32); larger ones overflow the i32 sum, which the property does not speak about");
    cx.assume("float->u8: the documented formula (c.clamp(0,1)*255) as u8 is accepted with one f32 rounding of the product (relative 1.2e-7); NaN maps to 0 by that formula");

    // ---- exhaustive 8-bit sweeps (quick and thorough)
    sweep8(cx, "rgb8-sweep", true);
    sweep8(cx, "hsl8-sweep", false);

    // ---- float grids
    let seed = cx.seed;
    cx.enum_check("f32-rgb-grid", 65 * 65 * 65, false, move |idx, obs| {
        let v = grid_case(idx);
        let a = (splitmix(idx ^ seed) % 65) as f32 / 64.0;
        let case = F3Case { class: "grid:k/64".into(), v: xs(v), a: X(a) };
        check_rgbf(&case, obs).map_err(|f| (case, f))
    });
    let hues = hue_boundary_values();
    let (nh, ns, nl) = (hues.len() as u64, SPECIAL_S.len() as u64, SPECIAL_L.len() as u64);
    let lattice = 65u64 * 65 * 65;
    cx.enum_check("f32-hsl-grid", lattice + nh * ns * nl, false, move |idx, obs| {
        let (class, v) = if idx < lattice {
            ("grid:k/64", grid_case(idx))
        } else {
            let j = idx - lattice;
            ("grid:hue-boundary", [hues[(j / (ns * nl)) as usize], SPECIAL_S[((j / nl) % ns) as usize], SPECIAL_L[(j % nl) as usize]])
        };
        let a = (splitmix(idx ^ seed) % 65) as f32 / 64.0;
        let case = F3Case { class: class.into(), v: xs(v), a: X(a) };
        check_hslf(&case, obs).map_err(|f| (case, f))
    });

    // ---- float class mixtures
    let n = cx.n(500_000, 20_000_000);
    cx.prop_check("f32-rgb-random", n, rgb_case, |c, obs| check_rgbf(c, obs));
    cx.prop_check("f32-hsl-random", n, hsl_case, |c, obs| check_hslf(c, obs));

    // ---- packing
    match cx.tier {
        Tier::Quick => {
            // 2^24 words on an odd stride (distinct by construction) offset by the seed, then every
            // word with a single non-zero byte, zero, all-ones and the documentation's examples
            let off = splitmix(seed ^ 0xC16) as u32;
            let mut extra: Vec<u32> = vec![0, u32::MAX, 0x11223344, 0x44112233, 0x00112233, 0x01020304, 0x80000000, 0x000000FF, 0xFF000000];
            for byte in 0..4 {
                for v in 1..=255u32 {
                    extra.push(v << (8 * byte));
                }
            }
            let strided = 1u64 << 24;
            cx.enum_check("pack-words", strided + extra.len() as u64, false, move |idx, obs| {
                let w = if idx < strided { (idx as u32).wrapping_mul(0x9E3779B1).wrapping_add(off) } else { extra[(idx - strided) as usize] };
                let case = WordCase { w };
                if idx >= strided {
                    obs.class("single-non-zero-byte or special word");
                }
                if distinct_bytes(w) {
                    obs.class("four distinct bytes");
                    obs.nontrivial_enumerated(1);
                }
                if idx % 1_000_003 == 7 && obs.wants_sample() {
                    obs.sample(|| json!({"w": format!("{w:#010x}")}));
                }
                check_word(&case).map_err(|f| (case, f))
            });
        }
        Tier::Thorough => {
            // all 2^32 words, 2^16 per index
            cx.enum_check("pack-words-all", 1 << 16, true, move |idx, obs| {
                let mut distinct = 0u64;
                for lo in 0..=0xFFFFu32 {
                    let w = (idx as u32) << 16 | lo;
                    if let Err(f) = check_word(&WordCase { w }) {
                        return Err((WordCase { w }, f));
                    }
                    distinct += distinct_bytes(w) as u64;
                }
                obs.evals_n(0xFFFF);
                obs.class_n("four distinct bytes", distinct);
                obs.nontrivial_enumerated(distinct);
                if idx % 9973 == 1 && obs.wants_sample() {
                    obs.sample(|| json!({"w_block": format!("{:#06x}0000..={:#06x}ffff", idx, idx)}));
                }
                Ok(())
            });
        }
    }

    // ---- float -> u8
    let n = cx.n(200_000, 10_000_000);
    cx.prop_check(
        "f32-to-u8",
        n,
        || [chan_val(), chan_val(), chan_val(), chan_val()].prop_map(|v| ToU8Case { v: xs(v) }),
        |c, obs| check_to_u8(c, obs),
    );

    // ---- saturating add: every channel value x every listed difference in one channel position,
    //      the other channels filled from the same domains by an index hash
    let diffs = add_diffs();
    let nd = diffs.len() as u64;
    let reps = cx.n(4, 64);
    cx.enum_check("u8-add-saturates", 256 * nd * reps, false, move |idx, obs| {
        let (rep, j) = (idx / (256 * nd), idx % (256 * nd));
        let (v, d) = ((j / nd) as u8, diffs[(j % nd) as usize]);
        let mut sm = Sm(splitmix(idx ^ seed.rotate_left(13)));
        let mut c: [u8; 4] = std::array::from_fn(|_| sm.below(256) as u8);
        let mut dd: [i32; 4] = std::array::from_fn(|_| diffs[sm.below(nd) as usize]);
        let o: [u8; 4] = std::array::from_fn(|_| sm.below(256) as u8);
        let pos = (rep % 4) as usize;
        c[pos] = v;
        dd[pos] = d;
        let case = AddCase { c, d: dd, o };
        if idx % 100_003 == 5 && obs.wants_sample() {
            obs.sample(|| json!(case));
        }
        check_add(&case, obs).map_err(|f| (case, f))
    });

    cx.extra.insert(
        "exhaustive_flags".into(),
        json!({
            "all 2^24 8-bit RGB": true,
            "all 2^24 8-bit HSL": true,
            "all 2^32 RGBA words": cx.tier == Tier::Thorough,
            "u8 channel x difference -300..300 (one channel position per repetition)": true,
        }),
    );
}

pub fn replay(sub: &str, case: &Value) -> Check {
    let mut obs = Obs::new();
    obs.freeze();
    fn de<T: serde::de::DeserializeOwned>(case: &Value) -> Result<T, Fail> {
        serde_json::from_value(case.clone()).map_err(|e| Fail::new("bad-replay", e.to_string()))
    }
    match sub {
        "rgb8-sweep" => check_rgb8(&de::<U8Case>(case)?, &mut Acc8::default()),
        "hsl8-sweep" => check_hsl8(&de::<U8Case>(case)?, &mut Acc8::default()),
        "f32-rgb-grid" | "f32-rgb-random" => check_rgbf(&de::<F3Case>(case)?, &mut obs),
        "f32-hsl-grid" | "f32-hsl-random" => check_hslf(&de::<F3Case>(case)?, &mut obs),
        "pack-words" | "pack-words-all" => check_word(&de::<WordCase>(case)?),
        "f32-to-u8" => check_to_u8(&de::<ToU8Case>(case)?, &mut obs),
        "u8-add-saturates" => check_add(&de::<AddCase>(case)?, &mut obs),
        _ => Err(Fail::new("bad-replay", format!("unknown subcheck {sub}"))),
    }
}
