//! C07 — culling, write masks and statistics behave as configured.
//!
//! model    The scene's fragment streams are recorded per triangle with SOLO
//!          renders (culling off, depth test off: every fragment reaches the
//!          harness shader, which logs it). A small interpreter then replays the
//!          streams in submission order under the configured cull mode, depth
//!          predicate, write masks and discard rule; the real render of the same
//!          calls must reproduce the model's colour and depth buffers bit for bit
//!          and its statistics exactly (accumulated over 1..3 calls on one Context).
//!          Which vertex order is the front face is decided in f64 from view-space
//!          geometry ((b-a)x(c-a) points towards the eye), never from the code.
//! solid    closed convex solids from retrofire-geom (outward windings, C15):
//!          Back culling must show the nearest surface, Front culling the farthest.

use crate::common::fl::*;
use crate::common::geo::*;
use crate::common::*;
use crate::rs::*;
use proptest::prelude::*;
use re::geom::{vertex, Tri};
use re::math::{orthographic, perspective, pt3};
use re::render::clip::{view_frustum, ClipVert};
use serde::{Deserialize, Serialize};
use serde_json::{json, Value};

pub const RULE: &str = "model: proptest scenes of 1..5 view-space triangles (with reversed-order twins) through the library's perspective/orthographic matrices, \
1..3 render calls on one Context, every face_cull x depth_test x color_write x depth_write x discard combination, Framebuf (owned/ref/window) and colour-only targets, non-trivial prior depth; \
solid: cube/octahedron/tetrahedron/icosahedron/dodecahedron under random rotations, Back vs Front culling. \
Non-trivial = a (scene, configuration) whose image or statistics differ from the default configuration's; distinct by scene+configuration bit pattern.";

#[derive(Clone, Debug, Serialize, Deserialize)]
pub struct MaskCase {
    pub scene: Scene,
    /// view-space originals of the scene's triangles (the scene holds their clip-space images)
    pub view: Vec<[[X; 3]; 3]>,
    pub ortho: bool,
    pub calls: Vec<Vec<usize>>,
}

fn view_vertex(focal: f32, aspect: f32, near: f32, far: f32, ortho: bool) -> BoxedStrategy<[f32; 3]> {
    let z = prop_oneof![10 => near..far, 1 => (near * 0.3)..near, 1 => far..(far * 1.3)];
    let rel = || prop_oneof![8 => -1.2f32..1.2, 1 => Just(0.0f32), 2 => -2.0f32..2.0];
    (z, rel(), rel())
        .prop_map(move |(z, rx, ry)| if ortho { [rx * near * 2.0, ry * near * 1.5, z] } else { [rx * z / focal, ry * z / (focal * aspect), z] })
        .boxed()
}

pub fn mask_case(max_dim: u32) -> BoxedStrategy<MaskCase> {
    (2u32..=max_dim, 2u32..=max_dim, 0.5f32..2.0, 0.2f32..2.0, 2.0f32..30.0, any::<bool>(), 1usize..=4)
        .prop_flat_map(|(bw, bh, focal, near, ratio, ortho, n)| {
            let far = near * ratio;
            let aspect = bw as f32 / bh as f32;
            let v = move || view_vertex(focal, aspect, near, far, ortho);
            (
                Just((bw, bh, focal, near, far, ortho)),
                proptest::collection::vec(([v(), v(), v()], any::<bool>()), n..=n),
                crate::c02::cfg_any(),
                crate::c01::target_kind(true),
                prop_oneof![2 => Just(0.0f32), 2 => 0.0f32..3.0],
                any::<bool>(),
                proptest::collection::vec(any::<bool>(), 10),
                any::<bool>(),
                (0u8..5, 0u8..5, 0u8..6),
            )
        })
        .prop_map(|((bw, bh, focal, near, far, ortho), tris, mut cfg, target, bg, batch, cuts, shared, (fx, fy, sw))| {
            cfg.depth_sort = 0;
            let aspect = bw as f32 / bh as f32;
            // twins: a triangle flagged true is followed by itself with two vertices exchanged
            let mut view: Vec<[[f32; 3]; 3]> = vec![];
            for (t, twin) in &tris {
                view.push(*t);
                if *twin && view.len() < 6 {
                    view.push([t[0], t[2], t[1]]);
                }
            }
            let (m, proj) = if ortho {
                (orthographic(pt3(-near * 2.0, -near * 1.5, near), pt3(near * 2.0, near * 1.5, far)), Proj::Orthographic { lbn: xs([-near * 2.0, -near * 1.5, near]), rtf: xs([near * 2.0, near * 1.5, far]) })
            } else {
                (perspective(focal, aspect, near..far), Proj::Perspective { focal: X(focal), near: X(near), far: X(far) })
            };
            let clip = view.iter().map(|t| t.map(|v| xs(m.apply(&pt3(v[0], v[1], v[2])).0))).collect();
            let attrs = (0..view.len()).map(|i| xs([(i + 1) as f32; 3])).collect();
            let mut calls: Vec<Vec<usize>> = vec![vec![]];
            for i in 0..view.len() {
                if i > 0 && cuts[i] && calls.len() < 3 {
                    calls.push(vec![]);
                }
                calls.last_mut().unwrap().push(i);
            }
            let scene = Scene {
                bw,
                bh,
                vp: [0, 0, bw, bh],
                tris: clip,
                attrs,
                door: if batch { Door::Batch } else { Door::Render },
                target,
                proj: Some(proj),
                bg_depth: X(bg),
                cfg,
                shader_mode: 1,
                shared_verts: shared,
                flip: [fx == 0, fy == 0],
                swap_axes: sw == 0,
                attr_mode: 0,
            };
            MaskCase { scene, view: view.iter().map(|t| t.map(xs)).collect(), ortho, calls }
        })
        .boxed()
}

/// +1 = back-facing (normal points away from the eye), -1 = front-facing, 0 = edge-on/ambiguous.
/// n = (b-a)x(c-a) is the outward normal by the crate's winding convention (C15).
pub fn facing(view: &[[f64; 3]; 3], ortho: bool) -> i32 {
    let n = v3_cross(v3_sub(view[1], view[0]), v3_sub(view[2], view[0]));
    let ln = v3_len(n);
    if ln == 0.0 {
        return 0;
    }
    // direction from the eye to the face
    let s = if ortho {
        n[2] / ln
    } else {
        let c = v3_scale(v3_add(v3_add(view[0], view[1]), view[2]), 1.0 / 3.0);
        // any point of the plane gives the same sign; use a vertex-independent one
        v3_dot(n, view[0]) / (ln * v3_len(c).max(1e-30))
    };
    if s.abs() < 1e-4 {
        0
    } else if s > 0.0 {
        1
    } else {
        -1
    }
}

/// Sub-triangles the public clipper returns for triangle t of the scene, projected to the screen (f64).
fn clipped_screen_tris(sc: &Scene, t: usize) -> Vec<[P2; 3]> {
    let input = [Tri([0, 1, 2].map(|i| ClipVert::new(vertex(sc.tris[t][i].map(|x| x.0).into(), ()))))];
    let mut out = vec![];
    view_frustum::clip(&input[..], &mut out);
    out.iter().map(|Tri(vs)| [0, 1, 2].map(|i| to_screen(sc, vs[i].pos.0.map(|c| c as f64)))).collect()
}

struct Solo {
    stream: Vec<(u32, u32, f32)>,
    n_sub: usize,
    min_sub_area: f64,
    facing: i32,
}

fn solo(c: &MaskCase, t: usize) -> Result<Solo, Fail> {
    let mut s1 = c.scene.clone();
    s1.target = TargetKind::FbOwned;
    s1.cfg = Cfg { face_cull: 0, depth_sort: 0, depth_test: 0, color_write: true, depth_write: true, discard: false };
    s1.shared_verts = false;
    let mut s = Session::new(&s1);
    *s.record.borrow_mut() = Some(vec![]);
    s.draw(&[t]).map_err(|p| Fail::new("render-panic", format!("solo render of triangle {t} panicked: {p}")))?;
    let stream = s.record.borrow_mut().take().unwrap();
    let subs = clipped_screen_tris(&c.scene, t);
    let min_sub_area = subs.iter().map(|q| orient2(q[0], q[1], q[2]).abs() / 2.0).fold(f64::MAX, f64::min);
    let v = c.view[t].map(|p| p.map(|x| x.0 as f64));
    // the cull mode selects by ON-SCREEN winding: a viewport that mirrors exactly one axis reverses it
    let parity = screen_parity(&c.scene);
    Ok(Solo { stream, n_sub: subs.len(), min_sub_area, facing: parity * facing(&v, c.ortho) })
}

#[derive(Default, Debug, PartialEq, Clone)]
struct ModelStats {
    calls: f32,
    prims_i: usize,
    prims_o: usize,
    verts_i: usize,
    verts_o: usize,
    frags_i: usize,
    frags_o: usize,
}

pub fn check_mask(c: &MaskCase, obs: &mut Obs) -> Check {
    let sc = &c.scene;
    let n = sc.tris.len();
    ensure!(c.view.len() == n, "bad-case", "view/clip length mismatch");
    let solos: Vec<Solo> = (0..n).map(|t| solo(c, t)).collect::<Result<_, _>>()?;
    let cull = sc.cfg.face_cull;
    if cull != 0 && solos.iter().any(|s| s.facing == 0 || (s.n_sub > 0 && s.min_sub_area < 1e-3)) {
        obs.excluded("edge-on or sliver sub-triangle with culling on (winding ambiguous)");
        return Ok(());
    }
    let has_depth = !matches!(sc.target, TargetKind::ColorOnly | TargetKind::ColorOnlyWindow { .. });
    // ---- model
    let npx = (sc.bw * sc.bh) as usize;
    let mut col: Vec<Option<u32>> = vec![None; npx]; // None = prior
    let mut dep: Vec<f32> = vec![sc.bg_depth.0; npx];
    let mut st = ModelStats::default();
    let mut default_col: Vec<Option<u32>> = vec![None; npx];
    let mut default_dep: Vec<f32> = vec![sc.bg_depth.0; npx];
    for call in &c.calls {
        st.calls += 1.0;
        st.prims_i += call.len();
        st.verts_i += if sc.shared_verts { 3 * n } else { 3 * call.len() };
        for &t in call {
            let s = &solos[t];
            // default configuration (Back culling, Less, all writes) for the non-triviality rule
            if s.facing < 0 {
                for &(x, y, z) in &s.stream {
                    let i = (y * sc.bw + x) as usize;
                    if !has_depth || z > default_dep[i] {
                        default_col[i] = Some((t + 1) as u32);
                        default_dep[i] = z;
                    }
                }
            }
            let culled = match cull {
                1 => s.facing > 0, // Back: discard back faces
                2 => s.facing < 0, // Front: discard front faces
                _ => false,
            };
            if culled {
                continue;
            }
            st.prims_o += s.n_sub;
            st.verts_o += 3 * s.n_sub;
            st.frags_i += s.stream.len();
            for &(x, y, z) in &s.stream {
                ensure!(x < sc.bw && y < sc.bh, "fragment-outside-target", "solo render of triangle {t} produced a fragment at ({x},{y}) outside the {}x{} target", sc.bw, sc.bh);
                let i = (y * sc.bw + x) as usize;
                let pass = if !has_depth {
                    true
                } else {
                    let cur = dep[i];
                    match sc.cfg.depth_test % 4 {
                        0 => true,
                        1 => z > cur,  // Less: nearer than what is stored (larger reciprocal)
                        2 => z == cur, // Equal
                        _ => z < cur,  // Greater: farther
                    }
                };
                if !pass {
                    continue;
                }
                if sc.cfg.discard && discards(x as usize, y as usize) {
                    continue;
                }
                if sc.cfg.color_write {
                    col[i] = Some((t + 1) as u32);
                    st.frags_o += 1;
                }
                if sc.cfg.depth_write && has_depth {
                    dep[i] = z;
                }
            }
        }
    }
    // ---- the real thing
    let mut s = Session::new(sc);
    for call in &c.calls {
        if let Err(p) = s.draw(call) {
            fail!("render-panic", "render call {call:?} panicked: {p}");
        }
    }
    if let Some((x, y)) = s.padding_changed() {
        fail!("wrote-outside-target-window", "cell ({x},{y}) outside the target window was modified");
    }
    let cfgs = format!("{:?}", sc.cfg);
    let mut differs_from_default = false;
    for y in 0..sc.bh {
        for x in 0..sc.bw {
            let i = (y * sc.bw + x) as usize;
            let got_c = s.col(x, y);
            let exp_c = col[i].unwrap_or(s.prior_col(x, y));
            if !sc.cfg.color_write {
                ensure!(got_c == s.prior_col(x, y), "colour-written-with-colour-writes-off", "pixel ({x},{y}) changed colour although color_write is false ({cfgs})");
            }
            ensure!(
                got_c == exp_c,
                "colour-differs-from-model",
                "pixel ({x},{y}): colour word {got_c:#x}, the configuration model says {exp_c:#x} ({cfgs}, calls {:?}, facing {:?})",
                c.calls,
                solos.iter().map(|s| s.facing).collect::<Vec<_>>()
            );
            if has_depth {
                let got_d = s.dep(x, y);
                if !sc.cfg.depth_write {
                    ensure!(got_d.to_bits() == sc.bg_depth.0.to_bits(), "depth-written-with-depth-writes-off", "pixel ({x},{y}) changed depth although depth_write is false ({cfgs})");
                }
                ensure!(
                    got_d.to_bits() == dep[i].to_bits(),
                    "depth-differs-from-model",
                    "pixel ({x},{y}): depth {got_d}, the configuration model says {} ({cfgs}, calls {:?})",
                    dep[i],
                    c.calls
                );
            } else {
                ensure!(s.dep(x, y).to_bits() == sc.bg_depth.0.to_bits(), "depth-touched-by-colour-only-target", "depth cell ({x},{y}) changed");
            }
            if col[i] != default_col[i] || (has_depth && dep[i].to_bits() != default_dep[i].to_bits()) {
                differs_from_default = true;
            }
        }
    }
    // ---- statistics
    let rs = s.stats();
    let got = ModelStats { calls: rs.calls, prims_i: rs.prims.i, prims_o: rs.prims.o, verts_i: rs.verts.i, verts_o: rs.verts.o, frags_i: rs.frags.i, frags_o: rs.frags.o };
    ensure!(got == st, "statistics-differ", "context statistics after {} call(s) are {got:?} but what happened is {st:?} ({cfgs})", c.calls.len());
    // the shader is invoked exactly for the fragments that pass the depth test
    obs.class(["cull:none", "cull:back", "cull:front"][cull as usize % 3]);
    obs.class(["test:none", "test:less", "test:equal", "test:greater"][sc.cfg.depth_test as usize % 4]);
    obs.class(if sc.cfg.color_write { "colour-write:on" } else { "colour-write:off" });
    obs.class(if sc.cfg.depth_write { "depth-write:on" } else { "depth-write:off" });
    if sc.cfg.discard {
        obs.class("shader:discarding");
    }
    obs.class(if has_depth { "target:framebuf" } else { "target:colour-only" });
    if screen_parity(sc) < 0 {
        obs.class("to_screen:orientation-reversing(mirror or exchanged axes)");
    }
    obs.class(match c.calls.len() {
        1 => "calls:1",
        2 => "calls:2",
        _ => "calls:3",
    });
    if solos.iter().any(|s| s.facing > 0 && !s.stream.is_empty()) {
        obs.class("has-visible-back-face");
    }
    if differs_from_default || st.frags_o != got.frags_i {
        obs.nontrivial(hash_of(&(&sc.tris, &cfgs, &c.calls, sc.bw, sc.bh)));
        if obs.wants_sample() {
            let cc = c.clone();
            obs.sample(|| json!({"case": cc, "stats": format!("{st:?}")}));
        }
    }
    Ok(())
}

// ------------------------------------------------------------------ solids

#[derive(Clone, Debug, Serialize, Deserialize)]
pub struct SolidCase {
    pub solid: String,
    /// rotation as a unit quaternion-ish axis/angle: axis (unnormalised) and angle in radians
    pub axis: [X; 3],
    pub angle: X,
    pub dist: X,
    pub dim: u32,
}

fn solid_mesh(name: &str) -> (Vec<[f32; 3]>, Vec<[usize; 3]>) {
    use re_geom::solids::*;
    let m = match name {
        "cube" => Box::cube(2.0).build(),
        "octahedron" => Octahedron.build(),
        "tetrahedron" => Tetrahedron.build(),
        "icosahedron" => Icosahedron.build(),
        _ => Dodecahedron.build(),
    };
    (m.verts.iter().map(|v| v.pos.0).collect(), m.faces.iter().map(|f| f.0).collect())
}

fn rotate(p: [f64; 3], axis: [f64; 3], ang: f64) -> [f64; 3] {
    // Rodrigues
    let k = v3_norm(axis);
    let (s, c) = ang.sin_cos();
    let kxp = v3_cross(k, p);
    let kdp = v3_dot(k, p);
    v3_add(v3_add(v3_scale(p, c), v3_scale(kxp, s)), v3_scale(k, kdp * (1.0 - c)))
}

pub fn solid_case() -> BoxedStrategy<SolidCase> {
    let name = prop_oneof![Just("cube"), Just("octahedron"), Just("tetrahedron"), Just("icosahedron"), Just("dodecahedron")];
    (name, [-1.0f32..1.0, -1.0f32..1.0, 0.1f32..1.0], 0.0f32..6.28, 4.0f32..8.0, 16u32..=48)
        .prop_map(|(n, axis, angle, dist, dim)| SolidCase { solid: n.to_string(), axis: xs(axis), angle: X(angle), dist: X(dist), dim })
        .boxed()
}

pub fn check_solid(c: &SolidCase, obs: &mut Obs) -> Check {
    let (verts, faces) = solid_mesh(&c.solid);
    let axis = c.axis.map(|x| x.0 as f64);
    // view-space vertices (rotation and offset applied by the harness in f64, then rounded to f32 inputs)
    let vv: Vec<[f32; 3]> = verts
        .iter()
        .map(|p| {
            let r = rotate(f3(*p), axis, c.angle.0 as f64);
            [r[0] as f32, r[1] as f32, (r[2] + c.dist.0 as f64) as f32]
        })
        .collect();
    let tris: Vec<[[X; 4]; 3]> = faces.iter().map(|f| [0, 1, 2].map(|i| xs([vv[f[i]][0], vv[f[i]][1], vv[f[i]][2], 1.0]))).collect();
    let mk = |cull: u8| Scene {
        bw: c.dim,
        bh: c.dim,
        vp: [0, 0, c.dim, c.dim],
        tris: tris.clone(),
        attrs: (0..tris.len()).map(|i| xs([(i + 1) as f32; 3])).collect(),
        door: Door::Camera,
        target: TargetKind::FbOwned,
        proj: Some(Proj::Perspective { focal: X(2.0), near: X(0.5), far: X(50.0) }),
        bg_depth: X(0.0),
        cfg: Cfg { face_cull: cull, ..Cfg::plain() },
        shader_mode: 1,
        shared_verts: false,
            flip: [false, false],
            swap_axes: false,
            attr_mode: 0,
    };
    let sc_back = mk(1);
    let sc_front = mk(2);
    let refs: Vec<RefTri> = (0..tris.len()).map(|t| ref_tri(&sc_back, t)).collect();
    let fac: Vec<i32> = faces.iter().map(|f| facing(&[0, 1, 2].map(|i| f3(vv[f[i]])), false)).collect();
    let all: Vec<usize> = (0..tris.len()).collect();
    let mut sb = Session::new(&sc_back);
    sb.draw(&all).map_err(|p| Fail::new("render-panic", format!("render panicked: {p}")))?;
    let mut sf = Session::new(&sc_front);
    sf.draw(&all).map_err(|p| Fail::new("render-panic", format!("render panicked: {p}")))?;
    let mut asserted = 0u64;
    for y in 0..c.dim {
        'px: for x in 0..c.dim {
            let ctr = [x as f64 + 0.5, y as f64 + 0.5];
            let mut near: Option<f64> = None;
            let mut far: Option<f64> = None;
            for (t, r) in refs.iter().enumerate() {
                match r.classify(&sc_back, ctr, 0.02) {
                    PixClass::Ambiguous => continue 'px,
                    PixClass::Out => {}
                    PixClass::In { rz, .. } => {
                        if fac[t] == 0 {
                            continue 'px;
                        }
                        near = Some(near.map_or(rz, |v: f64| v.max(rz)));
                        far = Some(far.map_or(rz, |v: f64| v.min(rz)));
                    }
                }
            }
            let (gb, gf) = (sb.dep(x, y) as f64, sf.dep(x, y) as f64);
            match (near, far) {
                (Some(nr), Some(fr)) => {
                    if (nr - fr).abs() < 0.01 * nr {
                        continue; // silhouette: front and back surface nearly coincide
                    }
                    asserted += 1;
                    ensure!(
                        (gb - nr).abs() <= 0.003 * nr,
                        "back-culling-not-nearest-surface",
                        "{} pixel ({x},{y}): with FaceCull::Back the depth buffer holds 1/w = {gb}, the nearest surface of the solid is at 1/w = {nr:.6} (farthest {fr:.6})",
                        c.solid
                    );
                    ensure!(
                        (gf - fr).abs() <= 0.003 * fr,
                        "front-culling-not-farthest-surface",
                        "{} pixel ({x},{y}): with FaceCull::Front the depth buffer holds 1/w = {gf}, the farthest surface of the solid is at 1/w = {fr:.6} (nearest {nr:.6})",
                        c.solid
                    );
                }
                _ => {
                    ensure!(gb == 0.0 && gf == 0.0, "drew-outside-solid", "{} pixel ({x},{y}) is outside the solid's silhouette but was drawn", c.solid);
                }
            }
        }
    }
    obs.class(match c.solid.as_str() {
        "cube" => "solid:cube",
        "octahedron" => "solid:octahedron",
        "tetrahedron" => "solid:tetrahedron",
        "icosahedron" => "solid:icosahedron",
        _ => "solid:dodecahedron",
    });
    // statistics: Back keeps exactly the front faces, Front exactly the back faces (solids fully inside the frustum: no clipping)
    if fac.iter().all(|f| *f != 0) {
        let nb = fac.iter().filter(|f| **f < 0).count();
        let nf = fac.iter().filter(|f| **f > 0).count();
        let (stb, stf) = (sb.stats(), sf.stats());
        ensure!(stb.prims.o == nb && stf.prims.o == nf, "cull-count", "{}: {} faces face the eye and {} face away, but Back culling output {} and Front culling output {} primitives", c.solid, nb, nf, stb.prims.o, stf.prims.o);
    }
    if asserted > 0 {
        obs.nontrivial(hash_of(&(&c.solid, c.axis, c.angle, c.dist, c.dim)));
        if obs.wants_sample() {
            let cc = c.clone();
            obs.sample(|| json!({"case": cc, "pixels_asserted": asserted}));
        }
    }
    Ok(())
}

// ------------------------------------------------------------------ culling far from the screen origin

/// A target that stores nothing: it only counts (so screens of 16384 x 16384 pixels cost nothing).
pub struct CountingTarget {
    pub fragments: usize,
    pub max_x: usize,
    pub max_y: usize,
}

impl re::render::Target for CountingTarget {
    fn rasterize<V: re::math::Vary, Fs: re::render::FragmentShader<V>>(&mut self, mut sl: re::render::raster::Scanline<V>, _fs: &Fs, _ctx: &re::render::Context) -> re::render::stats::Throughput {
        let n = sl.fragments().take(1 << 20).count();
        self.fragments += n;
        self.max_x = self.max_x.max(sl.xs.end);
        self.max_y = self.max_y.max(sl.y + 1);
        re::render::stats::Throughput { i: n, o: n }
    }
}

#[derive(Clone, Debug, Serialize, Deserialize)]
pub struct BigScreenCase {
    /// screen size (the viewport is the whole screen)
    pub dims: [u32; 2],
    /// screen position of the triangle's first vertex and the offsets of the other two, in pixels
    pub at: [X; 2],
    pub d1: [X; 2],
    pub d2: [X; 2],
}

pub fn big_screen_case() -> BoxedStrategy<BigScreenCase> {
    let dim = || prop_oneof![1 => Just(64u32), 2 => Just(1920u32), 1 => Just(1080u32), 2 => Just(4096u32), 1 => Just(16384u32), 3 => 256u32..8192];
    (dim(), dim())
        .prop_flat_map(|(w, h)| {
            // bias towards the far corner, where products of coordinates are largest
            let pos = move |n: u32| prop_oneof![2 => (0.9f32..1.0).prop_map(move |f| f * n as f32), 3 => (0.0f32..1.0).prop_map(move |f| f * n as f32)];
            let off = || prop_oneof![3 => -0.8f32..0.8, 2 => -3.0f32..3.0, 1 => -40.0f32..40.0];
            (Just([w, h]), [pos(w), pos(h)], [off(), off()], [off(), off()])
        })
        .prop_map(|(dims, at, d1, d2)| BigScreenCase { dims, at: xs(at), d1: xs(d1), d2: xs(d2) })
        .boxed()
}

pub fn check_big_screen(c: &BigScreenCase, obs: &mut Obs) -> Check {
    use re::geom::Vertex;
    use re::math::{pt2, viewport};
    use re::render::clip::ClipVec;
    use re::render::raster::Frag;
    use re::render::shader::Shader;
    use re::render::{render, Context};
    let [w, h] = c.dims;
    let (wf, hf) = (w as f64, h as f64);
    // clip-space (w = 1) coordinates of the three vertices, clamped inside the viewport
    let px: [[f64; 2]; 3] = [
        [c.at[0].0 as f64, c.at[1].0 as f64],
        [(c.at[0].0 + c.d1[0].0) as f64, (c.at[1].0 + c.d1[1].0) as f64],
        [(c.at[0].0 + c.d2[0].0) as f64, (c.at[1].0 + c.d2[1].0) as f64],
    ];
    let clipv: [[f32; 4]; 3] = px.map(|p| [(2.0 * p[0].clamp(0.0, wf) / wf - 1.0) as f32, (2.0 * p[1].clamp(0.0, hf) / hf - 1.0) as f32, 0.0, 1.0]);
    // on-screen winding from the f32 inputs, in f64
    let sp: [[f64; 2]; 3] = clipv.map(|v| [(v[0] as f64 + 1.0) / 2.0 * wf, (v[1] as f64 + 1.0) / 2.0 * hf]);
    let area2 = orient2(sp[0], sp[1], sp[2]);
    // screen positions are only resolved to ulp(coordinate): the winding of anything smaller is the rounding's choice
    let quantum = (wf.max(hf) * 1.2e-7).max(1e-6);
    let perim = dist2(sp[0], sp[1]) + dist2(sp[1], sp[2]) + dist2(sp[2], sp[0]);
    if area2.abs() / 2.0 < 1e-3 || area2.abs() < 8.0 * quantum * perim {
        obs.excluded("projected area below 1e-3 px^2 or below the resolution of f32 screen coordinates");
        return Ok(());
    }
    // the view-space triangle is the NDC triangle itself (orthographic, eye looking along +z): front-facing iff
    // (b-a)x(c-a) points towards the eye, i.e. has negative z — and the viewport (no mirror) keeps that orientation
    let ndc: [[f64; 3]; 3] = clipv.map(|v| [v[0] as f64, v[1] as f64, 0.0]);
    let fac = facing(&ndc, true);
    if fac == 0 {
        obs.excluded("edge-on");
        return Ok(());
    }
    let verts_of = |order: [usize; 3]| -> Vec<Vertex<ClipVec, f32>> { order.iter().map(|&i| vertex(clipv[i].into(), 0.0f32)).collect() };
    let shader = Shader::new(|v: Vertex<ClipVec, f32>, _: ()| v, |_f: Frag<f32>| re::math::rgba(1u8, 2, 3, 4));
    let mut drawn = [[false; 2]; 2]; // [order][cull mode Back/Front]
    for (oi, order) in [[0usize, 1, 2], [0, 2, 1]].iter().enumerate() {
        for (ci, cull) in [re::render::ctx::FaceCull::Back, re::render::ctx::FaceCull::Front].iter().enumerate() {
            let ctx = Context { face_cull: Some(*cull), ..Context::default() };
            let mut tgt = CountingTarget { fragments: 0, max_x: 0, max_y: 0 };
            let verts = verts_of(*order);
            let r = catch(|| render([Tri([0, 1, 2])], &verts, &shader, (), viewport(pt2(0, 0)..pt2(w, h)), &mut tgt, &ctx));
            if let Err(p) = r {
                fail!("render-panic", "render panicked: {p}");
            }
            ensure!(tgt.max_x <= w as usize && tgt.max_y <= h as usize, "wrote-outside-viewport", "scanline reaches ({}, {}) on a {w}x{h} screen", tgt.max_x, tgt.max_y);
            drawn[oi][ci] = ctx.stats.borrow().prims.o == 1;
        }
    }
    // order 0 has facing `fac`; order 1 the opposite. Back culling keeps front faces (fac < 0), Front keeps back faces.
    let want = [[fac < 0, fac > 0], [fac > 0, fac < 0]];
    ensure!(
        drawn == want,
        "culled-the-wrong-order",
        "screen {w}x{h}, triangle at {:?} px (signed area {:.4} px^2): drawn under [order abc: Back, Front; order acb: Back, Front] = {drawn:?}, on-screen winding says {want:?}",
        sp,
        area2 / 2.0
    );
    obs.class(if w.max(h) >= 4096 { "screen>=4096" } else if w.max(h) >= 1024 { "screen 1024..4095" } else { "screen<1024" });
    obs.class(if area2.abs() / 2.0 < 0.5 { "area<0.5px^2" } else { "area>=0.5px^2" });
    obs.nontrivial(hash_of(&(c.dims, c.at, c.d1, c.d2)));
    if obs.wants_sample() {
        let cc = c.clone();
        obs.sample(|| json!({"case": cc, "signed_area_px2": area2 / 2.0}));
    }
    Ok(())
}

// ------------------------------------------------------------------ vertex and index lists of any length

/// render() takes arbitrary vertex and face lists: vertex lists of 0..5 entries, faces that reuse an index (zero-area
/// faces) or none at all, one to three calls on the same context. Oracle (metamorphic + the documented counters): the
/// same faces over the same vertices with 1..3 unused vertices appended must leave identical buffers and identical
/// statistics except for `verts.i`, which counts the vertices submitted; and calls / prims.i / verts.i equal the
/// number of calls, faces and vertices handed in.
#[derive(Clone, Debug, Serialize, Deserialize)]
pub struct ListCase {
    pub dims: [u32; 2],
    /// clip-space vertices and their attribute
    pub verts: Vec<([X; 4], X)>,
    pub faces: Vec<[usize; 3]>,
    /// 0 none, 1 back, 2 front
    pub cull: u8,
    pub pad: u8,
    pub calls: u8,
}

fn list_case() -> BoxedStrategy<ListCase> {
    let v = (crate::c03::clip_vertex(), -1.0f32..1.0).prop_map(|(p, a)| (xs(p), X(a)));
    (4u32..=24, 4u32..=24, proptest::collection::vec(v, 0..=5), proptest::collection::vec([any::<u16>(), any::<u16>(), any::<u16>()], 0..=6), 0u8..3, 1u8..=3, 1u8..=3)
        .prop_map(|(w, h, verts, f, cull, pad, calls)| {
            let n = verts.len();
            let faces = if n == 0 { vec![] } else { f.iter().map(|t| t.map(|r| pick_index(r, n))).collect() };
            ListCase { dims: [w, h], verts, faces, cull, pad, calls }
        })
        .boxed()
}

fn check_lists(c: &ListCase, obs: &mut Obs) -> Check {
    use re::math::{pt2, viewport};
    use re::render::clip::ClipVec;
    use re::render::raster::Frag;
    use re::render::shader::Shader;
    use re::geom::Vertex;
    use re::render::{render, Context, Framebuf};
    use re::util::buf::Buf2;
    let [w, h] = c.dims;
    ensure!(c.faces.iter().flatten().all(|&i| i < c.verts.len()) && (1..=3).contains(&c.pad) && (1..=3).contains(&c.calls) && w <= 64 && h <= 64, "bad-case", "indices out of range / parameters");
    let cull = match c.cull {
        0 => None,
        1 => Some(re::render::ctx::FaceCull::Back),
        _ => Some(re::render::ctx::FaceCull::Front),
    };
    // DESIGN D-d: a face whose hull passes through (or has a vertex at) the clip-space apex x = y = z = w = 0 has no
    // projection; no transform the library builds produces it (C02's "never panics" is stated on that domain too)
    for f in &c.faces {
        let t: [[f64; 4]; 3] = f.map(|i| fs(c.verts[i].0).map(|v| v as f64));
        if t.iter().any(|v| v.iter().all(|x| *x == 0.0)) || apex_closeness(&t) < 0.05 {
            obs.excluded("a face through the clip-space apex (D-d)");
            return Ok(());
        }
    }
    let faces: Vec<Tri<usize>> = c.faces.iter().map(|f| Tri(*f)).collect();
    let run = |pad: usize| -> Result<(Vec<u32>, Vec<u32>, [usize; 7], f32), String> {
        let mut verts: Vec<Vertex<ClipVec, f32>> = c.verts.iter().map(|(p, a)| vertex(fs(*p).into(), a.0)).collect();
        for k in 0..pad {
            verts.push(vertex([0.3 * k as f32, -0.2, 0.1, 1.0].into(), 0.5));
        }
        let shader = Shader::new(|v: Vertex<ClipVec, f32>, _: ()| v, |f: Frag<f32>| re::math::rgba(1u8, 2, (f.var * 100.0) as i32 as u8, 4));
        let ctx = Context { face_cull: cull, ..Context::default() };
        let mut fb = Framebuf { color_buf: Buf2::new_from((w, h), vec![0x1234_5678u32; (w * h) as usize]), depth_buf: Buf2::new_from((w, h), vec![0.0f32; (w * h) as usize]) };
        for _ in 0..c.calls {
            catch(|| render(&faces, &verts, &shader, (), viewport(pt2(0, 0)..pt2(w, h)), &mut fb, &ctx))?;
        }
        let st = ctx.stats.borrow().clone();
        Ok((fb.color_buf.data().to_vec(), fb.depth_buf.data().iter().map(|d| d.to_bits()).collect(), [st.prims.i, st.prims.o, st.verts.i, st.verts.o, st.frags.i, st.frags.o, st.objs.i], st.calls))
    };
    let a = match run(0) {
        Ok(r) => r,
        Err(p) => fail!("render-panic", "render panicked on {} vertices, faces {:?}: {p}", c.verts.len(), c.faces),
    };
    let b = match run(c.pad as usize) {
        Ok(r) => r,
        Err(p) => fail!("render-panic", "render panicked on {} (+{} unused) vertices, faces {:?}: {p}", c.verts.len(), c.pad, c.faces),
    };
    let calls = c.calls as usize;
    let names = ["prims.i", "prims.o", "verts.i", "verts.o", "frags.i", "frags.o", "objs.i"];
    ensure!(a.3 == calls as f32, "statistics-differ", "{} call(s) on {} vertices: stats.calls = {}", calls, c.verts.len(), a.3);
    ensure!(a.2[0] == calls * c.faces.len(), "statistics-differ", "{} call(s) with {} faces over {} vertices: prims.i = {}", calls, c.faces.len(), c.verts.len(), a.2[0]);
    ensure!(a.2[2] == calls * c.verts.len(), "statistics-differ", "{} call(s) with {} vertices ({} faces): verts.i = {}", calls, c.verts.len(), c.faces.len(), a.2[2]);
    for k in 0..7 {
        let want = if k == 2 { a.2[k] + calls * c.pad as usize } else { a.2[k] };
        ensure!(
            b.2[k] == want,
            "statistics-differ",
            "faces {:?} over {} vertices, {} call(s): {} = {} , but with {} unused vertices appended it is {} (expected {want})",
            c.faces,
            c.verts.len(),
            calls,
            names[k],
            a.2[k],
            c.pad,
            b.2[k]
        );
    }
    ensure!(b.3 == a.3, "statistics-differ", "stats.calls differs with unused vertices appended: {} vs {}", a.3, b.3);
    ensure!(a.0 == b.0 && a.1 == b.1, "buffers-differ-with-unused-vertices", "appending {} unused vertices changed the rendered image (faces {:?} over {} vertices)", c.pad, c.faces, c.verts.len());
    obs.class(match c.verts.len() {
        0 => "lists:0 vertices",
        1 | 2 => "lists:1-2 vertices",
        _ => "lists:3-5 vertices",
    });
    if c.faces.iter().any(|f| f[0] == f[1] || f[1] == f[2] || f[0] == f[2]) {
        obs.class("lists:a face reuses an index");
    }
    if c.faces.is_empty() {
        obs.class("lists:no faces");
    }
    if a.2[1] > 0 {
        obs.class("lists:some face survives clipping and culling");
    }
    if !c.faces.is_empty() {
        obs.nontrivial(hash_of(&(c.dims, &c.verts, &c.faces, c.cull, c.pad, c.calls)));
    }
    Ok(())
}

pub fn run(cx: &mut Ctx) {
    cx.assume("front face = the vertex order whose (b-a)x(c-a) normal points towards the eye — the winding convention of the crate's own solids (C15) and of the ctx.rs docs (backfaces point away from the camera)");
    cx.assume("scenes with an edge-on triangle or a clipped sub-triangle under 1e-3 px^2 are excluded when culling is on (its winding is numerically ambiguous)");
    cx.assume("depth_sort is None here (C06 covers the sort settings); the model replays per-triangle fragment streams recorded from solo renders with culling and depth test off");
    let md = cx.tier.pick(24, 48);
    let n = cx.n(300_000, 6_000_000);
    cx.prop_check("model", n, move || mask_case(md), |c, obs| check_mask(c, obs));
    let n = cx.n(6_000, 150_000);
    cx.prop_check("solid", n, solid_case, |c, obs| check_solid(c, obs));
    let n = cx.n(200_000, 5_000_000);
    cx.prop_check("cull-large-screen", n, big_screen_case, |c, obs| check_big_screen(c, obs));
    let n = cx.n(60_000, 1_500_000);
    cx.prop_check("index-lists", n, list_case, |c, obs| check_lists(c, obs));
}

pub fn replay(sub: &str, case: &Value) -> Check {
    let mut obs = Obs::new();
    obs.freeze();
    if sub == "cull-large-screen" {
        let c: BigScreenCase = serde_json::from_value(case.clone()).map_err(|e| Fail::new("bad-replay", e.to_string()))?;
        return check_big_screen(&c, &mut obs);
    }
    if sub == "index-lists" {
        let c: ListCase = serde_json::from_value(case.clone()).map_err(|e| Fail::new("bad-replay", e.to_string()))?;
        return check_lists(&c, &mut obs);
    }
    if sub == "solid" {
        let c: SolidCase = serde_json::from_value(case.clone()).map_err(|e| Fail::new("bad-replay", e.to_string()))?;
        check_solid(&c, &mut obs)
    } else {
        let c: MaskCase = serde_json::from_value(case.clone()).map_err(|e| Fail::new("bad-replay", e.to_string()))?;
        check_mask(&c, &mut obs)
    }
}
